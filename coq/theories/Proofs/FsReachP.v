(* C03 — the part of a file system that lies inside a directory D, well-formedness of that part,
   and the step relation every system call of the receiver is shown to satisfy (FsFrameP.v). *)
From Coq Require Import List Arith NArith Bool Lia ZifyN ZifyNat ZifyBool.
From FS Require Import Sx Model.Path Model.Fs Proofs.Lex Proofs.PathP Proofs.FsP.
Import ListNotations.
Open Scope N_scope.
Open Scope bool_scope.

Section Inside.
Variable D : N.

(* D itself and everything reachable from it through directory entries *)
Inductive reach (f : fs) : N -> Prop :=
| reach_refl : reach f D
| reach_step : forall j n i, reach f j -> In (n, i) (ents f j) -> reach f i.

Lemma rwalk_reach f : forall cs j i, reach f j -> rwalk f j cs = Some i -> reach f i.
Proof.
  induction cs as [|c cs IH]; intros j i Hj H; simpl in H.
  - inversion H; subst; auto.
  - destruct (dir_of f j) as [[p es]|] eqn:Ed; [|discriminate].
    destruct (blookup c es) as [k|] eqn:Eb; [|discriminate].
    apply (IH k i); auto. apply (reach_step f j c k); auto.
    rewrite (dir_of_ents _ _ _ _ Ed). apply blookup_In. exact Eb.
Qed.

Definition okname (n : bytes) : Prop := normal n /\ nosep n.

Record wf (f : fs) : Prop := {
  wf_alloc : forall i, f_next f <= i -> get f i = None;
  wf_dir : is_dir f D = true;
  wf_names : forall j, reach f j -> NoDup (map fst (ents f j)) /\ Forall okname (map fst (ents f j));
  wf_target : forall j n i, reach f j -> In (n, i) (ents f j) -> i < f_next f;
  wf_notD : forall j n, reach f j -> ~ In (n, D) (ents f j);
  wf_single : forall j1 j2 n1 n2 i, reach f j1 -> reach f j2 -> In (n1, i) (ents f j1) -> In (n2, i) (ents f j2) ->
                is_dir f i = true -> j1 = j2 /\ n1 = n2
}.

Lemma wf_blookup f j n i : wf f -> reach f j -> (In (n, i) (ents f j) <-> blookup n (ents f j) = Some i).
Proof.
  intros W Hj. split; [|apply blookup_In].
  apply In_blookup_nodup. apply (wf_names f W j Hj).
Qed.

Lemma reach_lt f i : wf f -> reach f i -> i < f_next f.
Proof.
  intros W H. destruct H as [|j n i Hj Hin].
  - destruct (N.lt_ge_cases D (f_next f)) as [|Hge]; auto.
    pose proof (wf_alloc f W D Hge) as Hg. pose proof (wf_dir f W) as Hd.
    unfold is_dir, dir_of in Hd. rewrite Hg in Hd. discriminate.
  - apply (wf_target f W j n i); auto.
Qed.

(* a directory inside D has one path only *)
Lemma rwalk_unique f : wf f -> forall cs1 cs2 i,
  rwalk f D cs1 = Some i -> rwalk f D cs2 = Some i -> is_dir f i = true -> cs1 = cs2.
Proof.
  intros W cs1. induction cs1 as [|c1 a1 IH] using rev_ind; intros cs2 i H1 H2 Hd.
  - simpl in H1. inversion H1; subst i.
    destruct cs2 as [|c2 a2 _] using rev_ind; auto.
    apply rwalk_snoc in H2. destruct H2 as (d & Hd2 & Hb & _).
    exfalso. apply (wf_notD f W d c2); [apply (rwalk_reach f a2 D d); [constructor|auto]|].
    apply blookup_In; auto.
  - apply rwalk_snoc in H1. destruct H1 as (d1 & Hw1 & Hb1 & Hdd1).
    destruct cs2 as [|c2 a2 _] using rev_ind.
    + simpl in H2. inversion H2; subst i. exfalso.
      apply (wf_notD f W d1 c1); [apply (rwalk_reach f a1 D d1); [constructor|auto]|].
      apply blookup_In; auto.
    + apply rwalk_snoc in H2. destruct H2 as (d2 & Hw2 & Hb2 & Hdd2).
      assert (Hr1 : reach f d1) by (apply (rwalk_reach f a1 D d1); [constructor|auto]).
      assert (Hr2 : reach f d2) by (apply (rwalk_reach f a2 D d2); [constructor|auto]).
      destruct (wf_single f W d1 d2 c1 c2 i Hr1 Hr2 (blookup_In _ _ _ Hb1) (blookup_In _ _ _ Hb2) Hd) as [E1 E2].
      subst d2 c2. rewrite (IH a2 d1 Hw1 Hw2 Hdd1). reflexivity.
Qed.

(* ---------------- the step relation ----------------
   [T d n]: the directory entries (directory inode, name) the step may add, redirect or remove. *)
Definition same_meta_but_mtime (m m' : meta) : Prop :=
  m_mode m' = m_mode m /\ m_uid m' = m_uid m /\ m_gid m' = m_gid m /\ m_xattrs m' = m_xattrs m.

Definition dir_kept (f f' : fs) : Prop :=
  exists p es es' m m', get f D = Some {| i_kind := KDir p es; i_meta := m |}
                        /\ get f' D = Some {| i_kind := KDir p es'; i_meta := m' |}
                        /\ same_meta_but_mtime m m'.

(* [b]: allocation boundary of the whole operation the step is part of: inode numbers >= b are
   the ones the operation itself created *)
Record step (T : N -> bytes -> Prop) (b : N) (f f' : fs) : Prop := {
  st_base : b <= f_next f;
  st_next : f_next f <= f_next f';
  st_frame : forall i, ~ reach f i -> i < b -> get f' i = get f i;
  (* of the inodes that existed before the operation only directories are ever written *)
  st_nd : forall i, i < b -> is_dir f i = false -> get f' i = get f i;
  st_enter : forall i, reach f' i -> reach f i \/ b <= i;
  st_tag : forall i, i < f_next f -> itag (get f' i) = itag (get f i);
  st_dent : forall j n, j < f_next f -> ~ T j n -> blookup n (ents f' j) = blookup n (ents f j);
  (* inodes made by the step have no entries (other than what T allows) *)
  st_fresh : forall j n, f_next f <= j -> ~ T j n -> blookup n (ents f' j) = None;
  st_D : dir_kept f f';
  st_wf : wf f'
}.

Lemma same_meta_refl m : same_meta_but_mtime m m.
Proof. repeat split. Qed.
Lemma same_meta_trans a b c : same_meta_but_mtime a b -> same_meta_but_mtime b c -> same_meta_but_mtime a c.
Proof. intros (A1 & A2 & A3 & A4) (B1 & B2 & B3 & B4). repeat split; congruence. Qed.

Lemma dir_kept_refl f : wf f -> dir_kept f f.
Proof.
  intros W. pose proof (wf_dir f W) as H. unfold is_dir, dir_of in H.
  destruct (get f D) as [[k m]|] eqn:E; [|discriminate]. destruct k; try discriminate.
  exists parent, ents, ents, m, m. repeat split; auto.
Qed.

Lemma dir_kept_trans a b c : dir_kept a b -> dir_kept b c -> dir_kept a c.
Proof.
  intros (p & es & es' & m & m' & H1 & H2 & H3) (p2 & es2 & es2' & m2 & m2' & G1 & G2 & G3).
  rewrite H2 in G1. inversion G1; subst.
  exists p2, es, es2', m, m2'. repeat split; auto.
  - destruct H3 as (?&?&?&?), G3 as (?&?&?&?). congruence.
  - destruct H3 as (?&?&?&?), G3 as (?&?&?&?). congruence.
  - destruct H3 as (?&?&?&?), G3 as (?&?&?&?). congruence.
  - destruct H3 as (?&?&?&?), G3 as (?&?&?&?). congruence.
Qed.

Lemma ents_beyond f j : wf f -> f_next f <= j -> ents f j = [].
Proof. intros W H. unfold ents, dir_of. rewrite (wf_alloc f W j H). reflexivity. Qed.

Lemma step_refl T b f : wf f -> b <= f_next f -> step T b f f.
Proof.
  intros W Hb. constructor; auto; try lia.
  - intros j n Hj _. rewrite (ents_beyond f j W Hj). reflexivity.
  - apply dir_kept_refl; auto.
Qed.

Lemma step_trans T b f1 f2 f3 : step T b f1 f2 -> step T b f2 f3 -> step T b f1 f3.
Proof.
  intros A B. constructor.
  - apply A.
  - pose proof (st_next _ _ _ _ A). pose proof (st_next _ _ _ _ B). lia.
  - intros i Hn Hl. rewrite (st_frame _ _ _ _ B), (st_frame _ _ _ _ A); auto.
    intro Hr. destruct (st_enter _ _ _ _ A i Hr); [auto|lia].
  - intros i Hl Hd. rewrite (st_nd _ _ _ _ B), (st_nd _ _ _ _ A); auto.
    assert (Hl1 : i < f_next f1) by (pose proof (st_base _ _ _ _ A); lia).
    pose proof (st_tag _ _ _ _ A i Hl1) as Ht.
    destruct (is_dir f2 i) eqn:E2; auto. exfalso.
    apply is_dir_dir_of in E2. destruct E2 as (p & es & E2). apply dir_of_tag in E2.
    rewrite Ht in E2. apply tag_dir_of in E2. destruct E2 as (p' & es' & E2).
    unfold is_dir in Hd. rewrite E2 in Hd. discriminate.
  - intros i Hr. destruct (st_enter _ _ _ _ B i Hr) as [H|H]; auto.
    destruct (st_enter _ _ _ _ A i H); auto.
  - intros i Hl. rewrite (st_tag _ _ _ _ B), (st_tag _ _ _ _ A); auto.
    pose proof (st_next _ _ _ _ A). lia.
  - intros j n Hl HT. rewrite (st_dent _ _ _ _ B), (st_dent _ _ _ _ A); auto.
    pose proof (st_next _ _ _ _ A). lia.
  - intros j n Hl HT. destruct (N.lt_ge_cases j (f_next f2)) as [Hlt|Hge].
    + rewrite (st_dent _ _ _ _ B j n Hlt HT). apply (st_fresh _ _ _ _ A j n Hl HT).
    + apply (st_fresh _ _ _ _ B j n Hge HT).
  - eapply dir_kept_trans; [apply (st_D _ _ _ _ A)|apply (st_D _ _ _ _ B)].
  - apply (st_wf _ _ _ _ B).
Qed.

Lemma step_weaken (T T' : N -> bytes -> Prop) b f f' : (forall d n, T d n -> T' d n) -> step T b f f' -> step T' b f f'.
Proof.
  intros H A. constructor; try apply A.
  - intros j n Hl HT. apply (st_dent _ _ _ _ A); auto.
  - intros j n Hl HT. apply (st_fresh _ _ _ _ A); auto.
Qed.

(* a later operation: the boundary moves up to the current allocation counter *)
Lemma step_rebase T b b' f f' : step T b f f' -> b' <= b -> step T b' f f'.
Proof.
  intros A Hb. constructor; try apply A.
  - pose proof (st_base _ _ _ _ A). lia.
  - intros i Hn Hl. apply (st_frame _ _ _ _ A); auto. lia.
  - intros i Hl Hd. apply (st_nd _ _ _ _ A); auto. lia.
  - intros i Hr. destruct (st_enter _ _ _ _ A i Hr); auto. right. lia.
Qed.

(* ---------------- safety of a path is kept by a step that does not touch it ---------------- *)
(* [cs] walked from [j] never uses an entry of T *)
Fixpoint avoids (T : N -> bytes -> Prop) (f : fs) (j : N) (cs : list bytes) : Prop :=
  match cs with
  | [] => True
  | c :: r => ~ T j c /\ match blookup c (ents f j) with Some i => avoids T f i r | None => True end
  end.

Lemma is_link_step T b f f' i : step T b f f' -> i < f_next f -> is_link f' i = is_link f i.
Proof.
  intros A Hl. pose proof (st_tag _ _ _ _ A i Hl) as Ht.
  destruct (is_link f' i) eqn:E1, (is_link f i) eqn:E2; auto.
  - apply is_link_tag in E1. rewrite Ht in E1. apply is_link_tag in E1. congruence.
  - apply is_link_tag in E2. rewrite <- Ht in E2. apply is_link_tag in E2. congruence.
Qed.

Lemma is_dir_step T b f f' i : step T b f f' -> i < f_next f -> is_dir f' i = is_dir f i.
Proof.
  intros A Hl. pose proof (st_tag _ _ _ _ A i Hl) as Ht.
  destruct (is_dir f' i) eqn:E1, (is_dir f i) eqn:E2; auto.
  - apply is_dir_dir_of in E1. destruct E1 as (p & es & E1). apply dir_of_tag in E1.
    rewrite Ht in E1. apply tag_dir_of in E1. destruct E1 as (p' & es' & E1).
    unfold is_dir in E2. rewrite E1 in E2. discriminate.
  - apply is_dir_dir_of in E2. destruct E2 as (p & es & E2). apply dir_of_tag in E2.
    rewrite <- Ht in E2. apply tag_dir_of in E2. destruct E2 as (p' & es' & E2).
    unfold is_dir in E1. rewrite E2 in E1. discriminate.
Qed.

Lemma ents_nil_not_dir f j : is_dir f j = false -> ents f j = [].
Proof. unfold is_dir, ents. destruct (dir_of f j) as [[p es]|]; [discriminate|reflexivity]. Qed.

Lemma safe_unfold f j c r :
  safe f j (c :: r) <-> match blookup c (ents f j) with Some i => is_link f i = false /\ safe f i r | None => True end.
Proof.
  simpl. unfold ents. destruct (dir_of f j) as [[p es]|]; simpl; tauto.
Qed.

Lemma rwalk_unfold f j c r :
  rwalk f j (c :: r) = match blookup c (ents f j) with Some i => rwalk f i r | None => None end.
Proof.
  simpl. unfold ents. destruct (dir_of f j) as [[p es]|]; simpl; reflexivity.
Qed.

Lemma safe_step T b f f' : wf f -> step T b f f' -> forall cs j, reach f j ->
  avoids T f j cs -> safe f j cs -> safe f' j cs.
Proof.
  intros W A. induction cs as [|c r IH]; intros j Hj Hav Hs; [exact I|].
  apply safe_unfold. apply safe_unfold in Hs. destruct Hav as [HT Hav].
  rewrite (st_dent _ _ _ _ A j c (reach_lt f j W Hj) HT).
  destruct (blookup c (ents f j)) as [i|] eqn:Eb; auto.
  assert (Hi : reach f i) by (apply (reach_step f j c i); auto; apply blookup_In; auto).
  destruct Hs as [Hl Hs]. split.
  - rewrite (is_link_step T b f f' i A (reach_lt f i W Hi)). exact Hl.
  - apply IH; auto.
Qed.

Lemma rwalk_step T b f f' : wf f -> step T b f f' -> forall cs j, reach f j ->
  avoids T f j cs -> rwalk f' j cs = rwalk f j cs.
Proof.
  intros W A. induction cs as [|c r IH]; intros j Hj Hav; [reflexivity|].
  rewrite !rwalk_unfold. destruct Hav as [HT Hav].
  rewrite (st_dent _ _ _ _ A j c (reach_lt f j W Hj) HT).
  destruct (blookup c (ents f j)) as [i|] eqn:Eb; auto.
  apply IH; auto. apply (reach_step f j c i); auto. apply blookup_In; auto.
Qed.

(* a path that does not run through the entry (dd, n), dd = the directory at [pre] *)
Lemma avoids_by_path (T : N -> bytes -> Prop) f : wf f -> forall pre,
  (forall d n, T d n -> rwalk f D pre = Some d /\ is_dir f d = true) ->
  forall cs, (forall k n, T (match rwalk f D pre with Some d => d | None => 0 end) n ->
                    firstn k cs = pre -> nth_error cs k <> Some n) ->
  avoids T f D cs.
Proof.
  intros W pre HT cs Hcs.
  assert (G : forall r a j, cs = a ++ r -> rwalk f D a = Some j -> avoids T f j r).
  { induction r as [|c r IH]; intros a j E Hw; [exact I|]. split.
    - intro Ht. destruct (HT j c Ht) as [Hp Hd].
      assert (Ea : a = pre) by (apply (rwalk_unique f W a pre j); auto).
      apply (Hcs (length a) c).
      + rewrite Hp. exact Ht.
      + rewrite E. rewrite firstn_app, firstn_all, Nat.sub_diag. simpl. rewrite app_nil_r. exact Ea.
      + rewrite E. rewrite nth_error_app2 by lia. rewrite Nat.sub_diag. reflexivity.
    - destruct (blookup c (ents f j)) as [i|] eqn:Eb; auto.
      apply (IH (a ++ [c]) i).
      + rewrite <- app_assoc. exact E.
      + apply rwalk_snoc. exists j. repeat split; auto.
        unfold is_dir, ents in *. destruct (dir_of f j) as [[p es]|]; auto. discriminate. }
  apply (G cs [] D); auto.
Qed.


(* ---------------- steps that touch no directory entry at all ---------------- *)
Definition TNone : N -> bytes -> Prop := fun _ _ => False.

Lemma avoids_none f : forall cs j, avoids TNone f j cs.
Proof.
  induction cs as [|c r IH]; intros j; simpl; auto. split; [unfold TNone; tauto|].
  destruct (blookup c (ents f j)); auto.
Qed.

Lemma quiet_safe b f f' cs : wf f -> step TNone b f f' -> safe f D cs -> safe f' D cs.
Proof. intros W S H. apply (safe_step TNone b f f' W S cs D (reach_refl f) (avoids_none f cs D) H). Qed.

Lemma quiet_rwalk b f f' cs : wf f -> step TNone b f f' -> rwalk f' D cs = rwalk f D cs.
Proof. intros W S. apply (rwalk_step TNone b f f' W S cs D (reach_refl f) (avoids_none f cs D)). Qed.

(* a step that touches no entry leaves the inside as it is *)
Lemma quiet_reach b f f' j : wf f -> step TNone b f f' -> reach f' j -> reach f j.
Proof.
  intros W S R. induction R as [|j n i Rj IH Hin]; [constructor|].
  assert (Hb : blookup n (ents f' j) = Some i).
  { apply In_blookup_nodup; auto. apply (wf_names f' (st_wf _ _ _ _ S) j Rj). }
  rewrite (st_dent _ _ _ _ S j n (reach_lt f j W IH)) in Hb by (unfold TNone; tauto).
  apply (reach_step f j n i); auto. apply blookup_In. exact Hb.
Qed.

Lemma quiet_blookup b f f' j n : step TNone b f f' -> j < f_next f -> blookup n (ents f' j) = blookup n (ents f j).
Proof. intros S Hj. apply (st_dent _ _ _ _ S j n Hj). unfold TNone. tauto. Qed.

End Inside.
