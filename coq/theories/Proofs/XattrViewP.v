(* C01 — the predicted observation the harness compares the real destination with ([view_x]:
   AbsDest's map + directory mtimes + xattrs per INODE, Model/ConvergeA.v) satisfies the
   convergence relation: a directory created by the transfer has no old keys under the new ones,
   and every name of an inode created by the transfer carries the xattrs of the source's group. *)
From Coq Require Import List NArith Lia Bool Sorting.Sorted.
From FS Require Import Sx Model.Path Model.Stat Model.Diff Model.AbsDest Model.Converge Model.ConvergeA
  Proofs.Lex Proofs.PathP Proofs.DiffP Proofs.AbsDestP Proofs.ReceiveP Proofs.ApplyInoP Proofs.OracleP
  Proofs.ConvergeP Proofs.MergeP Proofs.DirTimesP.
Import ListNotations.
Open Scope N_scope.
Open Scope bool_scope.

Lemma efind_find_entry p (A : list AbsDest.entry) : efind p A = find_entry p A.
Proof.
  unfold efind. induction A as [|e A IH]; [reflexivity|]. simpl. rewrite bytes_eqb_sym.
  destruct (bytes_eqb p (st_path (fst e))); auto.
Qed.

Lemma xget_in X kv : In kv X -> xget (fst kv) X <> None.
Proof.
  unfold xget. induction X as [|y X IH]; [intros []|]. simpl. intros [->|Hin].
  - rewrite bytes_eqb_refl. discriminate.
  - destruct (bytes_eqb (fst y) (fst kv)); [discriminate|auto].
Qed.

Lemma xoverlay_same X : xoverlay X X = X.
Proof.
  unfold xoverlay.
  assert (Hf : forall Y, (forall kv, In kv Y -> In kv X) ->
             filter (fun kv => match xget (fst kv) X with Some _ => false | None => true end) Y = []).
  { induction Y as [|y Y IH]; intros Hy; [reflexivity|]. simpl.
    pose proof (xget_in X y (Hy y (or_introl eq_refl))) as Hn.
    destruct (xget (fst y) X); [|congruence]. apply IH. intros kv Hk. apply Hy. right; auto. }
  rewrite Hf; [apply app_nil_r|auto].
Qed.

Lemma xoverlay_nil X : xoverlay [] X = X.
Proof. unfold xoverlay. simpl. apply app_nil_r. Qed.

Lemma fold_overlay_const X (members : list obs) :
  (forall x, In x members -> o_xattrs x = X) ->
  fold_left (fun acc x => xoverlay acc (o_xattrs x)) members X = X.
Proof.
  induction members as [|m members IH]; intros Hm; [reflexivity|]. simpl.
  rewrite (Hm m (or_introl eq_refl)), xoverlay_same. apply IH. intros x Hx. apply Hm. right; auto.
Qed.

Lemma first_in (members : list obs) : forall m,
  In (fold_left (fun best x => if path_ltb (o_path x) (o_path best) then x else best) members m) (m :: members).
Proof.
  induction members as [|y members IH]; intros m; simpl; [auto|].
  destruct (path_ltb (o_path y) (o_path m)).
  - destruct (IH y) as [E|Hin]; [right; left; exact E|right; right; exact Hin].
  - destruct (IH m) as [E|Hin]; [left; exact E|right; right; exact Hin].
Qed.

Lemma group_xattrs_const pred m X :
  o_xattrs m = X ->
  (forall x, In x pred -> o_ino x = o_ino m -> o_xattrs x = X) ->
  group_xattrs pred m = X.
Proof.
  intros Hm Hall. unfold group_xattrs.
  set (members := filter (fun x => N.eqb (o_ino x) (o_ino m) && negb (N.eqb (o_type x) S_IFDIR)) pred).
  assert (Hmem : forall x, In x members -> o_xattrs x = X).
  { intros x Hx. apply filter_In in Hx. destruct Hx as [Hx Hc]. apply andb_true_iff in Hc. destruct Hc as [Hc _].
    apply N.eqb_eq in Hc. auto. }
  assert (Hfirst : o_xattrs (fold_left (fun best x => if path_ltb (o_path x) (o_path best) then x else best) members m) = X).
  { destruct (first_in members m) as [<-|Hin]; auto. }
  rewrite Hfirst. apply fold_overlay_const; auto.
Qed.

Lemma rex_path A pred m : o_path (rex A pred m) = o_path m.
Proof. unfold rex. destruct (N.eqb (o_type m) S_IFDIR); reflexivity. Qed.
Lemma rex_ino A pred m : o_ino (rex A pred m) = o_ino m.
Proof. unfold rex. destruct (N.eqb (o_type m) S_IFDIR); reflexivity. Qed.

Lemma find_obs_rex A pred p l : find_obs p (map (rex A pred) l) = option_map (rex A pred) (find_obs p l).
Proof.
  induction l as [|d l IH]; [reflexivity|]. simpl. rewrite rex_path. destruct (bytes_eqb p (o_path d)); auto.
Qed.

Lemma entry_ok_rex A pred created s c dd :
  entry_ok created s c dd ->
  (created = true -> unix_type_of_gomode (st_mode s) = S_IFREG \/ unix_type_of_gomode (st_mode s) = S_IFDIR ->
   o_xattrs (rex A pred dd) = st_xattrs s) ->
  entry_ok created s c (rex A pred dd).
Proof.
  intros (H1 & H2 & H3 & H4 & H5 & H6 & H7 & H8 & H9 & H10 & H11) Hx.
  unfold entry_ok. cbv zeta.
  assert (Hsame : forall f : obs -> N, (forall d x, f (with_xattrs d x) = f d) -> f (rex A pred dd) = f dd).
  { intros f Hf. unfold rex. destruct (N.eqb (o_type dd) S_IFDIR); apply Hf. }
  assert (Hsameb : forall f : obs -> bytes, (forall d x, f (with_xattrs d x) = f d) -> f (rex A pred dd) = f dd).
  { intros f Hf. unfold rex. destruct (N.eqb (o_type dd) S_IFDIR); apply Hf. }
  rewrite (Hsameb o_path), (Hsame o_type), (Hsame o_perm), (Hsame o_uid), (Hsame o_gid), (Hsame o_mtime),
    (Hsameb o_content), (Hsameb o_target), (Hsame o_major), (Hsame o_minor) by reflexivity.
  repeat (split; [assumption|]). exact Hx.
Qed.

Section XV.
Variable H : bytes -> bytes.
Variable hdr : stat -> bytes.
Variable now : N -> N.
Variable d : differ.
Variables A B : list AbsDest.entry.
Hypothesis HA : wf_entries A.
Hypothesis HB : wf_entries B.
Hypothesis Hfaith : AbsDest.identity_faithful d A B.

Theorem view_x_converges_proof :
  let s := receive_t now Fresh d A B in
  ts_err s = false /\ approx A B (view_x A s).
Proof.
  cbv zeta. destruct HA as [HwA HlA]. destruct HB as [HwB HlB].
  destruct (dir_mtimes_fresh_proof H hdr now d A B (conj HwA HlA) (conj HwB HlB) Hfaith) as (Herr & Emap & Happ).
  split; [exact Herr|].
  set (s := receive_t now Fresh d A B) in *. set (pred := view_t s) in *.
  destruct Happ as (Hp & He & Hl). unfold view_x. fold pred. split; [|split].
  - intros p. rewrite find_obs_rex. rewrite <- (Hp p).
    destruct (find_obs p pred); simpl; split; intros [x Hx]; eauto; discriminate.
  - intros st c Hin. destruct (He st c Hin) as (dd & Hd & Hok). exists (rex A pred dd).
    rewrite find_obs_rex, Hd. split; [reflexivity|]. apply entry_ok_rex; auto.
    intros Hcr Hty.
    (* the predicted entry, unfolded *)
    unfold pred, view_t in Hd. rewrite find_obs_retime, Emap, find_obs_view_of in Hd.
    destruct (alookup (st_path st) (ds_map (receive_abs H hdr Fresh d A B))) as [x|] eqn:Hx; [|discriminate].
    simpl in Hd. inversion Hd as [Edd]. clear Hd. rewrite Edd.
    destruct Hok as (Hpath & Hty' & _ & _ & _ & _ & _ & _ & _ & _ & Hxo).
    specialize (Hxo Hcr Hty).
    destruct Hty as [Hreg|Hdir].
    + (* regular file whose inode the transfer created *)
      assert (Hnd : N.eqb (o_type dd) S_IFDIR = false).
      { rewrite Hty', Hreg. reflexivity. }
      unfold rex. rewrite Hnd. simpl. apply group_xattrs_const; [exact Hxo|].
      intros x' Hx' Hino.
      unfold pred, view_t in Hx'. rewrite Emap in Hx'. apply in_map_iff in Hx'. destruct Hx' as (y & <- & Hy).
      apply in_map_iff in Hy. destruct Hy as ([q v] & <- & Hqv). simpl fst in *. simpl snd in *.
      assert (Exa : forall ov o, o_xattrs (retime ov o) = o_xattrs o).
      { intros ov o. unfold retime. destruct (N.eqb (o_type o) S_IFDIR); auto. destruct (alookup (o_path o) ov); auto. }
      rewrite Exa. simpl.
      apply (fresh_group_xattrs H hdr d A B HwA HwB HlA HlB Hfaith st c x Hin) with (q := q); auto.
      * unfold Converge.is_reg. rewrite Hreg. reflexivity.
      * rewrite retime_ino in Hino. rewrite <- Edd in Hino. rewrite retime_ino in Hino. simpl in Hino. exact Hino.
    + (* directory created by the transfer: nothing was there to keep keys from *)
      assert (Hd' : N.eqb (o_type dd) S_IFDIR = true).
      { rewrite Hty', Hdir. reflexivity. }
      unfold rex. rewrite Hd'. simpl. rewrite Hxo.
      assert (Hold : old_dir_xattrs A (o_path dd) = []).
      { rewrite Hpath. unfold old_dir_xattrs. rewrite efind_find_entry.
        unfold inode_created in Hcr. apply andb_true_iff in Hcr. destruct Hcr as [Hcr _].
        unfold created_by_transfer in Hcr.
        destruct (find_entry (st_path st) A) as [[ps pc]|]; [|reflexivity].
        apply negb_true_iff in Hcr. unfold same_type in Hcr. rewrite Hdir in Hcr.
        unfold st_is_dir. destruct (mode_is_dir (st_mode ps)) eqn:Em; [|reflexivity].
        apply unix_type_dir in Em. rewrite Em, N.eqb_refl in Hcr. discriminate. }
      rewrite Hold. apply xoverlay_nil.
  - intros e1 e2 d1 d2 H1 H2 R1 R2 F1 F2. rewrite find_obs_rex in F1, F2.
    destruct (find_obs (st_path (fst e1)) pred) as [x1|] eqn:X1; [|discriminate].
    destruct (find_obs (st_path (fst e2)) pred) as [x2|] eqn:X2; [|discriminate].
    simpl in F1, F2. inversion F1; inversion F2; subst. rewrite !rex_ino. eapply Hl; eauto.
Qed.

End XV.
