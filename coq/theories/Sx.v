(* Generic S-expression values exchanged between the Go harness, the extracted
   OCaml driver and the models.  All per-property decoding of cases is written in
   Gallina (Glue.v), so that the OCaml driver is generic and tiny. *)
From Coq Require Import List NArith Bool.
Import ListNotations.

(* notations, not definitions: a defined alias makes implicit arguments differ
   syntactically ([@app bytes] vs [@app (list N)]) and [rewrite] then fails to match *)
Notation byte := N (only parsing).
Notation bytes := (list N) (only parsing).

Inductive sx : Type :=
| SN (n : N)
| SB (b : bytes)
| SL (l : list sx).

Definition sx_N (s : sx) : option N := match s with SN n => Some n | _ => None end.
Definition sx_B (s : sx) : option bytes := match s with SB b => Some b | _ => None end.
Definition sx_L (s : sx) : option (list sx) := match s with SL l => Some l | _ => None end.
Definition sx_bool (s : sx) : option bool :=
  match s with SN n => Some (negb (N.eqb n 0)) | _ => None end.

Definition obind {A B} (o : option A) (f : A -> option B) : option B :=
  match o with Some a => f a | None => None end.
Notation "x <- o ;; k" := (obind o (fun x => k)) (at level 61, o at next level, right associativity).

Fixpoint omap {A B} (f : A -> option B) (l : list A) : option (list B) :=
  match l with
  | [] => Some []
  | a :: r => b <- f a ;; bs <- omap f r ;; Some (b :: bs)
  end.

Definition sx_list {A} (f : sx -> option A) (s : sx) : option (list A) :=
  l <- sx_L s ;; omap f l.

Definition of_bool (b : bool) : sx := SN (if b then 1%N else 0%N).
Definition of_optN (o : option N) : sx := match o with None => SL [] | Some n => SL [SN n] end.
Definition of_nat (n : nat) : sx := SN (N.of_nat n).
Definition of_optnat (o : option nat) : sx := of_optN (option_map N.of_nat o).
Definition of_cmp (c : comparison) : sx :=
  SN (match c with Lt => 0 | Eq => 1 | Gt => 2 end)%N.

Fixpoint bytes_eqb (a b : bytes) : bool :=
  match a, b with
  | [], [] => true
  | x :: a', y :: b' => N.eqb x y && bytes_eqb a' b'
  | _, _ => false
  end.

Fixpoint sx_eqb (a b : sx) {struct a} : bool :=
  match a, b with
  | SN x, SN y => N.eqb x y
  | SB x, SB y => bytes_eqb x y
  | SL x, SL y =>
      (fix go (x y : list sx) : bool :=
         match x, y with
         | [], [] => true
         | a' :: x', b' :: y' => sx_eqb a' b' && go x' y'
         | _, _ => false
         end) x y
  | _, _ => false
  end.

(* Verdicts returned by Glue.dispatch:
   (#0)                 model = implementation, specification holds on the implementation's output
   (#1 model)           model <> implementation, specification still holds on the implementation's output
   (#2 model info)      the specification is FALSE on what the implementation did (concrete failing input)
   (#3)                 case not understood (harness / glue bug) *)
Definition v_ok : sx := SL [SN 0].
Definition v_diff (m : sx) : sx := SL [SN 1; m].
Definition v_specfail (m info : sx) : sx := SL [SN 2; m; info].
Definition v_malformed : sx := SL [SN 3].

Definition verdict (model impl : sx) (spec_holds : bool) (info : sx) : sx :=
  if spec_holds then (if sx_eqb model impl then v_ok else v_diff model)
  else v_specfail model info.
