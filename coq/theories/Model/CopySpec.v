(* Specifications of the copier (C13, C15), written pointwise over VIEWS
   (path -> what is there), independently of the operational model in Copier.v:

   * [faithful_dent], [tree_iso]      the relation "the copy is the source" (C13)
   * [overlay_all]                    the overlay rules of C15 as a function computing, for
                                      every path, the entry that must be there after the call
                                      (or the error the call must report)
   * [expected_notifs]                the change notifications (C13)

   A view maps a path to (inode id, dent).  The expected view maps a path to an [xdent]:
   the dent, whether its mtime is specified, and a KEY describing the inode identity
   (same key <-> same inode). *)
From Coq Require Import List NArith Bool.
From FS Require Import Sx Model.Path Model.SymMode Model.Copier.
Import ListNotations.
Open Scope N_scope.
Open Scope bool_scope.

Definition view := list (list N) -> option (N * dent).

Definition view_of_fs (fs : fsys) : view :=
  fun p => match names fs p with Some i => Some (i, inodes fs i) | None => None end.

Fixpoint strip_prefix (a b : list (list N)) : option (list (list N)) :=
  match a, b with
  | [], _ => Some b
  | x :: a', y :: b' => if bytes_eqb x y then strip_prefix a' b' else None
  | _ :: _, [] => None
  end.

Fixpoint xattrs_eqb (a b : list (list N * list N)) : bool :=
  match a, b with
  | [], [] => true
  | (k1, v1) :: a', (k2, v2) :: b' => bytes_eqb k1 k2 && bytes_eqb v1 v2 && xattrs_eqb a' b'
  | _, _ => false
  end.

(* ------------------------------------------------------------------ C13: the copy is the source *)
Section Faithful.
  Variable o : copts.
  Variable ms : option (list bitcmd).

  Definition info_time (sd : dent) : N := match o_utime o with Some t => t | None => d_mtime sd end.

  (* type of the copy: a socket is copied as an empty regular file, everything else keeps its type *)
  Definition copy_type (sd : dent) : N := if is_sock sd then S_IFREG else ftype sd.

  (* [d] is a faithful copy of the source entry [sd] under the options: type, permission and
     special bits (requested mode; symlinks keep theirs), owner (requested or the source's),
     nanosecond mtime (requested or the source's), device number, symlink target verbatim,
     xattrs, bytes *)
  Definition faithful_dent (sd d : dent) : bool :=
    N.eqb (ftype d) (copy_type sd)
    && N.eqb (perm12 d) (if is_lnk sd then perm12 sd else info_mode o ms sd)
    && N.eqb (d_uid d) (fst (info_owner o sd)) && N.eqb (d_gid d) (snd (info_owner o sd))
    && N.eqb (d_mtime d) (info_time sd)
    && N.eqb (d_rdev d) (if is_dev sd then d_rdev sd else 0)
    && bytes_eqb (d_target d) (d_target sd)
    && xattrs_eqb (d_xattrs d) (d_xattrs sd)
    && bytes_eqb (d_content d) (if is_reg sd then d_content sd else []).

  (* a directory named by the call that was already there when the copy proper started (it
     existed, or the call made it as a parent directory) is merged into, not copied: only its
     type and timestamp are claimed.  [merged] says that the landing path is such a directory. *)
  Variable merged : bool.
  Definition faithful_top_merged (sd d : dent) : bool := is_dir d && N.eqb (d_mtime d) (info_time sd).

  (* one path below the landing path L *)
  Definition iso_at (sn : snode) (L : list (list N)) (V : view) (r : list (list N)) : bool :=
    match s_lookup sn r, V (L ++ r) with
    | Some s, Some (_, d) =>
      match r with
      | [] => if merged && is_dir (sdent s) then faithful_top_merged (sdent s) d else faithful_dent (sdent s) d
      | _ => faithful_dent (sdent s) d
      end
    | None, None => true
    | _, _ => false
    end.

  (* inode partition: two copied regular files share an inode iff their sources do *)
  Definition part_at (sn : snode) (L : list (list N)) (V : view) (r1 r2 : list (list N)) : bool :=
    match s_lookup sn r1, s_lookup sn r2, V (L ++ r1), V (L ++ r2) with
    | Some s1, Some s2, Some (i1, _), Some (i2, _) =>
      if is_reg (sdent s1) && is_reg (sdent s2) then Bool.eqb (N.eqb i1 i2) (N.eqb (sino s1) (sino s2)) else true
    | _, _, _, _ => true
    end.

  (* the explicit relation of C13: the tree below L in V is (a copy of) the source tree sn *)
  Definition tree_iso (sn : snode) (L : list (list N)) (V : view) : Prop :=
    (forall r, iso_at sn L V r = true) /\ (forall r1 r2, part_at sn L V r1 r2 = true).

  (* its executable form over a finite set of relative paths (the glue passes every relative
     path of the source and every path present in the snapshot) *)
  Definition tree_iso_b (sn : snode) (L : list (list N)) (V : view) (rs : list (list (list N))) : bool :=
    forallb (iso_at sn L V) rs && forallb (fun r1 => forallb (part_at sn L V r1) rs) rs.
End Faithful.

(* ------------------------------------------------------------------ C15: overlay rules *)
Inductive ikey := KDst (i : N) | KNew (p : list (list N)) | KSrc (i : N).

Record xdent := {
  x_d : dent;
  x_known : bool;    (* the mtime is specified (otherwise: "some time during the call") *)
  x_key : ikey;
  x_mk : bool        (* directory created above the target by this call *)
}.
Definition xview := list (list N) -> option xdent.

Definition xview_of (V : view) : xview :=
  fun p => match V p with
           | Some (i, d) => Some {| x_d := d; x_known := true; x_key := KDst i; x_mk := false |}
           | None => None
           end.

Definition x_isdir (x : option xdent) : bool := match x with Some e => is_dir (x_d e) | None => false end.
Definition x_exists (x : option xdent) : bool := match x with Some _ => true | None => false end.

Definition xupd (p : list (list N)) (v : option xdent) (V : xview) : xview :=
  fun q => if path_eqb q p then v else V q.

(* expected errors: class as reported by the harness, and for conflicts the obstacle *)
Inductive xerr :=
| XConflict (cls : N) (obstacle : list (list N)) (before : option xdent)
| XOther (cls : N)
| XScope.

(* ------------------------------------------------------------------ notifications *)
(* copying source node n to path p: every non-directory is notified once, after it was
   written, with its destination path; a directory is notified (before its contents) when
   the copy created it or met it below the path named by the call *)
Fixpoint node_notifs (V : xview) (top : bool) (p : list (list N)) (n : snode) {struct n} : list (list (list N) * bool) :=
  match n with
  | SNode _ _ sd kids =>
    if is_dir sd then
      (if top && x_isdir (V p) then [] else [(p, true)]) ++
      (fix go (l : list snode) : list (list (list N) * bool) :=
         match l with [] => [] | k :: r => node_notifs V false (p ++ [sname k]) k ++ go r end) kids
    else [(p, false)]
  end.

(* what a successful call must leave: the expected view, the notifications in order, the
   landing path of every source, and a superset of the paths the call may bind *)
Record xres := { xr_view : xview; xr_notifs : list (list (list N) * bool);
                 xr_landings : list (list (list N)); xr_merged : list bool; xr_paths : list (list (list N)) }.

Fixpoint s_paths (p : list (list N)) (n : snode) {struct n} : list (list (list N)) :=
  match n with
  | SNode _ _ _ kids =>
    p :: (fix go (l : list snode) : list (list (list N)) :=
            match l with [] => [] | k :: r => s_paths (p ++ [sname k]) k ++ go r end) kids
  end.

Fixpoint prefixes (pre rest : list (list N)) : list (list (list N)) :=
  pre :: match rest with [] => [] | c :: r => prefixes (pre ++ [c]) r end.

Section Overlay.
  Variable o : copts.
  Variable ms : option (list bitcmd).
  Variable multi : N -> bool.

  (* a directory whose entries change gets a new mtime; directories this call created above the
     target are re-stamped with the requested time at the end *)
  Definition touch (p : list (list N)) (V : xview) : xview :=
    match V p with
    | Some e =>
      if x_mk e && (match o_utime o with Some _ => true | None => false end) then V
      else xupd p (Some {| x_d := x_d e; x_known := false; x_key := x_key e; x_mk := x_mk e |}) V
    | None => V
    end.

  (* a directory created above the target: default (or requested) permission bits under the
     umask, requested owner and time; group and set-group-ID bit inherited from a
     set-group-ID parent *)
  Definition made_dir (p : list (list N)) (par : dent) : xdent :=
    let perm := match o_mode o with Some m => m | None => 493 end in
    let m := andnot (N.land perm 511) (o_umask o) in
    let m' := if has_sgid par then N.lor m S_ISGID else m in
    let '(u, g) := match o_chown o with Some ug => ug | None => (0, if has_sgid par then d_gid par else 0) end in
    {| x_d := {| d_mode := N.lor S_IFDIR m'; d_uid := u; d_gid := g;
                 d_mtime := match o_utime o with Some t => t | None => NOW end; d_rdev := 0; d_target := [];
                 d_xattrs := []; d_content := [] |};
       x_known := match o_utime o with Some _ => true | None => false end;
       x_key := KNew p; x_mk := true |}.

  (* all prefixes of q must be (or become) directories *)
  Fixpoint make_dirs (pre : list (list N)) (rest : list (list N)) (V : xview) : xview + xerr :=
    match V pre with
    | None => inr (XOther 4)     (* cannot happen: pre was made by the previous step *)
    | Some e =>
      if negb (is_dir (x_d e)) then inr (if is_lnk (x_d e) then XScope else XOther 4) else
      match rest with
      | [] => inl V
      | c :: rest' =>
        let nxt := pre ++ [c] in
        match V nxt with
        | Some _ => make_dirs nxt rest' V
        | None => make_dirs nxt rest' (xupd nxt (Some (made_dir nxt (x_d e))) (touch pre V))
        end
      end
    end.

  (* lexical resolution of an argument below the root; passing through a non-directory is an error *)
  Definition spec_resolve (V : xview) (p : list N) : list (list N) + xerr :=
    fold_left (fun (acc : list (list N) + xerr) c =>
      match acc with
      | inr e => inr e
      | inl stk =>
        let stk' := lex_step stk c in
        match stk' with
        | [] => inl stk'
        | _ => match V (parent stk') with
               | Some pe => if is_dir (x_d pe) then
                              (if (match V stk' with Some e => is_lnk (x_d e) | None => false end) then inr XScope else inl stk')
                            else inr (if is_lnk (x_d pe) then XScope else XOther 4)
               | None => inl stk'
               end
        end
      end) (comps p) (inl []).

  (* the entry a copied source entry becomes *)
  Definition new_entry (s : snode) (p : list (list N)) : xdent :=
    let sd := sdent s in
    {| x_d := {| d_mode := N.lor (copy_type sd) (if is_lnk sd then perm12 sd else info_mode o ms sd);
                 d_uid := fst (info_owner o sd); d_gid := snd (info_owner o sd);
                 d_mtime := info_time o sd; d_rdev := if is_dev sd then d_rdev sd else 0;
                 d_target := d_target sd; d_xattrs := d_xattrs sd;
                 d_content := if is_reg sd then d_content sd else [] |};
       x_known := true;
       x_key := if is_reg sd && multi (sino s) then KSrc (sino s) else KNew p;
       x_mk := false |}.

  Definition merge_xattrs (src dst : list (list N * list N)) : list (list N * list N) :=
    fold_left (fun l kv => xattr_set (fst kv) (snd kv) l) src dst.

  (* a source entry meeting what is at its destination path *)
  Definition copied (s : snode) (old : option xdent) (top : bool) (p : list (list N)) : xdent :=
    let sd := sdent s in
    match old with
    | Some e =>
      if is_dir sd && is_dir (x_d e) then
        (* directories merge: the directory named by the call keeps its metadata (its timestamp is
           set from the source); a directory met below it takes the source's metadata *)
        let d := x_d e in
        if top then {| x_d := set_mtime (info_time o sd) d; x_known := true; x_key := x_key e; x_mk := x_mk e |}
        else {| x_d := set_xattrs (merge_xattrs (d_xattrs sd) (d_xattrs d))
                         (set_mtime (info_time o sd)
                            (set_perm (info_mode o ms sd) (set_owner (fst (info_owner o sd)) (snd (info_owner o sd)) d)));
                x_known := true; x_key := x_key e; x_mk := x_mk e |}
      else new_entry s p
    | None => new_entry s p
    end.

  (* a destination path below a source NON-directory disappears with the directory it was in *)
  Fixpoint shadowed (sn : snode) (r : list (list N)) : bool :=
    match r with
    | [] => false
    | a :: r' =>
      if negb (is_dir (sdent sn)) then true
      else match find_kid a (skids sn) with Some k => shadowed k r' | None => false end
    end.

  Definition overlay_at (sn : snode) (L : list (list N)) (V : xview) (p : list (list N)) : option xdent :=
    match strip_prefix L p with
    | None => V p                                  (* unrelated entries stay *)
    | Some r =>
      match s_lookup sn r with
      | Some s => Some (copied s (V p) (match r with [] => true | _ => false end) p)
      | None => if shadowed sn r then None else V p
      end
    end.

  (* first directory / non-directory clash in copy order *)
  Fixpoint first_conflict (V : xview) (p : list (list N)) (n : snode) {struct n} : option xerr :=
    match n with
    | SNode _ _ sd kids =>
      match V p with
      | None => None           (* nothing there: nothing below either *)
      | Some e =>
        if is_dir sd && negb (is_dir (x_d e)) then Some (XConflict 1 p (Some e))
        else if negb (is_dir sd) && is_dir (x_d e) then Some (XConflict 2 p (Some e))
        else if is_dir sd then
          (fix go (l : list snode) : option xerr :=
             match l with
             | [] => None
             | k :: r => match first_conflict V (p ++ [sname k]) k with Some c => Some c | None => go r end
             end) kids
        else None
      end
    end.

  (* where a source lands: a directory lands inside an existing destination under its own name
     unless dir-contents mode is on; a non-directory lands inside an existing directory *)
  Definition landing (sn : snode) (src : list N) (D : list (list N)) (V : xview) : list (list N) :=
    let sdir := is_dir (sdent sn) in
    if (negb (o_dircontents o) && sdir && x_exists (V D)) || (negb sdir && x_isdir (V D))
    then (match rev (rooted src) with [] => D | b :: _ => D ++ [b] end) else D.

  Definition overlay_one (sn : snode) (src dst : list N) (V : xview) : xres + xerr :=
    match spec_resolve V (clean dst) with
    | inr e => inr e
    | inl D =>
      let L := landing sn src D V in
      let target := if o_dircontents o && is_dir (sdent sn) && negb (x_exists (V D)) then L else parent L in
      match make_dirs [] target V with
      | inr e => inr e
      | inl V1 =>
        match (if o_replace o then None else first_conflict V1 L sn) with
        | Some c => inr c
        | None =>
          let V2 := overlay_at sn L V1 in
          inl {| xr_view := match L with
                            | [] => V2
                            | _ => if is_dir (sdent sn) && x_isdir (V1 L) then V2 else touch (parent L) V2
                            end;
                 xr_notifs := node_notifs V1 true L sn;
                 xr_landings := [L]; xr_merged := [is_dir (sdent sn) && x_isdir (V1 L)];
                 xr_paths := prefixes [] target ++ s_paths L sn |}
        end
      end
    end.
End Overlay.

Section OverlayAll.
  Variable o : copts.
  Variable sroot : snode.

  Fixpoint overlay_srcs (ms : option (list bitcmd)) (D : list N) (srcs : list (list N)) (V : xview)
    : xres + xerr :=
    match srcs with
    | [] => inl {| xr_view := V; xr_notifs := []; xr_landings := []; xr_merged := []; xr_paths := [] |}
    | s :: r =>
      match s_resolve sroot (rooted s) with
      | inr EScope => inr XScope
      | inr _ => inr (XOther 4)
      | inl sn =>
        match overlay_one o ms (multi_of sroot) sn s D V with
        | inr e => inr e
        | inl r1 =>
          match overlay_srcs ms D r (xr_view r1) with
          | inr e => inr e
          | inl r2 => inl {| xr_view := xr_view r2; xr_notifs := xr_notifs r1 ++ xr_notifs r2;
                             xr_landings := xr_landings r1 ++ xr_landings r2;
                             xr_merged := xr_merged r1 ++ xr_merged r2;
                             xr_paths := xr_paths r1 ++ xr_paths r2 |}
          end
        end
      end
    end.

  Definition ensure_arg (dst : list N) : list N :=
    match split_last dst with
    | Some (d, f) => if nonempty f && negb (bytes_eqb f s_dot) && negb (bytes_eqb f s_dotdot) then d else dst
    | None => if nonempty dst && negb (bytes_eqb dst s_dot) && negb (bytes_eqb dst s_dotdot) then [] else dst
    end.

  (* the overlay of the source(s) over the destination view V0, or the error the call must report *)
  Definition overlay_all (V0 : view) (src dst : list N) : xres + xerr :=
    let X0 := xview_of V0 in
    match (match ensure_arg dst with
           | [] => inl (X0, [])
           | e => match spec_resolve X0 e with
                  | inr x => inr x
                  | inl ep => match make_dirs o [] ep X0 with inr x => inr x | inl X => inl (X, prefixes [] ep) end
                  end
           end) with
    | inr e => inr e
    | inl (X1, eps) =>
      match (match o_modestr o with [] => Some None | s => option_map Some (parse_mode s) end) with
      | None => inr (XOther 4)
      | Some ms =>
        match (if o_wild o then resolve_wild sroot src else inl [src]) with
        | inr EScope => inr XScope
        | inr _ => inr (XOther 4)
        | inl [] => inr (XOther 3)
        | inl srcs =>
          match overlay_srcs ms dst srcs X1 with
          | inr e => inr e
          | inl r => inl {| xr_view := xr_view r; xr_notifs := xr_notifs r; xr_landings := xr_landings r; xr_merged := xr_merged r;
                            xr_paths := eps ++ xr_paths r |}
          end
        end
      end
    end.
End OverlayAll.

(* ---- large files: a SPARSE description of a file's bytes (for the correspondence) ----
   d_content is a list of bytes of any length; a test file of several GiB is described by its size
   and a few marker strings (the earlier marker wins where two overlap), zero elsewhere.
   [sp_read] = the bytes a reader sees in a window; the copy of the file has the same size and
   the same bytes in every window. *)
Fixpoint sp_byte (marks : list (N * list N)) (off : N) : N :=
  match marks with
  | [] => 0
  | (o, b) :: r => if (o <=? off) && (off <? o + N.of_nat (length b)) then nth (N.to_nat (off - o)) b 0
                   else sp_byte r off
  end.
Fixpoint sp_read (marks : list (N * list N)) (size off : N) (len : nat) : list N :=
  match len with
  | O => []
  | S l => if off <? size then sp_byte marks off :: sp_read marks size (off + 1) l else []
  end.

(* two landing paths collide when one is a prefix of the other; [apart]: they do not *)
Definition apart (L1 L2 : list (list N)) : Prop :=
  (forall r, L2 <> L1 ++ r) /\ (forall r, L1 <> L2 ++ r).
Definition apart_b (L1 L2 : list (list N)) : bool := negb (is_prefix L1 L2) && negb (is_prefix L2 L1).

(* ---- comparing a view with an expected view ---- *)
Definition dent_match (d : dent) (e : xdent) : bool :=
  let x := x_d e in
  N.eqb (d_mode d) (d_mode x) && N.eqb (d_uid d) (d_uid x) && N.eqb (d_gid d) (d_gid x)
  && (negb (x_known e) || N.eqb (d_mtime d) (d_mtime x))
  && N.eqb (d_rdev d) (d_rdev x) && bytes_eqb (d_target d) (d_target x)
  && xattrs_eqb (d_xattrs d) (d_xattrs x) && bytes_eqb (d_content d) (d_content x).

Definition match_at (V : view) (X : xview) (p : list (list N)) : bool :=
  match V p, X p with
  | Some (_, d), Some e => dent_match d e
  | None, None => true
  | _, _ => false
  end.

Definition ikey_eqb (a b : ikey) : bool :=
  match a, b with
  | KDst i, KDst j => N.eqb i j
  | KNew p, KNew q => path_eqb p q
  | KSrc i, KSrc j => N.eqb i j
  | _, _ => false
  end.

(* same inode <-> same key (for non-directories) *)
Definition keys_at (V : view) (X : xview) (p q : list (list N)) : bool :=
  match V p, V q, X p, X q with
  | Some (i, d1), Some (j, d2), Some e1, Some e2 =>
    if is_dir d1 || is_dir d2 then true else Bool.eqb (N.eqb i j) (ikey_eqb (x_key e1) (x_key e2))
  | _, _, _, _ => true
  end.

(* the view V is the expected view X *)
Definition view_matches (V : view) (X : xview) : Prop :=
  (forall p, match_at V X p = true) /\ (forall p q, keys_at V X p q = true).
Definition view_matches_b (V : view) (X : xview) (ps : list (list (list N))) : bool :=
  forallb (match_at V X) ps && forallb (fun p => forallb (keys_at V X p) ps) ps.

