(* C14 — syscall-level model of the copier's write path (/repo/copy, Linux build, incl. the fixes
   796fe1f / 92eb743, forgetLinkSources (the hard-link map drops the paths at or below a destination
   entry the copier is about to remove or replace), ENOTDIR tolerated at the target Lstat of
   copier.copy, ".." in Copy's ensureDstPath test, stillBelow in fixCreatedParentDirs) as sequences of Model/Fs.v syscalls issued by a process with
   context [c] (real root and working directory; srcRoot / dstRoot are ordinary path strings).

   Go                                         here
   ------------------------------------------ ---------------------------------------------
   Copy                                       copy_top (argument resolution, loop over sources,
                                              deferred fixCreatedParentDirs)
   copy.rootPath / fs.RootPath                Model/RootPath.v
   MkdirAll (forked os.MkdirAll)              mkdir_all
   copier.prepareTargetDir                 prepare_target_dir
   copier.copy / copyDirectory             copy_rec (mutual recursion = one fuel)
   copyDirectoryOnly / ensureEmptyFileTarget  copy_directory_only / ensure_empty_file_target
   removeTargetIfNeeded                       remove_target_if_needed
   getLinkSource + os.Link / copyFile         copy_regular (inode map, Open+Create+copy)
   forgetLinkSources                          forget_links
   os.Readlink + os.Symlink / copyDevice      in copy_rec
   copier.copyFileInfo / copyFileTimestamp copy_file_info / copy_file_timestamp
   copyXAttrs                                 copy_xattrs
   copier.include / exclude, parentDirs,      selector, s_parents, create_parent_dirs (in the repaired
     createParentDirs                         order: parents are created BEFORE removeTargetIfNeeded)
   Not modelled (stated in props/C14.json): ModeStr, XAttrErrorHandler, ChangeFunc, context
   cancellation; wildcard expansion is an INPUT (the list of matches), so theorems hold for every
   list of sources.

   The state threads the file system, the copier's inode map (hard links) and a log of the
   inodes whose content, link target, metadata, xattrs or listing were read THROUGH SOURCE PATHS
   (for copy_reads_inside). *)
From Coq Require Import List NArith Bool.
From FS Require Import Sx Model.Path Model.Fs Model.RootPath.
Import ListNotations.
Open Scope N_scope.
Open Scope bool_scope.

Record copts := {
  o_follow : bool;             (* FollowLinks *)
  o_always_replace : bool;     (* AlwaysReplaceExistingDestPaths *)
  o_dir_contents : bool;       (* CopyDirContents *)
  o_chown : option (N * N);    (* WithChown(uid, gid) *)
  o_utime : option N;          (* Utime, ns *)
  o_mode : option N            (* Mode *)
}.

Record cst := {
  s_fs : fs;
  s_links : list (N * bytes);  (* copier.inodes: source inode -> first target path *)
  s_parents : list (bytes * bytes * bool);   (* copier.parentDirs: (srcPath, dstPath, copied), outermost first *)
  s_reads : list N             (* inodes read through source paths, latest first *)
}.

Definition M (A : Type) : Type := cst -> cst * (A + N).   (* inr code: the Go error (class) *)
Definition ret {A} (a : A) : M A := fun s => (s, inl a).
Definition fail {A} (e : N) : M A := fun s => (s, inr e).
Definition bind {A B} (m : M A) (k : A -> M B) : M B :=
  fun s => match m s with
           | (s', inl a) => k a s'
           | (s', inr e) => (s', inr e)
           end.
Notation "x <~ m ;; k" := (bind m (fun x => k)) (at level 61, m at next level, right associativity).
Notation "m ;;; k" := (bind m (fun _ => k)) (at level 61, right associativity).

(* a syscall on the current file system *)
Definition sys (op : fs -> fs * result) : M result :=
  fun s => let (f', r) := op (s_fs s) in
           ({| s_fs := f'; s_links := s_links s; s_parents := s_parents s; s_reads := s_reads s |}, inl r).
Definition log_read (i : N) : M unit :=
  fun s => ({| s_fs := s_fs s; s_links := s_links s; s_parents := s_parents s; s_reads := i :: s_reads s |}, inl tt).
Definition get_fs : M fs := fun s => (s, inl (s_fs s)).
Definition get_links : M (list (N * bytes)) := fun s => (s, inl (s_links s)).
Definition add_link (i : N) (p : bytes) : M unit :=
  fun s => ({| s_fs := s_fs s; s_links := (i, p) :: s_links s; s_parents := s_parents s; s_reads := s_reads s |}, inl tt).
(* forgetLinkSources(path): drop the recorded first copies at or below path *)
Definition forget_path (path p : bytes) : bool := bytes_eqb p path || has_prefix (path ++ [sep]) p.
Definition forget_links (path : bytes) : M unit :=
  fun s => ({| s_fs := s_fs s; s_links := filter (fun e => negb (forget_path path (snd e))) (s_links s);
               s_parents := s_parents s; s_reads := s_reads s |}, inl tt).
Definition get_parents : M (list (bytes * bytes * bool)) := fun s => (s, inl (s_parents s)).
Definition set_parents (l : list (bytes * bytes * bool)) : M unit :=
  fun s => ({| s_fs := s_fs s; s_links := s_links s; s_parents := l; s_reads := s_reads s |}, inl tt).

(* error classes (diagnostic only; the correspondence compares "error or not") *)
Definition E_SYS : N := 1.        (* a syscall failed *)
Definition E_NOTDIR : N := 2.     (* cannot copy to non-directory / cannot replace directory with file / ENOTDIR *)
Definition E_ROOTPATH : N := 3.
Definition E_FUEL : N := 4.       (* model artefact: recursion bound *)
Definition E_NOMATCH : N := 5.

Definition expect_ok (r : result) : M unit :=
  match r with ROk => ret tt | RFd _ => ret tt | _ => fail E_SYS end.

Definition kind_is_dir (n : inode) : bool := match i_kind n with KDir _ _ => true | _ => false end.
Definition kind_is_link (n : inode) : bool := match i_kind n with KLink _ => true | _ => false end.

(* os.Lstat / os.Stat as used by the copier: Some (ino, inode) | None when it does not exist;
   any other error fails *)
Definition lstat_opt (c : ctx) (p : bytes) : M (option (N * inode)) :=
  r <~ sys (fun f => sys_lstat c f p) ;;
  match r with
  | RStat i n => ret (Some (i, n))
  | RErr ENOENT => ret None
  | _ => fail E_SYS
  end.
(* the target Lstat of copier.copy also tolerates ENOTDIR (a parent is not a directory) *)
Definition lstat_opt_nd (c : ctx) (p : bytes) : M (option (N * inode)) :=
  r <~ sys (fun f => sys_lstat c f p) ;;
  match r with
  | RStat i n => ret (Some (i, n))
  | RErr ENOENT => ret None
  | RErr ENOTDIR => ret None
  | _ => fail E_SYS
  end.
Definition stat_opt (c : ctx) (p : bytes) : M (option (N * inode)) :=
  r <~ sys (fun f => sys_stat c f p) ;;
  match r with
  | RStat i n => ret (Some (i, n))
  | RErr ENOENT => ret None
  | _ => fail E_SYS
  end.

(* ---- Chown / Utimes (mkdir_unix.go) ---- *)
Definition chown_fixed (c : ctx) (o : copts) (p : bytes) : M unit :=     (* Chown(p, nil, ci.Chown) *)
  match o_chown o with
  | None => ret tt
  | Some (u, g) => r <~ sys (fun f => sys_lchown c f p u g) ;; expect_ok r
  end.
Definition utimes_opt (c : ctx) (p : bytes) (tm : option N) : M unit :=  (* Utimes(p, tm) *)
  match tm with
  | None => ret tt
  | Some t => r <~ sys (fun f => sys_utimens c f p t) ;; expect_ok r
  end.

(* ---- MkdirAll (mkdir.go) ---- *)
(* path[:j-1]: the parent string, when j > 1 *)
Definition mk_parent (p : bytes) : option bytes :=
  match split_last (strip_trailing_seps p) with
  | Some (d, _) => if Nat.ltb 1 (length d) then Some (removelast d) else None
  | None => None
  end.

Definition dir_mode (o : copts) : N := match o_mode o with Some m => N.land m 511 | None => 493 end.

(* the slow path of MkdirAll, given the recursive call *)
Definition mkdir_slow (recur : bytes -> M (list bytes)) (c : ctx) (o : copts) (p : bytes) : M (list bytes) :=
  created <~ (match mk_parent p with
              | Some par => recur par
              | None => ret []
              end) ;;
  r1 <~ sys (fun f => sys_lstat c f p) ;;
  if match r1 with RStat _ n1 => kind_is_dir n1 | _ => false end then ret created
  else
    r2 <~ sys (fun f => sys_mkdir c f p (dir_mode o)) ;;
    match r2 with
    | ROk =>
      chown_fixed c o p ;;;
      utimes_opt c p (o_utime o) ;;;
      ret (created ++ [p])
    | _ =>
      r3 <~ sys (fun f => sys_lstat c f p) ;;
      if match r3 with RStat _ n3 => kind_is_dir n3 | _ => false end then ret created
      else fail E_SYS
    end.

(* returns the created directories, oldest first *)
Fixpoint mkdir_all (fuel : nat) (c : ctx) (o : copts) (p : bytes) : M (list bytes) :=
  match fuel with
  | O => fail E_FUEL
  | S k =>
    r <~ sys (fun f => sys_stat c f p) ;;
    match r with
    | RStat _ n => if kind_is_dir n then ret [] else fail E_NOTDIR
    | _ => mkdir_slow (mkdir_all k c o) c o p
    end
  end.

(* filepath.Rel(root, d) for a clean absolute d: Some rel when d lies strictly below root *)
Definition rel_below (root d : bytes) : option bytes :=
  if bytes_eqb root [sep] then
    (if bytes_eqb d [sep] then None else if is_abs d then Some (skipn 1 d) else None)
  else if has_prefix (root ++ [sep]) d then Some (skipn (length root + 1) d) else None.

(* stillBelow(root, d): d is not below root (root itself, its ancestors), or fs.RootPath resolves
   it to itself again: no component below root is a symlink now *)
Definition still_below (c : ctx) (f : fs) (root d : bytes) : bool :=
  if is_nil root then true
  else match rel_below root d with
       | None => true
       | Some rel => match root_path c f root rel with
                     | inl p => bytes_eqb p d
                     | inr _ => false
                     end
       end.

(* fixCreatedParentDirs(root, dirs, tm): errors are dropped (deferred call) *)
Fixpoint fix_created (c : ctx) (root : bytes) (tm : option N) (dirs : list bytes) : M unit :=
  match dirs with
  | [] => ret tt
  | d :: r =>
    match tm with
    | None => ret tt
    | Some t => (fun s =>
        if still_below c (s_fs s) root d then
          match sys (fun f => sys_utimens c f d t) s with
          | (s', inl ROk) => fix_created c root tm r s'
          | (s', _) => (s', inl tt)     (* first error stops the loop, silently *)
          end
        else fix_created c root tm r s)
    end
  end.

(* ---- copyFileInfo / copyFileTimestamp / copyXAttrs ---- *)
Definition copy_file_timestamp (c : ctx) (o : copts) (fi : inode) (name : bytes) : M unit :=
  let t := match o_utime o with Some t => t | None => m_mtime (i_meta fi) end in
  r <~ sys (fun f => sys_utimens c f name t) ;; expect_ok r.

Definition copy_file_info (c : ctx) (o : copts) (fi : inode) (name : bytes) : M unit :=
  let (u, g) := match o_chown o with Some ug => ug | None => (m_uid (i_meta fi), m_gid (i_meta fi)) end in
  r <~ sys (fun f => sys_lchown c f name u g) ;; expect_ok r ;;;
  let m := match o_mode o with Some m => N.land m perm_mask | None => m_mode (i_meta fi) end in
  (if kind_is_link fi then ret tt
   else r <~ sys (fun f => sys_chmod c f name m) ;; expect_ok r) ;;;
  copy_file_timestamp c o fi name.

Fixpoint set_xattrs (c : ctx) (dst : bytes) (xs : list (bytes * bytes)) : M unit :=
  match xs with
  | [] => ret tt
  | (k, v) :: r =>
    x <~ sys (fun f => sys_lsetxattr c f dst k v) ;; expect_ok x ;;;
    set_xattrs c dst r
  end.

(* LListxattr / LGetxattr on the source (no follow), LSetxattr on the target *)
Definition copy_xattrs (c : ctx) (dst src : bytes) : M unit :=
  r <~ sys (fun f => sys_lstat c f src) ;;
  match r with
  | RStat i n => log_read i ;;; set_xattrs c dst (m_xattrs (i_meta n))
  | _ => fail E_SYS
  end.

(* ---- small pieces of copier.copy ---- *)
Definition remove_target_if_needed (c : ctx) (o : copts) (target : bytes) (fi : inode)
  (tfi : option (N * inode)) : M unit :=
  if negb (o_always_replace o) then ret tt
  else match tfi with
       | None => ret tt
       | Some (_, tn) =>
         if kind_is_dir fi && kind_is_dir tn then ret tt
         else forget_links target ;;; r <~ sys (fun f => sys_remove_all c f target) ;; expect_ok r
       end.

(* os.Remove: unlink, then rmdir *)
Definition os_remove (c : ctx) (p : bytes) : M unit :=
  r <~ sys (fun f => sys_unlink c f p) ;;
  match r with
  | ROk => ret tt
  | _ => r2 <~ sys (fun f => sys_rmdir c f p) ;; expect_ok r2
  end.

Definition ensure_empty_file_target (c : ctx) (dst : bytes) : M unit :=
  t <~ lstat_opt c dst ;;
  match t with
  | None => ret tt
  | Some (_, n) => if kind_is_dir n then fail E_NOTDIR else os_remove c dst
  end.

(* returns created *)
Definition copy_directory_only (c : ctx) (dst : bytes) (fi : inode) (overwrite : bool) : M bool :=
  t <~ lstat_opt c dst ;;
  match t with
  | None => r <~ sys (fun f => sys_mkdir c f dst (m_mode (i_meta fi))) ;; expect_ok r ;;; ret true
  | Some (_, n) =>
    if negb (kind_is_dir n) then fail E_NOTDIR
    else if overwrite then
           r <~ sys (fun f => sys_chmod c f dst (m_mode (i_meta fi))) ;; expect_ok r ;;; ret false
         else ret false
  end.

(* number of directory entries that name inode [i] (st_nlink of a non-directory) *)
Definition count_ents (i : N) (es : list (bytes * N)) : N :=
  fold_left (fun acc e => if N.eqb (snd e) i then acc + 1 else acc) es 0.
Definition nlink (f : fs) (i : N) : N :=
  fold_left (fun acc kv => match i_kind (snd kv) with
                           | KDir _ es => acc + count_ents i es
                           | _ => acc
                           end) (f_inodes f) 0.

(* O_TRUNC on an open descriptor *)
Definition fd_truncate (f : fs) (i : N) : fs :=
  match get f i with
  | Some {| i_kind := KFile _; i_meta := m |} =>
    put f i {| i_kind := KFile []; i_meta := with_mtime m now_mark |}
  | _ => f
  end.

(* copyFile: os.Open(source) follows; os.Create(target) = O_RDWR|O_CREATE|O_TRUNC 0666, follows *)
Definition copy_file (c : ctx) (src target : bytes) : M unit :=
  f0 <~ get_fs ;;
  match resolve_ino c f0 src true with
  | inr _ => fail E_SYS
  | inl j =>
    match get f0 j with
    | Some {| i_kind := KFile data |} =>
      log_read j ;;;
      r <~ sys (fun f => sys_open_wronly c f target true 438) ;;
      match r with
      | RFd i =>
        sys (fun f => (fd_truncate f i, ROk)) ;;;
        w <~ sys (fun f => fd_pwrite f i 0 data) ;; expect_ok w
      | _ => fail E_SYS
      end
    | _ => fail E_SYS
    end
  end.

Fixpoint assoc_N {A} (k : N) (l : list (N * A)) : option A :=
  match l with
  | [] => None
  | (k', v) :: r => if N.eqb k k' then Some v else assoc_N k r
  end.

(* getLinkSource + os.Link / copyFile.  [multi]: st_nlink > 1 in the Lstat result copier.copy took at
   its start (NOT the link count now: removing the target may have removed a name of the source inode) *)
Definition copy_regular (c : ctx) (src target : bytes) (ino : N) (multi : bool) : M unit :=
  if multi then
    links <~ get_links ;;
    match assoc_N ino links with
    | Some first => r <~ sys (fun f => sys_link c f first target) ;; expect_ok r
    | None => add_link ino target ;;; copy_file c src target
    end
  else copy_file c src target.

Definition S_IFSOCK : N := 49152.
(* mknod(2) with a type of 0 (the socket stub) makes a regular file *)
Definition sys_mknod_reg (c : ctx) (f : fs) (p : bytes) (mode : N) : fs * result :=
  match resolve c f p false with
  | inr e => (f, RErr e)
  | inl r =>
    match l_ino r with
    | Some _ => (f, RErr EEXIST)
    | None => (fst (create_at f r false (KFile []) (N.land mode perm_mask)), ROk)
    end
  end.
Definition copy_device (c : ctx) (target : bytes) (fi : inode) : M unit :=
  match i_kind fi with
  | KSpecial typ rdev =>
    if N.eqb typ S_IFSOCK then
      r <~ sys (fun f => sys_mknod_reg c f target (m_mode (i_meta fi))) ;; expect_ok r
    else r <~ sys (fun f => sys_mknod c f target typ (m_mode (i_meta fi)) rdev) ;; expect_ok r
  | _ => fail E_SYS
  end.

Definition sorted_names (l : list bytes) : list bytes :=
  map fst (sort_ents (map (fun n => (n, tt)) l)).

(* ---- copier.copy / copyDirectory ---- *)
Fixpoint each_m (g : bytes -> M unit) (ns : list bytes) : M unit :=
  match ns with
  | [] => ret tt
  | n :: rest => g n ;;; each_m g rest
  end.

(* copyFileInfo + copyXAttrs *)
Definition finish_meta (c : ctx) (o : copts) (fi : inode) (src target : bytes) : M unit :=
  copy_file_info c o fi target ;;; copy_xattrs c target src.

(* removeTargetIfNeeded, forgetLinkSources + ensureEmptyFileTarget (for a selected entry, after
   createParentDirs) *)
Definition prep_rest (c : ctx) (o : copts) (target : bytes) (fi : inode) (tfi : option (N * inode)) : M unit :=
  remove_target_if_needed c o target fi tfi ;;;
  (if kind_is_dir fi then ret tt
   else (match tfi with Some _ => forget_links target | None => ret tt end) ;;;
        ensure_empty_file_target c target).

(* include / exclude: copier.include, copier.exclude = MatchesUsingParentResults with the parent
   directory's MatchInfo.  The matcher is a parameter: theorems hold for every selector; the
   correspondence instantiates it with Model/Pattern.incr_eval over the real single-pattern results. *)
Record selector := {
  sl_inc : bytes -> list bool -> bool * list bool;    (* nil matcher: (true, []) *)
  sl_exc : bytes -> list bool -> bool * list bool     (* nil matcher: (false, []) *)
}.
Definition sel_all : selector := {| sl_inc := fun _ _ => (true, []); sl_exc := fun _ _ => (false, []) |}.

(* createParentDirs: every parent directory not yet copied, outermost first: os.Stat(srcPath),
   copyDirectoryOnly(dstPath), and copyFileInfo + copyXAttrs when it was created *)
Fixpoint create_parents_go (c : ctx) (o : copts) (overwrite : bool) (todo done : list (bytes * bytes * bool))
  : M (list (bytes * bytes * bool)) :=
  match todo with
  | [] => ret done
  | (sp, dp, copied) :: rest =>
    if copied then create_parents_go c o overwrite rest (done ++ [(sp, dp, copied)])
    else
      r <~ sys (fun f => sys_stat c f sp) ;;
      match r with
      | RStat si sfi =>
        log_read si ;;;
        if negb (kind_is_dir sfi) then fail E_NOTDIR
        else
          created <~ copy_directory_only c dp sfi overwrite ;;
          (if created then copy_file_info c o sfi dp ;;; copy_xattrs c dp sp else ret tt) ;;;
          create_parents_go c o overwrite rest (done ++ [(sp, dp, true)])
      | _ => fail E_SYS
      end
  end.
Definition create_parent_dirs (c : ctx) (o : copts) (overwrite : bool) : M unit :=
  ps <~ get_parents ;;
  ps' <~ create_parents_go c o overwrite ps [] ;;
  set_parents ps'.

Definition push_parent (sp dp : bytes) (copied : bool) : M unit :=
  ps <~ get_parents ;; set_parents (ps ++ [(sp, dp, copied)]).
Definition pop_parent : M unit := ps <~ get_parents ;; set_parents (removelast ps).

(* copier.copy.  [comps] = srcComponents ("" for the top-level source: always selected);
   [pinc] / [pexc] = the parent's MatchInfo *)
Fixpoint copy_rec (fuel : nat) (c : ctx) (o : copts) (sl : selector) (src comps target : bytes)
  (overwrite : bool) (pinc pexc : list bool) : M unit :=
  match fuel with
  | O => fail E_FUEL
  | S k =>
    f_at <~ get_fs ;;
    r <~ sys (fun f => sys_lstat c f src) ;;
    match r with
    | RStat ino fi =>
      log_read ino ;;;
      tfi <~ lstat_opt_nd c target ;;
      let ri := if is_nil comps then (true, []) else sl_inc sl comps pinc in
      let re := if is_nil comps then (false, []) else sl_exc sl comps pexc in
      let include := fst ri && negb (fst re) in
      let children (names : list bytes) : M unit :=
        each_m (fun n => copy_rec k c o sl (join2 src n) (join2 comps n) (join2 target n) true (snd ri) (snd re))
               (sorted_names names) in
      if include then
        create_parent_dirs c o overwrite ;;;
        prep_rest c o target fi tfi ;;;
        match i_kind fi with
        | KDir _ _ =>
          created <~ copy_directory_only c target fi overwrite ;;
          push_parent src target true ;;;
          l <~ sys (fun f => sys_readdir c f src) ;;
          match l with
          | RNames names =>
            f1 <~ get_fs ;;
            (match resolve_ino c f1 src true with inl di => log_read di | inr _ => ret tt end) ;;;
            children names ;;;
            pop_parent ;;;
            (if overwrite || created then finish_meta c o fi src target
             else match tfi with
                  | Some _ => copy_file_timestamp c o fi target
                  | None => ret tt
                  end)
          | _ => fail E_SYS
          end
        | KFile _ =>
          copy_regular c src target ino (N.ltb 1 (nlink f_at ino)) ;;;
          finish_meta c o fi src target
        | KLink _ =>
          l <~ sys (fun f => sys_readlink c f src) ;;
          match l with
          | RBytes t =>
            r2 <~ sys (fun f => sys_symlink c f t target) ;; expect_ok r2 ;;;
            finish_meta c o fi src target
          | _ => fail E_SYS
          end
        | KSpecial _ _ =>
          copy_device c target fi ;;;
          finish_meta c o fi src target
        end
      else
        (* not selected: a directory is still walked, its creation deferred *)
        match i_kind fi with
        | KDir _ _ =>
          push_parent src target false ;;;
          l <~ sys (fun f => sys_readdir c f src) ;;
          match l with
          | RNames names =>
            f1 <~ get_fs ;;
            (match resolve_ino c f1 src true with inl di => log_read di | inr _ => ret tt end) ;;;
            children names ;;;
            pop_parent
          | _ => fail E_SYS
          end
        | _ => ret tt
        end
    | _ => fail E_SYS
    end
  end.

(* ---- prepareTargetDir ---- *)
Definition prepare_target_dir (fuel : nat) (c : ctx) (o : copts) (src_followed src dest : bytes)
  : M (bytes * list bytes) :=
  r <~ sys (fun f => sys_lstat c f src_followed) ;;
  match r with
  | RStat sino sfi =>
    log_read sino ;;;
    dfi <~ stat_opt c dest ;;
    let sdir := kind_is_dir sfi in
    let dexists := match dfi with Some _ => true | None => false end in
    let ddir := match dfi with Some (_, n) => kind_is_dir n | None => false end in
    let dest1 := if (negb (o_dir_contents o) && sdir && dexists) || (negb sdir && dexists && ddir)
                 then join2 dest (base (join2 [sep] src)) else dest in
    let target := if o_dir_contents o && sdir && negb dexists then dest1 else dir dest1 in
    created <~ mkdir_all fuel c o target ;;
    ret (dest1, created)
  | _ => fail E_SYS
  end.

Definition lift_rp (r : bytes + rp_err) : M bytes :=
  match r with inl p => ret p | inr _ => fail E_ROOTPATH end.

(* ---- Copy ---- *)
(* the loop over the sources; the created-directory batches are collected for the deferred
   fixCreatedParentDirs, which run (latest first) on every way out *)
Fixpoint copy_sources (fuel : nat) (c : ctx) (o : copts) (sl : selector) (src_root dst_root dst : bytes)
  (srcs : list bytes) (batches : list (list bytes)) : cst -> cst * (unit + N) * list (list bytes) :=
  fun s =>
  match srcs with
  | [] => (s, inl tt, batches)
  | src :: rest =>
    let step : M (bytes * bytes * list bytes) :=
      f0 <~ get_fs ;;
      sf <~ lift_rp (copy_root_path c f0 src_root src (o_follow o)) ;;
      f1 <~ get_fs ;;
      d <~ lift_rp (root_path c f1 dst_root (clean dst)) ;;
      pt <~ prepare_target_dir fuel c o sf src d ;;
      ret (sf, fst pt, snd pt) in
    match step s with
    | (s1, inr e) => (s1, inr e, batches)
    | (s1, inl (sf, d1, created)) =>
      match copy_rec fuel c o sl sf [] d1 false [] [] s1 with
      | (s2, inr e) => (s2, inr e, created :: batches)
      | (s2, inl _) => copy_sources fuel c o sl src_root dst_root dst rest (created :: batches) s2
      end
    end
  end.

Fixpoint run_fixes (c : ctx) (root : bytes) (tm : option N) (batches : list (list bytes)) : M unit :=
  match batches with
  | [] => ret tt
  | b :: r => fix_created c root tm (rev b) ;;; run_fixes c root tm r
  end.

(* [matches]: None = no wildcards (the source is [src]); Some l = AllowWildcards with the matches l *)
Definition copy_top (fuel : nat) (c : ctx) (o : copts) (osl : option selector) (src_root src dst_root dst : bytes)
  (matches : option (list bytes)) : cst -> cst * (unit + N) :=
  fun s =>
  let ensure := match split_path dst with
                | (d, fl) => if nonempty fl && negb (bytes_eqb fl s_dot) && negb (bytes_eqb fl s_dotdot) then d else dst
                end in
  let pre : M (list (list bytes)) :=
    if nonempty ensure then
      f0 <~ get_fs ;;
      p <~ lift_rp (root_path c f0 dst_root ensure) ;;
      created <~ mkdir_all fuel c o p ;;
      ret [created]
    else ret [] in
  match pre s with
  | (s1, inr e) => (s1, inr e)
  | (s1, inl batches0) =>
    let srcs := match matches with None => [src] | Some l => l end in
    let '(s2, res, batches) :=
      match osl, matches with
      | None, _ => (s1, inr E_SYS, batches0)          (* newCopier: invalid include / exclude patterns *)
      | _, Some [] => (s1, inr E_NOMATCH, batches0)
      | Some sl, _ => copy_sources fuel c o sl src_root dst_root dst srcs batches0 s1
      end in
    (fst (run_fixes c dst_root (o_utime o) batches s2), res)
  end.

Definition cst_init (f : fs) : cst := {| s_fs := f; s_links := []; s_parents := []; s_reads := [] |}.
