(* L11s — the SELECTION side of the copier (/repo/copy/copy.go, Linux build):

     copier.include / copier.exclude        -> sel_inc / sel_exc   (MatchesUsingParentResults with the
                                               parent directory's MatchInfo handed down as arguments;
                                               a nil matcher answers true / false with an empty info)
     copier.copy                            -> copy_node           (include := inc && !exc; "" = the
                                               top-level source is always included; the lstat of the
                                               target tolerates ENOENT and ENOTDIR)
     copier.createParentDirs                -> create_parents      (parentDirs stack, [copied] flag,
                                               copyDirectoryOnly + copyFileInfo + copyXAttrs with the
                                               SOURCE directory's FileInfo when the directory is created)
     copier.copyDirectory                   -> the directory branch of copy_node (push, children in
                                               ReadDir order = stored order, pop)
     copyDirectoryOnly                      -> copy_dir_only       (overwriteTargetMetadata = true for
                                               everything below the top-level source)
     ensureEmptyFileTarget                  -> the non-directory branch of copy_node
     copyFileInfo / copyXAttrs              -> info_entry / xattr_entry (chown, chmod, setxattr)
     Copy (one source, no wildcards)        -> copy_dir_top / copy_file_top

   The single-pattern matcher (Pattern.match of moby/patternmatcher) is the Section variable
   [pmatch], exactly as in Model/Pattern.v and Model/FilterWalk.v; pattern lists and their
   normalisation are [cfg] / [mk_cfg] of Model/FilterWalk.v (newCopier builds its matchers
   exactly as NewFilterFS does: nil for an empty list, patternmatcher.New otherwise).

   Source = a view (Model/Tree.node, the tree the filtered walk of C10 runs over).
   Destination = a finite map from paths RELATIVE TO THE LANDING TARGET (the path copier.copy is
   first called with; "" = the target itself) to entries (stat, content); source-relative path
   and destination-relative path of an entry are the same string, as in the code
   (filepath.Join(src, name) / filepath.Join(srcComponents, name) / filepath.Join(dst, name)).

   Assumed, not modelled: options Chown / Mode / ModeStr / Utime / AlwaysReplaceExistingDestPaths
   unset (C13/C15); no hard-link groups in the source (C13); timestamps are not represented at
   all (the property does not claim them); the landing target's parent exists (prepareTargetDir,
   C13/C15); no I/O errors, no xattr errors, context never cancelled.  A mkdir / create whose
   parent directory is missing in the destination is the error [ENoParent] — the proofs show it
   never happens (that is what the deferred creation of parents is for). *)
From Coq Require Import List NArith Bool.
From FS Require Import Sx Model.Path Model.Stat Model.Tree Model.Pattern Model.FilterWalk.
Import ListNotations.
Open Scope N_scope.
Open Scope bool_scope.

(* ---------- destination ---------- *)
Definition dfs := bytes -> option entry.
Definition fput (p : bytes) (e : entry) (fs : dfs) : dfs := fun q => if bytes_eqb q p then Some e else fs q.
Definition fdel (p : bytes) (fs : dfs) : dfs := fun q => if bytes_eqb q p then None else fs q.
Definition fupd (p : bytes) (f : entry -> entry) (fs : dfs) : dfs :=
  match fs p with Some e => fput p (f e) fs | None => fs end.
Definition e_dir (e : entry) : bool := st_is_dir (fst e).

(* os.Chmod(name, fi.Mode()): permission bits and setuid/setgid/sticky of the source, type bits kept *)
Definition perm_mask : N := ModePerm + ModeSetuid + ModeSetgid + ModeSticky.
Definition perm_of (m : N) : N := N.land m perm_mask.
Definition chmod_stat (src s : stat) : stat :=
  set_mode s (N.lor (N.ldiff (st_mode s) perm_mask) (perm_of (st_mode src))).
Definition chown_stat (src s : stat) : stat :=
  {| st_path := st_path s; st_mode := st_mode s; st_uid := st_uid src; st_gid := st_gid src; st_size := st_size s;
     st_mtime := st_mtime s; st_linkname := st_linkname s; st_devmajor := st_devmajor s;
     st_devminor := st_devminor s; st_xattrs := st_xattrs s |}.
Definition set_xattrs (s : stat) (x : list (bytes * bytes)) : stat :=
  {| st_path := st_path s; st_mode := st_mode s; st_uid := st_uid s; st_gid := st_gid s; st_size := st_size s;
     st_mtime := st_mtime s; st_linkname := st_linkname s; st_devmajor := st_devmajor s;
     st_devminor := st_devminor s; st_xattrs := x |}.

(* lsetxattr(key, value, 0): create or replace; the list is kept sorted by key *)
Fixpoint xset (k v : bytes) (l : list (bytes * bytes)) : list (bytes * bytes) :=
  match l with
  | [] => [(k, v)]
  | (k', v') :: r =>
    match cmp_bytes k k' with
    | Lt => (k, v) :: l
    | Eq => (k, v) :: r
    | Gt => (k', v') :: xset k v r
    end
  end.
(* copyXAttrs: every xattr of the source is set on the target; others stay *)
Definition xmerge (src old : list (bytes * bytes)) : list (bytes * bytes) :=
  fold_left (fun l kv => xset (fst kv) (snd kv) l) src old.

(* copyFileInfo (no Chown/Mode options): lchown to the source's owner, chmod to the source's mode *)
Definition info_entry (src : stat) (e : entry) : entry := (chmod_stat src (chown_stat src (fst e)), snd e).
Definition xattr_entry (src : stat) (e : entry) : entry :=
  (set_xattrs (fst e) (xmerge (st_xattrs src) (st_xattrs (fst e))), snd e).
Definition copy_meta (src : stat) (p : bytes) (fs : dfs) : dfs := fupd p (xattr_entry src) (fupd p (info_entry src) fs).

(* what mkdir(2) leaves before copyFileInfo runs (its mode/owner are overwritten right after) *)
Definition blank_dir (p : bytes) : entry :=
  ({| st_path := p; st_mode := ModeDir; st_uid := 0; st_gid := 0; st_size := 0; st_mtime := 0; st_linkname := [];
      st_devmajor := 0; st_devminor := 0; st_xattrs := [] |}, []).

(* ---------- results ---------- *)
Inductive cerr := EDirOverNondir | ENondirOverDir | ENoParent.

(* one materialised source entry: its stat (Path = relative path), content, and whether it passed
   include/exclude itself (false = a parent created on demand by createParentDirs) *)
Record litem := { l_st : stat; l_ct : bytes; l_sel : bool }.
Definition l_path (it : litem) : bytes := st_path (l_st it).

(* parentDir: srcPath/dstPath = st_path pd_st (relative), the FileInfo createParentDirs stats again
   = pd_st, the directory that holds it = pd_dir *)
Record pdir := { pd_st : stat; pd_ct : bytes; pd_dir : bytes; pd_copied : bool }.
Definition set_copied (d : pdir) : pdir :=
  {| pd_st := pd_st d; pd_ct := pd_ct d; pd_dir := pd_dir d; pd_copied := true |}.

Definition R := (dfs * list pdir * list litem * option cerr)%type.

Definition parent_ok (dir : bytes) (fs : dfs) : bool :=
  match fs dir with Some e => e_dir e | None => false end.

(* copyDirectoryOnly(dst, stat, overwriteTargetMetadata = true): (fs, error, created) *)
Definition copy_dir_only (dir p : bytes) (src : stat) (fs : dfs) : dfs * option cerr * bool :=
  match fs p with
  | None => if parent_ok dir fs then (fput p (blank_dir p) fs, None, true) else (fs, Some ENoParent, false)
  | Some e => if e_dir e then (fput p (chmod_stat src (fst e), snd e) fs, None, false)
              else (fs, Some EDirOverNondir, false)
  end.

(* createParentDirs: outermost first; the stack does not hold the top-level source (its
   [copied] flag is always true) *)
Fixpoint create_parents (S : list pdir) (fs : dfs) : R :=
  match S with
  | [] => (fs, [], [], None)
  | d :: r =>
    if pd_copied d then
      let '(fs', r', em, e) := create_parents r fs in (fs', d :: r', em, e)
    else
      match copy_dir_only (pd_dir d) (st_path (pd_st d)) (pd_st d) fs with
      | (fs1, Some e, _) => (fs1, d :: r, [], Some e)
      | (fs1, None, created) =>
        let fs2 := if created then copy_meta (pd_st d) (st_path (pd_st d)) fs1 else fs1 in
        let '(fs3, r', em, e) := create_parents r fs2 in
        (fs3, set_copied d :: r', {| l_st := pd_st d; l_ct := pd_ct d; l_sel := false |} :: em, e)
      end
  end.

(* os.Lstat(target) at the top of copier.copy, for every visited source entry (selected or not):
   ENOENT and ENOTDIR are tolerated (targetFi = nil).  ENOTDIR means that a pending parent's path
   is taken by a non-directory in the destination; that only matters if something below it is
   selected, and createParentDirs / copyDirectoryOnly report it then (EDirOverNondir).  Other
   lstat errors are I/O errors (not modelled). *)

Section CopySel.
Variable pmatch : bytes -> bytes -> bool.
Variable c : cfg.

Definition sel_inc (p : bytes) (pi : list bool) : bool * list bool :=
  match c_inc c with Some pats => incr_eval pmatch pats p pi | None => (true, []) end.
Definition sel_exc (p : bytes) (pi : list bool) : bool * list bool :=
  match c_exc c with Some pats => incr_eval pmatch pats p pi | None => (false, []) end.

(* copier.copy for an entry below the top-level source (srcComponents <> "",
   overwriteTargetMetadata = true) + copyDirectory *)
Fixpoint copy_node (dir : bytes) (n : node) (pinc pexc : list bool) (S : list pdir) (fs : dfs) {struct n} : R :=
  match n with
  | Node name st0 ct kids =>
    let p := child_path dir name in
    let st := set_path st0 p in
    let ri := sel_inc p pinc in
    let re := sel_exc p pexc in
    let include := fst ri && negb (fst re) in
    let it := {| l_st := st; l_ct := ct; l_sel := true |} in
    match (if include then create_parents S fs else (fs, S, [], None)) with
    | (fs1, S1, em1, Some e) => (fs1, S1, em1, Some e)
    | (fs1, S1, em1, None) =>
      if st_is_dir st0 then
        match (if include then copy_dir_only dir p st fs1 else (fs1, None, false)) with
        | (fs2, Some e, _) => (fs2, S1, em1, Some e)
        | (fs2, None, _) =>
          let d := {| pd_st := st; pd_ct := ct; pd_dir := dir; pd_copied := include |} in
          let self := if include then [it] else [] in
          let '(fs3, S3, em3, e3) :=
            (fix kids_loop (l : list node) (S : list pdir) (fs : dfs) {struct l} : R :=
               match l with
               | [] => (fs, S, [], None)
               | k :: r =>
                 match copy_node p k (snd ri) (snd re) S fs with
                 | (fs', S', em, Some e) => (fs', S', em, Some e)
                 | (fs', S', em, None) =>
                   let '(fs'', S'', em', e') := kids_loop r S' fs' in (fs'', S'', em ++ em', e')
                 end
               end) kids (S1 ++ [d]) fs2 in
          match e3 with
          | Some e => (fs3, removelast S3, em1 ++ self ++ em3, Some e)
          | None => ((if include then copy_meta st p fs3 else fs3), removelast S3, em1 ++ self ++ em3, None)
          end
        end
      else if negb include then (fs1, S1, em1, None)
      else
        match (match fs1 p with
               | Some e => if e_dir e then None else Some (fdel p fs1)   (* ensureEmptyFileTarget *)
               | None => Some fs1
               end) with
        | None => (fs1, S1, em1, Some ENondirOverDir)
        | Some fs2 =>
          if parent_ok dir fs2 then (fput p (st, ct) fs2, S1, em1 ++ [it], None)
          else (fs2, S1, em1, Some ENoParent)
        end
    end
  end.

Fixpoint copy_forest (dir : bytes) (l : list node) (pinc pexc : list bool) (S : list pdir) (fs : dfs) : R :=
  match l with
  | [] => (fs, S, [], None)
  | k :: r =>
    match copy_node dir k pinc pexc S fs with
    | (fs', S', em, Some e) => (fs', S', em, Some e)
    | (fs', S', em, None) =>
      let '(fs'', S'', em', e') := copy_forest dir r pinc pexc S' fs' in (fs'', S'', em ++ em', e')
    end
  end.

(* Copy with a directory as (single) source: copier.copy(src, "", target, false, {}, {}).
   [rootst] = the source directory's own stat; its children are [view].  The target is created
   if missing (then it gets the source directory's metadata), otherwise left as it is. *)
Definition copy_dir_top (rootst : stat) (view : list node) (fs : dfs) : dfs * list litem * option cerr :=
  match (match fs [] with
         | None => Some (fput [] (blank_dir []) fs, true)
         | Some e => if e_dir e then Some (fs, false) else None
         end) with
  | None => (fs, [], Some EDirOverNondir)
  | Some (fs1, created) =>
    match copy_forest [] view [] [] [] fs1 with
    | (fs2, _, em, Some e) => (fs2, em, Some e)
    | (fs2, _, em, None) => ((if created then copy_meta rootst [] fs2 else fs2), em, None)
    end
  end.
End CopySel.

(* Copy with a non-directory as source: srcComponents = "" — include/exclude patterns are not
   consulted at all *)
Definition copy_file_top (st : stat) (ct : bytes) (fs : dfs) : dfs * option cerr :=
  match fs [] with
  | Some e => if e_dir e then (fs, Some ENondirOverDir) else (fput [] (set_path st [], ct) (fdel [] fs), None)
  | None => (fput [] (set_path st [], ct) fs, None)
  end.

Inductive source := SrcDir (rootst : stat) (view : list node) | SrcFile (st : stat) (ct : bytes).
Definition copy_sel (pmatch : bytes -> bytes -> bool) (c : cfg) (s : source) (fs : dfs)
  : dfs * list litem * option cerr :=
  match s with
  | SrcDir rootst view => copy_dir_top pmatch c rootst view fs
  | SrcFile st ct => let '(fs', e) := copy_file_top st ct fs in (fs', [], e)
  end.

(* ---------- the specification, independent of the above ----------
   [V] = verdict on relative paths.  Materialised are the entries of the full walk that are
   selected or lie above a selected entry (FilterWalk.selected_or_above / flat_reference), in
   walk order; each is written once according to [result]. *)
Definition flat_items (V : bytes -> bool) (view : list node) : list litem :=
  map (fun e => {| l_st := fst e; l_ct := snd e; l_sel := V (st_path (fst e)) |})
      (filter (selected_or_above V (walk_root view)) (walk_root view)).

(* what a materialised entry looks like afterwards, given what was at its path before:
     non-directory: the source entry (an existing non-directory is unlinked first);
     directory, selected itself or newly created: owner, mode and xattrs of the source directory
       (existing xattrs with other keys stay);
     directory that existed and is only an ancestor of selected entries: chmod only. *)
Definition dir_only (src : stat) (old : option entry) : entry :=
  match old with
  | None => blank_dir (st_path src)
  | Some e => (chmod_stat src (fst e), snd e)
  end.
Definition result (it : litem) (old : option entry) : entry :=
  if st_is_dir (l_st it) then
    if l_sel it || match old with None => true | Some _ => false end
    then xattr_entry (l_st it) (info_entry (l_st it) (dir_only (l_st it) old))
    else dir_only (l_st it) old
  else (l_st it, l_ct it).

Definition step (q : bytes) (o : option entry) (it : litem) : option entry :=
  if bytes_eqb q (l_path it) then Some (result it o) else o.
Definition spec_ent (items : list litem) (fs0 : dfs) (q : bytes) : option entry :=
  fold_left (step q) items (fs0 q).

(* a materialised entry meets the wrong type: the copy fails there (first one in walk order) *)
Definition conflict_of (it : litem) (old : option entry) : option cerr :=
  match old with
  | None => None
  | Some e => if st_is_dir (l_st it) then (if e_dir e then None else Some EDirOverNondir)
              else (if e_dir e then Some ENondirOverDir else None)
  end.
Fixpoint first_conflict (items : list litem) (fs0 : dfs) : option cerr :=
  match items with
  | [] => None
  | it :: r => match conflict_of it (fs0 (l_path it)) with Some e => Some e | None => first_conflict r fs0 end
  end.

(* source views whose xattr lists are strictly sorted by key (what a file system reports) *)
Fixpoint keys_sorted (l : list (bytes * bytes)) : bool :=
  match l with
  | a :: ((b :: _) as r) => (match cmp_bytes (fst a) (fst b) with Lt => true | _ => false end) && keys_sorted r
  | _ => true
  end.

(* an empty destination: only the landing target exists (as prepareTargetDir / the caller left it) *)
Definition root_dst (root : entry) : dfs := fun q => match q with [] => Some root | _ => None end.
Definition empty_dst : dfs := root_dst (blank_dir []).
