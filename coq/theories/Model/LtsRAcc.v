(* L7/L8 bridge, receiver side — the receiver of the goroutine-level LTS (Model/Lts.v, C04/C08)
   seen at the boundary of Receive, in the event vocabulary of the acceptor of C07
   (Model/ReceiverAcc.v).

   The LTS abstracts packets to PStat / PEnd / PData id / PDataEnd id / PReq id / PFin / PErr
   without payloads and numbers STATs by position.  The acceptor speaks about concrete packets.
   The abstraction is relative to

     p      : Lts.params              the LTS instance
     stats  : list stat               the stats the sender announces, in order
     needs  : bytes -> bool           the diff's (and filter's) verdict per path (parameter of the acceptor)
     pay    : nat -> nat -> bytes     pay id k = payload of the k-th DATA packet of id (k from 0)

   with [rabs_ok]: same number of entries; an LTS entry is a "file" (fileCanRequestData) iff
   its stat is regular; its content is needed (e_kind = ENeed: requestAsyncFileData) iff the
   acceptor wants it (regular, no Linkname, needs path); payloads are non-empty.

   Concretisation of what crosses the receiver's boundary:
     received PStat while rl_i = i    |->  Inp (PStat (Some stats[i]))
     received PEnd                    |->  Inp (PStat None)
     received PData id                |->  Inp (PData id (pay id k)), k = DATA packets of id written so far
     received PDataEnd id             |->  Inp (PData id [])
     received PFin / PErr / PReq id   |->  Inp PFin / Inp (PErr smsg) / Inp (PReq id)
     RecvMsg returns io.EOF           |->  InEof
     a writer's PReq id               |->  Out (PReq id)
     FIN / ERR of receiver.run        |->  Out PFin / Out (PErr emsg)
     g.Wait() returns                 |->  Return ok
   An Out event is placed at the step in which the goroutine acquires the syncStream mutex
   (Stream.SendMsg is called: where harness/c0607_tap.go records it), an In event at the step
   in which RecvMsg returns the packet. *)
From Coq Require Import List NArith Bool Arith.
From FS Require Import Model.Lts.
From FS Require Import Sx Model.Path Model.Stat Model.AccEvents Model.ReceiverAcc.
Import ListNotations.
Local Open Scope nat_scope.

Section RAbs.
  Variable p : Lts.params.
  Variable stats : list stat.
  Variable needs : bytes -> bool.
  Variable pay : nat -> nat -> bytes.
  Variable emsg smsg : bytes.

  Definition rabs_ok : Prop :=
    length (p_entries p) = length stats
    /\ (forall i st, nth_error stats i = Some st -> is_file p i = mode_is_regular (st_mode st))
    /\ (forall i st, nth_error stats i = Some st ->
          (match kind_of p i with ENeed => true | _ => false end) = wanted needs st)
    /\ (forall id k, pay id k <> []).

  Definition abs_rin (st : Lts.state) (pk : Lts.packet) : pkt :=
    match pk with
    | Lts.PStat => AccEvents.PStat (nth_error stats (rl_i st))
    | Lts.PEnd => AccEvents.PStat None
    | Lts.PData id => AccEvents.PData (N.of_nat id) (pay id (count_occ Nat.eq_dec (written st) id))
    | Lts.PDataEnd id => AccEvents.PData (N.of_nat id) []
    | Lts.PReq id => AccEvents.PReq (N.of_nat id)
    | Lts.PFin => AccEvents.PFin
    | Lts.PErr => AccEvents.PErr smsg
    end.

  (* RecvMsg of the read loop returns *)
  Definition recv_events (st : Lts.state) : list event :=
    if r_broken st then [Fault]
    else match buf_sr st with
         | pk :: _ => [Inp (abs_rin st pk)]
         | [] => if sr_closed st then [InEof] else []
         end.

  Definition receiver_events (st : Lts.state) (l : label) : list event :=
    match l with
    | LRecvLoop => match rl_pc st with RL_Recv | RL_Drain => recv_events st | _ => [] end
    | LWriter j =>
        match nth_error (wrs st) j with
        | Some w => match wr_pc w with WR_Lock => [Out (AccEvents.PReq (N.of_nat (wr_id w)))] | _ => [] end
        | None => []
        end
    | LDiffOuter =>
        match do_pc st with
        | DO_LockFin => [Out AccEvents.PFin]
        | DO_LockErr => [Out (AccEvents.PErr emsg)]
        | _ => []
        end
    | LRecvRet => [Return (negb (Lts.r_err st))]
    | _ => []
    end.

  Fixpoint lts_rtrace (st : Lts.state) (ls : list label) : list event :=
    match ls with
    | [] => []
    | l :: r => match Lts.step p st l with
                | Some st' => receiver_events st l ++ lts_rtrace st' r
                | None => []
                end
    end.
End RAbs.

(* fault-free runs: no injected fault, cancellation, endpoint failure or tear-down on either
   side (the transport closing the sender's direction after Send has returned is not a fault) *)
Definition no_fault (l : label) : bool :=
  match l with
  | LSWalkErr | LWorkerOpenErr _ | LWorkerReadErr _ | LDiffCbErr | LWriterCbErr _
  | LEnvCancelS | LEnvCancelR | LEnvBreakS | LEnvBreakR | LEnvTearDown => false
  | _ => true
  end.
Definition no_faults (ls : list label) : bool := forallb no_fault ls.

(* an LTS instance for every announced sequence: one-chunk files *)
Definition lts_rentry_of (needs : bytes -> bool) (st : stat) : Lts.entry :=
  {| e_file := mode_is_regular (st_mode st);
     e_chunks := 1;
     e_kind := if wanted needs st then ENeed else EMeta |}.
Definition lts_rparams_of (needs : bytes -> bool) (stats : list stat) (capSR capRS : nat) : Lts.params :=
  {| p_W := 4; p_P := 128; p_C := 128; p_C2 := 128; p_capSR := capSR; p_capRS := capRS;
     p_entries := map (lts_rentry_of needs) stats; p_old_queue := false |}.

(* a complete fault-free run for examples: the first enabled move of the program until nothing
   moves (Send has returned, the receiver drains), then the transport closes the sender's
   direction (the only environment event, not a fault), then again until nothing moves *)
Fixpoint first_moves (p : Lts.params) (fuel : nat) (st : Lts.state) : list label * Lts.state :=
  match fuel with
  | O => ([], st)
  | S f =>
    match filter (fun l => negb (is_env l)) (enabled p st) with
    | l :: _ => match Lts.step p st l with
                | Some st' => let (ls, s) := first_moves p f st' in (l :: ls, s)
                | None => ([], st)
                end
    | [] => ([], st)
    end
  end.
Definition complete_run (p : Lts.params) (fuel : nat) : list label :=
  let (ls1, st1) := first_moves p fuel (Lts.init p) in
  match Lts.step p st1 LEnvCloseSend with
  | Some st2 => ls1 ++ LEnvCloseSend :: fst (first_moves p fuel st2)
  | None => ls1
  end.
