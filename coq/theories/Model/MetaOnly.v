(* L7 — receive.go, the metadata-only branch of the receive loop (ReceiveOpt.MetadataOnly
   != nil), as a transcript over the STAT sequence the sender announced.

   Go code modelled (receive.go, case PACKET_STAT, metadataTransfer = true), per STAT s:
     if path == metadataPath { i++; continue }                   -- skip, id counted (fix F3)
     metadataBuffer.alloc(n+4) + LE length + MarshalToSizedBufferVT  -> one listing record
                                                                  (of the stat AS ANNOUNCED)
     metaOnly := !r.metadataOnly(path, stat)                      -- selector [sel]; it is handed the
                                   live *types.Stat and may write into it: [rw], see [mrun_rw] below
     p.Stat.Path = path                                           -- an edit of the path does not survive
     if !metaOnly && fileCanRequestData(mode) { r.files[path] = i }
     i++
     orderValidator.HandleChange                                  -- every handled STAT
     if !metaOnly { hlValidator.HandleChange }                    -- only entries that are forwarded
                                                                  (repair of the C03 finding; see
                                                                  [first_reject_d], [recv_accepts])
     parent := filepath.Dir(path)
     for { last, ok := peek(); if !ok || parent == last.path {break}; pop() }
     if metaOnly { if isDir { push(cp) }; continue }              -- push only when NOT forwarded (fix F12)
     else { replay items bottom..top; clear() }
     w.update(cp)                                                 -- forwarded to the diff/writer

   The stack is kept top first: Go's [items] = [rev stk].  The listing is kept as the list of
   recorded stats (the byte framing is observed, not modelled here: the harness decodes the
   file with the real types.Stat.UnmarshalVT and the glue checks the 4-byte length framing
   arithmetically). *)
From Coq Require Import List NArith Bool.
From FS Require Import Sx Model.Path Model.Stat Model.Validator Model.Hardlinks.
Import ListNotations.
Open Scope bool_scope.

(* receive.go: const metadataPath = ".fsutil-metadata" *)
Definition listing_name : bytes :=
  [46; 102; 115; 117; 116; 105; 108; 45; 109; 101; 116; 97; 100; 97; 116; 97]%N.

Definition is_listing (s : stat) : bool := bytes_eqb (st_path s) listing_name.

(* what the receive loop handles after the skip *)
Definition recv_stream (stats : list stat) : list stat := filter (fun s => negb (is_listing s)) stats.

(* the change the receiver hands to Validator.HandleChange for a STAT *)
Definition vitem_of (s : stat) : vitem := {| vkind := 0; vpath := st_path s; visdir := st_is_dir s |}.

(* transcript of a run *)
Record result := {
  r_listing : list stat;            (* records appended to the metadata buffer, in order *)
  r_files : list (bytes * nat);     (* r.files[path] = id assignments, in order *)
  r_forwarded : list stat           (* w.update(cp) calls, in order *)
}.

Definition res_nil : result := {| r_listing := []; r_files := []; r_forwarded := [] |}.

(* "for { last, ok := peek(); if !ok || parent == last.path { break }; pop() }" *)
Fixpoint mpop (parent : bytes) (stk : list stat) : list stat :=
  match stk with
  | [] => []
  | t :: r => if bytes_eqb parent (st_path t) then stk else mpop parent r
  end.

Section MetaRecv.
Variable sel : stat -> bool.      (* r.metadataOnly(path, stat) *)

Fixpoint mrun (i : nat) (stk : list stat) (l : list stat) : result :=
  match l with
  | [] => res_nil
  | s :: r =>
    if is_listing s then mrun (S i) stk r
    else
      let stk1 := mpop (dir (st_path s)) stk in
      if sel s then
        let rest := mrun (S i) [] r in
        {| r_listing := s :: r_listing rest;
           r_files := (if mode_is_regular (st_mode s) then [(st_path s, i)] else []) ++ r_files rest;
           r_forwarded := rev stk1 ++ s :: r_forwarded rest |}
      else
        let rest := mrun (S i) (if st_is_dir s then s :: stk1 else stk1) r in
        {| r_listing := s :: r_listing rest;
           r_files := r_files rest;
           r_forwarded := r_forwarded rest |}
  end.

Definition meta_recv (stats : list stat) : result := mrun 0 [] stats.

(* the pending-ancestor stack after a prefix of the stream (diagnostics / examples) *)
Fixpoint mstack (stk : list stat) (l : list stat) : list stat :=
  match l with
  | [] => stk
  | s :: r =>
    if is_listing s then mstack stk r
    else
      let stk1 := mpop (dir (st_path s)) stk in
      if sel s then mstack [] r
      else mstack (if st_is_dir s then s :: stk1 else stk1) r
  end.

(* ---------- specification side ---------- *)

(* t lies strictly below the directory path a *)
Definition under (a t : bytes) : bool := has_prefix (a ++ [sep]) t.

(* entries the destination needs: selected ones and the directories above them *)
Definition needed (l : list stat) (s : stat) : bool :=
  sel s || (st_is_dir s && existsb (fun t => sel t && under (st_path s) (st_path t)) l).

(* the selector selects the link source of every hard link it selects *)
Definition link_closed (l : list stat) : bool :=
  forallb (fun x =>
    negb (sel x && hl_plain x && has_link x)
    || forallb (fun t => negb (bytes_eqb (st_path t) (st_linkname x)) || sel t) l) l.

(* ids the receiver may ask content for, by the property statement: positions (in the whole
   announced sequence) of selected regular entries other than the listing name *)
Fixpoint positions_from (i : nat) (f : stat -> bool) (l : list stat) : list nat :=
  match l with
  | [] => []
  | s :: r => (if f s then [i] else []) ++ positions_from (S i) f r
  end.
Definition selected_regular (s : stat) : bool :=
  negb (is_listing s) && sel s && mode_is_regular (st_mode s).

End MetaRecv.

(* the stream as the receiver's validators see it, and their joint verdict *)
Definition valid_stream (l : list stat) : Prop := run_validator (map vitem_of l) = None.
Definition valid_stream_b (l : list stat) : bool :=
  match run_validator (map vitem_of l) with None => true | Some _ => false end.
(* an announced entry depends on the skipped listing-name entry: it lies below it, or is a
   hard link to it.  The receiver never shows the skipped entry to its validators. *)
Definition listing_dependents (stats : list stat) : bool :=
  existsb (fun t => under listing_name (st_path t)
                    || (hl_plain t && bytes_eqb (st_linkname t) listing_name)) stats.

(* ---------- buffer.go: the chunked metadata buffer ----------
   A chunk is (bytes written so far, capacity); the buffer is kept LAST chunk first.
   alloc(n) followed by the caller filling the returned slice = [alloc_write] of the record:
     n > chunkSize            -> a chunk of its own (len = cap = n)
     fits in the last chunk   -> the last chunk grows
     otherwise                -> a new chunk of capacity chunkSize *)
Open Scope N_scope.
Definition chunk_size : N := 32768.

Definition alloc_write (b : list (bytes * N)) (rec : bytes) : list (bytes * N) :=
  let n := N.of_nat (length rec) in
  if N.ltb chunk_size n then (rec, n) :: b
  else match b with
       | (d, c) :: rest =>
         if N.leb (N.of_nat (length d) + n) c then (d ++ rec, c) :: rest
         else (rec, chunk_size) :: b
       | [] => [(rec, chunk_size)]
       end.

(* buffer.WriteTo: the chunks in allocation order *)
Definition buf_bytes (b : list (bytes * N)) : bytes := concat (map fst (rev b)).

(* ---------- selectors that write into the stat they are handed ----------
   r.metadataOnly(path, p.Stat) gets the live *types.Stat (not a clone, unlike ReceiveOpt.Filter)
   AFTER the record was framed into the metadata buffer.  Whatever it writes stays in p.Stat
   for the rest of the iteration — fileCanRequestData(mode), both validators, isDir, the pending
   stack, w.update — except the path, which "p.Stat.Path = path" restores.  So:
     sel s   the decision, taken on the stat as announced
     rw s    the stat as the selector leaves it
     seen    what the rest of the loop (and the diff / disk writer) works with
   and the listing records s itself.  [mrun] is the case rw = identity (pure predicates). *)
Definition seen (rw : stat -> stat) (s : stat) : stat := set_path (rw s) (st_path s).

Section MetaRecvRw.
Variable sel : stat -> bool.
Variable rw : stat -> stat.

Fixpoint mrun_rw (i : nat) (stk : list stat) (l : list stat) : result :=
  match l with
  | [] => res_nil
  | s :: r =>
    if is_listing s then mrun_rw (S i) stk r
    else
      let s' := seen rw s in
      let stk1 := mpop (dir (st_path s')) stk in
      if sel s then
        let rest := mrun_rw (S i) [] r in
        {| r_listing := s :: r_listing rest;
           r_files := (if mode_is_regular (st_mode s') then [(st_path s', i)] else []) ++ r_files rest;
           r_forwarded := rev stk1 ++ s' :: r_forwarded rest |}
      else
        let rest := mrun_rw (S i) (if st_is_dir s' then s' :: stk1 else stk1) r in
        {| r_listing := s :: r_listing rest;
           r_files := r_files rest;
           r_forwarded := r_forwarded rest |}
  end.

Definition meta_recv_rw (stats : list stat) : result := mrun_rw 0 [] stats.
End MetaRecvRw.

(* the side effects the harness gives its selectors (kind 1901, field rwk); [dec] = the decision
     0 none            1 uid/gid/mtime normalised on every entry      2 chmod go-rwx on selected entries
     3 normalised on selected entries only    4 normalised on rejected entries only
     5 = 1 + 2         6 = 1 + the path field overwritten *)
Definition norm_uid : N := 12.
Definition norm_gid : N := 34.
Definition norm_mtime : N := 981173106000000000.
Definition rw_norm (s : stat) : stat :=
  {| st_path := st_path s; st_mode := st_mode s; st_uid := norm_uid; st_gid := norm_gid; st_size := st_size s;
     st_mtime := norm_mtime; st_linkname := st_linkname s; st_devmajor := st_devmajor s;
     st_devminor := st_devminor s; st_xattrs := st_xattrs s |}.
Definition rw_chmod (s : stat) : stat :=
  {| st_path := st_path s; st_mode := N.ldiff (st_mode s) 63; st_uid := st_uid s; st_gid := st_gid s;
     st_size := st_size s; st_mtime := st_mtime s; st_linkname := st_linkname s;
     st_devmajor := st_devmajor s; st_devminor := st_devminor s; st_xattrs := st_xattrs s |}.
Definition rw_of (k : N) (dec : bool) (s : stat) : stat :=
  match k with
  | 1 => rw_norm s
  | 2 => if dec then rw_chmod s else s
  | 3 => if dec then rw_norm s else s
  | 4 => if dec then s else rw_norm s
  | 5 => let t := rw_norm s in if dec then rw_chmod t else t
  | 6 => set_path (rw_norm s) [120]
  | _ => s
  end.

(* ---------- the receiver's validators, in the order of the loop ----------
   Per handled STAT (decision d = selected, s = the stat as the selector left it): the order
   validator always; the hard-link validator ONLY if the entry is forwarded (!metaOnly): an
   entry that is only recorded in the listing never reaches the disk, so it cannot be the source
   of a hard link that does (the pending parents replayed later are directories, which the
   hard-link validator skips anyway).  Result: index (among the handled STATs) of the first
   rejected entry — Receive returns the error there, BEFORE the replay / w.update of that
   entry —, None = all accepted. *)
Fixpoint first_reject_d (stk : list ventry) (sp : list bytes) (l : list (bool * stat)) (i : nat) : option nat :=
  match l with
  | [] => None
  | (d, s) :: r =>
    match vstep stk (vitem_of s) with
    | None => Some i
    | Some stk' =>
      if d then match hl_step sp s with
                | None => Some i
                | Some sp' => first_reject_d stk' sp' r (S i)
                end
      else first_reject_d stk' sp r (S i)
    end
  end.
Definition first_reject (sel : stat -> bool) (l : list stat) : option nat :=
  first_reject_d vinit [] (map (fun s => (sel s, s)) l) 0.
Definition first_reject_rw (sel : stat -> bool) (rw : stat -> stat) (l : list stat) : option nat :=
  first_reject_d vinit [] (map (fun s => (sel s, seen rw s)) l) 0.

(* "the real receiver accepts" *)
Definition recv_accepts (sel : stat -> bool) (stats : list stat) : bool :=
  match first_reject sel (recv_stream stats) with None => true | Some _ => false end.
Definition recv_accepts_rw (sel : stat -> bool) (rw : stat -> stat) (stats : list stat) : bool :=
  match first_reject_rw sel rw (recv_stream stats) with None => true | Some _ => false end.

(* what has been handed to the diff / writer when the receive loop ends: everything needed, or —
   on a rejection at index k — what the first k handled STATs caused *)
Definition applied (sel : stat -> bool) (l : list stat) : list stat :=
  match first_reject sel l with
  | None => r_forwarded (mrun sel 0 [] l)
  | Some k => r_forwarded (mrun sel 0 [] (firstn k l))
  end.
