(* C03 — the stream-only specification of a bad stream (executable): it looks at the packets
   alone, never at the receiver's state or the file system.
     - a STAT whose path is not a clean relative path inside the root, not strictly after all
       earlier paths, or whose parent was not sent earlier as a directory (the C12 specification
       spec_ok_b of Model/Validator.v);
     - a hard link (no directory, no symlink, non-empty Linkname) to a path no earlier STAT named;
     - content for an id that no earlier STAT announced as a regular file (mode without type
       bits, empty Linkname).
   Packets after FIN are never looked at; ERR ends the stream.
   With ReceiveOpt.MetadataOnly ([spec_bad_m]): a STAT whose path is the listing name
   ".fsutil-metadata" is skipped by the receiver (it only takes an id), only entries the
   selector transfers in full may get content or be the source of a hard link that is
   transferred. *)
From Coq Require Import List NArith Bool.
From FS Require Import Sx Model.Path Model.Stat Model.Validator Model.Fs Model.DiskWriterFs Model.RecvMeta.
Import ListNotations.
Open Scope N_scope.
Open Scope bool_scope.

Fixpoint memN (x : N) (l : list N) : bool := match l with [] => false | y :: r => N.eqb x y || memN x r end.

Record sspec := { ss_acc : list vitem; ss_paths : list bytes; ss_next : N; ss_ids : list N }.

Definition is_hardlink_stat (st : stat) : bool :=
  negb (st_is_dir st) && negb (mode_is_symlink (st_mode st)) && negb (is_nil (st_linkname st)).

Definition sspec_stat (s : sspec) (st : stat) : sspec :=
  {| ss_acc := ss_acc s ++ [item_of st]; ss_paths := st_path st :: ss_paths s; ss_next := ss_next s + 1;
     ss_ids := if mode_is_regular (st_mode st) && is_nil (st_linkname st) then ss_next s :: ss_ids s else ss_ids s |}.

Definition stat_bad (s : sspec) (st : stat) : bool :=
  negb (spec_ok_b (ss_acc s) (item_of st))
  || (is_hardlink_stat st && negb (mem_bytes (st_linkname st) (ss_paths s))).

Fixpoint spec_bad (pks : list packet) (s : sspec) (i : nat) : option nat :=
  match pks with
  | [] => None
  | PFin :: _ => None
  | PErr :: _ => None
  | POther :: r => spec_bad r s (S i)
  | PStat None :: r => spec_bad r s (S i)
  | PStat (Some st) :: r => if stat_bad s st then Some i else spec_bad r (sspec_stat s st) (S i)
  | PData id d :: r => if negb (memN id (ss_ids s)) then Some i else spec_bad r s (S i)
  end.
Definition sspec_init : sspec := {| ss_acc := []; ss_paths := []; ss_next := 0; ss_ids := [] |}.

Definition sspec_stat_m (sel : stat -> bool) (s : sspec) (st : stat) : sspec :=
  {| ss_acc := ss_acc s ++ [item_of st];
     ss_paths := if sel st then st_path st :: ss_paths s else ss_paths s;     (* what reaches the disk *)
     ss_next := ss_next s + 1;
     ss_ids := if sel st && mode_is_regular (st_mode st) && is_nil (st_linkname st) then ss_next s :: ss_ids s else ss_ids s |}.
(* an entry that is only recorded must still be in order; one that is transferred must, if it
   is a hard link, name an entry that was transferred *)
Definition stat_bad_m (sel : stat -> bool) (s : sspec) (st : stat) : bool :=
  negb (spec_ok_b (ss_acc s) (item_of st))
  || (sel st && is_hardlink_stat st && negb (mem_bytes (st_linkname st) (ss_paths s))).
Definition sspec_skip (s : sspec) : sspec :=
  {| ss_acc := ss_acc s; ss_paths := ss_paths s; ss_next := ss_next s + 1; ss_ids := ss_ids s |}.

Fixpoint spec_bad_m (sel : stat -> bool) (pks : list packet) (s : sspec) (i : nat) : option nat :=
  match pks with
  | [] => None
  | PFin :: _ => None
  | PErr :: _ => None
  | POther :: r => spec_bad_m sel r s (S i)
  | PStat None :: r => spec_bad_m sel r s (S i)
  | PStat (Some st) :: r =>
    if is_listing st then spec_bad_m sel r (sspec_skip s) (S i)
    else if stat_bad_m sel s st then Some i else spec_bad_m sel r (sspec_stat_m sel s st) (S i)
  | PData id d :: r => if negb (memN id (ss_ids s)) then Some i else spec_bad_m sel r s (S i)
  end.

Definition spec_bad_opt (mo : option (stat -> bool)) (pks : list packet) : option nat :=
  match mo with None => spec_bad pks sspec_init 0 | Some sel => spec_bad_m sel pks sspec_init 0 end.
