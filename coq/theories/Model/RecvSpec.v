(* C03 — the stream-only specification of a bad stream (executable): it looks at the packets
   alone, never at the receiver's state or the file system.
     - a STAT whose path is not a clean relative path inside the root, not strictly after all
       earlier paths, or whose parent was not sent earlier as a directory (the C12 specification
       spec_ok_b of Model/Validator.v);
     - a hard link (no directory, no symlink, non-empty Linkname) to a path no earlier STAT named;
     - content for an id that no earlier STAT announced as a regular file (mode without type
       bits, empty Linkname).
   Packets after FIN are never looked at; ERR ends the stream.
   With ReceiveOpt.MetadataOnly ([spec_bad_m]): a STAT whose path is the listing name
   ".fsutil-metadata" is skipped by the receiver (it only takes an id), only entries the
   selector transfers in full may get content or be the source of a hard link that is
   transferred. *)
From Coq Require Import List NArith Bool.
From FS Require Import Sx Model.Path Model.Stat Model.Validator Model.Fs Model.DiskWriterFs Model.RecvMeta.
Import ListNotations.
Open Scope N_scope.
Open Scope bool_scope.

Fixpoint memN (x : N) (l : list N) : bool := match l with [] => false | y :: r => N.eqb x y || memN x r end.

Record sspec := { ss_acc : list vitem; ss_paths : list bytes; ss_next : N; ss_ids : list N }.

Definition is_hardlink_stat (st : stat) : bool :=
  negb (st_is_dir st) && negb (mode_is_symlink (st_mode st)) && negb (is_nil (st_linkname st)).

Definition sspec_stat (s : sspec) (st : stat) : sspec :=
  {| ss_acc := ss_acc s ++ [item_of st]; ss_paths := st_path st :: ss_paths s; ss_next := ss_next s + 1;
     ss_ids := if mode_is_regular (st_mode st) && is_nil (st_linkname st) then ss_next s :: ss_ids s else ss_ids s |}.

Definition stat_bad (s : sspec) (st : stat) : bool :=
  negb (spec_ok_b (ss_acc s) (item_of st))
  || (is_hardlink_stat st && negb (mem_bytes (st_linkname st) (ss_paths s))).

Fixpoint spec_bad (pks : list packet) (s : sspec) (i : nat) : option nat :=
  match pks with
  | [] => None
  | PFin :: _ => None
  | PErr :: _ => None
  | POther :: r => spec_bad r s (S i)
  | PStat None :: r => spec_bad r s (S i)
  | PStat (Some st) :: r => if stat_bad s st then Some i else spec_bad r (sspec_stat s st) (S i)
  | PData id d :: r => if negb (memN id (ss_ids s)) then Some i else spec_bad r s (S i)
  end.
Definition sspec_init : sspec := {| ss_acc := []; ss_paths := []; ss_next := 0; ss_ids := [] |}.

Definition sspec_stat_m (sel : stat -> bool) (s : sspec) (st : stat) : sspec :=
  {| ss_acc := ss_acc s ++ [item_of st];
     ss_paths := if sel st then st_path st :: ss_paths s else ss_paths s;     (* what reaches the disk *)
     ss_next := ss_next s + 1;
     ss_ids := if sel st && mode_is_regular (st_mode st) && is_nil (st_linkname st) then ss_next s :: ss_ids s else ss_ids s |}.
(* an entry that is only recorded must still be in order; one that is transferred must, if it
   is a hard link, name an entry that was transferred *)
Definition stat_bad_m (sel : stat -> bool) (s : sspec) (st : stat) : bool :=
  negb (spec_ok_b (ss_acc s) (item_of st))
  || (sel st && is_hardlink_stat st && negb (mem_bytes (st_linkname st) (ss_paths s))).
Definition sspec_skip (s : sspec) : sspec :=
  {| ss_acc := ss_acc s; ss_paths := ss_paths s; ss_next := ss_next s + 1; ss_ids := ss_ids s |}.

Fixpoint spec_bad_m (sel : stat -> bool) (pks : list packet) (s : sspec) (i : nat) : option nat :=
  match pks with
  | [] => None
  | PFin :: _ => None
  | PErr :: _ => None
  | POther :: r => spec_bad_m sel r s (S i)
  | PStat None :: r => spec_bad_m sel r s (S i)
  | PStat (Some st) :: r =>
    if is_listing st then spec_bad_m sel r (sspec_skip s) (S i)
    else if stat_bad_m sel s st then Some i else spec_bad_m sel r (sspec_stat_m sel s st) (S i)
  | PData id d :: r => if negb (memN id (ss_ids s)) then Some i else spec_bad_m sel r s (S i)
  end.

Definition spec_bad_opt (mo : option (stat -> bool)) (pks : list packet) : option nat :=
  match mo with None => spec_bad pks sspec_init 0 | Some sel => spec_bad_m sel pks sspec_init 0 end.

(* ---- content for an id whose transfer has already ended (oracle of kind 0302 only) ----
   The first DATA packet (with or without bytes) for an id that an earlier STAT announced as a
   regular file to be transferred and that an earlier empty DATA packet has terminated.  Result:
   the index of the packet, the path of the id, and the bytes that were sent for the id before
   its terminator.  The receiver must fail, and what is stored under the path afterwards must
   not contain anything sent after the terminator.  [reg]: which STATs announce such an id
   (without MetadataOnly: regular, no link name). *)
Record lspec := { ls_next : N; ls_paths : list (N * bytes); ls_data : list (N * bytes); ls_term : list N }.
Definition lspec_init : lspec := {| ls_next := 0; ls_paths := []; ls_data := []; ls_term := [] |}.

Fixpoint spec_late (reg : stat -> bool) (pks : list packet) (s : lspec) (i : nat) : option (nat * bytes * bytes) :=
  match pks with
  | [] => None
  | PFin :: _ => None
  | PErr :: _ => None
  | POther :: r => spec_late reg r s (S i)
  | PStat None :: r => spec_late reg r s (S i)
  | PStat (Some st) :: r =>
    spec_late reg r {| ls_next := ls_next s + 1;
                       ls_paths := if reg st then (ls_next s, st_path st) :: ls_paths s else ls_paths s;
                       ls_data := ls_data s; ls_term := ls_term s |} (S i)
  | PData id d :: r =>
    match alookup id (ls_paths s) with
    | None => spec_late reg r s (S i)
    | Some p =>
      let pre := match alookup id (ls_data s) with Some b => b | None => [] end in
      if memN id (ls_term s) then Some (i, p, pre)
      else if is_nil d then
        spec_late reg r {| ls_next := ls_next s; ls_paths := ls_paths s; ls_data := ls_data s; ls_term := id :: ls_term s |} (S i)
      else
        spec_late reg r {| ls_next := ls_next s; ls_paths := ls_paths s; ls_data := aset id (pre ++ d) (ls_data s);
                           ls_term := ls_term s |} (S i)
    end
  end.

Definition late_reg (mo : option (stat -> bool)) (st : stat) : bool :=
  mode_is_regular (st_mode st) && is_nil (st_linkname st)
  && match mo with Some sel => sel st && negb (is_listing st) | None => true end.
Definition spec_late_opt (mo : option (stat -> bool)) (pks : list packet) : option (nat * bytes * bytes) :=
  spec_late (late_reg mo) pks lspec_init 0.
