(* L6 — protobuf base-128 varints as written/read by the vtprotobuf generated code
   (protohelpers.EncodeVarint / SizeOfVarint and the inlined decoding loops).

   Values are N.  A uint64 is an N below 2^64; an int64 is sent as its two's complement
   (mod 2^64), exactly what `uint64(m.Size)` does in Go. *)
From Coq Require Import List NArith Bool.
From FS Require Import Sx.
Import ListNotations.
Open Scope N_scope.

Definition two7  : N := 128.
Definition two31 : N := 2147483648.
Definition two32 : N := 4294967296.
Definition two63 : N := 9223372036854775808.
Definition two64 : N := 18446744073709551616.

(* length of a byte string as N (no unary detour) *)
Fixpoint len (l : bytes) : N :=
  match l with
  | [] => 0
  | _ :: r => N.succ (len r)
  end.

(* protohelpers.EncodeVarint:  for v >= 1<<7 { emit v&0x7f|0x80; v >>= 7 }; emit v
   A uint64 needs at most 9 continuation bytes; fuel 9 is exact for v < 2^64
   (after 9 shifts v < 2), the out-of-fuel branch is unreachable below 2^64. *)
Fixpoint put_varint_f (fuel : nat) (v : N) : bytes :=
  match fuel with
  | O => [v]
  | S f => if v <? two7 then [v] else (v mod two7 + two7) :: put_varint_f f (v / two7)
  end.
Definition put_varint (v : N) : bytes := put_varint_f 9 v.

(* number of base-128 digits = what the encoder emits *)
Fixpoint size_varint_f (fuel : nat) (v : N) : N :=
  match fuel with
  | O => 1
  | S f => if v <? two7 then 1 else N.succ (size_varint_f f (v / two7))
  end.
Definition size_varint (v : N) : N := size_varint_f 9 v.

(* protohelpers.SizeOfVarint, literally: (bits.Len64(x|1) + 6) / 7 *)
Definition sov (v : N) : N := (N.size (N.lor v 1) + 6) / 7.

(* The decoding loop that the generated code inlines everywhere:
     for shift := 0; ; shift += 7 {
        if shift >= 64 { ErrIntOverflow }        -- an 11th byte is never read
        if iNdEx >= l  { io.ErrUnexpectedEOF }
        b := dAtA[iNdEx]; iNdEx++
        acc |= uint64(b&0x7F) << shift            -- bits above 63 fall off
        if b < 0x80 { break } }
   get_varint_raw returns the untruncated sum of the 7-bit groups, get_varint
   truncates to 64 bits (the 10th byte may carry 6 bits that are dropped: the
   generated code does NOT reject them, unlike the generic runtime). *)
Fixpoint get_varint_raw (fuel : nat) (l : bytes) : option (N * bytes) :=
  match fuel with
  | O => None
  | S f =>
    match l with
    | [] => None
    | b :: r =>
      if b <? two7 then Some (b, r)
      else match get_varint_raw f r with
           | Some (v, r') => Some (b mod two7 + two7 * v, r')
           | None => None
           end
    end
  end.

Definition get_varint (l : bytes) : option (N * bytes) :=
  match get_varint_raw 10 l with
  | Some (v, r) => Some (v mod two64, r)
  | None => None
  end.

(* big-endian uint32 of the stream framing *)
Definition be32 (n : N) : bytes :=
  [ (n / 16777216) mod 256; (n / 65536) mod 256; (n / 256) mod 256; n mod 256 ].
Definition be32_dec (h : bytes) : N :=
  match h with
  | [a; b; c; d] => ((a * 256 + b) * 256 + c) * 256 + d
  | _ => 0
  end.
