(* L4 — filterFS.Walk (filter.go) over the WalkDir semantics of a view (Model/Tree):

     wd_node / wd_forest   fs.WalkDir as MemFS / the real walker implement it: the callback may
                           return SkipDir; on a directory its contents are skipped, on a
                           non-directory the REST OF ITS DIRECTORY is skipped
     cb                    the closure filterFS.Walk hands to the underlying FS: parentDirs stack
                           of visitedDir, prefix popping, MatchesUsingParentResults with the
                           parent's MatchInfo, both SkipDir shortcuts (guarded by the flags
                           NewFilterFS computes from the pattern strings), skip, map function,
                           lazy emission of parents (calledFn / skipFn)
     filter_walk           what the consumer's callback is called with, in order
     no_prune              the same walk with both shortcuts switched off
     reference             the declarative reference (no stack, no flags, no matcher state):
                           a function of a verdict on paths and the map function

   Assumed, not modelled: the consumer's callback returns nil; no walk errors (walkErr == nil,
   Info() succeeds), context never cancelled; the map function is a pure function of
   (path, stat) (a nil Map is [fun _ s => (MKeep, s)]); FollowPaths is empty. *)
From Coq Require Import List NArith Bool.
From FS Require Import Sx Model.Path Model.Stat Model.Tree Model.Pattern.
Import ListNotations.
Open Scope bool_scope.

Inductive mres := MKeep | MExclude | MSkipDir.

Record cfg := {
  c_inc : option (list pat);    (* includeMatcher (None = nil: no include patterns given) *)
  c_exc : option (list pat);    (* excludeMatcher *)
  c_prune : bool                (* true: the code as it is; false: shortcuts disabled *)
}.
Definition no_prune (c : cfg) : cfg := {| c_inc := c_inc c; c_exc := c_exc c; c_prune := false |}.

Definition is_some {A} (o : option A) : bool := match o with Some _ => true | None => false end.
Definition use_match (c : cfg) : bool := is_some (c_inc c) || is_some (c_exc c).

(* NewFilterFS: matchers exist iff the raw lists are non-empty; None = New returned an error *)
Definition side (raws : list bytes) : option (option (list pat)) :=
  match raws with
  | [] => Some None
  | _ => match normalize raws with Some ps => Some (Some ps) | None => None end
  end.
Definition mk_cfg (inc_raw exc_raw : list bytes) : option cfg :=
  match side inc_raw, side exc_raw with
  | Some i, Some e => Some {| c_inc := i; c_exc := e; c_prune := true |}
  | _, _ => None
  end.

(* visitedDir *)
Record vdir := {
  vd_stat : stat;          (* entry (Info() of the directory), Path filled in *)
  vd_pws : bytes;          (* pathWithSep *)
  vd_inc : list bool;      (* includeMatchInfo.parentMatched *)
  vd_exc : list bool;      (* excludeMatchInfo.parentMatched *)
  vd_called : bool;        (* calledFn *)
  vd_skip : bool           (* skipFn *)
}.
Definition set_called (v : vdir) : vdir :=
  {| vd_stat := vd_stat v; vd_pws := vd_pws v; vd_inc := vd_inc v; vd_exc := vd_exc v;
     vd_called := true; vd_skip := vd_skip v |}.
Definition set_skip (v : vdir) : vdir :=
  {| vd_stat := vd_stat v; vd_pws := vd_pws v; vd_inc := vd_inc v; vd_exc := vd_exc v;
     vd_called := vd_called v; vd_skip := true |}.

(* ---------- WalkDir with a state-passing callback ---------- *)
Section WalkDir.
Variable S : Type.
(* state -> path -> stat (Path set) -> isDir -> (state', calls made to the consumer, SkipDir?) *)
Variable cb : S -> bytes -> stat -> bool -> S * list stat * bool.

(* result: state, emitted, "skip the rest of the enclosing directory" *)
Fixpoint wd_node (dir : bytes) (n : node) (s : S) {struct n} : S * list stat * bool :=
  match n with
  | Node name st _ kids =>
    let p := child_path dir name in
    let isd := st_is_dir st in
    let '(s1, em, skip) := cb s p (set_path st p) isd in
    if skip then (s1, em, negb isd)
    else if isd then
      let '(s2, em2) :=
        (fix kids_go (l : list node) (s : S) : S * list stat :=
           match l with
           | [] => (s, [])
           | k :: r =>
             let '(s', e, rest) := wd_node p k s in
             if rest then (s', e)
             else let '(s'', e') := kids_go r s' in (s'', e ++ e')
           end) kids s1 in
      (s2, em ++ em2, false)
    else (s1, em, false)
  end.

Fixpoint wd_forest (dir : bytes) (l : list node) (s : S) : S * list stat :=
  match l with
  | [] => (s, [])
  | k :: r =>
    let '(s', e, rest) := wd_node dir k s in
    if rest then (s', e)
    else let '(s'', e') := wd_forest dir r s' in (s'', e ++ e')
  end.
End WalkDir.

(* ---------- the filter callback ---------- *)
Section Filter.
Variable pmatch : bytes -> bytes -> bool.
Variable mapfn : bytes -> stat -> mres * stat.
Variable c : cfg.

(* for len(parentDirs) != 0 { if HasPrefix(path, last.pathWithSep) break; pop } ; head = last *)
Fixpoint pop (path : bytes) (pd : list vdir) : list vdir :=
  match pd with
  | [] => []
  | v :: r => if has_prefix (vd_pws v) path then pd else pop path r
  end.

(* for i, parentDir := range parentDirs {...}: outermost first.
   result: updated dirs, emitted parents, aborted (SkipDir returned) *)
Fixpoint lazy_go (pds : list vdir) : list vdir * list stat * bool :=
  match pds with
  | [] => ([], [], false)
  | v :: r =>
    if vd_skip v then (pds, [], true)
    else if vd_called v then
      let '(r', em, ab) := lazy_go r in (v :: r', em, ab)
    else
      match mapfn (st_path (vd_stat v)) (vd_stat v) with
      | (MExclude, _) => let '(r', em, ab) := lazy_go r in (v :: r', em, ab)
      | (MSkipDir, _) => (set_skip v :: r, [], true)
      | (MKeep, s') => let '(r', em, ab) := lazy_go r in (set_called v :: r', s' :: em, ab)
      end
  end.
Definition lazy_parents (pd : list vdir) : list vdir * list stat * bool :=
  let '(l, em, ab) := lazy_go (rev pd) in (rev l, em, ab).

Record cbres := {
  r_stack : list vdir;        (* parentDirs before the deferred append *)
  r_push : option vdir;       (* the deferred  parentDirs = append(parentDirs, dir) *)
  r_em : list stat;           (* calls fn(...) made, in order *)
  r_skip : bool               (* SkipDir returned *)
}.

Definition top_inc (pd : list vdir) : list bool := match pd with v :: _ => vd_inc v | [] => [] end.
Definition top_exc (pd : list vdir) : list bool := match pd with v :: _ => vd_exc v | [] => [] end.

Definition eval_inc (path : bytes) (pd : list vdir) : bool * list bool :=
  match c_inc c with Some pats => incr_eval pmatch pats path (top_inc pd) | None => (true, []) end.
Definition eval_exc (path : bytes) (pd : list vdir) : bool * list bool :=
  match c_exc c with Some pats => incr_eval pmatch pats path (top_exc pd) | None => (false, []) end.

Definition prune_inc (path : bytes) (isdir minc : bool) : bool :=
  match c_inc c with
  | Some pats => negb minc && isdir && c_prune c && only_prefix_includes pats
                 && negb (reaches_into false pats path)
  | None => false
  end.
Definition prune_exc (path : bytes) (isdir mexc : bool) : bool :=
  match c_exc c with
  | Some pats => mexc && isdir && c_prune c && only_prefix_exclude_exceptions pats
                 && (negb (exclusions pats) || negb (reaches_into true pats path))
  | None => false
  end.

(* the body after the popping loop; pd1 = parentDirs at that point *)
Definition cb_core (pd1 : list vdir) (path : bytes) (st : stat) (isdir : bool) : cbres :=
  let ri := eval_inc path pd1 in
  if prune_inc path isdir (fst ri) then
    {| r_stack := pd1; r_push := None; r_em := []; r_skip := true |}
  else
  let re := eval_exc path pd1 in
  if prune_exc path isdir (fst re) then
    {| r_stack := pd1; r_push := None; r_em := []; r_skip := true |}
  else
  let skip := negb (fst ri) || fst re in
  let dir := {| vd_stat := st; vd_pws := path ++ [sep]; vd_inc := snd ri; vd_exc := snd re;
                vd_called := negb skip; vd_skip := false |} in
  let push := if isdir && use_match c then Some dir else None in
  if skip then {| r_stack := pd1; r_push := push; r_em := []; r_skip := false |}
  else
    match mapfn path st with
    | (MSkipDir, _) => {| r_stack := pd1; r_push := push; r_em := []; r_skip := true |}
    | (MExclude, _) => {| r_stack := pd1; r_push := push; r_em := []; r_skip := false |}
    | (MKeep, st') =>
      let '(pd2, em, ab) := lazy_parents pd1 in
      if ab then {| r_stack := pd2; r_push := push; r_em := em; r_skip := true |}
      else {| r_stack := pd2; r_push := push; r_em := em ++ [st']; r_skip := false |}
    end.

Definition pushed (r : cbres) : list vdir :=
  match r_push r with Some d => d :: r_stack r | None => r_stack r end.

Definition cb (pd : list vdir) (path : bytes) (st : stat) (isdir : bool) : list vdir * list stat * bool :=
  let pd1 := if use_match c then pop path pd else pd in
  let r := cb_core pd1 path st isdir in
  (pushed r, r_em r, r_skip r).

(* Walk(ctx, "/", fn): the stats fn is called with, in order *)
Definition filter_walk (view : list node) : list stat :=
  snd (wd_forest (list vdir) cb [] view []).

End Filter.

(* ---------- the reference ---------- *)
(* [V p]: the entry with path p is selected by the patterns (included and not excluded).
   An entry is a CANDIDATE if it is selected and the map function keeps it.  The walk
   reaches an entry unless a selected ancestor, or a selected non-directory earlier in the
   directory of the entry or of one of its ancestors, was answered SkipDir by the map
   function.  Reported are, each once, in walk order, with the stat the map function
   returned:
     - reached candidates, and
     - unselected directories the map function keeps that have a reached candidate below
       them  (ancestors of selected entries),
   except below an unselected directory that the map function answers SkipDir ("blocked"):
   there nothing is reported.
   Result of ref_node: reports, "a reached candidate exists in the subtree", "the rest of
   the enclosing directory is not reached". *)
Section Reference.
Variable V : bytes -> bool.
Variable mapfn : bytes -> stat -> mres * stat.

Fixpoint ref_node (blocked : bool) (dir : bytes) (n : node) {struct n} : list stat * bool * bool :=
  match n with
  | Node name st0 _ kids =>
    let p := child_path dir name in
    let st := set_path st0 p in
    let isd := st_is_dir st0 in
    let below (b : bool) : list stat * bool :=
      if isd then
        (fix kids_go (l : list node) : list stat * bool :=
           match l with
           | [] => ([], false)
           | k :: r =>
             let '(e, f, cut) := ref_node b p k in
             if cut then (e, f) else let '(e', f') := kids_go r in (e ++ e', f || f')
           end) kids
      else ([], false) in
    let '(res, st') := mapfn p st in
    if V p then
      match res with
      | MSkipDir => ([], false, negb isd)
      | MExclude => let '(e, f) := below blocked in (e, f, false)
      | MKeep => let '(e, _) := below blocked in ((if blocked then [] else [st']) ++ e, true, false)
      end
    else
      let '(e, f) := below (blocked || match res with MSkipDir => true | _ => false end) in
      ((if f && negb blocked && match res with MKeep => true | _ => false end then [st'] else []) ++ e,
       f, false)
  end.

Fixpoint ref_forest (blocked : bool) (dir : bytes) (l : list node) : list stat * bool :=
  match l with
  | [] => ([], false)
  | k :: r =>
    let '(e, f, cut) := ref_node blocked dir k in
    if cut then (e, f) else let '(e', f') := ref_forest blocked dir r in (e ++ e', f || f')
  end.

Definition reference (view : list node) : list stat := fst (ref_forest false [] view).
End Reference.

(* verdicts on paths *)
Section Verdicts.
Variable pmatch : bytes -> bytes -> bool.
Variable c : cfg.

(* the walk's verdict: MatchesUsingParentResults handed down from the root *)
Definition keep_incr (p : bytes) : bool :=
  match c_inc c with Some pats => incr_path pmatch pats (pcomps p) | None => true end
  && negb match c_exc c with Some pats => incr_path pmatch pats (pcomps p) | None => false end.

(* the naive verdict: MatchesOrParentMatches on the full path (what filterFS.Open uses) *)
Definition keep_naive (p : bytes) : bool :=
  match c_inc c with Some pats => naive pmatch pats p | None => true end
  && negb match c_exc c with Some pats => naive pmatch pats p | None => false end.

Definition nls_path (p : bytes) : bool :=
  match c_inc c with Some pats => no_late_shadow pmatch pats (pcomps p) | None => true end
  && match c_exc c with Some pats => no_late_shadow pmatch pats (pcomps p) | None => true end.
End Verdicts.

(* the literal of every L/* pattern the shortcuts rely on is regex-safe *)
Definition cfg_star_safe (c : cfg) : bool :=
  match c_inc c with Some pats => star_safe false pats | None => true end
  && match c_exc c with Some pats => star_safe true pats | None => true end.

(* well-formed views: names are non-empty and contain no separator *)
Fixpoint wf_node (n : node) : bool :=
  match n with
  | Node name _ _ kids => negb (is_nil name) && no_sep name && forallb wf_node kids
  end.
Definition wf_view (v : list node) : bool := forallb wf_node v.

(* names additionally different from "." and ".." (what a directory listing can contain) *)
Definition name_ok (name : bytes) : bool :=
  negb (is_nil name) && no_sep name && negb (bytes_eqb name s_dot) && negb (bytes_eqb name s_dotdot).
Fixpoint wf_strict_node (n : node) : bool :=
  match n with
  | Node name _ _ kids => name_ok name && forallb wf_strict_node kids
  end.
Definition wf_strict (v : list node) : bool := forallb wf_strict_node v.

(* a boolean predicate holds for the path of every entry of the view *)
Fixpoint all_paths_node (Q : bytes -> bool) (dir : bytes) (n : node) : bool :=
  match n with
  | Node name _ _ kids =>
    let p := child_path dir name in
    Q p && forallb (all_paths_node Q p) kids
  end.
Definition all_paths (Q : bytes -> bool) (v : list node) : bool := forallb (all_paths_node Q []) v.

(* the map function that a nil FilterOpt.Map stands for *)
Definition id_map (p : bytes) (s : stat) : mres * stat := (MKeep, s).

(* ---------- the statement of the property, literally, for a nil map function ----------
   test every entry of the full tree (walk_root) with the verdict V; keep those selected; add
   the ancestors of kept entries (entries whose path followed by '/' is a prefix of a kept
   entry's path); in walk order, each once *)
Definition selected_or_above (V : bytes -> bool) (all : list entry) (e : entry) : bool :=
  let p := st_path (fst e) in
  V p || existsb (fun e' => has_prefix (p ++ [sep]) (st_path (fst e')) && V (st_path (fst e'))) all.
Definition flat_reference (V : bytes -> bool) (view : list node) : list stat :=
  map fst (filter (selected_or_above V (walk_root view)) (walk_root view)).

(* views as a file system presents them: sibling names distinct, only directories have children *)
Fixpoint distinct (l : list bytes) : bool :=
  match l with [] => true | a :: r => negb (existsb (bytes_eqb a) r) && distinct r end.
Fixpoint wf_tree_node (n : node) : bool :=
  match n with
  | Node name st _ kids =>
    negb (is_nil name) && no_sep name && (st_is_dir st || is_nil kids)
    && distinct (map node_name kids) && forallb wf_tree_node kids
  end.
Definition wf_tree (v : list node) : bool := distinct (map node_name v) && forallb wf_tree_node v.
