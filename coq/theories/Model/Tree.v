(* L3 — file-system views as trees, and the canonical walk (what an fsutil.FS
   reports through Walk): depth first, children in the order stored (the harness
   and os.ReadDir sort them bytewise by name), each directory before its contents,
   the root itself never reported, Stat.Path = names joined with '/'. *)
From Coq Require Import List NArith Bool.
From FS Require Import Sx Model.Path Model.Stat.
Import ListNotations.

(* a node: name, stat (its st_path is ignored; the walk fills it in), content (regular
   files), children (directories) *)
Inductive node : Type :=
| Node (name : bytes) (st : stat) (content : bytes) (kids : list node).

Definition node_name (n : node) : bytes := match n with Node a _ _ _ => a end.
Definition node_stat (n : node) : stat := match n with Node _ s _ _ => s end.
Definition node_content (n : node) : bytes := match n with Node _ _ c _ => c end.
Definition node_kids (n : node) : list node := match n with Node _ _ _ k => k end.

Definition child_path (dir name : bytes) : bytes :=
  match dir with [] => name | _ => dir ++ sep :: name end.

(* entries reported by a walk: (stat with full path, content) *)
Definition entry := (stat * bytes)%type.

Fixpoint walk_node (dir : bytes) (n : node) {struct n} : list entry :=
  match n with
  | Node name st content kids =>
    let p := child_path dir name in
    (set_path st p, content) ::
    (fix walk_kids (l : list node) : list entry :=
       match l with
       | [] => []
       | k :: r => walk_node p k ++ walk_kids r
       end) kids
  end.

Fixpoint walk_forest (dir : bytes) (l : list node) : list entry :=
  match l with
  | [] => []
  | k :: r => walk_node dir k ++ walk_forest dir r
  end.

(* the whole view: children of the (unreported) root *)
Definition walk_root (roots : list node) : list entry := walk_forest [] roots.

(* ---- exchange format: node = (name stat content (child ...)); view = (node ...) ---- *)
Fixpoint dec_node_fuel (fuel : nat) (s : sx) : option node :=
  match fuel with
  | O => None
  | S f =>
    match s with
    | SL [SB name; st; SB content; SL kids] =>
      s' <- dec_stat st ;;
      ks <- omap (dec_node_fuel f) kids ;;
      Some (Node name s' content ks)
    | _ => None
    end
  end.

Definition dec_view (s : sx) : option (list node) := sx_list (dec_node_fuel 64) s.

Definition enc_entry (e : entry) : sx := SL [enc_stat (fst e); SB (snd e)].
