(* L3 — the disk walker:  fs.Walk (fs.go) over filepath.WalkDir, DirEntryInfo.Info,
   mkstat (stat.go) + setUnixOpt / loadXattr / major / minor (stat_unix.go),
   subDirFS.Walk / SubDirFS (fs.go).

   Input of the model = what the kernel reports: a tree of raw lstat records
   ([lrec] = st_mode, uid, gid, size, mtime ns, rdev, ino, nlink, readlink target,
   xattrs).  The model is layered like the Go code:

     sort_tree      os.ReadDir sorts every directory bytewise by name
     entries_*      filepath.WalkDir: depth first, directory before its contents,
                    path of a child = path of its directory + "/" + name, relative to
                    the walked root (filepath.Rel), the root itself skipped
     mkstat         stat.go mkstat + setUnixOpt, assignment by assignment
     scan           the callback of fs.Walk applied to the WalkDir sequence, threading
                    the seenFiles map (inode -> first path)
     walk / walk_at fs.Walk(ctx, "" | target, fn)
     walk_subdirs   SubDirFS(dirs).Walk(ctx, target, fn)

   The second half of the file is the executable *specification* of C09 (predicates over
   a callback list and an independent lstat snapshot); it never calls the model. *)
From Coq Require Import List NArith Bool.
From FS Require Import Sx Model.Path Model.Stat.
Import ListNotations.
Open Scope N_scope.
Open Scope bool_scope.

(* ---------- raw lstat record and disk tree ---------- *)
Record lrec := {
  l_mode : N;      (* st_mode: S_IFMT type, setuid/setgid/sticky, permission bits *)
  l_uid : N;
  l_gid : N;
  l_size : N;      (* st_size (int64 mod 2^64) *)
  l_mtime : N;     (* st_mtim in ns (int64 mod 2^64) *)
  l_rdev : N;
  l_ino : N;
  l_nlink : N;
  l_target : bytes;                   (* readlink, "" unless symlink *)
  l_xattrs : list (bytes * bytes);    (* llistxattr + lgetxattr, sorted by key *)
  l_dev : N                           (* st_dev: device holding the inode.  The code never reads it. *)
}.

(* a node = its lstat record + directory content (name, child); non-directories have no children *)
Inductive tree : Type := T (r : lrec) (kids : list (bytes * tree)).

Definition t_rec (t : tree) : lrec := match t with T r _ => r end.
Definition t_kids (t : tree) : list (bytes * tree) := match t with T _ k => k end.

(* ---------- st_mode -> os.FileMode (os/stat_linux.go fillFileStatFromSys) ---------- *)
Definition S_IFMT : N := 61440.   (* 0170000 *)
Definition S_IFSOCK : N := 49152. (* 0140000 *)
Definition S_IFLNK : N := 40960.  (* 0120000 *)
Definition S_IFREG : N := 32768.  (* 0100000 *)
Definition S_IFBLK : N := 24576.  (* 0060000 *)
Definition S_IFDIR : N := 16384.  (* 0040000 *)
Definition S_IFCHR : N := 8192.   (* 0020000 *)
Definition S_IFIFO : N := 4096.   (* 0010000 *)
Definition S_ISUID : N := 2048.
Definition S_ISGID : N := 1024.
Definition S_ISVTX : N := 512.

Definition go_mode (m : N) : N :=
  let mode := N.land m 511 in                                    (* fs.mode = FileMode(fs.sys.Mode & 0777) *)
  let fmt := N.land m S_IFMT in
  let mode :=                                                    (* switch fs.sys.Mode & S_IFMT *)
    if N.eqb fmt S_IFBLK then N.lor mode ModeDevice
    else if N.eqb fmt S_IFCHR then N.lor mode (N.lor ModeDevice ModeCharDevice)
    else if N.eqb fmt S_IFDIR then N.lor mode ModeDir
    else if N.eqb fmt S_IFIFO then N.lor mode ModeNamedPipe
    else if N.eqb fmt S_IFLNK then N.lor mode ModeSymlink
    else if N.eqb fmt S_IFREG then mode
    else if N.eqb fmt S_IFSOCK then N.lor mode ModeSocket
    else mode in
  let mode := if N.eqb (N.land m S_ISGID) 0 then mode else N.lor mode ModeSetgid in
  let mode := if N.eqb (N.land m S_ISUID) 0 then mode else N.lor mode ModeSetuid in
  let mode := if N.eqb (N.land m S_ISVTX) 0 then mode else N.lor mode ModeSticky in
  mode.

(* fi.IsDir() = fi.Mode()&ModeDir != 0 ; fi.Mode()&os.ModeSymlink != 0 *)
Definition is_dir (r : lrec) : bool := mode_is_dir (go_mode (l_mode r)).
Definition is_symlink (r : lrec) : bool := mode_is_symlink (go_mode (l_mode r)).

(* stat_unix.go *)
Definition major (device : N) : N := N.land (N.shiftr device 8) 4095.                       (* (device >> 8) & 0xfff *)
Definition minor (device : N) : N :=
  N.lor (N.land device 255) (N.land (N.shiftr device 12) 1048320).                          (* (device & 0xff) | ((device >> 12) & 0xfff00) *)

(* ---------- seenFiles map[uint64]string ---------- *)
Fixpoint ilookup (i : N) (m : list (N * bytes)) : option bytes :=
  match m with
  | [] => None
  | (j, p) :: r => if N.eqb i j then Some p else ilookup i r
  end.
Definition iinsert (i : N) (p : bytes) (m : list (N * bytes)) : list (N * bytes) := (i, p) :: m.

(* ---------- field setters missing from Stat.v ---------- *)
Definition set_owner (s : stat) (u g : N) : stat :=
  {| st_path := st_path s; st_mode := st_mode s; st_uid := u; st_gid := g; st_size := st_size s;
     st_mtime := st_mtime s; st_linkname := st_linkname s; st_devmajor := st_devmajor s;
     st_devminor := st_devminor s; st_xattrs := st_xattrs s |}.
Definition set_dev (s : stat) (ma mi : N) : stat :=
  {| st_path := st_path s; st_mode := st_mode s; st_uid := st_uid s; st_gid := st_gid s; st_size := st_size s;
     st_mtime := st_mtime s; st_linkname := st_linkname s; st_devmajor := ma;
     st_devminor := mi; st_xattrs := st_xattrs s |}.
Definition set_xattrs (s : stat) (x : list (bytes * bytes)) : stat :=
  {| st_path := st_path s; st_mode := st_mode s; st_uid := st_uid s; st_gid := st_gid s; st_size := st_size s;
     st_mtime := st_mtime s; st_linkname := st_linkname s; st_devmajor := st_devmajor s;
     st_devminor := st_devminor s; st_xattrs := x |}.

(* ---------- setUnixOpt(fi, stat, path, seenFiles) ---------- *)
Definition set_unix_opt (r : lrec) (st : stat) (path : bytes) (seen : list (N * bytes)) : stat * list (N * bytes) :=
  let st := set_owner st (l_uid r) (l_gid r) in
  if is_dir r then (st, seen)
  else
    (* s.Mode&syscall.S_IFBLK != 0 || s.Mode&syscall.S_IFCHR != 0   (bit tests, as written) *)
    let st :=
      if negb (N.eqb (N.land (l_mode r) S_IFBLK) 0) || negb (N.eqb (N.land (l_mode r) S_IFCHR) 0)
      then set_dev st (major (l_rdev r)) (minor (l_rdev r)) else st in
    if N.ltb 1 (l_nlink r) then
      match ilookup (l_ino r) seen with
      | Some oldpath => (set_size (set_linkname st oldpath) 0, seen)     (* linked = true *)
      | None => (st, iinsert (l_ino r) path seen)
      end
    else (st, iinsert (l_ino r) path seen).

(* loadXattr: keys starting with "com.apple." are skipped *)
Definition xattr_apple_prefix : bytes := [99; 111; 109; 46; 97; 112; 112; 108; 101; 46].
Definition load_xattr (xs : list (bytes * bytes)) : list (bytes * bytes) :=
  filter (fun kv => negb (has_prefix xattr_apple_prefix (fst kv))) xs.

(* ---------- mkstat(path, relpath, fi, inodemap) ---------- *)
Definition mkstat (relpath : bytes) (r : lrec) (seen : list (N * bytes)) : stat * list (N * bytes) :=
  let st := {| st_path := relpath; st_mode := go_mode (l_mode r); st_uid := 0; st_gid := 0; st_size := 0;
               st_mtime := l_mtime r; st_linkname := []; st_devmajor := 0; st_devminor := 0; st_xattrs := [] |} in
  let (st, seen') := set_unix_opt r st relpath seen in
  let st :=
    if negb (is_dir r) then
      let st := set_size st (l_size r) in                              (* stat.Size = fi.Size() *)
      if is_symlink r then set_linkname st (l_target r) else st        (* stat.Linkname = readlink *)
    else st in
  let st := set_xattrs st (load_xattr (l_xattrs r)) in
  let st := set_mode st (N.ldiff (st_mode st) ModeSocket) in           (* stat.Mode &^= ModeSocket *)
  (st, seen').

(* ---------- os.ReadDir: every directory sorted bytewise by name ---------- *)
Fixpoint insert_kid {A : Type} (x : bytes * A) (l : list (bytes * A)) : list (bytes * A) :=
  match l with
  | [] => [x]
  | y :: l' => match cmp_bytes (fst x) (fst y) with
               | Gt => y :: insert_kid x l'
               | _ => x :: l
               end
  end.
Fixpoint isort_kids {A : Type} (l : list (bytes * A)) : list (bytes * A) :=
  match l with
  | [] => []
  | x :: l' => insert_kid x (isort_kids l')
  end.

Fixpoint sort_tree (t : tree) : tree :=
  match t with
  | T r kids => T r (isort_kids (map (fun nk => match nk with (n, k) => (n, sort_tree k) end) kids))
  end.

(* ---------- filepath.WalkDir + filepath.Rel: (relative path, lstat record) in visiting order ---------- *)
Fixpoint entries_node (p : bytes) (t : tree) {struct t} : list (bytes * lrec) :=
  match t with
  | T r kids =>
    (p, r) :: flat_map (fun nk => match nk with (n, k) => entries_node (p ++ sep :: n) k end) kids
  end.

(* the walked root itself is skipped ("if path == "." return nil"); its children have path = name *)
Definition entries_root (t : tree) : list (bytes * lrec) :=
  flat_map (fun nk => match nk with (n, k) => entries_node n k end) (t_kids t).

(* ---------- the fs.Walk callback over that sequence: Info() -> mkstat with the shared seenFiles ---------- *)
Fixpoint scan (seen : list (N * bytes)) (l : list (bytes * lrec)) : list stat :=
  match l with
  | [] => []
  | (p, r) :: l' => let (st, seen') := mkstat p r seen in st :: scan seen' l'
  end.

Definition walk (t : tree) : list stat := scan [] (entries_root (sort_tree t)).

(* ---------- walking a sub-target ---------- *)
Fixpoint find_kid (n : bytes) (kids : list (bytes * tree)) : option tree :=
  match kids with
  | [] => None
  | (m, k) :: r => if bytes_eqb n m then Some k else find_kid n r
  end.
Fixpoint lookup (t : tree) (cs : list bytes) : option tree :=
  match cs with
  | [] => Some t
  | n :: cs' => match find_kid n (t_kids t) with Some k => lookup k cs' | None => None end
  end.

(* filepath.Join(root, target) followed by filepath.Rel(root, .): the components Clean keeps,
   for targets that do not climb above the root (those are outside the model) *)
Definition target_comps (target : bytes) : list bytes := rev (fold_left (cstep true) (comps target) []).

(* a missing target: Lstat fails, the callback's error is ENOENT/ENOTDIR, turned into SkipDir: nothing is reported *)
Definition walk_at (t : tree) (target : bytes) : list stat :=
  match target_comps target with
  | [] => walk t
  | cs => match lookup (sort_tree t) cs with
          | Some k => scan [] (entries_node (joinc cs) k)
          | None => []
          end
  end.

(* ---------- SubDirFS ---------- *)
Record subdir := { sd_stat : stat; sd_tree : tree }.
Definition sd_name (d : subdir) : bytes := st_path (sd_stat d).

(* sort.Slice(dirs, dirs[i].Stat.Path < dirs[j].Stat.Path): the same insertion sort, keyed by name *)
Definition isort_sd (l : list subdir) : list subdir :=
  map snd (isort_kids (map (fun d => (sd_name d, d)) l)).

Fixpoint mem_bytes (x : bytes) (l : list bytes) : bool :=
  match l with [] => false | y :: r => bytes_eqb x y || mem_bytes x r end.

(* SubDirFS(dirs): sort by name; every name must satisfy path.Base(name) == name; no duplicates *)
Fixpoint subdirs_ok (seen : list bytes) (l : list subdir) : bool :=
  match l with
  | [] => true
  | d :: r => bytes_eqb (base (sd_name d)) (sd_name d) && negb (mem_bytes (sd_name d) seen)
              && subdirs_ok (sd_name d :: seen) r
  end.

(* strings.Cut(target, "/") *)
Fixpoint cut_sep (s : bytes) : bytes * bytes :=
  match s with
  | [] => ([], [])
  | a :: s' => if N.eqb a sep then ([], s') else let (x, y) := cut_sep s' in (a :: x, y)
  end.

(* the inner callback of subDirFS.Walk: path.Join(name, stat.Path); hard-link names get the same prefix,
   absolute symlink targets are re-rooted with path.Join("/"+name, target), relative ones are kept *)
Definition sub_rewrite (name : bytes) (st : stat) : stat :=
  let st1 := set_path st (join2 name (st_path st)) in
  match st_linkname st with
  | [] => st1
  | ln =>
    if mode_is_symlink (st_mode st) then
      (if has_prefix [sep] ln then set_linkname st1 (join2 (sep :: name) ln) else st1)
    else set_linkname st1 (join2 name ln)
  end.

(* result: callbacks (callback path, stat) and whether Walk returned an error *)
Fixpoint walk_sds (l : list subdir) (first rest : bytes) : list (bytes * stat) * bool :=
  match l with
  | [] => ([], false)
  | d :: r =>
    if negb (bytes_eqb first []) && negb (bytes_eqb first (sd_name d)) then walk_sds r first rest
    else if negb (st_is_dir (sd_stat d)) then ([], true)                       (* ENOTDIR "walk subdir" *)
    else
      let here := (sd_name d, sd_stat d)
                  :: map (fun st => (join2 (sd_name d) (st_path st), sub_rewrite (sd_name d) st))
                         (walk_at (sd_tree d) rest) in
      let (more, err) := walk_sds r first rest in
      (here ++ more, err)
  end.

Definition walk_subdirs (ds : list subdir) (target : bytes) : option (list (bytes * stat) * bool) :=
  let sorted := isort_sd ds in
  if subdirs_ok [] sorted then
    let (first, rest) := cut_sep target in Some (walk_sds sorted first rest)
  else None.

(* ====================================================================================== *)
(* Executable specification of C09: predicates over the callback list of the IMPLEMENTATION
   and an independent lstat snapshot [(path, lrec)] (any order).  None of them uses
   sort_tree / entries / scan / mkstat. *)

(* strictly ascending in protocol path order, all pairs *)
Fixpoint all_lt (p : bytes) (l : list bytes) : bool :=
  match l with [] => true | q :: r => path_ltb p q && all_lt p r end.
Fixpoint sorted_b (l : list bytes) : bool :=
  match l with [] => true | p :: r => all_lt p r && sorted_b r end.

Fixpoint count_bytes (x : bytes) (l : list bytes) : nat :=
  match l with [] => O | y :: r => if bytes_eqb x y then S (count_bytes x r) else count_bytes x r end.

(* every expected path reported exactly once, nothing else reported, never "" or "." *)
Definition once_b (expected got : list bytes) : bool :=
  forallb (fun p => Nat.eqb (count_bytes p got) 1) expected
  && forallb (fun p => mem_bytes p expected && negb (bytes_eqb p []) && negb (bytes_eqb p s_dot)) got.

(* parent of a relative path: everything before the last separator ("" if none) *)
Definition parent_path (p : bytes) : bytes :=
  match split_last p with Some (d, _) => removelast d | None => [] end.

(* each entry whose parent is not [top] is preceded by its parent, reported as a directory *)
Fixpoint parent_first_b (top : bytes) (before : list stat) (l : list stat) : bool :=
  match l with
  | [] => true
  | s :: r =>
    (bytes_eqb (parent_path (st_path s)) top
     || existsb (fun q => bytes_eqb (st_path q) (parent_path (st_path s)) && st_is_dir q) before)
    && parent_first_b top (s :: before) r
  end.

Fixpoint find_raw (p : bytes) (snap : list (bytes * lrec)) : option lrec :=
  match snap with
  | [] => None
  | (q, r) :: rest => if bytes_eqb p q then Some r else find_raw p rest
  end.

(* the file type of an lstat record, arithmetically: st_mode / 4096 mod 16 *)
Definition raw_type (r : lrec) : N := (l_mode r / 4096) mod 16.
Definition raw_is_dir (r : lrec) : bool := N.eqb (raw_type r) 4.
Definition raw_is_symlink (r : lrec) : bool := N.eqb (raw_type r) 10.
Definition raw_is_device (r : lrec) : bool := N.eqb (raw_type r) 2 || N.eqb (raw_type r) 6.

(* Go FileMode expected for an lstat record (socket type bit dropped), by arithmetic on octal digits *)
Definition spec_mode (r : lrec) : N :=
  let m := l_mode r in
  let ty := raw_type r in
  (m mod 512)
  + (if N.eqb ty 4 then ModeDir else if N.eqb ty 10 then ModeSymlink else if N.eqb ty 1 then ModeNamedPipe
     else if N.eqb ty 2 then ModeDevice + ModeCharDevice else if N.eqb ty 6 then ModeDevice else 0)
  + (if N.eqb ((m / 2048) mod 2) 1 then ModeSetuid else 0)
  + (if N.eqb ((m / 1024) mod 2) 1 then ModeSetgid else 0)
  + (if N.eqb ((m / 512) mod 2) 1 then ModeSticky else 0).

(* Linux dev_t encoding: major = bits 8..19, minor = bits 0..7 and 20..31 *)
Definition spec_major (d : N) : N := (d / 256) mod 4096.
Definition spec_minor (d : N) : N := d mod 256 + 256 * ((d / 1048576) mod 4096).

(* the least (in path order) path among the non-directories of [snap] with the inode of r *)
Fixpoint least_path (best : bytes) (l : list bytes) : bytes :=
  match l with [] => best | p :: r => least_path (if path_ltb p best then p else best) r end.
(* sharing an inode = same device AND same inode number *)
Definition link_group (snap : list (bytes * lrec)) (r : lrec) : list bytes :=
  map fst (filter (fun e => negb (raw_is_dir (snd e)) && N.eqb (l_ino (snd e)) (l_ino r)
                            && N.eqb (l_dev (snd e)) (l_dev r)) snap).

(* expected Linkname: readlink for symlinks; for other non-directories with nlink > 1 the first
   path of the inode (within the walked set) unless this entry is the first; "" otherwise *)
Definition spec_linkname (snap : list (bytes * lrec)) (p : bytes) (r : lrec) : bytes :=
  if raw_is_dir r then []
  else if raw_is_symlink r then l_target r
  else if N.ltb 1 (l_nlink r) then
    let first := least_path p (link_group snap r) in
    if bytes_eqb first p then [] else first
  else [].

Definition spec_stat (snap : list (bytes * lrec)) (p : bytes) (r : lrec) : stat :=
  {| st_path := p; st_mode := spec_mode r; st_uid := l_uid r; st_gid := l_gid r;
     st_size := if raw_is_dir r then 0 else l_size r;
     st_mtime := l_mtime r;
     st_linkname := spec_linkname snap p r;
     st_devmajor := if raw_is_device r then spec_major (l_rdev r) else 0;
     st_devminor := if raw_is_device r then spec_minor (l_rdev r) else 0;
     st_xattrs := l_xattrs r |}.

(* every reported stat is the true stat of that path in the snapshot *)
Definition stats_true_b (snap : list (bytes * lrec)) (got : list stat) : bool :=
  forallb (fun s => match find_raw (st_path s) snap with
                    | Some r => stat_eqb s (spec_stat snap (st_path s) r)
                    | None => false
                    end) got.

(* the whole property for one walk: [snap] = the entries that must be reported (the walked
   sub-tree, without the walked root when it is the FS root); [top] = parent of the walked set *)
Definition spec_walk_b (top : bytes) (snap : list (bytes * lrec)) (got : list stat) : bool :=
  sorted_b (map st_path got)
  && once_b (map fst snap) (map st_path got)
  && parent_first_b top [] got
  && stats_true_b snap got.

(* declarative prefixing of a sub-walk entry by the name d of its sub-root (SubDirFS): the path
   and a hard-link name get "d/" in front; an absolute symlink target is re-rooted below "/d"
   (and lexically cleaned, as path.Join does); a relative symlink target is kept *)
Definition prefix_stat (d : bytes) (st : stat) : stat :=
  let st1 := set_path st (d ++ sep :: st_path st) in
  match st_linkname st with
  | [] => st1
  | ln =>
    if mode_is_symlink (st_mode st) then
      (if is_abs ln then set_linkname st1 (clean (sep :: d ++ sep :: ln)) else st1)
    else set_linkname st1 (d ++ sep :: ln)
  end.

(* sub-target selection on a snapshot: target itself and everything below it *)
Definition below_b (target p : bytes) : bool :=
  match target with
  | [] => true
  | _ => bytes_eqb p target || has_prefix (target ++ [sep]) p
  end.
Definition snap_at (snap : list (bytes * lrec)) (target : bytes) : list (bytes * lrec) :=
  filter (fun e => below_b target (fst e)) snap.

(* what the kernel guarantees about one directory listing, as a check on a snapshot / tree *)
Fixpoint mem_N (x : N) (l : bytes) : bool :=
  match l with [] => false | y :: r => N.eqb x y || mem_N x r end.
Definition wf_name_b (n : bytes) : bool :=
  negb (bytes_eqb n []) && negb (mem_N sep n) && negb (bytes_eqb n s_dot) && negb (bytes_eqb n s_dotdot).

Fixpoint nodup_b (l : list bytes) : bool :=
  match l with [] => true | x :: r => negb (mem_bytes x r) && nodup_b r end.

Fixpoint wf_tree_b (t : tree) : bool :=
  match t with
  | T r kids =>
    (is_dir r || match kids with [] => true | _ => false end)
    && forallb (fun nk => wf_name_b (fst nk)) kids
    && nodup_b (map fst kids)
    && forallb (fun nk => match nk with (_, k) => wf_tree_b k end) kids
  end.

(* ====================================================================================== *)
(* Declarative notions used by the theorems (Properties/C09.v). *)

(* what a kernel directory guarantees about a name *)
Definition wf_name (n : bytes) : Prop := n <> [] /\ ~ In sep n /\ n <> s_dot /\ n <> s_dotdot.

(* names well formed, siblings distinct, only directories have children *)
Inductive wf_tree : tree -> Prop :=
| wf_T r kids :
    (is_dir r = false -> kids = []) ->
    Forall (fun nk => wf_name (fst nk)) kids ->
    NoDup (map fst kids) ->
    Forall (fun nk => wf_tree (snd nk)) kids ->
    wf_tree (T r kids).

(* [tree_at t cs r]: following the names cs from the root of t leads to a node whose lstat record is r *)
Inductive tree_at : tree -> list bytes -> lrec -> Prop :=
| at_here r kids : tree_at (T r kids) [] r
| at_kid r kids n k cs r' : In (n, k) kids -> tree_at k cs r' -> tree_at (T r kids) (n :: cs) r'.

(* st_nlink counts every name of an inode: two different non-directory names of one inode both
   have nlink > 1 (kernel guarantee for a tree that does not change during the walk) *)
Definition ino_consistent (t : tree) : Prop :=
  forall cs1 r1 cs2 r2,
    tree_at t cs1 r1 -> tree_at t cs2 r2 -> cs1 <> cs2 ->
    is_dir r1 = false -> is_dir r2 = false -> l_ino r1 = l_ino r2 ->
    N.ltb 1 (l_nlink r1) = true.

(* inode numbers identify inodes below the walked root: non-directories with the same st_ino are on
   the same device.  True when the tree lies on one filesystem; FALSE in general across mount
   points (st_ino is unique per device only) — see walk_hardlinks_cross_device_refuted. *)
Definition one_fs (t : tree) : Prop :=
  forall cs1 r1 cs2 r2,
    tree_at t cs1 r1 -> tree_at t cs2 r2 ->
    is_dir r1 = false -> is_dir r2 = false -> l_ino r1 = l_ino r2 -> l_dev r1 = l_dev r2.

Definition path_lt (p q : bytes) : Prop := compare_path p q = Lt.

(* state of seenFiles after the callback has seen a prefix of the WalkDir sequence *)
Fixpoint seen_after (seen : list (N * bytes)) (l : list (bytes * lrec)) : list (N * bytes) :=
  match l with
  | [] => seen
  | (p, r) :: l' => seen_after (snd (mkstat p r seen)) l'
  end.

(* the Stat of an entry when no earlier entry shares its inode *)
Definition base_stat (p : bytes) (r : lrec) : stat := fst (mkstat p r []).

(* SubDirFS: the callbacks contributed by one sub-root = its own Stat, then its walk prefixed *)
Definition sd_block (d : subdir) : list (bytes * stat) :=
  (sd_name d, sd_stat d)
  :: map (fun st => (sd_name d ++ sep :: st_path st, prefix_stat (sd_name d) st)) (walk (sd_tree d)).

(* SubDirFS, sub-target "name/rest": the callbacks contributed by THE sub-root called name = its own
   Stat, then its walk at rest (walk_at: the entry rest and everything below it), prefixed *)
Definition sd_block_at (d : subdir) (rest : bytes) : list (bytes * stat) :=
  (sd_name d, sd_stat d)
  :: map (fun st => (sd_name d ++ sep :: st_path st, prefix_stat (sd_name d) st)) (walk_at (sd_tree d) rest).

(* proper sub-roots: single-component names, pairwise distinct, directory Stats, well-formed trees *)
Definition sd_wf (ds : list subdir) : Prop :=
  Forall (fun d => wf_name (sd_name d) /\ st_is_dir (sd_stat d) = true /\ wf_tree (sd_tree d)) ds
  /\ NoDup (map sd_name ds).

(* ---------- SubDirFS, any target; nested composites ---------- *)
(* what one sub-root contributes to a walk whose target is cut into first / rest: its block at rest
   if first is empty or equals its name, nothing otherwise *)
Definition sd_select (first rest : bytes) (d : subdir) : list (bytes * stat) :=
  if bytes_eqb first [] || bytes_eqb first (sd_name d) then sd_block_at d rest else [].

(* the outer subDirFS.Walk applied to one inner callback, declaratively: outer name in front of the
   callback path, prefix_stat on the Stat *)
Definition nest_rewrite (oname : bytes) (c : bytes * stat) : bytes * stat :=
  (oname ++ sep :: fst c, prefix_stat oname (snd c)).

(* SubDirFS over ONE sub-root (Stat ost) whose FS is SubDirFS(inner): both constructors, then
   subDirFS.Walk of the outer object with the inner subDirFS.Walk as d.FS.Walk (None = a constructor
   refused).  This is the model component of Glue.C09G.nested_judge (kind 0906). *)
Definition walk_nested (ost : stat) (inner : list subdir) (target : bytes) : option (list (bytes * stat) * bool) :=
  let oname := st_path ost in
  if negb (bytes_eqb (base oname) oname) then None
  else match walk_subdirs inner [] with
       | None => None
       | Some _ =>
         let (first, rest) := cut_sep target in
         if negb (bytes_eqb first []) && negb (bytes_eqb first oname) then Some ([], false)
         else if negb (st_is_dir ost) then Some ([], true)
         else match walk_subdirs inner rest with
              | None => None
              | Some (out, e) =>
                Some ((oname, ost) :: map (fun c => (join2 oname (fst c), sub_rewrite oname (snd c))) out, e)
              end
       end.

(* the specification listing of the nested walk, for any target *)
Definition nested_listing (ost : stat) (inner : list subdir) (target : bytes) : list (bytes * stat) :=
  let oname := st_path ost in
  let first := fst (cut_sep target) in
  let rest := snd (cut_sep target) in
  if bytes_eqb first [] || bytes_eqb first oname
  then (oname, ost) :: map (nest_rewrite oname)
                           (flat_map (sd_select (fst (cut_sep rest)) (snd (cut_sep rest))) (isort_sd inner))
  else [].

(* the Stats given for the sub-roots carry no Linkname (they are directory Stats) *)
Definition no_linkname (ds : list subdir) : Prop := Forall (fun d => st_linkname (sd_stat d) = []) ds.
