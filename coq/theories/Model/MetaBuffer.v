(* L6 — buffer.go: the chunked append-only buffer used for the metadata listing.

   A chunk is (content, capacity).  [alloc n] returns a slice of n fresh bytes which the
   caller fills completely; alloc_write fuses "alloc (len r)" with "copy r into the returned
   slice".  The newest chunk is the HEAD of the list (the Go slice is the reverse). *)
From Coq Require Import List NArith Bool.
From FS Require Import Sx Model.Varint.
Import ListNotations.
Open Scope N_scope.

Definition chunk_size : N := 32768.

Definition mbuffer := list (bytes * N).

Definition alloc_write (b : list (bytes * N)) (r : bytes) : list (bytes * N) :=
  let n := len r in
  if chunk_size <? n then (r, n) :: b                     (* make([]byte, n): own chunk, cap = n *)
  else
    match b with
    | (c, cap) :: b' =>
      if len c + n <=? cap then (c ++ r, cap) :: b'       (* lastChunk[:l+n] *)
      else (r, chunk_size) :: b                           (* make([]byte, n, chunkSize) *)
    | [] => [(r, chunk_size)]
    end.

(* WriteTo: every chunk in order *)
Definition write_to (b : list (bytes * N)) : bytes := concat (rev (map fst b)).
(* (len, cap) of every chunk, oldest first — what the hook reports *)
Definition chunk_shape (b : list (bytes * N)) : list (N * N) :=
  rev (map (fun c => (len (fst c), snd c)) b).

Definition alloc_all (recs : list bytes) : list (bytes * N) := fold_left alloc_write recs [].

(* no chunk is longer than its capacity (the slices handed out never overlap or spill) *)
Definition chunks_fit (b : list (bytes * N)) : Prop := Forall (fun c => len (fst c) <= snd c) b.
