(* Device numbers — specification used by the source equivalences of stat_unix.go major/minor
   (no earlier model had them: the C09 walk model takes st_devmajor/st_devminor as data).

   Linux reports a device node's number in st_rdev in the kernel's "new" encoding
   (include/linux/kdev_t.h, new_encode_dev; major < 2^12, minor < 2^20):
        (minor & 0xff) | (major << 8) | ((minor & ~0xff) << 12)
   dev_major / dev_minor are its decoding (new_decode_dev), written arithmetically. *)
From Coq Require Import NArith.
Open Scope N_scope.

Definition encode_dev (major minor : N) : N :=
  minor mod 256 + major * 256 + (minor / 256) * 1048576.       (* 2^20 *)

Definition dev_major (dev : N) : N := (dev / 256) mod 4096.
Definition dev_minor (dev : N) : N := dev mod 256 + ((dev / 1048576) mod 4096) * 256.
