(* L7 — packet-level behaviour of fsutil.Send (send.go) as a deterministic event acceptor.

   Go code modelled:
     Send            wraps the FS in WithHardlinkReset (hardlinks.go)          -> hl_reset
     sender.walk     one STAT per walked entry, files[i] = path when fileCanRequestData,
                     i counts EVERY entry, then one empty STAT; ERR packet on walk error
     sender.run      reader goroutine: REQ -> queue (unknown / used id = error), FIN -> echo
                     FIN and stop reading, ERR / receive error -> fail; 4 workers
     sender.queue    files[id] is deleted when the id is queued: ids are single-use
     sender.sendFile DATA chunks in file order (any chunking), then ONE empty DATA; when
                     Open fails the empty DATA is still sent (known behaviour K3): the
                     acceptor takes "the bytes as served by Open/Read" per entry as given
     updateProgress  running total, one final call (deferred in run)

   The acceptor says which event may come next at the sender's boundary.  It is
   deterministic (a function of the state), although the sender is not: the state only
   records what every interleaving of the goroutines has in common. *)
From Coq Require Import List NArith Bool.
From FS Require Import Sx Model.Path Model.Stat Model.Tree Model.AccEvents.
Import ListNotations.
Open Scope N_scope.
Open Scope bool_scope.

(* ---- hardlinkFilter.Walk: seenFiles : path -> path, as an association list (newest first) ---- *)
Fixpoint blookup (k : bytes) (m : list (bytes * bytes)) : option bytes :=
  match m with
  | [] => None
  | (k', v) :: r => if bytes_eqb k k' then Some v else blookup k r
  end.

Definition hl_entry (seen : list (bytes * bytes)) (e : entry) : list (bytes * bytes) * entry :=
  let st := fst e in
  if mode_is_dir (st_mode st) || mode_is_symlink (st_mode st) then (seen, e)
  else
    let '(seen1, st1) :=
      match st_linkname st with
      | [] => (seen, st)
      | ln =>
        match blookup ln seen with
        | None => ((ln, st_path st) :: seen, set_linkname st [])
        | Some v => if bytes_eqb v (st_path st) then (seen, st) else (seen, set_linkname st v)
        end
      end in
    ((st_path st, st_path st) :: seen1, (st1, snd e)).

Fixpoint hl_reset_from (seen : list (bytes * bytes)) (l : list entry) : list entry :=
  match l with
  | [] => []
  | e :: r => let '(seen', e') := hl_entry seen e in e' :: hl_reset_from seen' r
  end.
Definition hl_reset (l : list entry) : list entry := hl_reset_from [] l.

(* what the sender has to say for a view: the walk after the hard-link reset, with the
   bytes each entry's Open/Read serves ([served] is the identity on healthy files and
   the empty string where Open fails) *)
Definition sender_entries (view : list node) (served : entry -> bytes) : list entry :=
  map (fun e => (fst e, served e)) (hl_reset (walk_root view)).

(* ---- acceptor state ---- *)
Inductive fstatus : Type :=
| Sending (rem : bytes)    (* requested; rem = the part of the file not yet sent *)
| Done.                    (* terminator sent *)

Record sstate : Type := {
  s_k : nat;                        (* number of (non-empty) STATs emitted *)
  s_endm : bool;                    (* empty STAT emitted *)
  s_req : list (N * fstatus);       (* ids requested so far (single use) *)
  s_fin_in : bool;
  s_fin_out : bool;
  s_rdclosed : bool;                (* the reader goroutine has stopped: no more Inp events *)
  s_err : bool;                     (* error latch: the call has to fail *)
  s_soft : bool;                    (* a request raced its own STAT: the call may fail *)
  s_prog : N;                       (* last progress value *)
  s_final : bool;                   (* final progress call seen *)
  s_ret : option bool
}.

Definition sinit : sstate :=
  {| s_k := 0; s_endm := false; s_req := []; s_fin_in := false; s_fin_out := false; s_rdclosed := false;
     s_err := false; s_soft := false; s_prog := 0; s_final := false; s_ret := None |}.

Definition set_k (s : sstate) (k : nat) : sstate :=
  {| s_k := k; s_endm := s_endm s; s_req := s_req s; s_fin_in := s_fin_in s; s_fin_out := s_fin_out s;
     s_rdclosed := s_rdclosed s; s_err := s_err s; s_soft := s_soft s; s_prog := s_prog s;
     s_final := s_final s; s_ret := s_ret s |}.
Definition set_endm (s : sstate) : sstate :=
  {| s_k := s_k s; s_endm := true; s_req := s_req s; s_fin_in := s_fin_in s; s_fin_out := s_fin_out s;
     s_rdclosed := s_rdclosed s; s_err := s_err s; s_soft := s_soft s; s_prog := s_prog s;
     s_final := s_final s; s_ret := s_ret s |}.
Definition set_req (s : sstate) (r : list (N * fstatus)) : sstate :=
  {| s_k := s_k s; s_endm := s_endm s; s_req := r; s_fin_in := s_fin_in s; s_fin_out := s_fin_out s;
     s_rdclosed := s_rdclosed s; s_err := s_err s; s_soft := s_soft s; s_prog := s_prog s;
     s_final := s_final s; s_ret := s_ret s |}.
Definition set_fin_in (s : sstate) : sstate :=
  {| s_k := s_k s; s_endm := s_endm s; s_req := s_req s; s_fin_in := true; s_fin_out := s_fin_out s;
     s_rdclosed := true; s_err := s_err s; s_soft := s_soft s; s_prog := s_prog s;
     s_final := s_final s; s_ret := s_ret s |}.
Definition set_fin_out (s : sstate) : sstate :=
  {| s_k := s_k s; s_endm := s_endm s; s_req := s_req s; s_fin_in := s_fin_in s; s_fin_out := true;
     s_rdclosed := s_rdclosed s; s_err := s_err s; s_soft := s_soft s; s_prog := s_prog s;
     s_final := s_final s; s_ret := s_ret s |}.
(* the reader goroutine returns an error *)
Definition set_fail (s : sstate) : sstate :=
  {| s_k := s_k s; s_endm := s_endm s; s_req := s_req s; s_fin_in := s_fin_in s; s_fin_out := s_fin_out s;
     s_rdclosed := true; s_err := true; s_soft := s_soft s; s_prog := s_prog s;
     s_final := s_final s; s_ret := s_ret s |}.
Definition set_err (s : sstate) : sstate :=
  {| s_k := s_k s; s_endm := s_endm s; s_req := s_req s; s_fin_in := s_fin_in s; s_fin_out := s_fin_out s;
     s_rdclosed := s_rdclosed s; s_err := true; s_soft := s_soft s; s_prog := s_prog s;
     s_final := s_final s; s_ret := s_ret s |}.
Definition set_soft (s : sstate) : sstate :=
  {| s_k := s_k s; s_endm := s_endm s; s_req := s_req s; s_fin_in := s_fin_in s; s_fin_out := s_fin_out s;
     s_rdclosed := s_rdclosed s; s_err := s_err s; s_soft := true; s_prog := s_prog s;
     s_final := s_final s; s_ret := s_ret s |}.
Definition set_prog (s : sstate) (n : N) (l : bool) : sstate :=
  {| s_k := s_k s; s_endm := s_endm s; s_req := s_req s; s_fin_in := s_fin_in s; s_fin_out := s_fin_out s;
     s_rdclosed := s_rdclosed s; s_err := s_err s; s_soft := s_soft s; s_prog := n;
     s_final := l; s_ret := s_ret s |}.
Definition set_ret (s : sstate) (b : bool) : sstate :=
  {| s_k := s_k s; s_endm := s_endm s; s_req := s_req s; s_fin_in := s_fin_in s; s_fin_out := s_fin_out s;
     s_rdclosed := s_rdclosed s; s_err := s_err s; s_soft := s_soft s; s_prog := s_prog s;
     s_final := s_final s; s_ret := Some b |}.

(* the bytes served for position n when that entry can be requested (fileCanRequestData) *)
Definition regular_at (exp : list entry) (n : nat) : option bytes :=
  match nth_error exp n with
  | Some e => if mode_is_regular (st_mode (fst e)) then Some (snd e) else None
  | None => None
  end.

Fixpoint all_done (r : list (N * fstatus)) : bool :=
  match r with
  | [] => true
  | (_, Done) :: r' => all_done r'
  | (_, Sending _) :: _ => false
  end.

(* REQ n received.  files[n] exists iff STAT n was registered and n was not queued before.
   Registration happens just before the STAT is handed to the stream, so relative to the
   recorded events: n < k => registered; n > k => not registered; n = k => either (the
   request raced its own STAT - possible only for a peer that guesses ids). *)
Definition on_req (exp : list entry) (s : sstate) (n : N) : sstate :=
  match nlookup n (s_req s) with
  | Some _ => set_fail s
  | None =>
    if N.ltb n (N.of_nat (s_k s)) then
      match regular_at exp (N.to_nat n) with
      | Some c => set_req s ((n, Sending c) :: s_req s)
      | None => set_fail s
      end
    else if N.eqb n (N.of_nat (s_k s)) then
      match regular_at exp (s_k s) with
      | Some c => set_soft (set_req s ((n, Sending c) :: s_req s))
      | None => set_fail s
      end
    else set_fail s
  end.

Definition sender_acc (exp : list entry) (s : sstate) (e : event) : option sstate :=
  match s_ret s with
  | Some _ => None                                   (* nothing happens after the call returned *)
  | None =>
    if s_final s then
      (* the final progress call is deferred to the very end of run(): only the return follows *)
      match e with
      | Return true =>
        if negb (s_err s) && s_fin_in s && s_fin_out s && s_endm s && all_done (s_req s)
        then Some (set_ret s true) else None
      | Return false => if s_err s || s_soft s then Some (set_ret s false) else None
      | _ => None
      end
    else
    match e with
    | Out (PStat (Some st)) =>
      if s_endm s then None
      else match nth_error exp (s_k s) with
           | Some en => if stat_eqb st (fst en) then Some (set_k s (S (s_k s))) else None
           | None => None
           end
    | Out (PStat None) =>
      if s_endm s then None
      else if Nat.eqb (s_k s) (length exp) then Some (set_endm s) else None
    | Out (PData n d) =>
      match nlookup n (s_req s) with
      | Some (Sending rem) =>
        match d with
        | [] => if is_nil rem then Some (set_req s (nupdate n Done (s_req s))) else None
        | _ => match strip_prefix d rem with
               | Some rem' => Some (set_req s (nupdate n (Sending rem') (s_req s)))
               | None => None
               end
        end
      | _ => None
      end
    | Out PFin => if s_fin_in s && negb (s_fin_out s) then Some (set_fin_out s) else None
    | Out (PErr _) => if s_err s || s_soft s then Some s else None
    | Out (PReq _) => None
    | Inp p =>
      if s_rdclosed s then None
      else match p with
           | PReq n => Some (on_req exp s n)
           | PFin => Some (set_fin_in s)
           | PErr _ => Some (set_fail s)
           | PStat _ | PData _ _ => Some s          (* no case in the reader's switch: ignored *)
           end
    | InEof => if s_rdclosed s then None else Some (set_fail s)
    | Fault => Some (set_err s)
    | Progress n l => if N.leb (s_prog s) n then Some (set_prog s n l) else None
    | Return _ => None                               (* the deferred final progress call comes first *)
    end
  end.

(* the whole STAT sequence of a successful run *)
Definition full_stats (exp : list entry) : list (option stat) := map (fun e => Some (fst e)) exp ++ [None].

Definition sender_run (exp : list entry) (tr : list event) : option sstate := run (sender_acc exp) sinit tr.

(* accepted complete trace: the acceptor follows it to the end and the call has returned *)
Definition sender_accepts (exp : list entry) (tr : list event) : option bool :=
  match sender_run exp tr with
  | Some s => s_ret s
  | None => None
  end.
