(* L4 — patterns: moby/patternmatcher@v0.5.0 list evaluation over an abstract
   single-pattern matcher, and the string classification fsutil's filter.go does.

     patternmatcher.New (normalisation)          -> normalize1 / normalize
     PatternMatcher.MatchesOrParentMatches       -> naive          (the loop, including its "skip")
     PatternMatcher.MatchesUsingParentResults    -> incr_eval           (MatchInfo.parentMatched = list bool)
     PatternMatcher.Exclusions                   -> exclusions
     filter.go patternWithoutTrailingGlob        -> without_trailing_glob   (ONE suffix stripped: fix F10)
     filter.go strings.ContainsAny(.., "*[]?^\") -> contains_pattern_chars
     NewFilterFS onlyPrefixIncludes / onlyPrefixExcludeExceptions -> only_prefix_includes / _exclude_exceptions

   Pattern.match (compile + regexp) is EXTERNAL: a Section variable [pmatch cleanedPattern path].
   For the patterns the code classifies as "prefix-only" the proofs need concrete
   semantics; [pat_kind] / [prefix_match] give it and FilterP states the corresponding
   hypotheses on [pmatch] (validated against the real library by harness kind 1003). *)
From Coq Require Import List NArith Bool.
From FS Require Import Sx Model.Path.
Import ListNotations.
Open Scope N_scope.
Open Scope bool_scope.

Record pat := { p_excl : bool; p_str : bytes }.

(* ---------- small string functions ---------- *)
Definition is_nil {A} (l : list A) : bool := match l with [] => true | _ => false end.

(* Some pre  iff  s = pre ++ suf *)
Fixpoint strip_suffix (suf s : bytes) : option bytes :=
  if bytes_eqb s suf then Some []
  else match s with
       | [] => None
       | a :: s' => match strip_suffix suf s' with Some pre => Some (a :: pre) | None => None end
       end.

(* Some rest  iff  s = pre ++ rest *)
Fixpoint strip_prefix (pre s : bytes) : option bytes :=
  match pre, s with
  | [], _ => Some s
  | a :: pre', b :: s' => if N.eqb a b then strip_prefix pre' s' else None
  | _ :: _, [] => None
  end.

(* strings.TrimSuffix *)
Definition trim_suffix (s suf : bytes) : bytes :=
  match strip_suffix suf s with Some pre => pre | None => s end.

Definition star : N := 42.
Definition s_sep_star : bytes := [sep; star].            (* "/*"  *)
Definition s_sep_starstar : bytes := [sep; star; star].  (* "/**" *)

(* ---------- patternmatcher.New ---------- *)
(* strings.TrimSpace restricted to the ASCII white space \t \n \v \f \r ' ' (Unicode
   white space U+0085, U+00A0, ... is not modelled; the generator does not produce it) *)
Definition is_space (b : N) : bool :=
  N.eqb b 9 || N.eqb b 10 || N.eqb b 11 || N.eqb b 12 || N.eqb b 13 || N.eqb b 32.
Fixpoint trim_left (s : bytes) : bytes :=
  match s with a :: r => if is_space a then trim_left r else s | [] => [] end.
Definition trim_space (s : bytes) : bytes := rev (trim_left (rev (trim_left s))).

Inductive norm_res := NSkip | NErr | NPat (p : pat).
Definition bang : N := 33.
Definition normalize1 (raw : bytes) : norm_res :=
  match trim_space raw with
  | [] => NSkip                                   (* if p == "" { continue } *)
  | p =>
    match clean p with
    | c :: r =>
      if N.eqb c bang then
        match r with
        | [] => NErr                              (* illegal exclusion pattern: "!" *)
        | _ => NPat {| p_excl := true; p_str := r |}
        end
      else NPat {| p_excl := false; p_str := c :: r |}
    | [] => NSkip                                 (* impossible: Clean never returns "" *)
    end
  end.

(* None = New returns an error ("!"); syntax errors found by filepath.Match are external
   and not modelled (the generator only emits patterns New accepts) *)
Fixpoint normalize (raws : list bytes) : option (list pat) :=
  match raws with
  | [] => Some []
  | r :: rs =>
    match normalize1 r with
    | NErr => None
    | NSkip => normalize rs
    | NPat p => match normalize rs with Some ps => Some (p :: ps) | None => None end
    end
  end.

Definition exclusions (pats : list pat) : bool := existsb p_excl pats.

(* ---------- filter.go classification of pattern strings ---------- *)
(* patternChars = "*[]?^" + `\` (Linux) *)
Definition is_pattern_char (b : N) : bool :=
  N.eqb b 42 || N.eqb b 91 || N.eqb b 93 || N.eqb b 63 || N.eqb b 94 || N.eqb b 92.
Definition contains_pattern_chars (s : bytes) : bool := existsb is_pattern_char s.

Definition without_trailing_glob (p : bytes) : bytes :=
  let s := trim_suffix p s_sep_starstar in
  if negb (bytes_eqb s p) then s else trim_suffix p s_sep_star.

Definition prefix_only (p : bytes) : bool := negb (contains_pattern_chars (without_trailing_glob p)).

Definition only_prefix_includes (pats : list pat) : bool :=
  forallb (fun P => p_excl P || prefix_only (p_str P)) pats.
Definition only_prefix_exclude_exceptions (pats : list pat) : bool :=
  forallb (fun P => negb (p_excl P) || prefix_only (p_str P)) pats.

(* the test both SkipDir shortcuts make: does some pattern with exclusion flag [e] reach
   into (or equal) the directory [dirpath]:  HasPrefix(withoutTrailingGlob(pat)+"/", dir+"/") *)
Definition reaches_into (e : bool) (pats : list pat) (dirpath : bytes) : bool :=
  existsb (fun P => Bool.eqb (p_excl P) e &&
                    has_prefix (dirpath ++ [sep]) (without_trailing_glob (p_str P) ++ [sep])) pats.

(* ---------- what Pattern.compile does with strings the code calls prefix-only ---------- *)
Inductive pkind := Lit (L : bytes) | LitStar (L : bytes) | LitStarStar (L : bytes) | Glob.

Definition pat_kind (p : bytes) : pkind :=
  if contains_pattern_chars (without_trailing_glob p) then Glob
  else match strip_suffix s_sep_starstar p with
       | Some L => LitStarStar L          (* compile: exactMatch ... "**" at EOF => prefixMatch *)
       | None =>
         match strip_suffix s_sep_star p with
         | Some L => LitStar L            (* regexp  ^L/[^/]*$  *)
         | None => Lit p                  (* exactMatch *)
         end
       end.

Definition no_sep (s : bytes) : bool := negb (existsb (N.eqb sep) s).

(* literal L matches only L;  L/** matches L/ followed by anything (also nothing), not L;
   L/* matches L/ followed by one separator-free component (also the empty one) *)
Definition prefix_match (k : pkind) (q : bytes) : bool :=
  match k with
  | Lit L => bytes_eqb q L
  | LitStarStar L => has_prefix (L ++ [sep]) q
  | LitStar L => match strip_prefix (L ++ [sep]) q with Some rest => no_sep rest | None => false end
  | Glob => false
  end.

(* The library turns L/* into a regular expression and escapes only . + ( ) $ in L
   (its escape bitmap loses '{' '|' '}'), and it scans the pattern rune-wise (bytes that
   are not UTF-8 become U+FFFD).  The literal reading of L/* is therefore only claimed
   for such L: *)
Definition regex_safe (L : bytes) : bool :=
  forallb (fun b => N.ltb b 128 && negb (N.eqb b 123) && negb (N.eqb b 124) && negb (N.eqb b 125)) L.

Definition kind_safe (k : pkind) : bool :=
  match k with LitStar L => regex_safe L | _ => true end.

(* every pattern with exclusion flag [e] that is a LitStar has a regex-safe literal *)
Definition star_safe (e : bool) (pats : list pat) : bool :=
  forallb (fun P => negb (Bool.eqb (p_excl P) e) || kind_safe (pat_kind (p_str P))) pats.

(* ---------- list evaluation ---------- *)
Fixpoint prefixes {A} (l : list A) : list (list A) :=
  match l with
  | [] => []
  | a :: r => [a] :: map (cons a) (prefixes r)
  end.

(* parentPath := filepath.Dir(file); if parentPath != "." { dirs := Split(parentPath, "/");
   for i := range dirs { Join(dirs[:i+1], "/") } } *)
Definition ancestors_of (file : bytes) : list bytes :=
  let pp := dir file in
  if bytes_eqb pp s_dot then [] else map joinc (prefixes (comps pp)).

Section Match.
Variable pmatch : bytes -> bytes -> bool.   (* Pattern.match: cleaned pattern string, path *)

Definition anc_match (P : bytes) (file : bytes) : bool := existsb (pmatch P) (ancestors_of file).

(* MatchesOrParentMatches *)
Definition naive_step (file : bytes) (matched : bool) (P : pat) : bool :=
  if negb (Bool.eqb (p_excl P) matched) then matched            (* continue *)
  else if pmatch (p_str P) file || anc_match (p_str P) file then negb (p_excl P)
  else matched.
Definition naive (pats : list pat) (file : bytes) : bool := fold_left (naive_step file) pats false.

(* the same without the "skip" (the reading of the property statement) *)
Definition naive_noskip_step (file : bytes) (matched : bool) (P : pat) : bool :=
  if pmatch (p_str P) file || anc_match (p_str P) file then negb (p_excl P) else matched.
Definition naive_noskip (pats : list pat) (file : bytes) : bool :=
  fold_left (naive_noskip_step file) pats false.

(* MatchesUsingParentResults.  [parent] = parentMatchInfo.parentMatched, [hasinfo] =
   len(parentMatched) != 0.  (The "wrong number of values" error cannot occur: infos are
   always produced by the same matcher; [hd false] makes the function total.) *)
Definition incr_m (P : pat) (pm hasinfo : bool) (file : bytes) (matched : bool) : bool :=
  if pm then true
  else if negb (Bool.eqb (p_excl P) matched) then false          (* continue: entry stays false *)
  else pmatch (p_str P) file || (negb hasinfo && anc_match (p_str P) file).

Fixpoint incr_go (pats : list pat) (parent : list bool) (hasinfo : bool) (file : bytes)
         (matched : bool) : bool * list bool :=
  match pats with
  | [] => (matched, [])
  | P :: ps =>
    let pm := hasinfo && hd false parent in
    let m := incr_m P pm hasinfo file matched in
    let matched' := if m then negb (p_excl P) else matched in
    let '(r, info) := incr_go ps (tl parent) hasinfo file matched' in
    (r, m :: info)
  end.

Definition incr_eval (pats : list pat) (file : bytes) (parent : list bool) : bool * list bool :=
  incr_go pats parent (negb (is_nil parent)) file false.

(* the walk's use of it: infos handed down a chain of directories, root has no info *)
Definition incr_chain (pats : list pat) (cs : list bytes) : bool * list bool :=
  fold_left (fun acc pre => incr_eval pats (joinc pre) (snd acc)) (prefixes cs) (false, []).
Definition incr_path (pats : list pat) (cs : list bytes) : bool := fst (incr_chain pats cs).

(* no_late_shadow: evaluating [file] with the parent's info never hits a pattern that
   (a) really matches a proper ancestor, (b) was not recorded in the parent's info (it was
   skipped there), (c) is evaluated now, (d) does not match [file] itself. *)
Fixpoint nls_go (pats : list pat) (parent : list bool) (anc : list bytes) (file : bytes)
         (matched : bool) : bool :=
  match pats with
  | [] => true
  | P :: ps =>
    let pm := hd false parent in
    let m := incr_m P pm true file matched in
    let bad := negb pm && existsb (pmatch (p_str P)) anc && Bool.eqb (p_excl P) matched
               && negb (pmatch (p_str P) file) in
    negb bad && nls_go ps (tl parent) anc file (if m then negb (p_excl P) else matched)
  end.

Definition no_late_shadow (pats : list pat) (cs : list bytes) : bool :=
  let d := removelast cs in
  if is_nil d then true
  else nls_go pats (snd (incr_chain pats d)) (map joinc (prefixes d)) (joinc cs) false.

End Match.

(* the matcher the hypotheses describe, usable for closed examples: prefix-only patterns by
   their literal reading, everything else by [g] *)
Definition lit_pmatch (g : bytes -> bytes -> bool) (P q : bytes) : bool :=
  match pat_kind P with Glob => g P q | k => prefix_match k q end.
