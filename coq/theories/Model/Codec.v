(* L6 — the hand-optimised (vtprotobuf) codec of types.Stat and types.Packet:
   types/stat_vtproto.pb.go, types/wire_vtproto.pb.go, protohelpers.Skip.

   Encoding: MarshalToSizedBufferVT writes the fields back to front, i.e. the bytes are in
   ascending field order, zero / empty fields omitted, then the map entries (in Go's random
   map iteration order — a parameter here), then the retained unknown fields.

   Decoding (UnmarshalVT) is a loop "read tag; switch field number" that MERGES into the
   receiver: scalars last-wins, map entries inserted (last wins per key), unknown fields
   skipped with protohelpers.Skip and appended verbatim to unknownFields, nested Stat merged
   into the existing one.  Every error (ErrIntOverflow, ErrInvalidLength, ErrUnexpectedEOF,
   wrong wire type, illegal tag, end-group) is [None]: the property only distinguishes
   "value" from "error".  Because every length is checked against the remaining input before
   use, "length >= 2^63", "index overflow" and "beyond the end" all collapse to
   "n <= remaining" here. *)
From Coq Require Import List NArith Bool.
From FS Require Import Sx Model.Path Model.Stat Model.Varint.
Import ListNotations.
Open Scope N_scope.

Record packet := {
  ptype : N;               (* Packet_PacketType = int32, as two's complement mod 2^32 *)
  pstat : option stat;     (* nil / present *)
  pid : N;                 (* uint32 *)
  pdata : bytes
}.

Definition empty_stat : stat :=
  {| st_path := []; st_mode := 0; st_uid := 0; st_gid := 0; st_size := 0; st_mtime := 0;
     st_linkname := []; st_devmajor := 0; st_devminor := 0; st_xattrs := [] |}.
Definition empty_packet : packet := {| ptype := 0; pstat := None; pid := 0; pdata := [] |}.

Definition set_uid (s : stat) (v : N) : stat :=
  {| st_path := st_path s; st_mode := st_mode s; st_uid := v; st_gid := st_gid s; st_size := st_size s;
     st_mtime := st_mtime s; st_linkname := st_linkname s; st_devmajor := st_devmajor s;
     st_devminor := st_devminor s; st_xattrs := st_xattrs s |}.
Definition set_gid (s : stat) (v : N) : stat :=
  {| st_path := st_path s; st_mode := st_mode s; st_uid := st_uid s; st_gid := v; st_size := st_size s;
     st_mtime := st_mtime s; st_linkname := st_linkname s; st_devmajor := st_devmajor s;
     st_devminor := st_devminor s; st_xattrs := st_xattrs s |}.
Definition set_mtime (s : stat) (v : N) : stat :=
  {| st_path := st_path s; st_mode := st_mode s; st_uid := st_uid s; st_gid := st_gid s; st_size := st_size s;
     st_mtime := v; st_linkname := st_linkname s; st_devmajor := st_devmajor s;
     st_devminor := st_devminor s; st_xattrs := st_xattrs s |}.
Definition set_devmajor (s : stat) (v : N) : stat :=
  {| st_path := st_path s; st_mode := st_mode s; st_uid := st_uid s; st_gid := st_gid s; st_size := st_size s;
     st_mtime := st_mtime s; st_linkname := st_linkname s; st_devmajor := v;
     st_devminor := st_devminor s; st_xattrs := st_xattrs s |}.
Definition set_devminor (s : stat) (v : N) : stat :=
  {| st_path := st_path s; st_mode := st_mode s; st_uid := st_uid s; st_gid := st_gid s; st_size := st_size s;
     st_mtime := st_mtime s; st_linkname := st_linkname s; st_devmajor := st_devmajor s;
     st_devminor := v; st_xattrs := st_xattrs s |}.
Definition set_xattrs (s : stat) (x : list (bytes * bytes)) : stat :=
  {| st_path := st_path s; st_mode := st_mode s; st_uid := st_uid s; st_gid := st_gid s; st_size := st_size s;
     st_mtime := st_mtime s; st_linkname := st_linkname s; st_devmajor := st_devmajor s;
     st_devminor := st_devminor s; st_xattrs := x |}.

(* ------------------------------------------------------------------ encoding *)

(* `if m.X != 0 { varint; tag }` *)
Definition put_tag_varint (tag v : N) : bytes :=
  if v =? 0 then [] else tag :: put_varint v.
(* `if len(m.X) > 0 { bytes; varint(len); tag }` *)
Definition put_tag_bytes (tag : N) (b : bytes) : bytes :=
  match b with [] => [] | _ :: _ => tag :: put_varint (len b) ++ b end.

(* one map entry: 0x52 len { 0x0a len key  0x12 len value } — key and value always written *)
Definition entry_body (kv : bytes * bytes) : bytes :=
  10 :: put_varint (len (fst kv)) ++ fst kv ++ 18 :: put_varint (len (snd kv)) ++ snd kv.
Definition put_entry (kv : bytes * bytes) : bytes :=
  82 :: put_varint (len (entry_body kv)) ++ entry_body kv.

(* [xs] = the map entries in the order they appear in the output (Go map order) *)
Definition encode_stat_ord (xs : list (bytes * bytes)) (s : stat) : bytes :=
  put_tag_bytes 10 (st_path s) ++ put_tag_varint 16 (st_mode s) ++ put_tag_varint 24 (st_uid s) ++
  put_tag_varint 32 (st_gid s) ++ put_tag_varint 40 (st_size s) ++ put_tag_varint 48 (st_mtime s) ++
  put_tag_bytes 58 (st_linkname s) ++ put_tag_varint 64 (st_devmajor s) ++ put_tag_varint 72 (st_devminor s) ++
  concat (map put_entry xs).
Definition encode_stat (s : stat) : bytes := encode_stat_ord (st_xattrs s) s.

(* uint64(int32): sign extension of the enum *)
Definition sext32 (t : N) : N := if t <? two31 then t else t + (two64 - two32).

Definition put_stat_field (xs : list (bytes * bytes)) (o : option stat) : bytes :=
  match o with
  | None => []
  | Some s => let b := encode_stat_ord xs s in 18 :: put_varint (len b) ++ b
  end.
Definition encode_packet_ord (xs : list (bytes * bytes)) (p : packet) : bytes :=
  put_tag_varint 8 (sext32 (ptype p)) ++ put_stat_field xs (pstat p) ++
  put_tag_varint 24 (pid p) ++ put_tag_bytes 34 (pdata p).
Definition pxattrs (p : packet) : list (bytes * bytes) :=
  match pstat p with Some s => st_xattrs s | None => [] end.
Definition encode_packet (p : packet) : bytes := encode_packet_ord (pxattrs p) p.

(* ------------------------------------------------------------------ SizeVT *)
Definition size_tag_varint (v : N) : N := if v =? 0 then 0 else 1 + size_varint v.
Definition size_tag_bytes (b : bytes) : N :=
  match b with [] => 0 | _ :: _ => 1 + len b + size_varint (len b) end.
Definition size_entry (kv : bytes * bytes) : N :=
  let l := 1 + len (snd kv) + size_varint (len (snd kv)) in
  let e := 1 + len (fst kv) + size_varint (len (fst kv)) + l in
  e + 1 + size_varint e.
Fixpoint size_entries (xs : list (bytes * bytes)) : N :=
  match xs with [] => 0 | kv :: r => size_entry kv + size_entries r end.
Definition size_stat (s : stat) : N :=
  size_tag_bytes (st_path s) + size_tag_varint (st_mode s) + size_tag_varint (st_uid s) +
  size_tag_varint (st_gid s) + size_tag_varint (st_size s) + size_tag_varint (st_mtime s) +
  size_tag_bytes (st_linkname s) + size_tag_varint (st_devmajor s) + size_tag_varint (st_devminor s) +
  size_entries (st_xattrs s).
Definition size_packet (p : packet) : N :=
  size_tag_varint (sext32 (ptype p)) +
  match pstat p with None => 0 | Some s => 1 + size_stat s + size_varint (size_stat s) end +
  size_tag_varint (pid p) + size_tag_bytes (pdata p).

(* SizeVT of messages that retain unknown fields (decoded from foreign bytes) *)
Definition size_stat_u (s : stat) (u : bytes) : N := size_stat s + len u.
Definition size_packet_u (p : packet) (su u : bytes) : N :=
  size_tag_varint (sext32 (ptype p)) +
  match pstat p with None => 0 | Some s => 1 + size_stat_u s su + size_varint (size_stat_u s su) end +
  size_tag_varint (pid p) + size_tag_bytes (pdata p) + len u.

(* ------------------------------------------------------------------ decoding helpers *)

(* dAtA[iNdEx : iNdEx+n] with all three length checks *)
Definition take_n (n : N) (l : bytes) : option (bytes * bytes) :=
  if n <=? len l then Some (firstn (N.to_nat n) l, skipn (N.to_nat n) l) else None.
(* varint length followed by that many bytes *)
Definition get_bytes (l : bytes) : option (bytes * bytes) :=
  match get_varint l with
  | Some (n, r) => take_n n r
  | None => None
  end.

(* tag: fieldNum := int32(wire >> 3) (as mod 2^32), wireType := wire & 7 *)
Definition get_tag (l : bytes) : option (N * N * bytes) :=
  match get_varint l with
  | Some (w, r) => Some ((w / 8) mod two32, w mod 8, r)
  | None => None
  end.

(* protohelpers.Skip(dAtA[iNdEx:]): rest after one record (groups nest), [None] on any error
   or when the record does not fit (Skip may then return an index beyond the end, which every
   caller turns into ErrUnexpectedEOF). *)
Fixpoint skip_loop (fuel : nat) (depth : nat) (l : bytes) : option bytes :=
  match fuel with
  | O => None
  | S f =>
    match l with
    | [] => None                         (* loop exit: io.ErrUnexpectedEOF *)
    | _ :: _ =>
      match get_varint l with
      | None => None
      | Some (w, r) =>
        let step : option (bytes * nat) :=
          match w mod 8 with
          | 0 => match get_varint r with Some (_, r') => Some (r', depth) | None => None end
          | 1 => match take_n 8 r with Some (_, r') => Some (r', depth) | None => None end
          | 2 => match get_bytes r with Some (_, r') => Some (r', depth) | None => None end
          | 3 => Some (r, S depth)
          | 4 => match depth with O => None | S d => Some (r, d) end
          | 5 => match take_n 4 r with Some (_, r') => Some (r', depth) | None => None end
          | _ => None
          end in
        match step with
        | None => None
        | Some (r', O) => Some r'
        | Some (r', S d) => skip_loop f (S d) r'
        end
      end
    end
  end.
Definition skip (l : bytes) : option bytes := skip_loop (length l) 0 l.

Definition bytes_field {F : Type} (wt : N) (r : bytes) (mk : bytes -> F) : option (F * bytes) :=
  if wt =? 2 then match get_bytes r with Some (b, r') => Some (mk b, r') | None => None end else None.
Definition varint_field {F : Type} (wt : N) (r : bytes) (mk : N -> F) : option (F * bytes) :=
  if wt =? 0 then match get_varint r with Some (v, r') => Some (mk v, r') | None => None end else None.
Definition unknown_field {F : Type} (l : bytes) (mk : bytes -> F) : option (F * bytes) :=
  match skip l with
  | Some r' => Some (mk (firstn (length l - length r') l), r')
  | None => None
  end.

(* The body of one map entry.  [cur] = the input from iNdEx to the END OF THE MESSAGE (not of
   the entry), [stop] = number of bytes that follow the entry (l - postIndex).  The loop runs
   while iNdEx < postIndex.  Key and value are bounds-checked against the end of the message
   (`> l`), NOT against the end of the entry, and after the loop iNdEx is reset to postIndex:
   a key/value may overrun its entry and the overrun bytes are parsed again afterwards.
   No wire-type check on fields 1 and 2; other fields go through Skip and must end inside
   the entry. *)
Fixpoint dec_entry (fuel : nat) (stop : N) (cur : bytes) (k v : bytes) : option (bytes * bytes) :=
  if len cur <=? stop then Some (k, v) else
  match fuel with
  | O => None
  | S f =>
    match get_tag cur with
    | None => None
    | Some (fn, _, r) =>
      if fn =? 1 then
        match get_bytes r with Some (k', r') => dec_entry f stop r' k' v | None => None end
      else if fn =? 2 then
        match get_bytes r with Some (v', r') => dec_entry f stop r' k v' | None => None end
      else
        match skip cur with
        | Some r' => if len r' <? stop then None else dec_entry f stop r' k v
        | None => None
        end
    end
  end.

(* generic "for iNdEx < l { one field }" loop; each field consumes at least the tag byte *)
Section Fold.
  Context {F St : Type}.
  Variable decf : bytes -> option (F * bytes).
  Variable app : St -> F -> option St.
  Fixpoint fold_fields (fuel : nat) (l : bytes) (st : St) : option St :=
    match l with
    | [] => Some st
    | _ :: _ =>
      match fuel with
      | O => None
      | S f =>
        match decf l with
        | None => None
        | Some (fld, r) =>
          match app st fld with
          | None => None
          | Some st' => fold_fields f r st'
          end
        end
      end
    end.
End Fold.

(* ------------------------------------------------------------------ Stat.UnmarshalVT *)
Inductive sfield :=
| SF_path (b : bytes) | SF_mode (v : N) | SF_uid (v : N) | SF_gid (v : N) | SF_size (v : N)
| SF_mtime (v : N) | SF_linkname (b : bytes) | SF_devmajor (v : N) | SF_devminor (v : N)
| SF_xattr (k v : bytes) | SF_unknown (raw : bytes).

Definition tag_ok (fn wt : N) : bool := negb ((wt =? 4) || (fn =? 0) || (two31 <=? fn)).

(* case 10: one map entry; afterwards iNdEx = postIndex whatever the entry loop consumed *)
Definition xattr_field (wt : N) (r : bytes) : option (sfield * bytes) :=
  if wt =? 2 then
    match get_varint r with
    | None => None
    | Some (n, r1) =>
      if n <=? len r1 then
        match dec_entry (length r1) (len r1 - n) r1 [] [] with
        | Some (k, v) => Some (SF_xattr k v, skipn (N.to_nat n) r1)
        | None => None
        end
      else None
    end
  else None.

Definition dec_sfield (l : bytes) : option (sfield * bytes) :=
  match get_tag l with
  | None => None
  | Some (fn, wt, r) =>
    if tag_ok fn wt then
      match fn with
      | 1 => bytes_field wt r SF_path
      | 2 => varint_field wt r (fun v => SF_mode (v mod two32))      (* uint32(b&0x7F) << shift *)
      | 3 => varint_field wt r (fun v => SF_uid (v mod two32))
      | 4 => varint_field wt r (fun v => SF_gid (v mod two32))
      | 5 => varint_field wt r SF_size                                (* int64: mod 2^64 *)
      | 6 => varint_field wt r SF_mtime
      | 7 => bytes_field wt r SF_linkname
      | 8 => varint_field wt r SF_devmajor
      | 9 => varint_field wt r SF_devminor
      | 10 => xattr_field wt r
      | _ => unknown_field l SF_unknown
      end
    else None
  end.

(* m.Xattrs[k] = v on a map kept sorted by key (bytewise = Go string order) *)
Fixpoint xinsert (k v : bytes) (l : list (bytes * bytes)) : list (bytes * bytes) :=
  match l with
  | [] => [(k, v)]
  | (k', v') :: r =>
    match cmp_bytes k k' with
    | Lt => (k, v) :: l
    | Eq => (k, v) :: r
    | Gt => (k', v') :: xinsert k v r
    end
  end.
(* used by the glue only, to read off the order in which an encoder emitted the entries *)
Definition xappend (k v : bytes) (l : list (bytes * bytes)) : list (bytes * bytes) := l ++ [(k, v)].

Section Ins.
  Variable ins : bytes -> bytes -> list (bytes * bytes) -> list (bytes * bytes).

  Definition apply_sfield (su : stat * bytes) (f : sfield) : option (stat * bytes) :=
    let (s, u) := su in
    Some match f with
         | SF_path b => (set_path s b, u)
         | SF_mode v => (set_mode s v, u)
         | SF_uid v => (set_uid s v, u)
         | SF_gid v => (set_gid s v, u)
         | SF_size v => (set_size s v, u)
         | SF_mtime v => (set_mtime s v, u)
         | SF_linkname b => (set_linkname s b, u)
         | SF_devmajor v => (set_devmajor s v, u)
         | SF_devminor v => (set_devminor s v, u)
         | SF_xattr k v => (set_xattrs s (ins k v (st_xattrs s)), u)
         | SF_unknown raw => (s, u ++ raw)
         end.

  (* (m *Stat).UnmarshalVT(b) on a receiver holding [su] (value, unknownFields) *)
  Definition decode_stat_into (su : stat * bytes) (b : bytes) : option (stat * bytes) :=
    fold_fields dec_sfield apply_sfield (length b) b su.

  (* ---------------------------------------------------------------- Packet.UnmarshalVT *)
  Inductive pfield :=
  | PF_type (v : N) | PF_stat (payload : bytes) | PF_id (v : N) | PF_data (b : bytes) | PF_unknown (raw : bytes).

  Definition dec_pfield (l : bytes) : option (pfield * bytes) :=
    match get_tag l with
    | None => None
    | Some (fn, wt, r) =>
      if tag_ok fn wt then
        match fn with
        | 1 => varint_field wt r (fun v => PF_type (v mod two32))   (* int32 enum << shift *)
        | 2 => bytes_field wt r PF_stat
        | 3 => varint_field wt r (fun v => PF_id (v mod two32))
        | 4 => bytes_field wt r PF_data
        | _ => unknown_field l PF_unknown
        end
      else None
    end.

  Record pstate := {
    q_type : N; q_stat : option (stat * bytes); q_id : N; q_data : bytes; q_unk : bytes
  }.
  Definition empty_pstate : pstate :=
    {| q_type := 0; q_stat := None; q_id := 0; q_data := []; q_unk := [] |}.

  Definition apply_pfield (q : pstate) (f : pfield) : option pstate :=
    match f with
    | PF_type v => Some {| q_type := v; q_stat := q_stat q; q_id := q_id q; q_data := q_data q; q_unk := q_unk q |}
    | PF_stat b =>
      (* if m.Stat == nil { m.Stat = &Stat{} }; m.Stat.UnmarshalVT(payload): merge *)
      let su := match q_stat q with Some su => su | None => (empty_stat, []) end in
      match decode_stat_into su b with
      | Some su' => Some {| q_type := q_type q; q_stat := Some su'; q_id := q_id q; q_data := q_data q; q_unk := q_unk q |}
      | None => None
      end
    | PF_id v => Some {| q_type := q_type q; q_stat := q_stat q; q_id := v; q_data := q_data q; q_unk := q_unk q |}
    | PF_data b => Some {| q_type := q_type q; q_stat := q_stat q; q_id := q_id q; q_data := b; q_unk := q_unk q |}
    | PF_unknown raw => Some {| q_type := q_type q; q_stat := q_stat q; q_id := q_id q; q_data := q_data q; q_unk := q_unk q ++ raw |}
    end.

  Definition decode_packet_into (q : pstate) (b : bytes) : option pstate :=
    fold_fields dec_pfield apply_pfield (length b) b q.
End Ins.

(* decoding into a fresh message; results: value, retained unknown fields *)
Definition decode_stat_u (b : bytes) : option (stat * bytes) :=
  decode_stat_into xinsert (empty_stat, []) b.
Definition decode_stat (b : bytes) : option stat := option_map fst (decode_stat_u b).

Definition packet_of (q : pstate) : packet * bytes * bytes :=
  ({| ptype := q_type q; pstat := option_map fst (q_stat q); pid := q_id q; pdata := q_data q |},
   match q_stat q with Some (_, u) => u | None => [] end, q_unk q).
(* value, unknown fields of the nested Stat, unknown fields of the Packet *)
Definition decode_packet_u (b : bytes) : option (packet * bytes * bytes) :=
  option_map packet_of (decode_packet_into xinsert empty_pstate b).
Definition decode_packet (b : bytes) : option packet :=
  option_map (fun x => fst (fst x)) (decode_packet_u b).

(* what the decoder had to allocate for byte-like fields *)
Fixpoint xattrs_bytes (xs : list (bytes * bytes)) : N :=
  match xs with [] => 0 | (k, v) :: r => len k + len v + xattrs_bytes r end.
Definition stat_alloc (su : stat * bytes) : N :=
  len (st_path (fst su)) + len (st_linkname (fst su)) + xattrs_bytes (st_xattrs (fst su)) + len (snd su).
Definition packet_alloc (x : packet * bytes * bytes) : N :=
  let '(p, su, u) := x in
  match pstat p with Some s => stat_alloc (s, su) | None => 0 end + len (pdata p) + len u.

(* ------------------------------------------------------------------ well-formed values *)
Fixpoint keys_sorted (xs : list (bytes * bytes)) : Prop :=
  match xs with
  | [] => True
  | (k, _) :: r => match r with [] => True | (k', _) :: _ => cmp_bytes k k' = Lt end /\ keys_sorted r
  end.

(* what the Go types guarantee: uint32 / int64 ranges, lengths that fit an int, a map (keys
   distinct — here: the canonical sorted presentation) *)
Definition wf_stat (s : stat) : Prop :=
  st_mode s < two32 /\ st_uid s < two32 /\ st_gid s < two32 /\
  st_size s < two64 /\ st_mtime s < two64 /\ st_devmajor s < two64 /\ st_devminor s < two64 /\
  keys_sorted (st_xattrs s) /\ size_stat s < two64.
Definition wf_packet (p : packet) : Prop :=
  ptype p < two32 /\ pid p < two32 /\
  match pstat p with Some s => wf_stat s | None => True end /\ size_packet p < two64.

(* ------------------------------------------------------------------ generic runtime
   google.golang.org/protobuf: same wire format; proto3 `string` fields (path, linkname, map
   keys) must be valid UTF-8 in both directions; deterministic marshalling sorts map keys. *)
Definition in_rng (b lo hi : N) : bool := (lo <=? b) && (b <=? hi).
Fixpoint utf8_valid_f (fuel : nat) (l : bytes) : bool :=
  match fuel with
  | O => true
  | S f =>
    match l with
    | [] => true
    | a :: r =>
      if a <? 128 then utf8_valid_f f r
      else if in_rng a 194 223 then
        match r with b :: r' => in_rng b 128 191 && utf8_valid_f f r' | _ => false end
      else if in_rng a 224 239 then
        match r with
        | b :: c :: r' =>
          in_rng b (if a =? 224 then 160 else 128) (if a =? 237 then 159 else 191) &&
          in_rng c 128 191 && utf8_valid_f f r'
        | _ => false
        end
      else if in_rng a 240 244 then
        match r with
        | b :: c :: d :: r' =>
          in_rng b (if a =? 240 then 144 else 128) (if a =? 244 then 143 else 191) &&
          in_rng c 128 191 && in_rng d 128 191 && utf8_valid_f f r'
        | _ => false
        end
      else false
    end
  end.
Definition utf8_valid (l : bytes) : bool := utf8_valid_f (S (length l)) l.
Definition utf8_valid_stat (s : stat) : bool :=
  utf8_valid (st_path s) && utf8_valid (st_linkname s) && forallb (fun kv => utf8_valid (fst kv)) (st_xattrs s).
Definition utf8_valid_packet (p : packet) : bool :=
  match pstat p with Some s => utf8_valid_stat s | None => true end.

Definition generic_encode_stat (s : stat) : option bytes :=
  if utf8_valid_stat s then Some (encode_stat s) else None.
Definition generic_encode_packet (p : packet) : option bytes :=
  if utf8_valid_packet p then Some (encode_packet p) else None.
Definition generic_decode_stat (b : bytes) : option stat :=
  match decode_stat b with
  | Some s => if utf8_valid_stat s then Some s else None
  | None => None
  end.
Definition generic_decode_packet (b : bytes) : option packet :=
  match decode_packet b with
  | Some p => if utf8_valid_packet p then Some p else None
  | None => None
  end.
