(* C14 — containerd/continuity fs.RootPath (v0.4.1, fs/path.go) and copy.rootPath
   (/repo/copy/copy.go) over the syscall-level file-system model Model/Fs.v.

   Go                                   here
   ------------------------------------ -----------------------------------------------
   walkLink(root, path, &linksWalked)   walk_link      (Lstat / Readlink = sys_lstat / sys_readlink
                                                        on filepath.Join(root, filepath.Join("/", path)))
   walkLinks(root, path, &linksWalked)  walk_links     (see below)
   RootPath(root, path)                 root_path      (the pass loop; fuel = an upper bound of the
                                                        number of passes, see root_path_fuel)
   copy.rootPath(root, p, followLinks)  copy_root_path

   walkLinks recurses on filepath.Split(path) = (dir, file):
     dir = ""                 -> walkLink(root, file)                      (raw link target when a link)
     file = "" (trailing '/') -> "/" when dir = "/", else walkLinks(root, dir minus its last byte)
     otherwise                -> newdir := walkLinks(root, dir);
                                 walkLink(root, Join(newdir, file)): not a link -> that path;
                                 a link with target t -> t when absolute, else Join(newdir, t).
   Unfolding the recursion from the left over [comps path] = c1 :: rest (split at EVERY '/'):
     the state after c1 is "/" when c1 = "" (path is absolute, or empty) and walkLink(root, c1)
     otherwise; every further empty component (doubled or trailing separator) leaves the state
     unchanged; every other component (INCLUDING "." and "..", which Go hands to Join) performs the
     link step above.  [walk_links] is this left fold; kind 1403 checks it against the real code on
     strings with doubled / trailing separators and dots. *)
From Coq Require Import List NArith Bool.
From FS Require Import Sx Model.Path Model.Fs.
Import ListNotations.
Open Scope N_scope.
Open Scope bool_scope.

Inductive rp_err :=
| RpTooManyLinks            (* errTooManyLinks: more than 255 links walked *)
| RpErrno (e : errno)       (* error of Lstat / Readlink other than "does not exist" *)
| RpFuel.                   (* model artefact: pass bound exhausted (never observed; excluded by theorems) *)

Definition rp_max_links : N := 255.

(* walkLink: (newpath, islink, linksWalked') *)
Definition walk_link (c : ctx) (f : fs) (root path : bytes) (nl : N) : (bytes * bool * N) + rp_err :=
  if N.ltb rp_max_links nl then inr RpTooManyLinks
  else
    let p := join2 [sep] path in
    if bytes_eqb p [sep] then inl (p, false, nl)
    else
      let real := join2 root p in
      match snd (sys_lstat c f real) with
      | RErr ENOENT => inl (p, false, nl)          (* os.IsNotExist: treated as a non-symlink *)
      | RErr e => inr (RpErrno e)
      | RStat _ n =>
        match i_kind n with
        | KLink _ =>
          match snd (sys_readlink c f real) with
          | RBytes t => inl (t, true, nl + 1)
          | RErr e => inr (RpErrno e)
          | _ => inr (RpErrno EINVAL)
          end
        | _ => inl (p, false, nl)
        end
      | _ => inr (RpErrno EINVAL)
      end.

(* the default case of walkLinks, given newdir = [st] *)
Definition link_step (c : ctx) (f : fs) (root st file : bytes) (nl : N) : (bytes * N) + rp_err :=
  match walk_link c f root (join2 st file) nl with
  | inr e => inr e
  | inl (np, false, nl') => inl (np, nl')
  | inl (np, true, nl') => if is_abs np then inl (np, nl') else inl (join2 st np, nl')
  end.

Fixpoint walk_links_rest (c : ctx) (f : fs) (root st : bytes) (nl : N) (cs : list bytes)
  : (bytes * N) + rp_err :=
  match cs with
  | [] => inl (st, nl)
  | x :: r =>
    match x with
    | [] => walk_links_rest c f root st nl r
    | _ => match link_step c f root st x nl with
           | inr e => inr e
           | inl (st', nl') => walk_links_rest c f root st' nl' r
           end
    end
  end.

Definition walk_links_first (c : ctx) (f : fs) (root c1 : bytes) (nl : N) : (bytes * N) + rp_err :=
  match c1 with
  | [] => inl ([sep], nl)
  | _ => match walk_link c f root c1 nl with
         | inr e => inr e
         | inl (np, _, nl') => inl (np, nl')
         end
  end.

Definition walk_links (c : ctx) (f : fs) (root path : bytes) (nl : N) : (bytes * N) + rp_err :=
  match comps path with
  | [] => inr RpFuel   (* impossible: comps is never empty *)
  | c1 :: rest =>
    match walk_links_first c f root c1 nl with
    | inr e => inr e
    | inl (st, nl') => walk_links_rest c f root st nl' rest
    end
  end.

(* the loop of RootPath; every pass either walks at least one link (at most 257 such passes:
   walkLink fails once 256 links were walked) or is followed by at most one more pass *)
Fixpoint root_path_loop (fuel : nat) (c : ctx) (f : fs) (root path : bytes) (nl : N) : bytes + rp_err :=
  match fuel with
  | O => inr RpFuel
  | S k =>
    match walk_links c f root path nl with
    | inr e => inr e
    | inl (np, nl') =>
      if N.eqb nl nl' then
        let np2 := join2 [sep] np in
        if bytes_eqb np np2 then inl (join2 root np2)
        else root_path_loop k c f root np2 nl'
      else root_path_loop k c f root np nl'
    end
  end.

Definition root_path_fuel : nat := 520.

Definition root_path (c : ctx) (f : fs) (root path : bytes) : bytes + rp_err :=
  match path with
  | [] => inl root
  | _ => root_path_loop root_path_fuel c f root path 0
  end.

(* filepath.Split *)
Definition split_path (p : bytes) : bytes * bytes :=
  match split_last p with Some x => x | None => ([], p) end.

(* copy.rootPath *)
Definition copy_root_path (c : ctx) (f : fs) (root p : bytes) (follow : bool) : bytes + rp_err :=
  let p1 := join2 [sep] p in
  if bytes_eqb p1 [sep] then inl root
  else if follow then root_path c f root p1
  else
    let (d, fl) := split_path p1 in
    match root_path c f root d with
    | inr e => inr e
    | inl pp => inl (join2 pp fl)
    end.

(* ---- the reference: what a process chroot-ed into root gets ---- *)
Fixpoint name_of_ino (ents : list (bytes * N)) (i : N) : option bytes :=
  match ents with
  | [] => None
  | (n, j) :: r => if N.eqb i j then Some n else name_of_ino r i
  end.
(* names leading from directory [stop] down to directory [i] (parent pointers) *)
Fixpoint path_up (fuel : nat) (f : fs) (stop i : N) (acc : list bytes) : option (list bytes) :=
  if N.eqb i stop then Some acc
  else match fuel with
       | O => None
       | S k =>
         match dir_of f i with
         | Some (par, _) =>
           match dir_of f par with
           | Some (_, pents) =>
             match name_of_ino pents i with
             | Some n => path_up k f stop par (n :: acc)
             | None => None
             end
           | None => None
           end
         | None => None
         end
       end.
(* chroot(root); chdir(p); getcwd() *)
Definition chroot_cwd (f : fs) (rootino : N) (p : bytes) : bytes + errno :=
  match resolve_ino {| c_root := rootino; c_cwd := rootino |} f p true with
  | inr e => inr e
  | inl i =>
    if is_dir f i then
      match path_up 64 f rootino i [] with
      | Some cs => inl (sep :: joinc cs)
      | None => inr EINVAL
      end
    else inr ENOTDIR
  end.

(* ---- vocabulary of the theorems ---- *)
(* the absolute clean path with components cs: "/" ++ c1 ++ "/" ++ ... ++ cn *)
Definition render (cs : list bytes) : bytes := sep :: joinc cs.

(* a path component that is lexically a name: non-empty, no separator, neither "." nor ".." *)
Definition lex_name_ok (x : bytes) : bool :=
  nonempty x && negb (bytes_eqb x s_dot) && negb (bytes_eqb x s_dotdot) && forallb (fun b => negb (N.eqb b sep)) x.
(* ... and without NUL byte (a string with a NUL never reaches the kernel: EINVAL) *)
Definition name_ok (x : bytes) : bool := lex_name_ok x && negb (has_nul x).

(* Symlink-free lookup of the names [cs] from directory [cur]: never consults the process
   root, never follows anything.  [PLink] = a symlink was met at a non-final position or,
   when [final_ok = false], at the final one too. *)
Inductive plain_res := PFound (r : lres) | PErr (e : errno) | PLink.
Fixpoint plain_lookup (f : fs) (cur : N) (cs : list bytes) (final_ok : bool) : plain_res :=
  match dir_of f cur with
  | None => PErr ENOTDIR
  | Some (_, ents) =>
    match cs with
    | [] => PFound {| l_dir := cur; l_name := []; l_ino := Some cur |}
    | x :: rest =>
      match blookup x ents with
      | None => if is_nil rest then PFound {| l_dir := cur; l_name := x; l_ino := None |} else PErr ENOENT
      | Some i =>
        match get f i with
        | Some {| i_kind := KLink _ |} =>
          if is_nil rest && final_ok then PFound {| l_dir := cur; l_name := x; l_ino := Some i |} else PLink
        | _ => if is_nil rest then PFound {| l_dir := cur; l_name := x; l_ino := Some i |}
               else plain_lookup f i rest final_ok
        end
      end
    end
  end.

(* the inode directory [cs] leads to from [cur] through real directories only *)
Definition plain_dir (f : fs) (cur : N) (cs : list bytes) : option N :=
  match plain_lookup f cur cs false with
  | PFound r => match l_ino r with Some i => if is_dir f i then Some i else None | None => None end
  | _ => None
  end.

(* no prefix of [cs], looked up from [cur] without following anything, is a symlink:
   every prefix names a non-symlink or nothing at all *)
Fixpoint link_free (f : fs) (cur : N) (cs : list bytes) : bool :=
  match cs with
  | [] => true
  | x :: rest =>
    match dir_of f cur with
    | None => true                       (* not a directory: nothing below exists *)
    | Some (_, ents) =>
      match blookup x ents with
      | None => true                     (* missing: nothing below exists *)
      | Some i =>
        match get f i with
        | Some {| i_kind := KLink _ |} => false
        | _ => link_free f i rest
        end
      end
    end
  end.
