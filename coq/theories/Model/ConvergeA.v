(* C01 — the level-A receiver model (Model/AbsDest.v, owned by C02/C05) seen through the
   observation record of the convergence relation (Model/Converge.v), the hypotheses on a
   listing that the hard-link part of the relation needs, and (own extension) the
   directory-mtime behaviour of the writer: every create / rename / remove stamps the parent
   directory with the current time, and DiskWriter.Wait re-applies the recorded mtimes of the
   directories created by this transfer. *)
From Coq Require Import List NArith Bool.
From FS Require Import Sx Model.Path Model.Stat Model.Diff Model.AbsDest Model.Converge.
Import ListNotations.
Open Scope N_scope.
Open Scope bool_scope.

(* ---- the destination map as a list of observations ---- *)
Definition obs_of_dentry (p : bytes) (e : dentry) : obs :=
  let s := de_stat e in
  {| o_path := p; o_type := unix_type_of_gomode (st_mode s); o_perm := unix_perm_of_gomode (st_mode s);
     o_uid := st_uid s; o_gid := st_gid s; o_mtime := st_mtime s; o_content := de_bytes e;
     o_target := st_linkname s; o_major := st_devmajor s; o_minor := st_devminor s;
     o_ino := de_ino e; o_xattrs := st_xattrs s |}.

Definition view_of (D : dmap) : list obs := map (fun kv => obs_of_dentry (fst kv) (snd kv)) D.

(* ---- hypotheses on a listing (what a walk of a quiescent tree guarantees,
        Proofs/WalkWfP.v walk_views_are_wf) ---- *)
(* what two names of one inode share *)
Definition link_meta_eq (t s : stat) : Prop :=
  st_mode t = st_mode s /\ st_uid t = st_uid s /\ st_gid t = st_gid s /\ st_size t = st_size s
  /\ st_mtime t = st_mtime s /\ st_devmajor t = st_devmajor s /\ st_devminor t = st_devminor s.

(* canonical hard-link presentation: a link entry names an EARLIER entry that is the regular
   file itself (empty Linkname: the first name of the inode in walk order), with the same
   metadata and the same bytes.  Implies AbsDest.links_ok. *)
Definition links_canon (B : list AbsDest.entry) : Prop :=
  forall sb bb, In (sb, bb) B -> is_hardlink sb = true ->
  exists st bt, In (st, bt) B /\ st_path st = st_linkname sb /\
                compare_path (st_path st) (st_path sb) = Lt /\ AbsDest.is_reg st = true /\
                st_linkname st = [] /\ link_meta_eq st sb /\ bt = bb.

Definition link_meta_eqb (t s : stat) : bool :=
  N.eqb (st_mode t) (st_mode s) && N.eqb (st_uid t) (st_uid s) && N.eqb (st_gid t) (st_gid s)
  && N.eqb (st_size t) (st_size s) && N.eqb (st_mtime t) (st_mtime s)
  && N.eqb (st_devmajor t) (st_devmajor s) && N.eqb (st_devminor t) (st_devminor s).

Definition links_canon_b (B : list AbsDest.entry) : bool :=
  forallb (fun e => negb (is_hardlink (fst e)) ||
     existsb (fun t => bytes_eqb (st_path (fst t)) (st_linkname (fst e))
                       && path_ltb (st_path (fst t)) (st_path (fst e))
                       && AbsDest.is_reg (fst t) && is_empty (st_linkname (fst t))
                       && link_meta_eqb (fst t) (fst e) && bytes_eqb (snd t) (snd e)) B) B.

(* a well-formed listing with contents: strictly ascending in path order, ancestor-closed,
   canonical hard links *)
Definition wf_entries (E : list AbsDest.entry) : Prop :=
  wf_listing (map fst E) /\ links_canon E.
Definition wf_entries_b (E : list AbsDest.entry) : bool :=
  listing_ok_b (map fst E) && links_canon_b E.
