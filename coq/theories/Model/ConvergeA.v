(* C01 — the level-A receiver model (Model/AbsDest.v, owned by C02/C05) seen through the
   observation record of the convergence relation (Model/Converge.v), the hypotheses on a
   listing that the hard-link part of the relation needs, and (own extension) the
   directory-mtime behaviour of the writer: every create / rename / remove stamps the parent
   directory with the current time, and DiskWriter.Wait re-applies the recorded mtimes of the
   directories created by this transfer. *)
From Coq Require Import List NArith Bool.
From FS Require Import Sx Model.Path Model.Stat Model.Diff Model.AbsDest Model.Converge.
Import ListNotations.
Open Scope N_scope.
Open Scope bool_scope.

(* ---- the destination map as a list of observations ---- *)
Definition obs_of_dentry (p : bytes) (e : dentry) : obs :=
  let s := de_stat e in
  {| o_path := p; o_type := unix_type_of_gomode (st_mode s); o_perm := unix_perm_of_gomode (st_mode s);
     o_uid := st_uid s; o_gid := st_gid s; o_mtime := st_mtime s; o_content := de_bytes e;
     o_target := st_linkname s; o_major := st_devmajor s; o_minor := st_devminor s;
     o_ino := de_ino e; o_xattrs := st_xattrs s |}.

Definition view_of (D : dmap) : list obs := map (fun kv => obs_of_dentry (fst kv) (snd kv)) D.

(* ---- hypotheses on a listing (what a walk of a quiescent tree guarantees,
        Proofs/WalkWfP.v walk_views_are_wf) ---- *)
(* what two names of one inode share *)
Definition link_meta_eq (t s : stat) : Prop :=
  st_mode t = st_mode s /\ st_uid t = st_uid s /\ st_gid t = st_gid s /\ st_size t = st_size s
  /\ st_mtime t = st_mtime s /\ st_devmajor t = st_devmajor s /\ st_devminor t = st_devminor s
  /\ st_xattrs t = st_xattrs s.

(* canonical hard-link presentation: a link entry (a non-directory, non-symlink entry with a
   Linkname: regular file, device or fifo alike) names an EARLIER entry that is the inode itself
   (empty Linkname: the first name of the inode in walk order), with the same metadata and the
   same bytes.  Implies AbsDest.links_ok. *)
Definition links_canon (B : list AbsDest.entry) : Prop :=
  forall sb bb, In (sb, bb) B -> is_hardlink sb = true ->
  exists st bt, In (st, bt) B /\ st_path st = st_linkname sb /\
                compare_path (st_path st) (st_path sb) = Lt /\ AbsDest.is_node st = true /\
                st_linkname st = [] /\ link_meta_eq st sb /\ bt = bb.

Definition link_meta_eqb (t s : stat) : bool :=
  N.eqb (st_mode t) (st_mode s) && N.eqb (st_uid t) (st_uid s) && N.eqb (st_gid t) (st_gid s)
  && N.eqb (st_size t) (st_size s) && N.eqb (st_mtime t) (st_mtime s)
  && N.eqb (st_devmajor t) (st_devmajor s) && N.eqb (st_devminor t) (st_devminor s)
  && xattrs_eqb (st_xattrs t) (st_xattrs s).

Definition links_canon_b (B : list AbsDest.entry) : bool :=
  forallb (fun e => negb (is_hardlink (fst e)) ||
     existsb (fun t => bytes_eqb (st_path (fst t)) (st_linkname (fst e))
                       && path_ltb (st_path (fst t)) (st_path (fst e))
                       && AbsDest.is_node (fst t) && is_empty (st_linkname (fst t))
                       && link_meta_eqb (fst t) (fst e) && bytes_eqb (snd t) (snd e)) B) B.

(* a well-formed listing with contents: strictly ascending in path order, ancestor-closed,
   canonical hard links *)
Definition wf_entries (E : list AbsDest.entry) : Prop :=
  wf_listing (map fst E) /\ links_canon E.
Definition wf_entries_b (E : list AbsDest.entry) : bool :=
  listing_ok_b (map fst E) && links_canon_b E.

(* ------------------------------------------------------------------------------------------
   Directory mtimes (own extension of the level-A model; AbsDest.v leaves them out).
   On disk the mtime of a directory is not only what rewriteMetadata/chtimes wrote: every
   create, rename-into-place and remove of an entry stamps the PARENT directory with the
   current time.  The model keeps the destination map of AbsDest unchanged and records next to
   it an overlay  [ov : path -> time]  = "the directory at this path currently shows this time
   instead of the mtime of its stat", plus the list [dmt] of DiskWriter.dirModTimes (paths of the
   directories created by Mkdir in this transfer).  DiskWriter.Wait re-applies the recorded
   mtimes: the overlay of those paths is dropped.
     add/modify at p : the entry at p is written with its stat's mtime (overlay at p dropped);
                       unless it is a directory over a directory (metadata in place) the parent
                       of p is stamped (temporary name created, renamed over p);
     delete at p     : the parent is stamped if something was removed.
   [now i] = the wall clock at the i-th change: arbitrary. *)
Definition parent_of (p : bytes) : option bytes :=
  match rev (sep_prefixes p) with q :: _ => Some q | [] => None end.

Definition is_dir_at (D : dmap) (p : bytes) : bool :=
  match alookup p D with Some o => st_is_dir (de_stat o) | None => false end.
Definition exists_at (D : dmap) (p : bytes) : bool :=
  match alookup p D with Some _ => true | None => false end.

(* the Mkdir branch of HandleChange: dirModTimes[destPath] = stat.ModTime *)
Definition mkdir_case (D : dmap) (c : change) : bool :=
  match c with
  | (KDelete, _, _) => false
  | (_, p, Some st) => st_is_dir st && negb (is_dir_at D p)
  | (_, _, None) => false
  end.
(* directory over directory: rewriteMetadata in place, nothing created, renamed or removed *)
Definition in_place (D : dmap) (c : change) : bool :=
  match c with
  | (KDelete, _, _) => false
  | (_, p, Some st) => st_is_dir st && is_dir_at D p
  | (_, _, None) => false
  end.

Section DirTimes.
Variable src : bytes -> bytes.
Variable now : N -> N.

Definition stamp_parent (p : bytes) (t : N) (ov : amap N) : amap N :=
  match parent_of p with Some q => aset q t ov | None => ov end.

Definition ov_step (D : dmap) (i : N) (c : change) (ov : amap N) : amap N :=
  let p := ch_path c in
  match c with
  | (KDelete, _, _) => if exists_at D p then stamp_parent p (now i) ov else ov
  | (_, _, Some _) =>
      let ov1 := aremove_if (bytes_eqb p) ov in
      if in_place D c then ov1 else stamp_parent p (now i) ov1
  | (_, _, None) => ov
  end.

(* apply_all of AbsDest with the overlay and dirModTimes threaded along *)
Fixpoint apply_all_t (cs : list change) (D : dmap) (next i : N) (ov : amap N) (dmt : list bytes)
  : dmap * N * amap N * list bytes * bool :=
  match cs with
  | [] => (D, next, ov, dmt, false)
  | c :: r =>
    match apply_map src D next c with
    | None => (D, next, ov, dmt, true)
    | Some (D', n') =>
      apply_all_t r D' n' (i + 1) (ov_step D i c ov) (if mkdir_case D c then ch_path c :: dmt else dmt)
    end
  end.

(* DiskWriter.Wait: chtimes(path, dirModTimes[path]) for every recorded directory *)
Definition wait_pass (dmt : list bytes) (ov : amap N) : amap N :=
  aremove_if (fun q => existsb (bytes_eqb q) dmt) ov.
End DirTimes.

Record tstate := { ts_map : dmap; ts_ov : amap N; ts_err : bool }.

Definition receive_t (now : N -> N) (m : rmode) (d : differ) (A B : list AbsDest.entry) : tstate :=
  let LA := match m with Fresh => map fst A | Merge => [] end in
  let cs := diff (fun s => s) d LA (map fst B) in
  let '(D, _, ov, dmt, e) := apply_all_t (src_of B) now cs (dest_of A) (N.of_nat (length A)) 0 [] [] in
  {| ts_map := D; ts_ov := wait_pass dmt ov; ts_err := e |}.

(* the observation with the mtime a directory really shows *)
Definition retime (ov : amap N) (d : obs) : obs :=
  if N.eqb (o_type d) S_IFDIR then
    match alookup (o_path d) ov with
    | Some t => {| o_path := o_path d; o_type := o_type d; o_perm := o_perm d; o_uid := o_uid d; o_gid := o_gid d;
                   o_mtime := t; o_content := o_content d; o_target := o_target d; o_major := o_major d;
                   o_minor := o_minor d; o_ino := o_ino d; o_xattrs := o_xattrs d |}
    | None => d
    end
  else d.
Definition view_t (s : tstate) : list obs := map (retime (ts_ov s)) (view_of (ts_map s)).

(* ------------------------------------------------------------------------------------------
   Extended attributes as the code writes them (own extension; AbsDest keeps one xattr list per
   PATH, which is exact only for inodes with one name and for created directories).
   rewriteMetadata sets the keys of the stat it is given and never removes a key:
   * a directory whose metadata is rewritten in place keeps its old keys under the new ones;
   * xattrs belong to the inode: a hard link made by this transfer stamps the xattrs of its stat
     on the inode it links to, and every name of that inode shows the result.  In the map, the
     names of one inode class carry either the list the inode had (the first name in path order,
     when it stayed in place) or the list of the source; the inode shows the first overlaid by
     the others. *)
Definition xget (k : bytes) (xs : list (bytes * bytes)) : option (bytes * bytes) :=
  find (fun kv => bytes_eqb (fst kv) k) xs.
Definition xoverlay (old new : list (bytes * bytes)) : list (bytes * bytes) :=
  new ++ filter (fun kv => match xget (fst kv) new with Some _ => false | None => true end) old.

Definition group_xattrs (pred : list obs) (m : obs) : list (bytes * bytes) :=
  let members := filter (fun x => N.eqb (o_ino x) (o_ino m) && negb (N.eqb (o_type x) S_IFDIR)) pred in
  let first := fold_left (fun best x => if path_ltb (o_path x) (o_path best) then x else best) members m in
  fold_left (fun acc x => xoverlay acc (o_xattrs x)) members (o_xattrs first).

Definition with_xattrs (d : obs) (x : list (bytes * bytes)) : obs :=
  {| o_path := o_path d; o_type := o_type d; o_perm := o_perm d; o_uid := o_uid d; o_gid := o_gid d;
     o_mtime := o_mtime d; o_content := o_content d; o_target := o_target d; o_major := o_major d;
     o_minor := o_minor d; o_ino := o_ino d; o_xattrs := x |}.

Definition old_dir_xattrs (A : list AbsDest.entry) (p : bytes) : list (bytes * bytes) :=
  match efind p A with
  | Some (ps, _) => if st_is_dir ps then st_xattrs ps else []
  | None => []
  end.

Definition rex (A : list AbsDest.entry) (pred : list obs) (m : obs) : obs :=
  if N.eqb (o_type m) S_IFDIR then with_xattrs m (xoverlay (old_dir_xattrs A (o_path m)) (o_xattrs m))
  else with_xattrs m (group_xattrs pred m).

(* the predicted observation of the destination: AbsDest's map + directory mtimes + xattrs per inode *)
Definition view_x (A : list AbsDest.entry) (s : tstate) : list obs :=
  map (rex A (view_t s)) (view_t s).
