(* L1 — types.Stat and Go's os.FileMode bit layout. *)
From Coq Require Import List NArith Bool.
From FS Require Import Sx.
Import ListNotations.
Open Scope N_scope.

Record stat := {
  st_path : bytes;
  st_mode : N;        (* uint32, Go os.FileMode bits *)
  st_uid : N;         (* uint32 *)
  st_gid : N;         (* uint32 *)
  st_size : N;        (* int64 as two's complement mod 2^64 *)
  st_mtime : N;       (* int64 (ns) as two's complement mod 2^64 *)
  st_linkname : bytes;
  st_devmajor : N;    (* int64 mod 2^64 *)
  st_devminor : N;    (* int64 mod 2^64 *)
  st_xattrs : list (bytes * bytes)   (* sorted by key in all exchanged values *)
}.

(* os.FileMode bits *)
Definition ModeDir        : N := 2147483648.  (* 1<<31 *)
Definition ModeSymlink    : N := 134217728.   (* 1<<27 *)
Definition ModeDevice     : N := 67108864.    (* 1<<26 *)
Definition ModeNamedPipe  : N := 33554432.    (* 1<<25 *)
Definition ModeSocket     : N := 16777216.    (* 1<<24 *)
Definition ModeSetuid     : N := 8388608.     (* 1<<23 *)
Definition ModeSetgid     : N := 4194304.     (* 1<<22 *)
Definition ModeCharDevice : N := 2097152.     (* 1<<21 *)
Definition ModeSticky     : N := 1048576.     (* 1<<20 *)
Definition ModeIrregular  : N := 524288.      (* 1<<19 *)
Definition ModePerm       : N := 511.         (* 0777 *)
Definition ModeType : N :=
  ModeDir + ModeSymlink + ModeNamedPipe + ModeSocket + ModeDevice + ModeCharDevice + ModeIrregular.

Definition has_bits (m mask : N) : bool := negb (N.eqb (N.land m mask) 0).
Definition mode_is_dir (m : N) : bool := has_bits m ModeDir.
Definition mode_is_symlink (m : N) : bool := has_bits m ModeSymlink.
(* send.go fileCanRequestData: m & os.ModeType == 0 *)
Definition mode_is_regular (m : N) : bool := N.eqb (N.land m ModeType) 0.

Definition st_is_dir (s : stat) : bool := mode_is_dir (st_mode s).

Definition set_path (s : stat) (p : bytes) : stat :=
  {| st_path := p; st_mode := st_mode s; st_uid := st_uid s; st_gid := st_gid s; st_size := st_size s;
     st_mtime := st_mtime s; st_linkname := st_linkname s; st_devmajor := st_devmajor s;
     st_devminor := st_devminor s; st_xattrs := st_xattrs s |}.
Definition set_linkname (s : stat) (l : bytes) : stat :=
  {| st_path := st_path s; st_mode := st_mode s; st_uid := st_uid s; st_gid := st_gid s; st_size := st_size s;
     st_mtime := st_mtime s; st_linkname := l; st_devmajor := st_devmajor s;
     st_devminor := st_devminor s; st_xattrs := st_xattrs s |}.
Definition set_size (s : stat) (n : N) : stat :=
  {| st_path := st_path s; st_mode := st_mode s; st_uid := st_uid s; st_gid := st_gid s; st_size := n;
     st_mtime := st_mtime s; st_linkname := st_linkname s; st_devmajor := st_devmajor s;
     st_devminor := st_devminor s; st_xattrs := st_xattrs s |}.
Definition set_mode (s : stat) (m : N) : stat :=
  {| st_path := st_path s; st_mode := m; st_uid := st_uid s; st_gid := st_gid s; st_size := st_size s;
     st_mtime := st_mtime s; st_linkname := st_linkname s; st_devmajor := st_devmajor s;
     st_devminor := st_devminor s; st_xattrs := st_xattrs s |}.

(* ---- exchange format:  (path mode uid gid size mtime linkname devmajor devminor ((k v) ...)) ---- *)
Definition dec_xattr (s : sx) : option (bytes * bytes) :=
  match s with SL [SB k; SB v] => Some (k, v) | _ => None end.

Definition dec_stat (s : sx) : option stat :=
  match s with
  | SL [SB p; SN m; SN u; SN g; SN sz; SN mt; SB ln; SN dmaj; SN dmin; xs] =>
    x <- sx_list dec_xattr xs ;;
    Some {| st_path := p; st_mode := m; st_uid := u; st_gid := g; st_size := sz; st_mtime := mt;
            st_linkname := ln; st_devmajor := dmaj; st_devminor := dmin; st_xattrs := x |}
  | _ => None
  end.

Definition enc_stat (s : stat) : sx :=
  SL [SB (st_path s); SN (st_mode s); SN (st_uid s); SN (st_gid s); SN (st_size s); SN (st_mtime s);
      SB (st_linkname s); SN (st_devmajor s); SN (st_devminor s);
      SL (map (fun kv => SL [SB (fst kv); SB (snd kv)]) (st_xattrs s))].

Fixpoint xattrs_eqb (a b : list (bytes * bytes)) : bool :=
  match a, b with
  | [], [] => true
  | (k1, v1) :: a', (k2, v2) :: b' => bytes_eqb k1 k2 && bytes_eqb v1 v2 && xattrs_eqb a' b'
  | _, _ => false
  end.

Definition stat_eqb (a b : stat) : bool :=
  bytes_eqb (st_path a) (st_path b) && N.eqb (st_mode a) (st_mode b) && N.eqb (st_uid a) (st_uid b)
  && N.eqb (st_gid a) (st_gid b) && N.eqb (st_size a) (st_size b) && N.eqb (st_mtime a) (st_mtime b)
  && bytes_eqb (st_linkname a) (st_linkname b) && N.eqb (st_devmajor a) (st_devmajor b)
  && N.eqb (st_devminor a) (st_devminor b) && xattrs_eqb (st_xattrs a) (st_xattrs b).
