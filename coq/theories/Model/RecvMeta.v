(* C03 — receive.go with ReceiveOpt.MetadataOnly set (a "metadata transfer"): the branch of the
   receive loop that decides which STATs reach the diff / disk writer, and the epilogue of
   receiver.run that writes dest/.fsutil-metadata.  Everything else (validators, doubleWalkDiff,
   HandleChange, DATA, Wait) is Model/DiskWriterFs.v unchanged.

   receive.go, case PACKET_STAT with metadataTransfer:
     if path == metadataPath { i++; continue }                -- not validated, not recorded
     metadataBuffer.alloc ... MarshalToSizedBufferVT           -- one listing record (before the validators)
     metaOnly := !r.metadataOnly(path, stat)                   -- [sel s] = true: transferred in full
     if !metaOnly && fileCanRequestData(mode) { r.files[path] = i };  i++
     orderValidator.HandleChange                               -- sees every entry
     if !metaOnly { hlValidator.HandleChange }                 -- only entries that reach the disk can be
                                                                  the source of a hard link that does
     pop metadataParents until its top is the parent of path
     metaOnly:  push if a directory;  continue                 -- nothing reaches the walker
     else:      w.update of every pending parent (bottom first), clear;  w.update(cp)
   The pending parents are pushed into the walker's buffered channel without waiting for the
   diff: the "walker is closed" / closed-channel checks are those of the moment the packet
   arrives; the diff then takes the entries one after the other and stops at the first error.

   receiver.run after g.Wait() returned nil (the transfer succeeded):
     os.Remove(dest/.fsutil-metadata)                          -- unlink, else rmdir; error dropped
     os.OpenFile(dest/.fsutil-metadata, O_WRONLY|O_CREATE|O_TRUNC, 0644); write the records
   The open follows a symlink: it is the Remove before it that keeps the write inside dest.
   The two steps are two effects of the budget. *)
From Coq Require Import List NArith Bool.
From FS Require Model.MetaOnly Model.Listing.
From FS Require Import Sx Model.Path Model.Stat Model.Validator Model.Fs Model.DiskWriterFs.
Import ListNotations.
Open Scope N_scope.
Open Scope bool_scope.

Definition listing_name : bytes := MetaOnly.listing_name.
Definition is_listing (s : stat) : bool := bytes_eqb (st_path s) listing_name.

(* [m_vstk]: the order validator, which sees every entry.  The hard-link validator sees the
   entries handed to the walker only: its state is [r_seen] of [m_st] (pending parents are
   directories, which it ignores).  [r_vstk] of [m_st] is GHOST state in a metadata transfer:
   nothing reads it (recv_stat, its only reader, is not used here); it holds what the order
   validator would hold had it seen only the entries handed to the walker ([ghost_step]),
   which is what the containment proof talks about. *)
Record mstate := {
  m_st : rstate;
  m_vstk : list ventry;    (* orderValidator *)
  m_stk : list stat;       (* metadataParents, top first *)
  m_buf : list stat        (* records of the metadata buffer, last first *)
}.

Definition mset (m : mstate) (st : rstate) : mstate :=
  {| m_st := st; m_vstk := m_vstk m; m_stk := m_stk m; m_buf := m_buf m |}.

Definition ghost_step (x : stat) (st : rstate) : rstate :=
  set_valid st (match vstep (r_vstk st) (item_of x) with Some v => v | None => r_vstk st end)
            (match hl_step (r_seen st) x with Some sn => sn | None => r_seen st end)
            (r_files st) (r_next st).

(* the diff consumes the entries the receive loop queued for it, and stops at the first error *)
Definition feed_one (fl : rfilter) (c : ctx) (idx : nat) (x : stat) (st : rstate) : rstate :=
  let st1 := ghost_step x st in
  if live st1 then diff_feed fl c idx x (r_old st1) st1 else st1.
Definition feed_all (fl : rfilter) (c : ctx) (idx : nat) (l : list stat) (st : rstate) : rstate :=
  fold_left (fun st x => feed_one fl c idx x st) l st.

Definition mrecv_stat (fl : rfilter) (c : ctx) (sel : stat -> bool) (idx : nat) (s : stat) (m : mstate) : mstate :=
  let st := m_st m in
  if is_listing s then mset m (set_valid st (r_vstk st) (r_seen st) (r_files st) (r_next st + 1))
  else
    let buf := s :: m_buf m in
    let fwd := sel s in
    let files := if fwd && mode_is_regular (st_mode s) then bset (st_path s) (r_next st) (r_files st) else r_files st in
    let st0 := set_valid st (r_vstk st) (r_seen st) files (r_next st + 1) in
    match vstep (m_vstk m) (item_of s) with
    | None => {| m_st := set_out st0 (Failed idx); m_vstk := m_vstk m; m_stk := m_stk m; m_buf := buf |}
    | Some v' =>
      let stk1 := MetaOnly.mpop (dir (st_path s)) (m_stk m) in
      if fwd then
        match hl_step (r_seen st) s with
        | None => {| m_st := set_out st0 (Failed idx); m_vstk := v'; m_stk := m_stk m; m_buf := buf |}
        | Some _ =>
          {| m_st := if is_dead st0 && negb (r_closed st0) then set_out st0 (Failed idx)   (* "walker is closed" *)
                     else if r_closed st0 then set_out st0 (Panicked idx)                (* send on the closed channel *)
                     else feed_all fl c idx (rev stk1 ++ [s]) st0;
             m_vstk := v'; m_stk := []; m_buf := buf |}
        end
      else
        {| m_st := st0; m_vstk := v'; m_stk := if st_is_dir s then s :: stk1 else stk1; m_buf := buf |}
    end.

Definition mrecv_packet (fl : rfilter) (c : ctx) (dl : bool) (sel : stat -> bool) (idx : nat) (pk : packet) (m : mstate) : mstate :=
  if negb (running (m_st m)) then m else
  match pk with
  | PStat (Some s) => let m' := mrecv_stat fl c sel idx s m in mset m' (maybe_wait c dl idx (m_st m'))
  | _ => mset m (recv_packet fl c dl idx pk (m_st m))
  end.

Fixpoint mrecv_loop (fl : rfilter) (c : ctx) (dl : bool) (sel : stat -> bool) (idx : nat) (pks : list packet) (m : mstate) : mstate :=
  match pks with
  | [] => m
  | pk :: r => mrecv_loop fl c dl sel (S idx) r (mrecv_packet fl c dl sel idx pk m)
  end.

(* the bytes of the listing file: one framed record per recorded STAT, in arrival order *)
Definition listing_bytes (buf : list stat) : bytes := concat (map Listing.listing_record (rev buf)).

(* os.Remove: unlink(2); if that fails rmdir(2); the caller drops the error *)
Definition os_remove (c : ctx) (f : fs) (p : bytes) : fs :=
  match sys_unlink c f p with
  | (f1, ROk) => f1
  | _ => fst (sys_rmdir c f p)
  end.

Definition epilogue (c : ctx) (idx : nat) (content : bytes) (st : rstate) : rstate :=
  if recv_succeeds st then
    match spend st with
    | None => set_out st Halted
    | Some st1 =>
      let st2 := upd st1 (os_remove c (r_fs st1) listing_name) in
      match spend st2 with
      | None => set_out st2 Halted
      | Some st3 =>
        match sys_open_trunc c (r_fs st3) listing_name 420 with
        | (f2, RFd i) => upd st3 (fst (fd_pwrite f2 i 0 content))
        | (f2, _) => set_out (upd st3 f2) (Failed idx)      (* Receive returns the error of OpenFile *)
        end
      end
    end
  else st.

(* Receive with options: [mo] = ReceiveOpt.MetadataOnly (None = nil), [fl] = ReceiveOpt.Filter
   ([no_filter] = nil) *)
Definition recv_run_opt (f : fs) (root d0 : N) (dl merge : bool) (mo : option (stat -> bool)) (fl : rfilter)
                        (tmps : list bytes) (pks : list packet) (budget : option nat) : rstate :=
  let c := {| c_root := root; c_cwd := d0 |} in
  match mo with
  | None => recv_run_f fl f root d0 dl merge tmps pks budget
  | Some sel =>
    let m := mrecv_loop fl c dl sel 0 pks {| m_st := rstate_init f d0 merge tmps budget; m_vstk := vinit;
                                             m_stk := []; m_buf := [] |} in
    epilogue c (length pks) (listing_bytes (m_buf m)) (m_st m)
  end.

Definition recv_fs_opt (f : fs) (root d0 : N) (dl merge : bool) (mo : option (stat -> bool)) (fl : rfilter)
                       (tmps : list bytes) (pks : list packet) : rstate :=
  recv_run_opt f root d0 dl merge mo fl tmps pks None.
Definition recv_fs_prefix_opt (f : fs) (root d0 : N) (dl merge : bool) (mo : option (stat -> bool)) (fl : rfilter)
                              (tmps : list bytes) (pks : list packet) (j : nat) : fs :=
  r_fs (recv_run_opt f root d0 dl merge mo fl tmps pks (Some j)).
