(* L7 — the byte format of the metadata listing file (dest/.fsutil-metadata).

   Writer (receive.go, case PACKET_STAT with metadataTransfer):
       n  := p.Stat.SizeVT()
       dt := metadataBuffer.alloc(n + 4)
       binary.LittleEndian.PutUint32(dt[0:4], uint32(n))
       p.Stat.MarshalToSizedBufferVT(dt[4:])
   i.e. one record = 4-byte LITTLE-endian length ++ the VT encoding of the Stat, records
   appended to the chunked buffer (Model/MetaBuffer.v) and written out in order.

   Reader (the only reader in the repository is receive_test.go:parseFSMetadata; the C19
   harness uses the same loop):
       for len(dt) > 0 { n := LittleEndian.Uint32(dt[:4]); dt = dt[4:]
                         s.Unmarshal(dt[:n]); m = append(m, s); dt = dt[n:] }
   A short header or a record that runs past the end (a slice-bounds panic in that loop) and
   an undecodable record are the error value [None] here. *)
From Coq Require Import List NArith Bool Permutation.
From FS Require Import Sx Model.Stat Model.Varint Model.Codec Model.MetaBuffer.
Import ListNotations.
Open Scope N_scope.

Definition le32 (n : N) : bytes :=
  [ n mod 256; (n / 256) mod 256; (n / 65536) mod 256; (n / 16777216) mod 256 ].
Definition le32_dec (h : bytes) : N :=
  match h with
  | [a; b; c; d] => a + 256 * (b + 256 * (c + 256 * d))
  | _ => 0
  end.

Definition lframe (body : bytes) : bytes := le32 (len body) ++ body.
Definition listing_record (s : stat) : bytes := lframe (encode_stat s).

Fixpoint decode_listing_f (fuel : nat) (dt : bytes) : option (list stat) :=
  match dt with
  | [] => Some []
  | _ :: _ =>
    match fuel with
    | O => None
    | S f =>
      match dt with
      | a :: b :: c :: d :: r =>
        match take_n (le32_dec [a; b; c; d]) r with
        | Some (body, r') =>
          match decode_stat body with
          | Some s => option_map (cons s) (decode_listing_f f r')
          | None => None
          end
        | None => None
        end
      | _ => None
      end
    end
  end.
Definition decode_listing (dt : bytes) : option (list stat) := decode_listing_f (length dt) dt.

(* ------------------------------------------------------------------ vocabulary of the theorems *)
(* a Stat the receiver can record: well-formed and SizeVT below 2^32 (uint32(n)) *)
Definition listable (s : stat) : Prop := wf_stat s /\ size_stat s < two32.
(* [rec] is a listing record of [s] for some iteration order of the xattr map *)
Definition lrecord_of (s : stat) (rec : bytes) : Prop :=
  exists xs, Permutation xs (st_xattrs s) /\ rec = lframe (encode_stat_ord xs s).
