(* Symbolic / octal mode strings: transcription of github.com/tonistiigi/dchapes-mode
   (mode.go: ParseWithUmask with umask 0, addcmd, compress, Set.Apply; bits.go).
   Mode values here are the 12 chmod(1) bits (07777): bits.go's fileModeToBits maps Go's
   ModeSetuid/ModeSetgid/ModeSticky onto 04000/02000/01000, which is exactly what
   st_mode & 07777 holds, and os.Chmod maps them back (syscallMode). *)
From Coq Require Import List NArith Bool.
From FS Require Import Sx.
Import ListNotations.
Open Scope N_scope.

Definition isUID : N := 2048.   (* 04000 *)
Definition isGID : N := 1024.   (* 02000 *)
Definition isTXT : N := 512.    (* 01000 *)
Definition iRWXU : N := 448.    (* 0700 *)
Definition iRWXG : N := 56.     (* 0070 *)
Definition iRWXO : N := 7.      (* 0007 *)
Definition iRall : N := 292.    (* 0444 *)
Definition iWall : N := 146.    (* 0222 *)
Definition iXall : N := 73.     (* 0111 *)
Definition iRUser : N := 256.
Definition iRGroup : N := 32.
Definition iROther : N := 4.
Definition standardBits : N := 3583.   (* isUID|isGID|0777 = 06777 *)
Definition allBits : N := 4095.        (* 07777 *)
Definition mask16 : N := 65535.        (* ^modet(0), also ^modet(umask) for umask 0 *)

Definition andnot (a b : N) : N := N.ldiff a b.   (* a &^ b *)

(* characters *)
Definition ch_plus : N := 43.  Definition ch_minus : N := 45. Definition ch_eq : N := 61.
Definition ch_comma : N := 44. Definition ch_X : N := 88.
Definition ch_a : N := 97. Definition ch_g : N := 103. Definition ch_o : N := 111. Definition ch_u : N := 117.
Definition ch_r : N := 114. Definition ch_s : N := 115. Definition ch_t : N := 116.
Definition ch_w : N := 119. Definition ch_x : N := 120.

Definition cmd2Clear : N := 1. Definition cmd2Set : N := 2. Definition cmd2GBits : N := 4.
Definition cmd2OBits : N := 8. Definition cmd2UBits : N := 16.

Record bitcmd := { bc_cmd : N; bc_cmd2 : N; bc_bits : N }.
Definition mkcmd (c c2 b : N) : bitcmd := {| bc_cmd := c; bc_cmd2 := c2; bc_bits := b |}.

Definition nz (n : N) : bool := negb (N.eqb n 0).

(* addcmd (mask = 0xFFFF: umask 0); returns the commands appended *)
Definition addcmd (op who oparg : N) : list bitcmd :=
  let plain (o : N) := mkcmd o 0 (if nz who then N.land who oparg else N.land mask16 oparg) in
  if N.eqb op ch_eq then
    [ mkcmd ch_minus 0 (if nz who then who else standardBits); plain ch_plus ]
  else if N.eqb op ch_plus || N.eqb op ch_minus || N.eqb op ch_X then [ plain op ]
  else (* 'u' 'g' 'o' : oparg is the operator character *)
    let c2who :=
      if nz who then
        (if nz (N.land who iRUser) then cmd2UBits else 0) + (if nz (N.land who iRGroup) then cmd2GBits else 0)
        + (if nz (N.land who iROther) then cmd2OBits else 0)
      else cmd2UBits + cmd2GBits + cmd2OBits in
    let c2op := if N.eqb oparg ch_plus then cmd2Set else if N.eqb oparg ch_minus then cmd2Clear
                else if N.eqb oparg ch_eq then cmd2Set + cmd2Clear else 0 in
    [ mkcmd op (c2who + c2op) mask16 ].

(* permLoop: consumes permission characters; stops (without consuming) at the first other
   character or at the end.  Returns (rest, who, equalOpDone, commands appended so far). *)
Fixpoint parse_perms (s : bytes) (op who perm permX : N) (eq_done : bool) (acc : list bitcmd)
  : bytes * N * bool * list bitcmd :=
  let finish :=
    let flush1 := nz perm || (N.eqb op ch_eq && negb eq_done) in
    let acc1 := if flush1 then acc ++ addcmd op who perm else acc in
    let eq1 := if flush1 && N.eqb op ch_eq then true else eq_done in
    let acc2 := if nz permX then acc1 ++ addcmd ch_X who permX else acc1 in
    (s, who, eq1, acc2) in
  match s with
  | [] => finish
  | b :: r =>
    let only_other := negb (N.eqb who 0) && N.eqb (andnot who iRWXO) 0 in
    if N.eqb b ch_r then parse_perms r op who (N.lor perm iRall) permX eq_done acc
    else if N.eqb b ch_s then
      parse_perms r op who (if only_other then perm else N.lor perm (isUID + isGID)) permX eq_done acc
    else if N.eqb b ch_t then
      if only_other then parse_perms r op who perm permX eq_done acc
      else parse_perms r op (N.lor who isTXT) (N.lor perm isTXT) permX eq_done acc
    else if N.eqb b ch_w then parse_perms r op who (N.lor perm iWall) permX eq_done acc
    else if N.eqb b ch_X then
      if negb (N.eqb op ch_minus) then parse_perms r op who perm iXall eq_done acc
      else parse_perms r op who (N.lor perm iXall) permX eq_done acc
    else if N.eqb b ch_x then parse_perms r op who (N.lor perm iXall) permX eq_done acc
    else if N.eqb b ch_u || N.eqb b ch_g || N.eqb b ch_o then
      let acc1 := if nz perm then acc ++ addcmd op who perm else acc in
      let eq1 := if N.eqb op ch_eq then true else eq_done in
      let acc2 := if nz permX then acc1 ++ addcmd ch_X who permX else acc1 in
      parse_perms r op who 0 0 eq1 (acc2 ++ addcmd b who op)
    else finish
  end.

(* whoLoop: consumes [augo]*; the Go loop fails when the string ends inside it *)
Fixpoint parse_who (s : bytes) (who : N) : option (bytes * N) :=
  match s with
  | [] => None
  | b :: r =>
    if N.eqb b ch_a then parse_who r (N.lor who standardBits)
    else if N.eqb b ch_u then parse_who r (N.lor who (isUID + iRWXU))
    else if N.eqb b ch_g then parse_who r (N.lor who (isGID + iRWXG))
    else if N.eqb b ch_o then parse_who r (N.lor who iRWXO)
    else Some (s, who)
  end.

(* label getop (at_op = true) / start of a clause (at_op = false) *)
Fixpoint parse_sym (fuel : nat) (at_op : bool) (s : bytes) (who : N) (eq_done : bool) (acc : list bitcmd)
  : option (list bitcmd) :=
  match fuel with
  | O => None
  | S f =>
    if at_op then
      match s with
      | [] => None
      | op :: s1 =>
        if N.eqb op ch_plus || N.eqb op ch_minus || N.eqb op ch_eq then
          let eq0 := if N.eqb op ch_eq then false else eq_done in
          let '(s2, who2, eq2, acc2) := parse_perms s1 op (andnot who isTXT) 0 0 eq0 acc in
          match s2 with
          | [] => Some acc2
          | c :: s3 => if N.eqb c ch_comma then parse_sym f false s3 0 eq2 acc2
                       else parse_sym f true s2 who2 eq2 acc2
          end
        else None
      end
    else
      match parse_who s 0 with
      | None => None
      | Some (s1, who1) => parse_sym f true s1 who1 eq_done acc
      end
  end.

(* compress: consecutive '+', '-', 'X' commands are merged into at most three *)
Definition flush_run (run : option (N * N * N)) : list bitcmd :=
  match run with
  | None => []
  | Some (setb, clrb, xb) =>
    (if nz clrb then [mkcmd ch_minus 0 clrb] else []) ++
    (if nz setb then [mkcmd ch_plus 0 setb] else []) ++
    (if nz xb then [mkcmd ch_X 0 xb] else [])
  end.

Fixpoint compress (l : list bitcmd) (run : option (N * N * N)) : list bitcmd :=
  match l with
  | [] => flush_run run
  | c :: r =>
    let '(setb, clrb, xb) := match run with Some t => t | None => (0, 0, 0) end in
    let b := bc_bits c in
    if N.eqb (bc_cmd c) ch_minus then compress r (Some (andnot setb b, N.lor clrb b, andnot xb b))
    else if N.eqb (bc_cmd c) ch_plus then compress r (Some (N.lor setb b, andnot clrb b, andnot xb b))
    else if N.eqb (bc_cmd c) ch_X then compress r (Some (setb, clrb, N.lor xb (andnot b setb)))
    else flush_run run ++ c :: compress r None
  end.

(* octal digits (strconv.ParseInt(s, 8, 16)): None on a non-octal digit or a value > 32767 *)
Fixpoint parse_octal (s : bytes) (acc : N) : option N :=
  match s with
  | [] => Some acc
  | d :: r =>
    if (48 <=? d) && (d <=? 55) then
      let v := acc * 8 + (d - 48) in
      if v <=? 32767 then parse_octal r v else None
    else None
  end.

(* mode.ParseWithUmask(s, 0) *)
Definition parse_mode (s : bytes) : option (list bitcmd) :=
  match s with
  | [] => None
  | d :: _ =>
    if (48 <=? d) && (d <=? 57) then
      match parse_octal s 0 with
      | Some v => if nz (andnot v allBits) then None else Some (addcmd ch_eq allBits v)
      | None => None
      end
    else
      match parse_sym (2 * length s + 2) false s 0 false [] with
      | Some cmds => Some (compress cmds None)
      | None => None
      end
  end.

(* Set.Apply on the 12 chmod bits; [isdir] = perm.IsDir() *)
Definition apply_common (c : bitcmd) (value newmode : N) : N :=
  let has f := nz (N.land (bc_cmd2 c) f) in
  let bits := bc_bits c in
  let m1 :=
    if has cmd2Clear then
      let clrval := if has cmd2Set then iRWXO else value in
      let a := if has cmd2UBits then andnot newmode (N.land (N.shiftl clrval 6) bits) else newmode in
      let b := if has cmd2GBits then andnot a (N.land (N.shiftl clrval 3) bits) else a in
      if has cmd2OBits then andnot b (N.land clrval bits) else b
    else newmode in
  if has cmd2Set then
    let a := if has cmd2UBits then N.lor m1 (N.land (N.shiftl value 6) bits) else m1 in
    let b := if has cmd2GBits then N.lor a (N.land (N.shiftl value 3) bits) else a in
    if has cmd2OBits then N.lor b (N.land value bits) else b
  else m1.

Definition apply_cmd (omode : N) (isdir : bool) (newmode : N) (c : bitcmd) : N :=
  let k := bc_cmd c in
  if N.eqb k ch_u then apply_common c (N.shiftr (N.land newmode iRWXU) 6) newmode
  else if N.eqb k ch_g then apply_common c (N.shiftr (N.land newmode iRWXG) 3) newmode
  else if N.eqb k ch_o then apply_common c (N.land newmode iRWXO) newmode
  else if N.eqb k ch_plus then N.lor newmode (bc_bits c)
  else if N.eqb k ch_minus then andnot newmode (bc_bits c)
  else if N.eqb k ch_X then
    (if nz (N.land omode iXall) || isdir then N.lor newmode (bc_bits c) else newmode)
  else newmode.

Definition apply_mode (cmds : list bitcmd) (perm12 : N) (isdir : bool) : N :=
  N.land (fold_left (apply_cmd perm12 isdir) cmds perm12) allBits.
