(* L10 — DiskWriter.HandleChange (diskwriter.go, diskwriter_unix.go, chtimes_linux.go) as the
   exact sequence of L9 syscalls, and the receive loop of receive.go feeding it.

   Modelling step for [dest]: the Go code calls every syscall with filepath.Join(dest, p).
   Here the destination is the directory inode [d0] that [dest] resolves to, and every
   syscall gets the path relative to it, with the working directory of the process context
   set to [d0] (for a validated [p], Join(dest,p) = dest/p, and resolving dest/p is resolving
   dest — symlinks followed — and then p).  The correspondence run uses absolute, relative
   and symlinked [dest] strings.  Hypothesis made explicit by this step: [dest] resolves to
   a directory.

   Temporary names: HandleChange creates ".tmp.<9 digits>" next to the target with a
   process-wide pseudo random suffix; the model takes the names as a parameter ([tmps], one
   per change) and the theorems assume each is absent from its directory when used.

   Not modelled: ReceiveOpt.Filter / MetadataOnly / NotifyHashed (nil), Differ other than
   DiffMetadata, DAC permission checks (the receiver runs as root), concurrency: the walk of
   the old destination is taken up front (see the note at [old_listing]). *)
From Coq Require Import List NArith Bool.
From FS Require Import Sx Model.Path Model.Stat Model.Validator Model.Fs.
Import ListNotations.
Open Scope N_scope.
Open Scope bool_scope.

(* ---------------- Go FileMode <-> st_mode ---------------- *)
Definition S_IFIFO : N := 4096.
Definition S_IFCHR : N := 8192.
Definition S_IFBLK : N := 24576.
Definition S_IFSOCK : N := 49152.
Definition S_ISVTX : N := 512.

(* os.syscallMode: permission bits + setuid/setgid/sticky *)
Definition unix_perm (m : N) : N :=
  N.land m 511
  + (if has_bits m ModeSetuid then S_ISUID else 0)
  + (if has_bits m ModeSetgid then S_ISGID else 0)
  + (if has_bits m ModeSticky then S_ISVTX else 0).

(* os.fillFileStatFromSys (+ mkstat clearing ModeSocket) *)
Definition go_mode (k : ikind) (perm : N) : N :=
  N.land perm 511
  + (if has_bits perm S_ISUID then ModeSetuid else 0)
  + (if has_bits perm S_ISGID then ModeSetgid else 0)
  + (if has_bits perm S_ISVTX then ModeSticky else 0)
  + match k with
    | KDir _ _ => ModeDir
    | KFile _ => 0
    | KLink _ => ModeSymlink
    | KSpecial t _ =>
      if N.eqb t S_IFIFO then ModeNamedPipe
      else if N.eqb t S_IFCHR then ModeDevice + ModeCharDevice
      else if N.eqb t S_IFBLK then ModeDevice
      else 0     (* socket: bit cleared by mkstat *)
    end.

(* unix.Mkdev on the uint32 truncations, then the kernel's 32-bit dev_t *)
Definition mkdev (major minor : N) : N :=
  let ma := N.land major 4294967295 in
  let mi := N.land minor 4294967295 in
  N.land (N.shiftl (N.land ma 4095) 8 + N.shiftl (N.land ma 4294963200) 32
          + N.land mi 255 + N.shiftl (N.land mi 4294967040) 12) 4294967295.
Definition dev_major (rdev : N) : N := N.land (N.shiftr rdev 8) 4095.
Definition dev_minor (rdev : N) : N := N.lor (N.land rdev 255) (N.land (N.shiftr rdev 12) 1048320).

(* ---------------- the walk of the old destination (fs.Walk + mkstat) ---------------- *)
Fixpoint seen_path (i : N) (seen : list (N * bytes)) : option bytes :=
  match seen with
  | [] => None
  | (j, p) :: r => if N.eqb i j then Some p else seen_path i r
  end.

Definition mkstat (p : bytes) (n : inode) (hl : option bytes) : stat :=
  let m := i_meta n in
  {| st_path := p; st_mode := go_mode (i_kind n) (m_mode m); st_uid := m_uid m; st_gid := m_gid m;
     st_size := match i_kind n with KFile d => N.of_nat (length d) | KLink t => N.of_nat (length t) | _ => 0 end;
     st_mtime := m_mtime m;
     st_linkname := match i_kind n with KLink t => t | _ => match hl with Some q => q | None => [] end end;
     st_devmajor := match i_kind n with KSpecial t r => if N.eqb t S_IFCHR || N.eqb t S_IFBLK then dev_major r else 0 | _ => 0 end;
     st_devminor := match i_kind n with KSpecial t r => if N.eqb t S_IFCHR || N.eqb t S_IFBLK then dev_minor r else 0 | _ => 0 end;
     st_xattrs := m_xattrs m |}.

(* later members of a hard-link group name the first one (walk order) *)
Fixpoint listing_of (l : list (bytes * N * inode)) (seen : list (N * bytes)) : list stat :=
  match l with
  | [] => []
  | (p, i, n) :: r =>
    match i_kind n with
    | KDir _ _ => mkstat p n None :: listing_of r seen
    | _ =>
      match seen_path i seen with
      | Some q => mkstat p n (Some q) :: listing_of r seen
      | None => mkstat p n None :: listing_of r ((i, p) :: seen)
      end
    end
  end.

(* NOTE (concurrency): the real walker runs in its own goroutine, at least one entry ahead
   of the diff loop; a directory is listed immediately after it is reported and before
   anything that sorts after it, and changes only touch paths that sort before the
   walker's position or lie below the entry being replaced/deleted, so the listing it
   produces is the one of the initial tree (entries that vanish under it are exactly the
   ones the diff suppresses).  [tree_below] sorts siblings bytewise like os.ReadDir; the
   diff consumes the listing in that order. *)
Definition old_listing (f : fs) (d0 : N) : list stat := listing_of (tree_below 64 f d0 []) [].
