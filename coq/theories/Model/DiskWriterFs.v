(* L10 — DiskWriter.HandleChange (diskwriter.go, diskwriter_unix.go, chtimes_linux.go) as the
   exact sequence of L9 syscalls, and the receive loop of receive.go feeding it.

   Modelling step for [dest]: the Go code calls every syscall with filepath.Join(dest, p).
   Here the destination is the directory inode [d0] that [dest] resolves to, and every
   syscall gets the path relative to it, with the working directory of the process context
   set to [d0] (for a validated [p], Join(dest,p) = dest/p, and resolving dest/p is resolving
   dest — symlinks followed — and then p).  The correspondence run uses absolute, relative
   and symlinked [dest] strings.  Hypothesis made explicit by this step: [dest] resolves to
   a directory.

   Temporary names: HandleChange creates ".tmp.<9 digits>" next to the target with a
   process-wide pseudo random suffix; the model takes the names as a parameter ([tmps], one
   per change) and the theorems assume each is absent from its directory when used.

   ReceiveOpt.Merge is modelled here, ReceiveOpt.MetadataOnly in Model/RecvMeta.v.
   ReceiveOpt.Filter: [rfilter] below.  Not modelled: NotifyHashed (nil), Differ other than
   DiffMetadata, DAC permission checks (the receiver runs as root), concurrency: the walk of
   the old destination is taken up front (see the note at [old_listing]). *)
From Coq Require Import List NArith Bool.
From FS Require Import Sx Model.Path Model.Stat Model.Validator Model.Fs.
Import ListNotations.
Open Scope N_scope.
Open Scope bool_scope.

(* ---------------- Go FileMode <-> st_mode ---------------- *)
Definition S_IFIFO : N := 4096.
Definition S_IFCHR : N := 8192.
Definition S_IFBLK : N := 24576.
Definition S_IFSOCK : N := 49152.
Definition S_ISVTX : N := 512.

(* os.syscallMode: permission bits + setuid/setgid/sticky *)
Definition unix_perm (m : N) : N :=
  N.land m 511
  + (if has_bits m ModeSetuid then S_ISUID else 0)
  + (if has_bits m ModeSetgid then S_ISGID else 0)
  + (if has_bits m ModeSticky then S_ISVTX else 0).

(* os.fillFileStatFromSys (+ mkstat clearing ModeSocket) *)
Definition go_mode (k : ikind) (perm : N) : N :=
  N.land perm 511
  + (if has_bits perm S_ISUID then ModeSetuid else 0)
  + (if has_bits perm S_ISGID then ModeSetgid else 0)
  + (if has_bits perm S_ISVTX then ModeSticky else 0)
  + match k with
    | KDir _ _ => ModeDir
    | KFile _ => 0
    | KLink _ => ModeSymlink
    | KSpecial t _ =>
      if N.eqb t S_IFIFO then ModeNamedPipe
      else if N.eqb t S_IFCHR then ModeDevice + ModeCharDevice
      else if N.eqb t S_IFBLK then ModeDevice
      else 0     (* socket: bit cleared by mkstat *)
    end.

(* unix.Mkdev on the uint32 truncations, then the kernel's 32-bit dev_t *)
Definition mkdev (major minor : N) : N :=
  let ma := N.land major 4294967295 in
  let mi := N.land minor 4294967295 in
  N.land (N.shiftl (N.land ma 4095) 8 + N.shiftl (N.land ma 4294963200) 32
          + N.land mi 255 + N.shiftl (N.land mi 4294967040) 12) 4294967295.
Definition dev_major (rdev : N) : N := N.land (N.shiftr rdev 8) 4095.
Definition dev_minor (rdev : N) : N := N.lor (N.land rdev 255) (N.land (N.shiftr rdev 12) 1048320).

(* ---------------- the walk of the old destination (fs.Walk + mkstat) ---------------- *)
Fixpoint seen_path (i : N) (seen : list (N * bytes)) : option bytes :=
  match seen with
  | [] => None
  | (j, p) :: r => if N.eqb i j then Some p else seen_path i r
  end.

Definition mkstat (p : bytes) (n : inode) (hl : option bytes) : stat :=
  let m := i_meta n in
  {| st_path := p; st_mode := go_mode (i_kind n) (m_mode m); st_uid := m_uid m; st_gid := m_gid m;
     st_size := match i_kind n with KFile d => N.of_nat (length d) | KLink t => N.of_nat (length t) | _ => 0 end;
     st_mtime := m_mtime m;
     st_linkname := match i_kind n with KLink t => t | _ => match hl with Some q => q | None => [] end end;
     st_devmajor := match i_kind n with KSpecial t r => if N.eqb t S_IFCHR || N.eqb t S_IFBLK then dev_major r else 0 | _ => 0 end;
     st_devminor := match i_kind n with KSpecial t r => if N.eqb t S_IFCHR || N.eqb t S_IFBLK then dev_minor r else 0 | _ => 0 end;
     st_xattrs := m_xattrs m |}.

(* later members of a hard-link group name the first one (walk order) *)
Fixpoint listing_of (l : list (bytes * N * inode)) (seen : list (N * bytes)) : list stat :=
  match l with
  | [] => []
  | (p, i, n) :: r =>
    match i_kind n with
    | KDir _ _ => mkstat p n None :: listing_of r seen
    | _ =>
      match seen_path i seen with
      | Some q => mkstat p n (Some q) :: listing_of r seen
      | None => mkstat p n None :: listing_of r ((i, p) :: seen)
      end
    end
  end.

(* NOTE (concurrency): the real walker runs in its own goroutine, at least one entry ahead
   of the diff loop; a directory is listed immediately after it is reported and before
   anything that sorts after it, and changes only touch paths that sort before the
   walker's position or lie below the entry being replaced/deleted, so the listing it
   produces is the one of the initial tree (entries that vanish under it are exactly the
   ones the diff suppresses).  [tree_below] sorts siblings bytewise like os.ReadDir; the
   diff consumes the listing in that order. *)
Definition old_listing (f : fs) (d0 : N) : list stat := listing_of (tree_below 64 f d0 []) [].

(* ---------------- DiskWriter.HandleChange ---------------- *)
Definition is_err (r : result) : bool := match r with RErr _ => true | _ => false end.

(* rewriteMetadata: LSetxattr for every xattr (errors ignored), Lchown, Chmod unless the
   stat is a symlink (chmod FOLLOWS), utimensat(NOFOLLOW).  false = an error was returned. *)
Definition rewrite_meta (c : ctx) (f : fs) (p : bytes) (st : stat) : fs * bool :=
  let f1 := fold_left (fun g kv => fst (sys_lsetxattr c g p (fst kv) (snd kv))) (st_xattrs st) f in
  let (f2, r2) := sys_lchown c f1 p (st_uid st) (st_gid st) in
  if is_err r2 then (f2, false) else
  let (f3, r3) := if mode_is_symlink (st_mode st) then (f2, ROk)
                  else sys_chmod c f2 p (unix_perm (st_mode st)) in
  if is_err r3 then (f3, false) else
  let (f4, r4) := sys_utimens c f3 p (st_mtime st) in
  (f4, negb (is_err r4)).

(* filepath.Join(filepath.Dir(destPath), ".tmp."+suffix), relative to the destination *)
Definition tmp_path (p tmp : bytes) : bytes :=
  match parent_of p with [] => tmp | d => d ++ sep :: tmp end.

Inductive dwres :=
| DwErr                      (* HandleChange returned an error (the writer is cancelled) *)
| DwOk (async : bool) (newdir : bool).
    (* async: a regular file was created, its content is requested through AsyncDataCb;
       newdir: a directory was created, dirModTimes[path] := mtime *)

(* how HandleChange created the entry *)
Inductive made := MRegular | MHardlink | MOther.

(* the creation switch of HandleChange at [np]; (fs, ok, what was made) *)
Definition dw_create (c : ctx) (f : fs) (np : bytes) (st : stat) : fs * bool * made :=
  let m := st_mode st in
  if mode_is_dir m then
    let (f1, r) := sys_mkdir c f np (unix_perm m) in (f1, negb (is_err r), MOther)
  else if (has_bits m ModeDevice || has_bits m ModeNamedPipe) && is_nil (st_linkname st) then
    (* a further name of a device or fifo (Linkname set) is a hard link like any other *)
    let typ := if has_bits m ModeCharDevice then S_IFCHR
               else if has_bits m ModeNamedPipe then S_IFIFO else S_IFBLK in
    let (f1, r) := sys_mknod c f np typ (N.land m perm_mask) (mkdev (st_devmajor st) (st_devminor st)) in
    (f1, negb (is_err r), MOther)
  else if mode_is_symlink m then
    let (f1, r) := sys_symlink c f (st_linkname st) np in (f1, negb (is_err r), MOther)
  else if negb (is_nil (st_linkname st)) then
    let (f1, r) := sys_link c f (st_linkname st) np in (f1, negb (is_err r), MHardlink)
  else
    let (f1, r) := sys_open_wronly c f np true (unix_perm m) in (f1, negb (is_err r), MRegular).

Definition made_regular (k : made) : bool := match k with MRegular => true | _ => false end.

(* rewriteMetadata after the creation switch: a hard link shares the inode — and with it the
   metadata — of the file it names; that file got its metadata from its own change and may
   have other names (also outside the destination), so it is left alone *)
Definition dw_meta (c : ctx) (f : fs) (np : bytes) (st : stat) (k : made) : fs * bool :=
  match k with MHardlink => (f, true) | _ => rewrite_meta c f np st end.

Definition stat_ino (r : result) : option N := match r with RStat i _ => Some i | _ => None end.

(* [c]: context whose working directory is the destination; [tmp]: the ".tmp.<suffix>"
   name this call would use; kind 0 add / 1 modify / 2 delete *)
Definition dw_handle (c : ctx) (f : fs) (tmp : bytes) (kind : N) (p : bytes) (st : stat) : fs * dwres :=
  if N.eqb kind 2 then
    let (f1, r) := sys_remove_all c f p in (f1, if is_err r then DwErr else DwOk false false)
  else
    match sys_lstat c f p with
    | (_, RStat oi on) =>
      let old_dir := match i_kind on with KDir _ _ => true | _ => false end in
      let new_dir := mode_is_dir (st_mode st) in
      if new_dir && old_dir then
        let (f1, ok) := rewrite_meta c f p st in (f1, if ok then DwOk false false else DwErr)
      else
        let np := tmp_path p tmp in
        match dw_create c f np st with
        | (f1, false, _) => (f1, DwErr)
        | (f1, true, mk) =>
          let reg := made_regular mk in
          let (f2, ok) := dw_meta c f1 np st mk in
          if negb ok then (f2, DwErr) else
          let (f3, r3) := if negb (Bool.eqb old_dir new_dir) then sys_remove_all c f2 p else (f2, ROk) in
          if is_err r3 then (f3, DwErr) else
          let same := match stat_ino (snd (sys_lstat c f3 np)) with
                      | Some ni => N.eqb ni oi | None => false end in
          let (f4, r4) := if same then sys_unlink c f3 np else sys_rename c f3 np p in
          if is_err r4 then (f4, DwErr) else (f4, DwOk reg (new_dir && negb reg))
        end
    | (_, RErr ENOENT) =>
      if negb (N.eqb kind 0) then (f, DwErr)         (* "modify/rm" of a missing entry *)
      else
        match dw_create c f p st with
        | (f1, false, _) => (f1, DwErr)
        | (f1, true, mk) =>
          let reg := made_regular mk in
          let (f2, ok) := dw_meta c f1 p st mk in
          if negb ok then (f2, DwErr) else (f2, DwOk reg (mode_is_dir (st_mode st) && negb reg))
        end
    | _ => (f, DwErr)
    end.

(* ---------------- the receive loop (receive.go) + doubleWalkDiff ---------------- *)
Inductive packet :=
| PStat (s : option stat)         (* None = the empty STAT that ends the listing *)
| PData (id : N) (d : bytes)      (* empty d = end of that file *)
| PFin
| PErr
| POther.                         (* REQ or unknown type: ignored by the receive loop *)

Inductive outcome :=
| Running
| Failed (k : nat)     (* Receive returns an error; index of the packet that caused it *)
| Panicked (k : nat)   (* STAT after the terminator: send on / close of a closed channel *)
| Drained (k : nat)    (* FIN seen: every later packet is read and dropped *)
| Halted.               (* the effect budget ran out (used to enumerate prefixes) *)

Record pipe := { pp_path : bytes; pp_stat : stat; pp_off : nat; pp_fd : option N;
                 pp_closed : bool (* Close() was called on an opened file and nobody removed the pipe *) }.

Record rstate := {
  r_fs : fs;
  r_vstk : list ventry;              (* orderValidator *)
  r_seen : list bytes;               (* hlValidator.seenFiles *)
  r_files : list (bytes * N);        (* files: path -> id, regular files not yet requested *)
  r_pipes : list (N * pipe);         (* pipes: id -> open writer *)
  r_next : N;                        (* i: next STAT index *)
  r_old : list stat;                 (* unread part of the old destination listing (f1 = head) *)
  r_rmdir : bytes;                   (* doubleWalkDiff's rmdir prefix, "" = none *)
  r_dirtimes : list (bytes * N);     (* dirModTimes *)
  r_tmps : list bytes;               (* temporary names still to be used *)
  r_closed : bool;                   (* the empty STAT was received *)
  r_waited : bool;                   (* DiskWriter.Wait completed (receiver sent FIN) *)
  r_asyncerr : bool;                 (* the writer's errgroup context is cancelled (an async writer
                                        failed, or HandleChange failed): finishers are gone *)
  r_dead : option nat;               (* the diff / disk-writer goroutine returned an error while
                                        this packet was handled; the receive loop itself goes on
                                        reading until it meets a STAT, FIN, ERR or the end *)
  r_budget : option nat;             (* effects still allowed; None = unlimited *)
  r_applied : nat;                   (* effects applied so far *)
  r_out : outcome
}.

Definition upd (st : rstate) (f : fs) : rstate :=
  {| r_fs := f; r_vstk := r_vstk st; r_seen := r_seen st; r_files := r_files st; r_pipes := r_pipes st;
     r_next := r_next st; r_old := r_old st; r_rmdir := r_rmdir st; r_dirtimes := r_dirtimes st;
     r_tmps := r_tmps st; r_closed := r_closed st; r_waited := r_waited st; r_asyncerr := r_asyncerr st;
     r_dead := r_dead st; r_budget := r_budget st; r_applied := r_applied st; r_out := r_out st |}.
Definition set_out (st : rstate) (o : outcome) : rstate :=
  {| r_fs := r_fs st; r_vstk := r_vstk st; r_seen := r_seen st; r_files := r_files st; r_pipes := r_pipes st;
     r_next := r_next st; r_old := r_old st; r_rmdir := r_rmdir st; r_dirtimes := r_dirtimes st;
     r_tmps := r_tmps st; r_closed := r_closed st; r_waited := r_waited st; r_asyncerr := r_asyncerr st;
     r_dead := r_dead st; r_budget := r_budget st; r_applied := r_applied st; r_out := o |}.
(* the diff goroutine returns an error: the disk writer is cancelled *)
Definition set_dead (st : rstate) (idx : nat) : rstate :=
  {| r_fs := r_fs st; r_vstk := r_vstk st; r_seen := r_seen st; r_files := r_files st; r_pipes := r_pipes st;
     r_next := r_next st; r_old := r_old st; r_rmdir := r_rmdir st; r_dirtimes := r_dirtimes st;
     r_tmps := r_tmps st; r_closed := r_closed st; r_waited := r_waited st; r_asyncerr := true;
     r_dead := Some idx; r_budget := r_budget st; r_applied := r_applied st; r_out := r_out st |}.
Definition set_diff (st : rstate) (old : list stat) (rm : bytes) : rstate :=
  {| r_fs := r_fs st; r_vstk := r_vstk st; r_seen := r_seen st; r_files := r_files st; r_pipes := r_pipes st;
     r_next := r_next st; r_old := old; r_rmdir := rm; r_dirtimes := r_dirtimes st;
     r_tmps := r_tmps st; r_closed := r_closed st; r_waited := r_waited st; r_asyncerr := r_asyncerr st;
     r_dead := r_dead st; r_budget := r_budget st; r_applied := r_applied st; r_out := r_out st |}.
Definition set_maps (st : rstate) (files : list (bytes * N)) (pipes : list (N * pipe)) (ae : bool) : rstate :=
  {| r_fs := r_fs st; r_vstk := r_vstk st; r_seen := r_seen st; r_files := files; r_pipes := pipes;
     r_next := r_next st; r_old := r_old st; r_rmdir := r_rmdir st; r_dirtimes := r_dirtimes st;
     r_tmps := r_tmps st; r_closed := r_closed st; r_waited := r_waited st; r_asyncerr := ae;
     r_dead := r_dead st; r_budget := r_budget st; r_applied := r_applied st; r_out := r_out st |}.

(* spend one unit of the effect budget; None = out of budget *)
Definition spend (st : rstate) : option rstate :=
  let st' b := {| r_fs := r_fs st; r_vstk := r_vstk st; r_seen := r_seen st; r_files := r_files st;
                  r_pipes := r_pipes st; r_next := r_next st; r_old := r_old st; r_rmdir := r_rmdir st;
                  r_dirtimes := r_dirtimes st; r_tmps := r_tmps st; r_closed := r_closed st;
                  r_waited := r_waited st; r_asyncerr := r_asyncerr st; r_dead := r_dead st; r_budget := b;
                  r_applied := S (r_applied st); r_out := r_out st |} in
  match r_budget st with
  | None => Some (st' None)
  | Some O => None
  | Some (S n) => Some (st' (Some n))
  end.

Definition set_valid (st : rstate) (v : list ventry) (seen : list bytes) (files : list (bytes * N)) (next : N) : rstate :=
  {| r_fs := r_fs st; r_vstk := v; r_seen := seen; r_files := files; r_pipes := r_pipes st;
     r_next := next; r_old := r_old st; r_rmdir := r_rmdir st; r_dirtimes := r_dirtimes st;
     r_tmps := r_tmps st; r_closed := r_closed st; r_waited := r_waited st; r_asyncerr := r_asyncerr st;
     r_dead := r_dead st; r_budget := r_budget st; r_applied := r_applied st; r_out := r_out st |}.
Definition set_flags (st : rstate) (closed waited : bool) : rstate :=
  {| r_fs := r_fs st; r_vstk := r_vstk st; r_seen := r_seen st; r_files := r_files st; r_pipes := r_pipes st;
     r_next := r_next st; r_old := r_old st; r_rmdir := r_rmdir st; r_dirtimes := r_dirtimes st;
     r_tmps := r_tmps st; r_closed := closed; r_waited := waited; r_asyncerr := r_asyncerr st;
     r_dead := r_dead st; r_budget := r_budget st; r_applied := r_applied st; r_out := r_out st |}.
Definition set_tmps (st : rstate) (tmps : list bytes) (dt : list (bytes * N)) : rstate :=
  {| r_fs := r_fs st; r_vstk := r_vstk st; r_seen := r_seen st; r_files := r_files st; r_pipes := r_pipes st;
     r_next := r_next st; r_old := r_old st; r_rmdir := r_rmdir st; r_dirtimes := dt;
     r_tmps := tmps; r_closed := r_closed st; r_waited := r_waited st; r_asyncerr := r_asyncerr st;
     r_dead := r_dead st; r_budget := r_budget st; r_applied := r_applied st; r_out := r_out st |}.

Definition running (st : rstate) : bool := match r_out st with Running => true | _ => false end.
Definition is_dead (st : rstate) : bool := match r_dead st with Some _ => true | None => false end.
(* the diff goroutine can still take a step *)
Definition live (st : rstate) : bool := running st && negb (is_dead st).
Definition default_tmp : bytes := [46; 116; 109; 112; 46; 48].   (* ".tmp.0" *)

(* ReceiveOpt.Filter, the callback the receiver hands to the disk writer and to doubleWalkDiff:
     diskwriter.go HandleChange:  delete: if !filter(p, &empty) { return nil }
                                  add / modify: statCopy := stat.Clone(); if !filter(p, statCopy) { return nil };
                                  everything after that uses statCopy
     diff_containerd.go:          filter(f2.path, statCopy) before f2 is compared with the old entry
                                  (sameFile); its answer is ignored there
   [f_rej]: the paths it answers false for; [f_map]: what it does to the copy of the stat (the
   generated filters shift uid and gid, as an id-mapping filter does).  The receive loop itself
   (validators, ids, the metadata branch) does not consult the filter.  [no_filter] = nil. *)
Record rfilter := { f_rej : bytes -> bool; f_map : stat -> stat }.
Definition no_filter : rfilter := {| f_rej := fun _ => false; f_map := fun s => s |}.

(* the filters of the correspondence run: reject the listed paths and everything below them,
   add ua / ga to uid / gid of what passes (an id-mapping filter); [exact] = true: reject the
   listed paths only *)
Definition below_any (ps : list bytes) (p : bytes) : bool :=
  existsb (fun q => bytes_eqb q p || has_prefix (q ++ [sep]) p) ps.
Definition shift_ids (ua ga : N) (s : stat) : stat :=
  {| st_path := st_path s; st_mode := st_mode s; st_uid := N.land (st_uid s + ua) 4294967295;
     st_gid := N.land (st_gid s + ga) 4294967295; st_size := st_size s; st_mtime := st_mtime s;
     st_linkname := st_linkname s; st_devmajor := st_devmajor s; st_devminor := st_devminor s;
     st_xattrs := st_xattrs s |}.
Definition subtree_filter (ps : list bytes) (ua ga : N) : rfilter :=
  {| f_rej := below_any ps; f_map := shift_ids ua ga |}.
Definition exact_filter (ps : list bytes) (ua ga : N) : rfilter :=
  {| f_rej := fun p => existsb (bytes_eqb p) ps; f_map := shift_ids ua ga |}.

(* one HandleChange call issued by the diff (one effect), then AsyncDataCb bookkeeping;
   a change the filter rejects is no change (and no effect) *)
Definition apply_change (fl : rfilter) (c : ctx) (idx : nat) (kind : N) (p : bytes) (s0 : stat) (st : rstate) : rstate :=
  if f_rej fl p then st else
  let s := if N.eqb kind 2 then s0 else f_map fl s0 in
  if negb (live st) then st else
  match spend st with
  | None => set_out st Halted
  | Some st1 =>
    let tmp := hd default_tmp (r_tmps st1) in
    let st2 := set_tmps st1 (tl (r_tmps st1)) (r_dirtimes st1) in
    match dw_handle c (r_fs st2) tmp kind p s with
    | (f', DwErr) => set_dead (upd st2 f') idx
    | (f', DwOk async newdir) =>
      let st3 := upd st2 f' in
      let st4 := if newdir then set_tmps st3 (r_tmps st3) (bset p (st_mtime s) (r_dirtimes st3)) else st3 in
      if async then
        match blookup p (r_files st4) with
        | None => set_maps st4 (r_files st4) (r_pipes st4) true      (* "invalid file request": seen by Wait *)
        | Some id =>
          set_maps st4 (bremove p (r_files st4))
                   (aset id {| pp_path := p; pp_stat := s; pp_off := O; pp_fd := None; pp_closed := false |} (r_pipes st4))
                   (r_asyncerr st4)
        end
      else st4
    end
  end.

(* sameFile with DiffMetadata *)
Definition same_file (f1 f2 : stat) : bool :=
  (st_is_dir f1 || (N.eqb (st_size f1) (st_size f2) && N.eqb (st_mtime f1) (st_mtime f2)))
  && N.eqb (st_mode f1) (st_mode f2) && N.eqb (st_uid f1) (st_uid f2) && N.eqb (st_gid f1) (st_gid f2)
  && N.eqb (st_devmajor f1) (st_devmajor f2) && N.eqb (st_devminor f1) (st_devminor f2)
  && bytes_eqb (st_linkname f1) (st_linkname f2).

Definition rm_prefix_of (f1 : stat) : bytes := if st_is_dir f1 then st_path f1 ++ [sep] else [].
Definition suppressed (rm p : bytes) : bool := negb (is_nil rm) && has_prefix rm p.

(* doubleWalkDiff fed with the next stream entry [f2]; [old] = unread old listing *)
Fixpoint diff_feed (fl : rfilter) (c : ctx) (idx : nat) (f2 : stat) (old : list stat) (st : rstate) : rstate :=
  match old with
  | [] => apply_change fl c idx 0 (st_path f2) f2 (set_diff st [] [])
  | f1 :: rest =>
    match compare_path (st_path f1) (st_path f2) with
    | Lt =>   (* delete f1 *)
      if suppressed (r_rmdir st) (st_path f1) then diff_feed fl c idx f2 rest (set_diff st rest (r_rmdir st))
      else
        let st1 := apply_change fl c idx 2 (st_path f1) f1 (set_diff st rest (rm_prefix_of f1)) in
        if live st1 then diff_feed fl c idx f2 rest st1 else st1
    | Gt => apply_change fl c idx 0 (st_path f2) f2 (set_diff st old [])
    | Eq =>
      let rm := if st_is_dir f1 && negb (st_is_dir f2) then st_path f1 ++ [sep] else [] in
      let st1 := set_diff st rest rm in
      if same_file f1 (f_map fl f2) then st1 else apply_change fl c idx 1 (st_path f2) f2 st1
    end
  end.

(* the stream ended: everything left in the old listing is deleted *)
Fixpoint diff_flush (fl : rfilter) (c : ctx) (idx : nat) (old : list stat) (st : rstate) : rstate :=
  match old with
  | [] => set_diff st [] (r_rmdir st)
  | f1 :: rest =>
    if suppressed (r_rmdir st) (st_path f1) then diff_flush fl c idx rest (set_diff st rest (r_rmdir st))
    else
      let st1 := apply_change fl c idx 2 (st_path f1) f1 (set_diff st rest (rm_prefix_of f1)) in
      if live st1 then diff_flush fl c idx rest st1 else st1
  end.

Fixpoint mem_bytes (p : bytes) (l : list bytes) : bool :=
  match l with [] => false | q :: r => bytes_eqb p q || mem_bytes p r end.

Definition item_of (s : stat) : vitem := {| vkind := 0; vpath := st_path s; visdir := st_is_dir s |}.

(* Hardlinks.HandleChange: Some seen' = accepted *)
Definition hl_step (seen : list bytes) (s : stat) : option (list bytes) :=
  if st_is_dir s || mode_is_symlink (st_mode s) then Some seen
  else if negb (is_nil (st_linkname s)) then
    (if mem_bytes (st_linkname s) seen then Some seen else None)
  else Some (st_path s :: seen).

(* a STAT packet with a stat: both validators, then dynamicWalker.update *)
Definition recv_stat (fl : rfilter) (c : ctx) (idx : nat) (s : stat) (st : rstate) : rstate :=
  let files := if mode_is_regular (st_mode s) then bset (st_path s) (r_next st) (r_files st) else r_files st in
  let st0 := set_valid st (r_vstk st) (r_seen st) files (r_next st + 1) in
  match vstep (r_vstk st) (item_of s) with
  | None => set_out st0 (Failed idx)
  | Some v' =>
    match hl_step (r_seen st) s with
    | None => set_out (set_valid st0 v' (r_seen st) files (r_next st + 1)) (Failed idx)
    | Some seen' =>
      let st1 := set_valid st0 v' seen' files (r_next st + 1) in
      if is_dead st1 && negb (r_closed st1) then set_out st1 (Failed idx)   (* "walker is closed" *)
      else if r_closed st1 then set_out st1 (Panicked idx)     (* send on the closed walker channel *)
      else diff_feed fl c idx s (r_old st1) st1
    end
  end.

(* a DATA packet: lazyFileWriter opens the FINAL path (O_WRONLY, follows) on the first
   non-empty chunk; the empty chunk closes; then the goroutine that asked for the file does
   Chmod (setuid/setgid only), chtimes and delete(pipes, id) — unless the writer's errgroup
   context has been cancelled, in which case that goroutine is gone and the pipe stays *)
Definition recv_data (c : ctx) (idx : nat) (id : N) (d : bytes) (st : rstate) : rstate :=
  match alookup id (r_pipes st) with
  | None => set_out st (Failed idx)                       (* "invalid file request" *)
  | Some pp =>
    if pp_closed pp then set_out st (Failed idx)          (* write to / close of a closed file *)
    else
    match spend st with
    | None => set_out st Halted
    | Some st1 =>
      let p := pp_path pp in
      let s := pp_stat pp in
      if is_nil d then
        if r_asyncerr st1 then
          match pp_fd pp with
          | Some _ =>
            set_maps st1 (r_files st1)
                     (aset id {| pp_path := p; pp_stat := s; pp_off := pp_off pp; pp_fd := pp_fd pp; pp_closed := true |}
                           (r_pipes st1)) true
          | None => st1
          end
        else
        let f := r_fs st1 in
        let (f1, r1) := if has_bits (st_mode s) ModeSetuid || has_bits (st_mode s) ModeSetgid
                        then sys_chmod c f p (unix_perm (st_mode s)) else (f, ROk) in
        let (f2, r2) := if is_err r1 then (f1, r1) else sys_utimens c f1 p (st_mtime s) in
        set_maps (upd st1 f2) (r_files st1) (filter (fun kv => negb (N.eqb (fst kv) id)) (r_pipes st1))
                 (r_asyncerr st1 || is_err r2)
      else
        let opened := match pp_fd pp with
                      | Some i => (r_fs st1, RFd i)
                      | None => sys_open_wronly c (r_fs st1) p false 0
                      end in
        match opened with
        | (f1, RFd i) =>
          let (f2, _) := fd_pwrite f1 i (pp_off pp) d in
          set_maps (upd st1 f2) (r_files st1)
                   (aset id {| pp_path := p; pp_stat := s; pp_off := (pp_off pp + length d)%nat; pp_fd := Some i;
                               pp_closed := false |}
                         (r_pipes st1)) (r_asyncerr st1)
        | (f1, _) => set_out (upd st1 f1) (Failed idx)     (* "failed to open" *)
        end
    end
  end.

(* DiskWriter.Wait, reached by the diff goroutine once the listing ended: an async error
   surfaces at once (every file goroutine has returned); otherwise, when every requested
   file has been closed, WalkDir(dest) re-applies the mtime of every directory the writer
   created (one effect) and the receiver sends FIN.  filepath.WalkDir lstat-s its root: when
   [dest] is given as a symlink to the directory nothing is visited ([dl]). *)
Definition wait_pass (c : ctx) (d0 : N) (st : rstate) : fs :=
  fold_left (fun f (e : bytes * N * inode) =>
               match e with
               | (p, _, {| i_kind := KDir _ _ |}) =>
                 match blookup p (r_dirtimes st) with
                 | Some t => fst (sys_utimens c f p t)
                 | None => f
                 end
               | _ => f
               end) (tree_below 64 (r_fs st) d0 []) (r_fs st).

Definition maybe_wait (c : ctx) (dl : bool) (idx : nat) (st : rstate) : rstate :=
  if (running st || match r_out st with Drained _ => true | _ => false end) && negb (is_dead st) then
    if r_closed st && negb (r_waited st) then
      if r_asyncerr st then set_dead st idx
      else if is_nil (r_pipes st) then
        match spend st with
        | None => set_out st Halted
        | Some st1 => set_flags (upd st1 (if dl then r_fs st1 else wait_pass c (c_cwd c) st1)) true true
        end
      else st
    else st
  else st.

Definition recv_packet (fl : rfilter) (c : ctx) (dl : bool) (idx : nat) (pk : packet) (st : rstate) : rstate :=
  if negb (running st) then st else
  maybe_wait c dl idx
    match pk with
    | PErr => set_out st (Failed idx)
    | PFin => set_out st (Drained idx)
    | POther => st
    | PStat None =>
      if r_closed st then set_out st (Panicked idx)      (* close of a closed channel *)
      else if is_dead st then set_out st (Failed idx)    (* "walker is closed" *)
      else diff_flush fl c idx (r_old st) (set_flags st true (r_waited st))
    | PStat (Some s) => recv_stat fl c idx s st
    | PData id d => recv_data c idx id d st
    end.

Fixpoint recv_loop (fl : rfilter) (c : ctx) (dl : bool) (idx : nat) (pks : list packet) (st : rstate) : rstate :=
  match pks with
  | [] => st
  | pk :: r => recv_loop fl c dl (S idx) r (recv_packet fl c dl idx pk st)
  end.

Definition rstate_init (f : fs) (d0 : N) (merge : bool) (tmps : list bytes) (budget : option nat) : rstate :=
  {| r_fs := f; r_vstk := vinit; r_seen := []; r_files := []; r_pipes := []; r_next := 0;
     r_old := if merge then [] else old_listing f d0; r_rmdir := []; r_dirtimes := []; r_tmps := tmps; r_closed := false;
     r_waited := false; r_asyncerr := false; r_dead := None; r_budget := budget; r_applied := O; r_out := Running |}.

(* the receive call on destination directory [d0] of process root [root]; [dl]: the string
   [dest] itself names a symlink to [d0]; [merge]: ReceiveOpt.Merge (the old content of the
   destination is not walked: nothing is deleted, every entry of the stream is handed to the
   disk writer) *)
Definition recv_run_f (fl : rfilter) (f : fs) (root d0 : N) (dl merge : bool) (tmps : list bytes) (pks : list packet)
                      (budget : option nat) : rstate :=
  recv_loop fl {| c_root := root; c_cwd := d0 |} dl 0 pks (rstate_init f d0 merge tmps budget).
Definition recv_run (f : fs) (root d0 : N) (dl merge : bool) (tmps : list bytes) (pks : list packet) (budget : option nat) : rstate :=
  recv_run_f no_filter f root d0 dl merge tmps pks budget.

Definition recv_fs (f : fs) (root d0 : N) (dl merge : bool) (tmps : list bytes) (pks : list packet) : rstate :=
  recv_run f root d0 dl merge tmps pks None.
(* the file system after the first [j] effects (HandleChange calls, data writes, Wait) *)
Definition recv_fs_prefix (f : fs) (root d0 : N) (dl merge : bool) (tmps : list bytes) (pks : list packet) (j : nat) : fs :=
  r_fs (recv_run f root d0 dl merge tmps pks (Some j)).

(* Receive returns nil iff the sender's FIN arrived after Wait completed *)
Definition recv_succeeds (st : rstate) : bool :=
  match r_out st with Drained _ => r_waited st && negb (is_dead st) | _ => false end.

(* what the caller of Receive observes once the sender has closed the stream:
   0 nil | 1 an error | 2 the call does not return (FIN was sent while the receiver still
   waited for the listing or for content: the diff goroutine blocks for ever) | 3 the process
   dies in a "closed channel" panic | 9 out of budget *)
Definition recv_class (st : rstate) : N :=
  match r_out st with
  | Running => 1            (* io.EOF from the stream *)
  | Failed _ => 1
  | Panicked _ => 3
  | Drained _ => if is_dead st then 1 else if r_waited st then 0 else 2
  | Halted => 9
  end.
