(* L5 — what Send puts on the wire for a filtered source (send.go):

     s.fs = WithHardlinkReset(NewFilterFS(src, opt))

     sender_view      the STAT sequence:  hardlinkFilter.Walk over filterFS.Walk over the source
     items            the same sequence as the receiver's order validator sees it (kind add)
     filter_open      filterFS.Open: MatchesOrParentMatches on the include and on the exclude
                      matcher (hardlinkFilter.Open only forwards)
     sent_content     the bytes sendFile delivers for a path: those of the source file when Open
                      succeeds, NONE when it fails (sendFile ignores the error and sends the
                      final empty DATA packet)
     sender_entries   STAT sequence paired with the bytes delivered

   Source views: [wf_source] = what a directory listing guarantees: names non-empty, without
   '/', not "." or "..", siblings strictly ascending bytewise (os.ReadDir / MemFS order), only
   directories have children. *)
From Coq Require Import List NArith Bool.
From FS Require Import Sx Model.Path Model.Stat Model.Tree Model.Pattern Model.FilterWalk
  Model.Hardlinks Model.Validator.
Import ListNotations.
Open Scope bool_scope.

(* ---------- well-formed source views ---------- *)
Fixpoint sorted_names (l : list bytes) : bool :=
  match l with
  | [] => true
  | a :: r => match r with
              | [] => true
              | b :: _ => match cmp_bytes a b with Lt => sorted_names r | _ => false end
              end
  end.

Fixpoint wf_source_node (n : node) : bool :=
  match n with
  | Node name st _ kids =>
    name_ok name && (st_is_dir st || is_nil kids)
    && sorted_names (map node_name kids) && forallb wf_source_node kids
  end.
Definition wf_source (v : list node) : bool :=
  sorted_names (map node_name v) && forallb wf_source_node v.

(* ---------- the hypotheses on the map function ----------
   [map_keeps_shape]: the map function may rewrite owner, times, permission bits, size, xattrs,
   device numbers — not the path, not the entry type bits the receiver's validators look at
   (directory, symlink), not the link name.
   [map_never_drops_dirs]: it never answers Exclude for a directory (SkipDir is allowed: that
   drops the directory together with everything below it). *)
Definition map_keeps_shape (mapfn : bytes -> stat -> mres * stat) : Prop :=
  forall p s, let s' := snd (mapfn p s) in
    st_path s' = st_path s /\
    mode_is_dir (st_mode s') = mode_is_dir (st_mode s) /\
    mode_is_symlink (st_mode s') = mode_is_symlink (st_mode s) /\
    st_linkname s' = st_linkname s.
(* ... nor the device / named-pipe bits (AbsDest.is_special): used by the transfer theorem only *)
Definition special_bits (m : N) : bool := has_bits m ModeDevice || has_bits m ModeNamedPipe.
Definition map_keeps_special (mapfn : bytes -> stat -> mres * stat) : Prop :=
  forall p s, special_bits (st_mode (snd (mapfn p s))) = special_bits (st_mode s).
Definition map_never_drops_dirs (mapfn : bytes -> stat -> mres * stat) : Prop :=
  forall p s, st_is_dir s = true -> fst (mapfn p s) <> MExclude.

(* the source's own hard links are those of a canonical walk (Hardlinks.wf_links: a link
   name that names a listed path names an EARLIER plain entry that is not itself a link) *)
Definition source_links_ok (view : list node) : bool := wf_links (map fst (walk_root view)).

(* the STAT sequence as the order validator sees it *)
Definition item_of (s : stat) : vitem := {| vkind := 0; vpath := st_path s; visdir := st_is_dir s |}.
Definition items (l : list stat) : list vitem := map item_of l.

Section Sender.
Variable pmatch : bytes -> bytes -> bool.
Variable mapfn : bytes -> stat -> mres * stat.
Variable c : cfg.

Definition sender_view (view : list node) : list stat :=
  hardlink_reset (filter_walk pmatch mapfn c view).

(* filterFS.Open admits the path (the underlying Open is then called) *)
Definition filter_open (p : bytes) : bool := keep_naive pmatch c p.

(* bytes of the source file at p ("" if there is none) *)
Definition content_at (view : list node) (p : bytes) : bytes :=
  match find (fun e : entry => bytes_eqb (st_path (fst e)) p) (walk_root view) with
  | Some e => snd e
  | None => []
  end.

Definition sent_content (view : list node) (p : bytes) : bytes :=
  if filter_open p then content_at view p else [].

Definition sender_entries (view : list node) : list entry :=
  map (fun s => (s, sent_content view (st_path s))) (sender_view view).

(* the filtered view with the source's bytes: what the destination is to show *)
Definition filtered_entries (view : list node) : list entry :=
  map (fun s => (s, content_at view (st_path s))) (sender_view view).

(* the filtered walk reports an entry with path p *)
Definition reported (view : list node) (p : bytes) : bool :=
  existsb (fun s => bytes_eqb (st_path s) p) (filter_walk pmatch mapfn c view).
End Sender.

(* the source holds a non-directory at path p (in particular: a regular file, send.go
   fileCanRequestData) *)
Definition source_file (view : list node) (p : bytes) : bool :=
  existsb (fun e : entry => bytes_eqb (st_path (fst e)) p && negb (st_is_dir (fst e)))
          (walk_root view).

(* members of one link group carry the same bytes and the same regular-ness (they are one
   inode): hypothesis on the source used by the transfer theorem *)
Definition groups_coherent (view : list node) : Prop :=
  forall s bs t bt, In (s, bs) (walk_root view) -> In (t, bt) (walk_root view) ->
    hl_plain s = true -> hl_plain t = true -> orig_rep s = orig_rep t ->
    bs = bt /\ st_mode s = st_mode t.

(* executable form (Proofs/C11WitnessP.groups_coherent_b_sound) *)
Definition groups_coherent_b (view : list node) : bool :=
  let w := walk_root view in
  forallb (fun e1 : entry => forallb (fun e2 : entry =>
     negb (hl_plain (fst e1) && hl_plain (fst e2) && bytes_eqb (orig_rep (fst e1)) (orig_rep (fst e2)))
     || (bytes_eqb (snd e1) (snd e2) && N.eqb (st_mode (fst e1)) (st_mode (fst e2)))) w) w.
