(* L13 — fsutil.FollowLinks (followlinks.go) over a view, on component lists.

   Go code modelled (Linux build, '/' separator), AS IT IS NOW in /repo (with the fix
   "FollowLinks clamps requested paths at the root"):

     FollowLinks                 -> follow_state / follow_links_opt / follow_links
     symlinkResolver.append      -> append (explicit fuel = depth of the recursion on link targets;
                                    the component loop is structural)           [loop, each_target]
     symlinkResolver.readSymlink -> read_symlink (wildcard branch) / read_symlink1
     statFile / readDir          -> stat_node / read_dir = lookups in the tree (what MemFS.Walk and the
                                    real fs.Walk answer for a sub-target walk; fs.Walk turns ENOTDIR
                                    and ENOENT returned by the callback into "nothing walked")
     containsWildcards           -> contains_wildcards
     path/filepath.Match         -> a Section variable [gmatch] in the model and in every theorem;
                                    [go_match] below is a transcription of Go 1.23's algorithm used
                                    for the correspondence runs (validated by kind 1802)
     sort.Strings                -> sort_bytes (insertion sort, bytewise order cmp_bytes)
     dedupePaths                 -> dedupe_paths (incl. the "." => nil rule; every kept path is checked)

   Paths are kept as lists of components.  In the Go code [p] is always
     Join(".", Join("/", x))  =  a clean relative path without "..", or "."
   i.e. the join of the components [norm_clamp (comps x)] ("." for no component), and
   [current] is the join of the components consumed so far.  The keys stored in
   [resolved] are the Go strings themselves ([key]).  Link targets:
     Join("/", Join(Dir(p), Clean(link)))  = join of  norm_clamp (dir ++ comps link)
     Clean(link) when absolute             = join of  norm_clamp (comps link).

   The model carries write-only ghost state ([g_calls], [g_expanded], [g_revisit]) that
   never influences the result: it records the arguments of append and with which
   remainders a symlink was expanded, so that "a symlink was met again with a remainder it was not expanded with"
   ([no_revisit], known finding K4) is a computable predicate over the case.

   Also in this file: the INDEPENDENT resolver [chroot_resolve] (Linux path
   resolution with the process root := tree root) and the executable
   specification (sorted / minimal / closed) evaluated by the glue on what the
   implementation returned. *)
From Coq Require Import List NArith Bool.
From FS Require Import Sx Model.Path Model.Stat Model.Tree.
Import ListNotations.
Open Scope N_scope.
Open Scope bool_scope.

Inductive result (A : Type) : Type :=
| Ok (a : A)
| OutOfFuel.
Arguments Ok {A} a.
Arguments OutOfFuel {A}.

Definition is_nil {A} (l : list A) : bool := match l with [] => true | _ => false end.

Fixpoint mem (x : bytes) (l : list bytes) : bool :=
  match l with
  | [] => false
  | y :: r => bytes_eqb x y || mem x r
  end.

(* ------------------------------------------------------------------ tree lookups *)
Definition node_is_dir (n : node) : bool := mode_is_dir (st_mode (node_stat n)).
Definition node_is_symlink (n : node) : bool := mode_is_symlink (st_mode (node_stat n)).
Definition node_link (n : node) : bytes := st_linkname (node_stat n).

Fixpoint find_kid (name : bytes) (kids : list node) : option node :=
  match kids with
  | [] => None
  | k :: r => if bytes_eqb (node_name k) name then Some k else find_kid name r
  end.

(* the entry a walk of target [cs] reports first (MemFS.lookup; lstat without
   following links on the real fs): first match by name at every level, none for the root *)
Fixpoint lookup (kids : list node) (cs : list bytes) : option node :=
  match cs with
  | [] => None
  | c :: r =>
    match find_kid c kids with
    | None => None
    | Some k => match r with [] => Some k | _ => lookup (node_kids k) r end
    end
  end.

(* statFile: nil for the root and for a missing entry *)
Definition stat_node (view : list node) (cs : list bytes) : option node := lookup view cs.

(* readDir: entries of a directory; None = "not found" (missing, or not a directory:
   the ENOTDIR raised in the callback is swallowed by fs.Walk, nothing is collected) *)
Definition read_dir (view : list node) (cs : list bytes) : option (list node) :=
  match cs with
  | [] => Some view
  | _ => match lookup view cs with
         | Some n => if node_is_dir n then Some (node_kids n) else None
         | None => None
         end
  end.

(* ------------------------------------------------------------------ containsWildcards *)
Fixpoint contains_wildcards (s : bytes) : bool :=
  match s with
  | [] => false
  | ch :: r =>
    if N.eqb ch 92 then match r with [] => false | _ :: r' => contains_wildcards r' end
    else if N.eqb ch 42 || N.eqb ch 63 || N.eqb ch 91 then true
    else contains_wildcards r
  end.

(* ------------------------------------------------------------------ lexical normalisation *)
(* Join("/", x) on components: drop "" and ".", ".." pops and is clamped at the root *)
Definition norm_clamp (cs : list bytes) : list bytes := rev (fold_left (cstep true) cs []).

(* the Go string of a component list *)
Definition key (cs : list bytes) : bytes := match cs with [] => s_dot | _ => joinc cs end.

(* the absolute, clean target of a symlink that lives in directory [dirc] *)
Definition link_target (dirc : list bytes) (l : bytes) : list bytes :=
  norm_clamp ((if is_abs l then [] else dirc) ++ comps l).

(* ------------------------------------------------------------------ resolver state *)
(* ghost entries: (components of the directory, component, remaining components) *)
Definition gent := (list bytes * bytes * list bytes)%type.

Record fstate := {
  resolved : list bytes;        (* r.resolved, as a duplicate-free list of keys *)
  g_calls : list (list bytes);  (* ghost: every p that append was entered with *)
  g_expanded : list gent;       (* ghost: symlink dir/c expanded with remainder rest *)
  g_revisit : list gent         (* ghost: symlink met again with a remainder it was not expanded with *)
}.

Definition st0 : fstate := {| resolved := []; g_calls := []; g_expanded := []; g_revisit := [] |}.

Definition add_resolved (k : bytes) (st : fstate) : fstate :=
  {| resolved := k :: resolved st; g_calls := g_calls st; g_expanded := g_expanded st; g_revisit := g_revisit st |}.
Definition add_call (p : list bytes) (st : fstate) : fstate :=
  {| resolved := resolved st; g_calls := p :: g_calls st; g_expanded := g_expanded st; g_revisit := g_revisit st |}.
Definition add_expanded (e : gent) (st : fstate) : fstate :=
  {| resolved := resolved st; g_calls := g_calls st; g_expanded := e :: g_expanded st; g_revisit := g_revisit st |}.
Definition add_revisit (e : gent) (st : fstate) : fstate :=
  {| resolved := resolved st; g_calls := g_calls st; g_expanded := g_expanded st; g_revisit := e :: g_revisit st |}.

Fixpoint comps_eqb (a b : list bytes) : bool :=
  match a, b with
  | [], [] => true
  | x :: a', y :: b' => bytes_eqb x y && comps_eqb a' b'
  | _, _ => false
  end.

Definition gent_eqb (a b : gent) : bool :=
  match a, b with
  | (d1, c1, r1), (d2, c2, r2) => comps_eqb d1 d2 && bytes_eqb c1 c2 && comps_eqb r1 r2
  end.

Fixpoint mem_exp (e : gent) (l : list gent) : bool :=
  match l with
  | [] => false
  | e' :: t => gent_eqb e e' || mem_exp e t
  end.

(* early return at an already resolved key: harmless unless it is a symlink that was
   never expanded with this remainder *)
Definition note_revisit (is_link : bool) (e : gent) (st : fstate) : fstate :=
  if is_link && negb (mem_exp e (g_expanded st)) then add_revisit e st else st.

(* ------------------------------------------------------------------ sort.Strings, dedupePaths *)
Fixpoint insert_sorted (x : bytes) (l : list bytes) : list bytes :=
  match l with
  | [] => [x]
  | y :: r => match cmp_bytes x y with Gt => y :: insert_sorted x r | _ => x :: l end
  end.
Definition sort_bytes (l : list bytes) : list bytes := fold_right insert_sorted [] l.

(* [inside a b]: b is strictly below a, i.e. strings.HasPrefix(b, a+"/") *)
Definition inside (a b : bytes) : bool := has_prefix (a ++ [sep]) b.

(* None = the nil slice returned when "." is met.  [kept] = the paths appended to
   [out] so far (every one of them is checked, fix 61f1f84); the result lists the
   paths kept from [l], in order. *)
Fixpoint dedupe_from (kept : list bytes) (l : list bytes) : option (list bytes) :=
  match l with
  | [] => Some []
  | s :: r =>
    if bytes_eqb s s_dot then None
    else if existsb (fun o => inside o s) kept then dedupe_from kept r
    else option_map (cons s) (dedupe_from (s :: kept) r)
  end.
Definition dedupe_paths (l : list bytes) : option (list bytes) := dedupe_from [] l.

(* ------------------------------------------------------------------ the resolver *)
Section Follow.
Variable gmatch : bytes -> bytes -> bool.     (* filepath.Match(pattern, name), errors = false *)
Variable view : list node.

(* readSymlink(p, false) for p = dirc/name: nil, or the one target *)
Definition read_symlink1 (dirc : list bytes) (name : bytes) : list (list bytes) :=
  match stat_node view (dirc ++ [name]) with
  | Some n => if node_is_symlink n then [link_target dirc (node_link n)] else []
  | None => []
  end.

(* readSymlink(current, true) for current = dirc/c *)
Definition read_symlink (dirc : list bytes) (c : bytes) : list (list bytes) :=
  if contains_wildcards c then
    match read_dir view dirc with
    | None => []
    | Some kids =>
      flat_map (fun k => if gmatch c (node_name k) then read_symlink1 dirc (node_name k) else []) kids
    end
  else read_symlink1 dirc c.

Definition rec_t := fstate -> list bytes -> result fstate.

(* for _, target := range targets { r.append(Join(target, p)) } *)
Fixpoint each_target (rec : rec_t) (rest : list bytes) (ts : list (list bytes)) (st : fstate)
  : result fstate :=
  match ts with
  | [] => Ok st
  | t :: ts' =>
    match rec st (norm_clamp (t ++ rest)) with
    | Ok st' => each_target rec rest ts' st'
    | OutOfFuel => OutOfFuel
    end
  end.

(* the for-loop of append: [cur] = components of current, [p] = components still to do *)
Fixpoint loop (rec : rec_t) (cur p : list bytes) (st : fstate) {struct p} : result fstate :=
  match p with
  | [] => Ok st                                   (* not reached: the loop returns at the last component *)
  | c :: rest =>
    let cur' := cur ++ [c] in
    let k := key cur' in
    let targets := read_symlink cur c in
    let last := is_nil rest in
    let has := negb (is_nil targets) in
    if (last || has) && mem k (resolved st) then Ok (note_revisit has (cur, c, rest) st)
    else if has then each_target rec rest targets (add_expanded (cur, c, rest) (add_resolved k st))
    else if last then Ok (add_resolved k st)
    else loop rec cur' rest st
  end.

Fixpoint append (fuel : nat) (st : fstate) (p : list bytes) {struct fuel} : result fstate :=
  match fuel with
  | O => OutOfFuel
  | S f =>
    let st := add_call p st in
    match p with
    | [] => (* p = ".": current = ".", statFile answers nil *)
      Ok (if mem s_dot (resolved st) then st else add_resolved s_dot st)
    | _ => loop (append f) [] p st
    end
  end.

Fixpoint follow_reqs (fuel : nat) (st : fstate) (reqs : list bytes) : result fstate :=
  match reqs with
  | [] => Ok st
  | r :: rs =>
    match append fuel st (norm_clamp (comps r)) with
    | Ok st' => follow_reqs fuel st' rs
    | OutOfFuel => OutOfFuel
    end
  end.

Definition follow_state (fuel : nat) (reqs : list bytes) : result fstate := follow_reqs fuel st0 reqs.

Definition finish (st : fstate) : option (list bytes) := dedupe_paths (sort_bytes (resolved st)).

(* (nil?, list) *)
Definition follow_links_opt (fuel : nat) (reqs : list bytes) : result (option (list bytes)) :=
  match follow_state fuel reqs with
  | Ok st => Ok (finish st)
  | OutOfFuel => OutOfFuel
  end.

Definition follow_links (fuel : nat) (reqs : list bytes) : result (list bytes) :=
  match follow_links_opt fuel reqs with
  | Ok (Some l) => Ok l
  | Ok None => Ok []
  | OutOfFuel => OutOfFuel
  end.

(* K4 hypothesis: no symlink is met again with a remainder it was not expanded with *)
Definition no_revisit (fuel : nat) (reqs : list bytes) : bool :=
  match follow_state fuel reqs with
  | Ok st => is_nil (g_revisit st)
  | OutOfFuel => false
  end.

End Follow.

(* ------------------------------------------------------------------ fuel bound *)
(* component paths of all entries of a view *)
Fixpoint node_cpaths (dirc : list bytes) (n : node) {struct n} : list (list bytes) :=
  match n with
  | Node name _ _ kids =>
    let p := dirc ++ [name] in
    p :: (fix go (l : list node) : list (list bytes) :=
            match l with
            | [] => []
            | k :: r => node_cpaths p k ++ go r
            end) kids
  end.
Fixpoint forest_cpaths (dirc : list bytes) (l : list node) : list (list bytes) :=
  match l with
  | [] => []
  | k :: r => node_cpaths dirc k ++ forest_cpaths dirc r
  end.
Definition all_cpaths (view : list node) : list (list bytes) := forest_cpaths [] view.

(* link names of all entries *)
Fixpoint node_links (n : node) {struct n} : list bytes :=
  match n with
  | Node _ st _ kids =>
    st_linkname st :: (fix go (l : list node) : list bytes :=
                         match l with
                         | [] => []
                         | k :: r => node_links k ++ go r
                         end) kids
  end.
Fixpoint forest_links (l : list node) : list bytes :=
  match l with
  | [] => []
  | k :: r => node_links k ++ forest_links r
  end.

(* every component that can ever show up in [p] or [current] *)
Definition comp_pool (view : list node) (reqs : list bytes) : list bytes :=
  flat_map comps reqs ++ flat_map comps (forest_links view).

(* candidate keys: an entry of the view, or a directory (or the root) plus a pool component *)
Definition cand_keys (view : list node) (reqs : list bytes) : list bytes :=
  map key (all_cpaths view) ++
  flat_map (fun d => map (fun c => key (d ++ [c])) (comp_pool view reqs)) ([] :: all_cpaths view).

Definition fuel_bound (view : list node) (reqs : list bytes) : nat := S (length (cand_keys view reqs)).
(* the same number without building the candidate keys (what the glue evaluates: a tree with a
   thousand entries has a million candidate keys) *)
Definition fuel_bound_fast (view : list node) (reqs : list bytes) : nat :=
  let n := length (all_cpaths view) in
  S (n + S n * length (comp_pool view reqs)).

(* ------------------------------------------------------------------ filepath.Match (Go 1.23) *)
Definition rune_error : N := 65533.
Definition in_rng (lo hi x : N) : bool := N.leb lo x && N.leb x hi.
Definition cont (x : N) : N := N.land x 63.

(* utf8.DecodeRuneInString: (rune, width); width 0 only for the empty string *)
Definition decode_rune (s : bytes) : N * nat :=
  match s with
  | [] => (rune_error, 0%nat)
  | s0 :: t =>
    if N.ltb s0 128 then (s0, 1%nat)
    else if N.ltb s0 194 then (rune_error, 1%nat)
    else if N.ltb s0 224 then
      match t with
      | s1 :: _ => if in_rng 128 191 s1 then (N.lor (N.shiftl (N.land s0 31) 6) (cont s1), 2%nat)
                   else (rune_error, 1%nat)
      | _ => (rune_error, 1%nat)
      end
    else if N.ltb s0 240 then
      let lo := if N.eqb s0 224 then 160 else 128 in
      let hi := if N.eqb s0 237 then 159 else 191 in
      match t with
      | s1 :: s2 :: _ =>
        if in_rng lo hi s1 && in_rng 128 191 s2
        then (N.lor (N.shiftl (N.land s0 15) 12) (N.lor (N.shiftl (cont s1) 6) (cont s2)), 3%nat)
        else (rune_error, 1%nat)
      | _ => (rune_error, 1%nat)
      end
    else if N.ltb s0 245 then
      let lo := if N.eqb s0 240 then 144 else 128 in
      let hi := if N.eqb s0 244 then 143 else 191 in
      match t with
      | s1 :: s2 :: s3 :: _ =>
        if in_rng lo hi s1 && in_rng 128 191 s2 && in_rng 128 191 s3
        then (N.lor (N.shiftl (N.land s0 7) 18)
                (N.lor (N.shiftl (cont s1) 12) (N.lor (N.shiftl (cont s2) 6) (cont s3))), 4%nat)
        else (rune_error, 1%nat)
      | _ => (rune_error, 1%nat)
      end
    else (rune_error, 1%nat)
  end.

(* scanChunk after the leading stars: (chunk, rest) *)
Fixpoint scan_chunk (inrange : bool) (p : bytes) : bytes * bytes :=
  match p with
  | [] => ([], [])
  | a :: p' =>
    if N.eqb a 92 then
      match p' with
      | [] => ([a], [])
      | b :: p'' => let (c, r) := scan_chunk inrange p'' in (a :: b :: c, r)
      end
    else if N.eqb a 91 then let (c, r) := scan_chunk true p' in (a :: c, r)
    else if N.eqb a 93 then let (c, r) := scan_chunk false p' in (a :: c, r)
    else if N.eqb a 42 && negb inrange then ([], p)
    else let (c, r) := scan_chunk inrange p' in (a :: c, r)
  end.

Fixpoint strip_stars (p : bytes) : bool * bytes :=
  match p with
  | a :: p' => if N.eqb a 42 then (true, snd (strip_stars p')) else (false, p)
  | [] => (false, [])
  end.

(* getEsc: None = ErrBadPattern *)
Definition get_esc (chunk : bytes) : option (N * bytes) :=
  match chunk with
  | [] => None
  | c :: t =>
    if N.eqb c 45 || N.eqb c 93 then None
    else
      let chunk1 := if N.eqb c 92 then t else chunk in
      match chunk1 with
      | [] => None
      | _ =>
        let (r, n) := decode_rune chunk1 in
        let nchunk := skipn n chunk1 in
        if (N.eqb r rune_error && Nat.eqb n 1) || is_nil nchunk then None else Some (r, nchunk)
      end
  end.

(* the range loop of a character class: Some (matched, chunk after ']') or None = bad pattern *)
Fixpoint class_loop (fuel : nat) (r : N) (chunk : bytes) (nrange : bool) (mtch : bool)
  : option (bool * bytes) :=
  match fuel with
  | O => None
  | S f =>
    let body :=
      match get_esc chunk with
      | None => None
      | Some (lo, chunk1) =>
        match chunk1 with
        | d :: chunk2 =>
          if N.eqb d 45 then
            match get_esc chunk2 with
            | None => None
            | Some (hi, chunk3) => class_loop f r chunk3 true (mtch || in_rng lo hi r)
            end
          else class_loop f r chunk1 true (mtch || in_rng lo lo r)
        | [] => None
        end
      end in
    match chunk with
    | c :: chunk' => if N.eqb c 93 && nrange then Some (mtch, chunk') else body
    | [] => body
    end
  end.

(* matchChunk: None = bad pattern, Some None = no match, Some (Some rest) = match *)
Fixpoint match_chunk (fuel : nat) (failed : bool) (chunk s : bytes) : option (option bytes) :=
  match fuel with
  | O => None
  | S f =>
    match chunk with
    | [] => Some (if failed then None else Some s)
    | c :: chunk' =>
      let failed := failed || is_nil s in
      if N.eqb c 91 then
        let '(r, s') := if failed then (0, s) else let (r, n) := decode_rune s in (r, skipn n s) in
        let '(neg, chunk1) := match chunk' with
                              | x :: t => if N.eqb x 94 then (true, t) else (false, chunk')
                              | [] => (false, chunk')
                              end in
        match class_loop (S (length chunk1)) r chunk1 false false with
        | None => None
        | Some (m, chunk2) => match_chunk f (failed || Bool.eqb m neg) chunk2 s'
        end
      else if N.eqb c 63 then
        if failed then match_chunk f true chunk' s
        else match_chunk f (match s with x :: _ => N.eqb x sep | [] => true end)
                         chunk' (skipn (snd (decode_rune s)) s)
      else
        let chunkl := if N.eqb c 92 then chunk' else chunk in
        match chunkl with
        | [] => None
        | d :: chunk2 =>
          if failed then match_chunk f true chunk2 s
          else match s with
               | x :: s2 => match_chunk f (negb (N.eqb x d)) chunk2 s2
               | [] => match_chunk f true chunk2 s
               end
        end
    end
  end.
Definition match_chunk0 (chunk s : bytes) : option (option bytes) :=
  match_chunk (S (length chunk)) false chunk s.

Fixpoint has_sep (s : bytes) : bool :=
  match s with [] => false | a :: r => N.eqb a sep || has_sep r end.

(* the "skip i+1 bytes" loop after a star *)
Fixpoint star_scan (k : bytes -> bool) (chunk : bytes) (lastchunk : bool) (name : bytes) : bool :=
  match name with
  | [] => false
  | x :: name' =>
    if N.eqb x sep then false
    else match match_chunk0 chunk name' with
         | None => false
         | Some (Some t) => if lastchunk && negb (is_nil t) then star_scan k chunk lastchunk name' else k t
         | Some None => star_scan k chunk lastchunk name'
         end
  end.

Fixpoint match_loop (fuel : nat) (pattern name : bytes) : bool :=
  match fuel with
  | O => false
  | S f =>
    match pattern with
    | [] => is_nil name
    | _ =>
      let (star, p1) := strip_stars pattern in
      let (chunk, rest) := scan_chunk false p1 in
      if star && is_nil chunk then negb (has_sep name)
      else
        let lastchunk := is_nil rest in
        match match_chunk0 chunk name with
        | None => false
        | Some (Some t) =>
          if is_nil t || negb lastchunk then match_loop f rest t
          else if star then star_scan (match_loop f rest) chunk lastchunk name else false
        | Some None =>
          if star then star_scan (match_loop f rest) chunk lastchunk name else false
        end
    end
  end.

Definition go_match (pattern name : bytes) : bool := match_loop (S (length pattern)) pattern name.

(* ------------------------------------------------------------------ independent resolver *)
(* Linux path resolution with the process root := tree root: "" and "." stay, ".."
   moves to the parent and stays at the root, names are looked up in the current
   directory (ENOTDIR when it is not one), symlinks are followed wherever they
   occur (also as the last component), absolute targets restart at the root,
   ELOOP after 40 links.  Records every symlink traversed. *)
Inductive outcome : Type :=
| Reached (p : list bytes)      (* an existing entry; [] = the root *)
| Failed.                       (* ENOENT / ENOTDIR / ELOOP *)

Record cres := { traversed : list (list bytes); final : outcome }.

Definition is_dotdot (c : bytes) : bool := bytes_eqb c s_dotdot.
Definition is_triv (c : bytes) : bool := bytes_eqb c [] || bytes_eqb c s_dot.

(* the entries of the directory at [cs] (every component a real directory) *)
Fixpoint dir_at (kids : list node) (cs : list bytes) : option (list node) :=
  match cs with
  | [] => Some kids
  | c :: r =>
    match find_kid c kids with
    | Some n => if node_is_dir n then dir_at (node_kids n) r else None
    | None => None
    end
  end.

Section Chroot.
Variable gmatch : bytes -> bytes -> bool.
Variable view : list node.

(* todo items: (component, may-be-a-wildcard); components of link targets are literal *)
Definition lit (cs : list bytes) : list (bytes * bool) := map (fun c => (c, false)) cs.

Fixpoint cresolve (follows : nat) (here : list bytes) (todo : list (bytes * bool))
         (trav : list (list bytes)) {struct follows} : list cres :=
  (fix walk (here : list bytes) (todo : list (bytes * bool)) {struct todo} : list cres :=
     match todo with
     | [] => [{| traversed := trav; final := Reached here |}]
     | (c, g) :: rest =>
       match dir_at view here with
       | None => [{| traversed := trav; final := Failed |}]
       | Some kids =>
         let enter (n : node) : list cres :=
           let p := here ++ [node_name n] in
           if node_is_symlink n then
             match follows with
             | O => [{| traversed := p :: trav; final := Failed |}]
             | S f =>
               let l := node_link n in
               if is_nil l then [{| traversed := p :: trav; final := Failed |}]
               else cresolve f (if is_abs l then [] else here) (lit (comps l) ++ rest) (p :: trav)
             end
           else walk p rest in
         if is_triv c then walk here rest
         else if is_dotdot c then walk (removelast here) rest
         else if g && contains_wildcards c then
           flat_map (fun n => if gmatch c (node_name n) then enter n else []) kids
         else match find_kid c kids with
              | None => [{| traversed := trav; final := Failed |}]
              | Some n => enter n
              end
       end
     end) here todo.

(* all resolutions of a request (one per wildcard expansion; exactly one without wildcards) *)
Definition chroot_resolve_all (p : bytes) : list cres :=
  cresolve 40 [] (map (fun c => (c, true)) (comps p)) [].

(* wildcard-free reading: every component literal *)
Definition chroot_resolve (p : bytes) : cres :=
  match cresolve 40 [] (lit (comps p)) [] with
  | r :: _ => r
  | [] => {| traversed := []; final := Failed |}
  end.

(* ---- executable specification ---- *)
(* element [e] of the result (a pattern list for the include matcher: wildcard
   components match by filepath.Match, others literally) covers path [q] when it
   matches a prefix of it *)
Fixpoint pat_prefix (es q : list bytes) : bool :=
  match es, q with
  | [], _ => true
  | e :: es', c :: q' => (if contains_wildcards e then gmatch e c else bytes_eqb e c) && pat_prefix es' q'
  | _ :: _, [] => false
  end.

Definition covered (res : list bytes) (q : list bytes) : bool :=
  existsb (fun e => pat_prefix (comps e) q) res.

(* [res] = the returned list, [isnil] = the nil slice (no filter at all) *)
Definition closed_for (isnil : bool) (res : list bytes) (r : cres) : bool :=
  if isnil then true
  else forallb (covered res) (traversed r) &&
       match final r with
       | Reached [] => false            (* the root was reached: the result must be nil *)
       | Reached q => covered res q
       | Failed => true
       end.

Definition closed_b (isnil : bool) (res : list bytes) (reqs : list bytes) : bool :=
  forallb (fun p => forallb (closed_for isnil res) (chroot_resolve_all p)) reqs.

End Chroot.

(* sorted strictly, bytewise *)
Fixpoint sorted_b (l : list bytes) : bool :=
  match l with
  | a :: ((b :: _) as r) => match cmp_bytes a b with Lt => sorted_b r | _ => false end
  | _ => true
  end.

(* no element is inside another: a ++ "/" is not a prefix of b *)
Definition minimal_b (l : list bytes) : bool :=
  forallb (fun a => forallb (fun b => negb (inside a b)) l) l.

(* ---- computable side conditions used for known-finding signatures ---- *)
(* ".." occurs only as a leading run (where lexical and physical parent agree) *)
Fixpoint no_dotdot (cs : list bytes) : bool :=
  match cs with [] => true | c :: r => negb (is_dotdot c) && no_dotdot r end.
Fixpoint leading_dotdot_only (cs : list bytes) : bool :=
  match cs with
  | [] => true
  | c :: r => if is_dotdot c || is_triv c then leading_dotdot_only r else no_dotdot r
  end.
Definition lexical_safe (view : list node) (reqs : list bytes) : bool :=
  forallb (fun s => leading_dotdot_only (comps s)) reqs &&
  forallb (fun s => leading_dotdot_only (comps s)) (forest_links view).

(* wildcards only in the last component of a request *)
Fixpoint wild_last_only_c (cs : list bytes) : bool :=
  match cs with
  | [] => true
  | [c] => true
  | c :: r => negb (contains_wildcards c) && wild_last_only_c r
  end.
Definition wild_last_only (reqs : list bytes) : bool :=
  forallb (fun s => wild_last_only_c (norm_clamp (comps s))) reqs.

(* no component of a link target looks like a pattern (containsWildcards) *)
Definition literal_path (s : bytes) : bool := forallb (fun c => negb (contains_wildcards c)) (comps s).
Definition links_literal (view : list node) : bool := forallb literal_path (forest_links view).
(* no pattern anywhere: neither in a request nor in a link target *)
Definition literal_only (view : list node) (reqs : list bytes) : bool :=
  forallb literal_path reqs && links_literal view.

(* names of all entries *)
Fixpoint node_names (n : node) {struct n} : list bytes :=
  match n with
  | Node name _ _ kids =>
    name :: (fix go (l : list node) : list bytes :=
               match l with
               | [] => []
               | k :: r => node_names k ++ go r
               end) kids
  end.
Fixpoint forest_names (l : list node) : list bytes :=
  match l with
  | [] => []
  | k :: r => node_names k ++ forest_names r
  end.
(* a component that looks like a pattern but, in this tree, matches exactly the entries
   that carry its own text as name (so reading it as a pattern or literally is the same) *)
Definition selfmatch_only (gmatch : bytes -> bytes -> bool) (view : list node) (c : bytes) : bool :=
  forallb (fun nm => Bool.eqb (gmatch c nm) (bytes_eqb nm c)) (forest_names view).
Definition quasi_literal (gmatch : bytes -> bytes -> bool) (view : list node) (c : bytes) : bool :=
  negb (contains_wildcards c) || selfmatch_only gmatch view c.
Definition links_selfmatch (gmatch : bytes -> bytes -> bool) (view : list node) : bool :=
  forallb (fun l => forallb (quasi_literal gmatch view) (comps l)) (forest_links view).

(* well-formed views: what a file system can hold (names are single non-special
   components, distinct among siblings; only directories have entries) *)
Definition name_ok (c : bytes) : bool :=
  negb (is_nil c) && negb (bytes_eqb c s_dot) && negb (bytes_eqb c s_dotdot) && negb (has_sep c).
Fixpoint names_distinct (l : list bytes) : bool :=
  match l with [] => true | a :: r => negb (mem a r) && names_distinct r end.
Fixpoint wf_node (n : node) {struct n} : bool :=
  match n with
  | Node name st _ kids =>
    name_ok name && (mode_is_dir (st_mode st) || is_nil kids) &&
    negb (mode_is_dir (st_mode st) && mode_is_symlink (st_mode st)) && names_distinct (map node_name kids) &&
    (fix go (l : list node) : bool := match l with [] => true | k :: r => wf_node k && go r end) kids
  end.
Definition wf_view (view : list node) : bool :=
  names_distinct (map node_name view) && forallb wf_node view.
