(* C01 — the convergence relation of the property statement, as an executable
   predicate over (source view, prior destination view, raw snapshot of the
   destination after the transfer).  Independent of any model of the transfer:
   it is evaluated on what the implementation left on disk. *)
From Coq Require Import List NArith Bool.
From FS Require Import Sx Model.Path Model.Stat Model.Tree.
Import ListNotations.
Open Scope N_scope.
Open Scope bool_scope.

(* independent lstat record of one destination entry (harness/disk.go RawEntry) *)
Record raw := {
  r_path : bytes; r_mode : N; r_uid : N; r_gid : N; r_size : N; r_mtime : N; r_rdev : N;
  r_ino : N; r_nlink : N; r_target : bytes; r_xattrs : list (bytes * bytes); r_content : bytes
}.

Definition dec_raw (s : sx) : option raw :=
  match s with
  | SL [SB p; SN m; SN u; SN g; SN sz; SN mt; SN rd; SN ino; SN nl; SB tg; xs; SB c] =>
    x <- sx_list dec_xattr xs ;;
    Some {| r_path := p; r_mode := m; r_uid := u; r_gid := g; r_size := sz; r_mtime := mt; r_rdev := rd;
            r_ino := ino; r_nlink := nl; r_target := tg; r_xattrs := x; r_content := c |}
  | _ => None
  end.

(* st_mode type bits *)
Definition S_IFMT : N := 61440.
Definition S_IFDIR : N := 16384.
Definition S_IFREG : N := 32768.
Definition S_IFLNK : N := 40960.
Definition S_IFIFO : N := 4096.
Definition S_IFCHR : N := 8192.
Definition S_IFBLK : N := 24576.
Definition S_IFSOCK : N := 49152.

(* the st_mode a Go FileMode denotes (type + permission + setuid/setgid/sticky) *)
Definition unix_type_of_gomode (m : N) : N :=
  if has_bits m ModeDir then S_IFDIR
  else if has_bits m ModeSymlink then S_IFLNK
  else if has_bits m ModeNamedPipe then S_IFIFO
  else if has_bits m ModeSocket then S_IFSOCK
  else if has_bits m ModeDevice then (if has_bits m ModeCharDevice then S_IFCHR else S_IFBLK)
  else S_IFREG.

Definition unix_perm_of_gomode (m : N) : N :=
  N.land m ModePerm
  + (if has_bits m ModeSetuid then 2048 else 0)
  + (if has_bits m ModeSetgid then 1024 else 0)
  + (if has_bits m ModeSticky then 512 else 0).

(* glibc gnu_dev_major / gnu_dev_minor *)
Definition dev_major (d : N) : N :=
  N.lor (N.land (N.shiftr d 32) 4294963200) (N.land (N.shiftr d 8) 4095).
Definition dev_minor (d : N) : N :=
  N.lor (N.land (N.shiftr d 12) 4294967040) (N.land d 255).

Definition raw_type (d : raw) : N := N.land (r_mode d) S_IFMT.
Definition raw_is_dir (d : raw) : bool := N.eqb (raw_type d) S_IFDIR.

(* one destination entry agrees with the source entry it must equal.
   [created]: the transfer certainly created this entry (absent from the prior
   destination, or of another type there) — only then directory mtimes and xattrs
   are claimed by the property. *)
Definition entry_matches (created : bool) (s : stat) (content : bytes) (d : raw) : bool :=
  let m := st_mode s in
  let ty := unix_type_of_gomode m in
  bytes_eqb (st_path s) (r_path d)
  && N.eqb ty (raw_type d)
  && (N.eqb ty S_IFLNK || N.eqb (unix_perm_of_gomode m) (N.land (r_mode d) 4095))
  && N.eqb (st_uid s) (r_uid d) && N.eqb (st_gid s) (r_gid d)
  && (if N.eqb ty S_IFDIR then negb created || N.eqb (st_mtime s) (r_mtime d)
      else N.eqb (st_mtime s) (r_mtime d))
  && (if N.eqb ty S_IFREG then bytes_eqb content (r_content d) else true)
  && (if N.eqb ty S_IFLNK then bytes_eqb (st_linkname s) (r_target d) else true)
  && (if N.eqb ty S_IFCHR || N.eqb ty S_IFBLK
      then N.eqb (st_devmajor s) (dev_major (r_rdev d)) && N.eqb (st_devminor s) (dev_minor (r_rdev d))
      else true)
  && (if created && (N.eqb ty S_IFREG || N.eqb ty S_IFDIR) then xattrs_eqb (st_xattrs s) (r_xattrs d) else true).

Fixpoint find_raw (p : bytes) (l : list raw) : option raw :=
  match l with
  | [] => None
  | d :: r => if bytes_eqb p (r_path d) then Some d else find_raw p r
  end.

Fixpoint find_entry (p : bytes) (l : list entry) : option entry :=
  match l with
  | [] => None
  | e :: r => if bytes_eqb p (st_path (fst e)) then Some e else find_entry p r
  end.

Definition same_type (a b : stat) : bool :=
  N.eqb (unix_type_of_gomode (st_mode a)) (unix_type_of_gomode (st_mode b)).

Definition created_by_transfer (prior : list entry) (s : stat) : bool :=
  match find_entry (st_path s) prior with
  | None => true
  | Some (ps, _) => negb (same_type ps s)
  end.

(* hard-link groups: every entry that is neither a directory nor a symbolic link (regular file,
   device, fifo, socket) is a name of an inode that may have several; representative = linkname,
   or own path.  (For a symbolic link Linkname is its target.) *)
Definition is_reg (s : stat) : bool := N.eqb (unix_type_of_gomode (st_mode s)) S_IFREG.
Definition is_linkable (s : stat) : bool :=
  negb (N.eqb (unix_type_of_gomode (st_mode s)) S_IFDIR) && negb (N.eqb (unix_type_of_gomode (st_mode s)) S_IFLNK).
Definition group_rep (s : stat) : bytes :=
  match st_linkname s with [] => st_path s | l => l end.

(* the xattr clause of the statement speaks of "every regular file ... the transfer CREATED": for a
   hard-link entry (a further name of an inode) that is the case only when the inode itself was
   created by this transfer, i.e. when the first name of its group was — a new name for a file
   that stays in place shows that file's xattrs, which the property does not claim
   (corpus/C01: stale-xattrs-on-new-hardlink).  For every other entry: created_by_transfer. *)
Definition inode_created (prior src : list entry) (s : stat) : bool :=
  created_by_transfer prior s &&
  (if is_reg s then
     match st_linkname s with
     | [] => true
     | l => match find_entry l src with Some (t, _) => created_by_transfer prior t | None => false end
     end
   else true).

Definition links_ok (src : list entry) (dest : list raw) : bool :=
  let regs := filter (fun e => is_linkable (fst e)) src in
  forallb (fun e1 => forallb (fun e2 =>
    match find_raw (st_path (fst e1)) dest, find_raw (st_path (fst e2)) dest with
    | Some d1, Some d2 =>
      Bool.eqb (bytes_eqb (group_rep (fst e1)) (group_rep (fst e2))) (N.eqb (r_ino d1) (r_ino d2))
    | _, _ => false
    end) regs) regs.

(* a prior entry survives a merge iff the source neither has its path nor replaces an
   ancestor directory of it by a non-directory *)
Definition path_under (anc p : bytes) : bool := has_prefix (anc ++ [sep]) p.

Definition kept_in_merge (src : list entry) (p : bytes) : bool :=
  match find_entry p src with
  | Some _ => false
  | None => negb (existsb (fun e => negb (st_is_dir (fst e)) && path_under (st_path (fst e)) p) src)
  end.

Definition prior_unchanged (ps : stat) (content : bytes) (d : raw) : bool :=
  let ty := unix_type_of_gomode (st_mode ps) in
  N.eqb ty (raw_type d)
  && (N.eqb ty S_IFLNK || N.eqb (unix_perm_of_gomode (st_mode ps)) (N.land (r_mode d) 4095))
  && N.eqb (st_uid ps) (r_uid d) && N.eqb (st_gid ps) (r_gid d)
  && (if N.eqb ty S_IFREG then bytes_eqb content (r_content d) && N.eqb (st_mtime ps) (r_mtime d) else true)
  && (if N.eqb ty S_IFLNK then bytes_eqb (st_linkname ps) (r_target d) else true).

(* ---- the observation of one destination entry the relation is stated on.  The raw lstat
        record is projected by [obs_of_raw] (type bits, permission + special bits, glibc
        major/minor); the abstract receiver model (Model/AbsDest.v) is projected onto the same
        record by Model/ConvergeA.v [view_of], so that ONE relation judges both the real
        snapshot and the model's result. ---- *)
Record obs := {
  o_path : bytes; o_type : N; o_perm : N; o_uid : N; o_gid : N; o_mtime : N;
  o_content : bytes; o_target : bytes; o_major : N; o_minor : N; o_ino : N;
  o_xattrs : list (bytes * bytes) }.

Definition obs_of_raw (d : raw) : obs :=
  {| o_path := r_path d; o_type := raw_type d; o_perm := N.land (r_mode d) 4095;
     o_uid := r_uid d; o_gid := r_gid d; o_mtime := r_mtime d; o_content := r_content d;
     o_target := r_target d; o_major := dev_major (r_rdev d); o_minor := dev_minor (r_rdev d);
     o_ino := r_ino d; o_xattrs := r_xattrs d |}.

Definition entry_matches_o (created : bool) (s : stat) (content : bytes) (d : obs) : bool :=
  let m := st_mode s in
  let ty := unix_type_of_gomode m in
  bytes_eqb (st_path s) (o_path d)
  && N.eqb ty (o_type d)
  && (N.eqb ty S_IFLNK || N.eqb (unix_perm_of_gomode m) (o_perm d))
  && N.eqb (st_uid s) (o_uid d) && N.eqb (st_gid s) (o_gid d)
  && (if N.eqb ty S_IFDIR then negb created || N.eqb (st_mtime s) (o_mtime d)
      else N.eqb (st_mtime s) (o_mtime d))
  && (if N.eqb ty S_IFREG then bytes_eqb content (o_content d) else true)
  && (if N.eqb ty S_IFLNK then bytes_eqb (st_linkname s) (o_target d) else true)
  && (if N.eqb ty S_IFCHR || N.eqb ty S_IFBLK
      then N.eqb (st_devmajor s) (o_major d) && N.eqb (st_devminor s) (o_minor d)
      else true)
  && (if created && (N.eqb ty S_IFREG || N.eqb ty S_IFDIR) then xattrs_eqb (st_xattrs s) (o_xattrs d) else true).

Fixpoint find_obs (p : bytes) (l : list obs) : option obs :=
  match l with
  | [] => None
  | d :: r => if bytes_eqb p (o_path d) then Some d else find_obs p r
  end.

Definition links_ok_o (src : list entry) (dest : list obs) : bool :=
  let regs := filter (fun e => is_linkable (fst e)) src in
  forallb (fun e1 => forallb (fun e2 =>
    match find_obs (st_path (fst e1)) dest, find_obs (st_path (fst e2)) dest with
    | Some d1, Some d2 =>
      Bool.eqb (bytes_eqb (group_rep (fst e1)) (group_rep (fst e2))) (N.eqb (o_ino d1) (o_ino d2))
    | _, _ => false
    end) regs) regs.

Definition prior_unchanged_o (ps : stat) (content : bytes) (d : obs) : bool :=
  let ty := unix_type_of_gomode (st_mode ps) in
  N.eqb ty (o_type d)
  && (N.eqb ty S_IFLNK || N.eqb (unix_perm_of_gomode (st_mode ps)) (o_perm d))
  && N.eqb (st_uid ps) (o_uid d) && N.eqb (st_gid ps) (o_gid d)
  && (if N.eqb ty S_IFREG then bytes_eqb content (o_content d) && N.eqb (st_mtime ps) (o_mtime d) else true)
  && (if N.eqb ty S_IFLNK then bytes_eqb (st_linkname ps) (o_target d) else true).

(* THE executable convergence relation (Proofs/OracleP.v: equivalent to the declarative
   [approx] / [approx_merge] below) *)
Definition converged_o (merge : bool) (prior src : list entry) (dest : list obs) : bool :=
  (* every source entry is there and equal *)
  forallb (fun e => match find_obs (st_path (fst e)) dest with
                    | Some d => entry_matches_o (inode_created prior src (fst e)) (fst e) (snd e) d
                    | None => false end) src
  (* nothing else is there, except (merge) untouched prior entries *)
  && forallb (fun d => match find_entry (o_path d) src with
                       | Some _ => true
                       | None => merge && kept_in_merge src (o_path d)
                                 && match find_entry (o_path d) prior with
                                    | Some (ps, c) => prior_unchanged_o ps c d
                                    | None => false end
                       end) dest
  (* merge deletes nothing the source does not replace *)
  && (negb merge || forallb (fun e => negb (kept_in_merge src (st_path (fst e)))
                                      || match find_obs (st_path (fst e)) dest with Some _ => true | None => false end) prior)
  && links_ok_o src dest.

(* what the harness evaluates on the raw snapshot of the real destination *)
Definition converged (merge : bool) (prior src : list entry) (dest : list raw) : bool :=
  converged_o merge prior src (map obs_of_raw dest).

(* ---- the same relation as propositions: the "equal" of the property statement ---- *)
Definition entry_ok (created : bool) (s : stat) (content : bytes) (d : obs) : Prop :=
  let ty := unix_type_of_gomode (st_mode s) in
  o_path d = st_path s                                                        (* path *)
  /\ o_type d = ty                                                            (* entry type *)
  /\ (ty <> S_IFLNK -> o_perm d = unix_perm_of_gomode (st_mode s))            (* permission + suid/sgid/sticky *)
  /\ o_uid d = st_uid s /\ o_gid d = st_gid s                                 (* owner *)
  /\ (ty <> S_IFDIR -> o_mtime d = st_mtime s)                                (* ns mtime of every non-directory *)
  /\ (ty = S_IFDIR -> created = true -> o_mtime d = st_mtime s)               (* ... and of created directories *)
  /\ (ty = S_IFREG -> o_content d = content)                                  (* file bytes *)
  /\ (ty = S_IFLNK -> o_target d = st_linkname s)                             (* symlink target *)
  /\ (ty = S_IFCHR \/ ty = S_IFBLK -> o_major d = st_devmajor s /\ o_minor d = st_devminor s)
  /\ (created = true -> ty = S_IFREG \/ ty = S_IFDIR -> o_xattrs d = st_xattrs s).

(* equal path set *)
Definition same_paths (src : list entry) (dest : list obs) : Prop :=
  forall p, (exists d, find_obs p dest = Some d) <-> (exists e, In e src /\ st_path (fst e) = p).

(* hard-link groups, as a partition of the paths of all entries that are neither directories nor
   symbolic links (regular files, devices, fifos): two paths show one inode in the destination
   iff they are in one link group of the source *)
Definition link_partition (src : list entry) (dest : list obs) : Prop :=
  forall e1 e2 d1 d2, In e1 src -> In e2 src -> is_linkable (fst e1) = true -> is_linkable (fst e2) = true ->
    find_obs (st_path (fst e1)) dest = Some d1 -> find_obs (st_path (fst e2)) dest = Some d2 ->
    (o_ino d1 = o_ino d2 <-> group_rep (fst e1) = group_rep (fst e2)).

(* dest "equals" the source view src, having started from prior (fresh / dirty mode) *)
Definition approx (prior src : list entry) (dest : list obs) : Prop :=
  same_paths src dest
  /\ (forall s c, In (s, c) src ->
        exists d, find_obs (st_path s) dest = Some d /\ entry_ok (inode_created prior src s) s c d)
  /\ link_partition src dest.

Definition prior_ok (ps : stat) (content : bytes) (d : obs) : Prop :=
  let ty := unix_type_of_gomode (st_mode ps) in
  o_type d = ty
  /\ (ty <> S_IFLNK -> o_perm d = unix_perm_of_gomode (st_mode ps))
  /\ o_uid d = st_uid ps /\ o_gid d = st_gid ps
  /\ (ty = S_IFREG -> o_content d = content /\ o_mtime d = st_mtime ps)
  /\ (ty = S_IFLNK -> o_target d = st_linkname ps).

(* merge mode: dest is the overlay of src over prior — every source entry is there and equal;
   whatever else is there is an untouched prior entry that the source neither names nor
   covers with a non-directory; and every such prior entry is still there *)
Definition approx_merge (prior src : list entry) (dest : list obs) : Prop :=
  (forall s c, In (s, c) src ->
        exists d, find_obs (st_path s) dest = Some d /\ entry_ok (inode_created prior src s) s c d)
  /\ (forall d, In d dest ->
        (exists e, In e src /\ st_path (fst e) = o_path d) \/
        (kept_in_merge src (o_path d) = true /\
         exists ps c, find_entry (o_path d) prior = Some (ps, c) /\ prior_ok ps c d))
  /\ (forall e, In e prior -> kept_in_merge src (st_path (fst e)) = true ->
        exists d, find_obs (st_path (fst e)) dest = Some d)
  /\ link_partition src dest.

(* hypothesis of C01/C02 in dirty mode: same identity key => same bytes *)
Definition identity_key_eqb (a b : stat) : bool :=
  N.eqb (st_mode a) (st_mode b) && N.eqb (st_uid a) (st_uid b) && N.eqb (st_gid a) (st_gid b)
  && N.eqb (st_devmajor a) (st_devmajor b) && N.eqb (st_devminor a) (st_devminor b)
  && bytes_eqb (st_linkname a) (st_linkname b)
  && (st_is_dir a || (N.eqb (st_size a) (st_size b) && N.eqb (st_mtime a) (st_mtime b))).

Definition identity_faithful (prior src : list entry) : bool :=
  forallb (fun e => match find_entry (st_path (fst e)) prior with
                    | Some (ps, pc) =>
                      negb (is_reg (fst e) && identity_key_eqb ps (fst e)) || bytes_eqb pc (snd e)
                    | None => true end) src.

(* ---- diagnostics for replay files: which clause fails first (0 = none) ---- *)
Definition entry_mismatch (created : bool) (s : stat) (content : bytes) (d : raw) : N :=
  let m := st_mode s in
  let ty := unix_type_of_gomode m in
  if negb (N.eqb ty (raw_type d)) then 1
  else if negb (N.eqb ty S_IFLNK || N.eqb (unix_perm_of_gomode m) (N.land (r_mode d) 4095)) then 2
  else if negb (N.eqb (st_uid s) (r_uid d) && N.eqb (st_gid s) (r_gid d)) then 3
  else if negb (if N.eqb ty S_IFDIR then negb created || N.eqb (st_mtime s) (r_mtime d)
                else N.eqb (st_mtime s) (r_mtime d)) then 4
  else if negb (if N.eqb ty S_IFREG then bytes_eqb content (r_content d) else true) then 5
  else if negb (if N.eqb ty S_IFLNK then bytes_eqb (st_linkname s) (r_target d) else true) then 6
  else if negb (if N.eqb ty S_IFCHR || N.eqb ty S_IFBLK
      then N.eqb (st_devmajor s) (dev_major (r_rdev d)) && N.eqb (st_devminor s) (dev_minor (r_rdev d))
      else true) then 7
  else if negb (if created && (N.eqb ty S_IFREG || N.eqb ty S_IFDIR) then xattrs_eqb (st_xattrs s) (r_xattrs d) else true) then 8
  else 0.

Definition converged_diag (merge : bool) (prior src : list entry) (dest : list raw) : list sx :=
  flat_map (fun e => match find_raw (st_path (fst e)) dest with
                     | Some d => let c := entry_mismatch (inode_created prior src (fst e)) (fst e) (snd e) d in
                                 if N.eqb c 0 then [] else [SL [SB (st_path (fst e)); SN c]]
                     | None => [SL [SB (st_path (fst e)); SN 100]] end) src
  ++ flat_map (fun d => match find_entry (r_path d) src with
                        | Some _ => []
                        | None => if merge && kept_in_merge src (r_path d)
                                     && match find_entry (r_path d) prior with
                                        | Some (ps, c) => prior_unchanged ps c d
                                        | None => false end
                                  then [] else [SL [SB (r_path d); SN 101]]
                        end) dest
  ++ (if links_ok src dest then [] else [SL [SB []; SN 102]]).
