(* L5 — doubleWalkDiff (diff_containerd.go) on two in-memory listings.

   Transcribed, as the code is NOW (with the fix "diff re-arms the removed-directory
   filter"):
     pathChange      -> the match on the two heads + compare_path (fsutil.ComparePath)
     sameFile        -> same_file   (differ in {DiffMetadata, DiffNone}; DiffContent, which
                        opens both files on disk, is OUT OF SCOPE of this model)
     compareStat     -> compare_stat (six fields) ; size + mtime for non-directories
     the merge loop  -> diff_loop, one iteration = one recursive call; the goroutines and
                        channels of the Go code only feed the two listings in order, so the
                        loop is a function of the two lists.  State: the unread suffixes and
                        [rmdir] (Go: string, "" = unset; here: bytes, [] = unset).
     filter          -> the FilterFunc applied to a clone of the upper stat before comparing
                        is a Section variable [flt : stat -> stat] (its boolean result is
                        ignored by doubleWalkDiff, as in Go).  The change handed to changeFn
                        carries the UNFILTERED upper stat (f = f2.stat).
   fuel = |A| + |B| + 1; [diff_loop] returns None only when fuel runs out, which
   Proofs/DiffP.v (diff_fuel_enough) shows impossible.

   Also here: the executable DECLARATIVE specification of C02 ([spec_change_b],
   [diff_spec_b]) — set-based, it never looks at the loop or at [rmdir]. *)
From Coq Require Import List NArith Bool Sorting.Sorted.
From FS Require Import Sx Model.Path Model.Stat.
Import ListNotations.
Open Scope N_scope.
Open Scope bool_scope.

Inductive differ := DMetadata | DNone.          (* receive.go DiffType; DiffContent not modelled *)
Inductive ckind := KAdd | KModify | KDelete.    (* ChangeKindAdd/Modify/Delete = 0/1/2 *)

(* what changeFn receives: kind, path, stat (None for a delete: StatInfo{nil}) *)
Definition change := (ckind * bytes * option stat)%type.
Definition ch_kind (c : change) : ckind := fst (fst c).
Definition ch_path (c : change) : bytes := snd (fst c).
Definition ch_stat (c : change) : option stat := snd c.

Definition ckind_eqb (a b : ckind) : bool :=
  match a, b with KAdd, KAdd | KModify, KModify | KDelete, KDelete => true | _, _ => false end.

(* compareStat: Mode, Uid, Gid, Devmajor, Devminor, Linkname *)
Definition compare_stat (a b : stat) : bool :=
  N.eqb (st_mode a) (st_mode b) && N.eqb (st_uid a) (st_uid b) && N.eqb (st_gid a) (st_gid b)
  && N.eqb (st_devmajor a) (st_devmajor b) && N.eqb (st_devminor a) (st_devminor b)
  && bytes_eqb (st_linkname a) (st_linkname b).

(* sameFile f1 f2 differ *)
Definition same_file (d : differ) (a b : stat) : bool :=
  match d with
  | DNone => false
  | DMetadata =>
    if negb (st_is_dir a) then
      if negb (N.eqb (st_size a) (st_size b)) then false
      else if negb (N.eqb (st_mtime a) (st_mtime b)) then false
      else compare_stat a b
    else compare_stat a b
  end.

(* the identity key of the specification (C02): type + permission bits (mode), uid, gid, link
   target, device numbers and, for non-directories, size and mtime.  Proofs/DiffP.v
   (same_file_is_identity) shows that sameFile compares exactly this key. *)
Definition identity_key (s : stat) : list N * bytes :=
  ([st_mode s; st_uid s; st_gid s; st_devmajor s; st_devminor s;
    if st_is_dir s then 0 else st_size s; if st_is_dir s then 0 else st_mtime s], st_linkname s).
Definition key_eqb (a b : list N * bytes) : bool :=
  bytes_eqb (fst a) (fst b) && bytes_eqb (snd a) (snd b).

(* rmdir = f1.path + string(filepath.Separator) *)
Definition rm_of (p : bytes) : bytes := p ++ [sep].
Definition is_empty (b : bytes) : bool := match b with [] => true | _ => false end.
(* rmdir != "" && strings.HasPrefix(f1.path, rmdir) *)
Definition under_rm (rmdir p : bytes) : bool := negb (is_empty rmdir) && has_prefix rmdir p.

Definition emit (o : option change) (r : option (list change)) : option (list change) :=
  match r with None => None | Some l => Some (match o with Some c => c :: l | None => l end) end.

Section Diff.
Variable flt : stat -> stat.
Variable d : differ.

(* case ChangeKindAdd *)
Definition step_add (b : stat) : option change * bytes :=
  (Some (KAdd, st_path b, Some b), []).

(* case ChangeKindDelete *)
Definition step_del (rmdir : bytes) (a : stat) : option change * bytes :=
  if under_rm rmdir (st_path a) then (None, rmdir)
  else (Some (KDelete, st_path a, None), if st_is_dir a then rm_of (st_path a) else []).

(* case ChangeKindModify *)
Definition step_mod (a b : stat) : option change * bytes :=
  let b' := flt b in
  (if same_file d a b' then None else Some (KModify, st_path b, Some b),
   if st_is_dir a && negb (st_is_dir b') then rm_of (st_path a) else []).

Fixpoint diff_loop (fuel : nat) (rmdir : bytes) (A B : list stat) : option (list change) :=
  match fuel with
  | O => None
  | S f =>
    match A, B with
    | [], [] => Some []
    | [], b :: B' => let '(o, r) := step_add b in emit o (diff_loop f r [] B')
    | a :: A', [] => let '(o, r) := step_del rmdir a in emit o (diff_loop f r A' [])
    | a :: A', b :: B' =>
      match compare_path (st_path a) (st_path b) with
      | Lt => let '(o, r) := step_del rmdir a in emit o (diff_loop f r A' B)
      | Gt => let '(o, r) := step_add b in emit o (diff_loop f r A B')
      | Eq => let '(o, r) := step_mod a b in emit o (diff_loop f r A' B')
      end
    end
  end.

Definition diff_fuel (A B : list stat) : nat := S (length A + length B).
Definition diff_opt (A B : list stat) : option (list change) := diff_loop (diff_fuel A B) [] A B.
Definition diff (A B : list stat) : list change :=
  match diff_opt A B with Some l => l | None => [] end.

(* ------------------------------------------------------------------------------------
   Declarative specification (executable form).  A listing is a list of stats; lookup by
   path; "q is above p" = q ++ "/" is a (string) prefix of p. *)
Definition lookup (p : bytes) (L : list stat) : option stat :=
  find (fun s => bytes_eqb (st_path s) p) L.

Definition above (q p : bytes) : bool := has_prefix (rm_of q) p.

(* a is a removed root: a directory of A that is absent from B or a non-directory there *)
Definition removed_root_b (B : list stat) (a : stat) : bool :=
  st_is_dir a &&
  match lookup (st_path a) B with None => true | Some b => negb (st_is_dir (flt b)) end.

(* p lies below a removed root *)
Definition hidden_b (A B : list stat) (p : bytes) : bool :=
  existsb (fun a => removed_root_b B a && above (st_path a) p) A.

Definition opt_stat_eqb (a b : option stat) : bool :=
  match a, b with Some x, Some y => stat_eqb x y | None, None => true | _, _ => false end.

(* the change c is exactly one the specification asks for *)
Definition spec_change_b (A B : list stat) (c : change) : bool :=
  let p := ch_path c in
  match ch_kind c, lookup p A, lookup p B with
  | KAdd, None, Some b => opt_stat_eqb (ch_stat c) (Some b)
  | KModify, Some a, Some b => opt_stat_eqb (ch_stat c) (Some b) && negb (same_file d a (flt b))
  | KDelete, Some a, None => opt_stat_eqb (ch_stat c) None && negb (hidden_b A B p)
  | _, _, _ => false
  end.

Definition reported (out : list change) (k : ckind) (p : bytes) : bool :=
  existsb (fun c => ckind_eqb (ch_kind c) k && bytes_eqb (ch_path c) p) out.

(* every change the specification asks for is reported *)
Definition complete_b (A B : list stat) (out : list change) : bool :=
  forallb (fun b => match lookup (st_path b) A with
                    | None => reported out KAdd (st_path b)
                    | Some a => same_file d a (flt b) || reported out KModify (st_path b)
                    end) B
  && forallb (fun a => match lookup (st_path a) B with
                       | None => hidden_b A B (st_path a) || reported out KDelete (st_path a)
                       | Some _ => true
                       end) A.

Fixpoint nodup_paths_b (ps : list bytes) : bool :=
  match ps with
  | [] => true
  | p :: r => negb (existsb (bytes_eqb p) r) && nodup_paths_b r
  end.

Definition diff_spec_b (A B : list stat) (out : list change) : bool :=
  forallb (spec_change_b A B) out && complete_b A B out && nodup_paths_b (map ch_path out).

(* ------------------------------------------------------------------------------------
   Well-formed listings (hypotheses of the theorems), executable form:
   strictly ascending in path order; every "/"-prefix of a path is the path of a
   directory of the listing (ancestor-closed = parent-closed for clean paths). *)
Fixpoint sorted_b (L : list stat) : bool :=
  match L with
  | [] => true
  | a :: r => match r with
              | [] => true
              | b :: _ => path_ltb (st_path a) (st_path b) && sorted_b r
              end
  end.

(* all q such that q ++ "/" ++ r = p *)
Fixpoint sep_prefixes (p : bytes) : list bytes :=
  match p with
  | [] => []
  | x :: p' => (if N.eqb x sep then [[]] else []) ++ map (cons x) (sep_prefixes p')
  end.

Definition closed_b (L : list stat) : bool :=
  forallb (fun s => forallb (fun q => match lookup q L with Some t => st_is_dir t | None => false end)
                            (sep_prefixes (st_path s))) L.

Definition listing_ok_b (L : list stat) : bool := sorted_b L && closed_b L.

End Diff.

(* ------------------------------------------------------------------------------------
   The same specification as propositions (what the theorems of C02 / C05 are stated with).
   [spec_change_b] / [listing_ok_b] above are their executable forms (Proofs/DiffP.v:
   listing_ok_b_iff, Proofs/DiffSpecP.v: diff_spec_b_iff). *)
Definition plt (a b : stat) : Prop := compare_path (st_path a) (st_path b) = Lt.
(* strictly ascending in path order (hence duplicate-free) *)
Definition sorted (L : list stat) : Prop := StronglySorted plt L.
(* every "/"-prefix of a listed path is the path of a listed directory *)
Definition closed (L : list stat) : Prop :=
  forall s, In s L -> forall q r, st_path s = q ++ sep :: r ->
  exists t, In t L /\ st_path t = q /\ st_is_dir t = true.
Definition wf_listing (L : list stat) : Prop := sorted L /\ closed L.
Definition paths (L : list stat) : list bytes := map st_path L.
Definition notin (L : list stat) (p : bytes) : Prop := forall s, In s L -> st_path s <> p.

Section Spec.
Variable flt : stat -> stat.
Variable d : differ.
Variables A B : list stat.

(* a directory of A that is absent from B, or a non-directory there *)
Definition removed_root (a : stat) : Prop :=
  In a A /\ st_is_dir a = true /\
  (notin B (st_path a) \/ exists b, In b B /\ st_path b = st_path a /\ st_is_dir (flt b) = false).

Definition hidden_by (A0 : list stat) (p : bytes) : Prop :=
  exists a, In a A0 /\ removed_root a /\ above (st_path a) p = true.
(* p lies below a removed root *)
Definition hidden (p : bytes) : Prop := hidden_by A p.

Definition spec_change (c : change) : Prop :=
  match c with
  | (KAdd, p, Some b) => In b B /\ st_path b = p /\ notin A p
  | (KModify, p, Some b) =>
      In b B /\ st_path b = p /\ exists a, In a A /\ st_path a = p /\ same_file d a (flt b) = false
  | (KDelete, p, None) => (exists a, In a A /\ st_path a = p) /\ notin B p /\ ~ hidden p
  | _ => False
  end.
End Spec.

