(* L8 — goroutine-level labelled transition system of one Send <-> Receive transfer
   (send.go, receive.go, the async part of diskwriter.go, dynamicWalker.fill and the
   loop of doubleWalkDiff in diff_containerd.go, x/sync/errgroup cancellation, the
   syncStream mutex, a stream with two bounded directions, faults and tear-down).

   Everything is plain executable Gallina:  step : params -> state -> label -> option state
   is deterministic given the label (= which goroutine moves, or which environment
   event happens); [None] = that move is not enabled (goroutine blocked / not at that
   point).  [all_labels] enumerates the candidates, [enabled] filters them.

   What each program counter stands for is written next to it, with the Go line it
   models.  Abstractions (also listed in props/C04.json):
   * data = chunk counts per file; destination = set of completed ids (+ multiset of
     written chunks); STAT packets carry no payload: both ends number them by position
     (send.go `i++`, receive.go `i++`), which is exact for FIFO streams;
   * the destination walker goroutine of doubleWalkDiff and channel c1 are merged into
     the diff loop (every one of its channel operations selects on ctx.Done; it has no
     stream operation); what the comparison with the prior destination decides is the
     parameter [e_kind] of each entry (unchanged / handled synchronously / data needed);
   * short critical sections under sender.mu / receiver.mu / muPipes are merged with
     the neighbouring step of the same goroutine;
   * metadata-only transfers, hard links and validator rejections are not modelled
     (the real sender never produces a rejected sequence: C06/C12). *)
From Coq Require Import List Arith Bool PeanoNat.
Import ListNotations.

(* ---------- parameters ---------- *)
Inductive ekind := ESame | EMeta | ENeed.
(* ESame: diff finds the entry unchanged (no callback);  EMeta: change handled
   synchronously inside HandleChange (directory, symlink, device, hard link);
   ENeed: regular file whose content is requested (requestAsyncFileData). *)
Record entry := { e_file : bool;      (* fileCanRequestData: sender registers files[i] *)
                  e_chunks : nat;     (* non-empty reads io.CopyBuffer will see *)
                  e_kind : ekind }.

Record params := {
  p_W : nat;            (* sender workers (4 in send.go) *)
  p_P : nat;            (* cap(sendpipeline) (128) *)
  p_C : nat;            (* cap(dynamicWalker.walkChan) (128) *)
  p_C2 : nat;           (* cap(c2) in doubleWalkDiff (128) *)
  p_capSR : nat;        (* stream buffer sender -> receiver (0 = rendezvous) *)
  p_capRS : nat;        (* stream buffer receiver -> sender *)
  p_entries : list entry;
  p_old_queue : bool    (* true = queue() before fix 6c5966d: unconditional channel send *)
}.

Definition nentries (p : params) : nat := length (p_entries p).
Definition entry_at (p : params) (i : nat) : option entry := nth_error (p_entries p) i.
Definition chunks_of (p : params) (i : nat) : nat :=
  match entry_at p i with Some e => e_chunks e | None => 0 end.
Definition is_file (p : params) (i : nat) : bool :=
  match entry_at p i with Some e => e_file e | None => false end.
Definition kind_of (p : params) (i : nat) : ekind :=
  match entry_at p i with Some e => e_kind e | None => ESame end.

(* ---------- packets ---------- *)
Inductive packet :=
| PStat                 (* STAT with a stat *)
| PEnd                  (* STAT without stat: end of walk *)
| PData (id : nat)      (* DATA with a non-empty payload *)
| PDataEnd (id : nat)   (* DATA with empty payload: end of file *)
| PReq (id : nat)
| PFin
| PErr.

(* ---------- goroutines and program counters ---------- *)
(* mutex owner / stream-call identity *)
Inductive gid := GWalker | GWorker (j : nat) | GReq | GDiffOuter | GWriter (j : nat).

Inductive skind := KStat | KEnd | KErr.

(* sender.walk + the goroutine around it (send.go:61-67, 153-186) *)
Inductive swpc :=
| SW_Next               (* fs.Walk about to report entry sw_i (ctx check first), or finished (no check) *)
| SW_Lock (k : skind)   (* syncStream.SendMsg: waiting for ss.mu *)
| SW_Send (k : skind)   (* inside Stream.SendMsg, mutex held *)
| SW_Done.

(* worker goroutine (send.go:69-83) and sendFile (140-151) *)
Inductive wkpc :=
| WK_Idle                        (* for h := range s.sendpipeline *)
| WK_Ctx (h : nat)               (* select ctx.Done / default *)
| WK_Open (h : nat)              (* s.fs.Open *)
| WK_Read (h c : nat)            (* io.CopyBuffer: next Read, c chunks sent so far *)
| WK_Lock (h c : nat)            (* fileSender.Write -> SendMsg(DATA): waiting for mutex *)
| WK_Send (h c : nat)            (* inside Stream.SendMsg *)
| WK_LockFin (h : nat)           (* final SendMsg(DATA, empty): waiting for mutex *)
| WK_SendFin (h : nat)
| WK_Done.

(* request loop (send.go:85-109) and queue (123-138) *)
Inductive rqpc :=
| RQ_Top                 (* select ctx.Done / default *)
| RQ_Recv                (* inside conn.RecvMsg *)
| RQ_Push (id : nat)     (* queue: select { sendpipeline <- h ; ctx.Done } *)
| RQ_LockFin             (* SendMsg(FIN): waiting for mutex *)
| RQ_SendFin
| RQ_Close (ok : bool)   (* deferred close(s.sendpipeline) *)
| RQ_Ret (ok : bool)     (* return to errgroup (cancels on error) *)
| RQ_Done.

(* receive loop (receive.go:200-327), dynamicWalker.update (119-135) *)
Inductive rlpc :=
| RL_Recv                (* inside conn.RecvMsg (main loop) *)
| RL_Upd                 (* w.update(cp): first select on closeCh *)
| RL_Push                (* w.update(cp): select { walkChan <- p ; closeCh } *)
| RL_UpdEnd              (* w.update(nil) *)
| RL_Write (id : nat)    (* pw.Write(p.Data): payload still owned by the packet buffer *)
| RL_CloseP (id : nat)   (* pw.Close() *)
| RL_Drain               (* after FIN: RecvMsg until error / EOF *)
| RL_Done.

(* dynamicWalker.fill as goroutine b of doubleWalkDiff (receive.go:137-157, diff_containerd.go:77-80) *)
Inductive flpc :=
| FL_Sel                 (* select { <-walkChan ; ctx.Done } *)
| FL_Push                (* select { pathC <- p ; ctx.Done } *)
| FL_Close (ok : bool)   (* deferred close(c2) *)
| FL_Ret (ok : bool)
| FL_Done.

(* diff loop (diff_containerd.go:81-158) with DiskWriter.HandleChange as changeFn *)
Inductive dlpc :=
| DL_Next                (* nextPath(ctx, c2) *)
| DL_Handle (i : nat)    (* comparison + HandleChange for entry i *)
| DL_Done.

(* first goroutine of receiver.run (receive.go:179-198) *)
Inductive dopc :=
| DO_WaitDiff            (* doubleWalkDiff's g.Wait() *)
| DO_WaitW               (* dw.Wait: dw.eg.Wait() *)
| DO_LockFin | DO_SendFin      (* SendMsg(FIN), result ignored *)
| DO_LockErr | DO_SendErr      (* deferred SendMsg(ERR) *)
| DO_Done.

(* DiskWriter.requestAsyncFileData goroutine -> processChange -> asyncDataFunc (diskwriter.go:230-269, receive.go:351-376) *)
Inductive wrpc :=
| WR_Start               (* newHashWriter (ContentHasher), files lookup, pipes[id] = wwc *)
| WR_Lock | WR_Send      (* SendMsg(REQ id) *)
| WR_Wait                (* wwc.Wait: select { ctx.Done ; done } *)
| WR_Notify              (* delete(pipes,id); NotifyCb; chtimes *)
| WR_Done.
Record writer := { wr_id : nat; wr_pc : wrpc }.

Record state : Type := mkState {
  sw_pc : swpc;
  sw_i : nat;
  wks : list wkpc;
  rq_pc : rqpc;
  pipe : list nat;
  pipe_closed : bool;
  sfiles : list nat;
  s_mu : option gid;
  s_cancel : bool;
  s_err : bool;
  send_ret : option bool;
  s_broken : bool;
  rl_pc : rlpc;
  rl_i : nat;
  fl_pc : flpc;
  dl_pc : dlpc;
  dl_i : nat;
  do_pc : dopc;
  wrs : list writer;
  walk_n : nat;
  walk_closed : bool;
  close_ch : bool;
  c2_n : nat;
  c2_closed : bool;
  rfiles : list nat;
  pipes : list nat;
  completed : list nat;
  written : list nat;
  r_mu : option gid;
  r_cancel : bool;
  d_cancel : bool;
  dw_cancel : bool;
  eg_cancel : bool;
  r_err : bool;
  d_err : bool;
  eg_err : bool;
  recv_ret : option bool;
  r_broken : bool;
  buf_sr : list packet;
  buf_rs : list packet;
  sr_closed : bool;
  g_fin_rs : bool;
  g_fin_sr : bool;
  g_got_fin_s : bool;
  g_got_fin_r : bool;
  g_open_err : bool;
  g_end_sr : bool;
  g_got_end_r : bool;
  reqs : list nat
}.

Definition set_sw_pc (v : swpc) (st : state) : state :=
  {| sw_pc := v; sw_i := sw_i st; wks := wks st; rq_pc := rq_pc st; pipe := pipe st; pipe_closed := pipe_closed st; sfiles := sfiles st; s_mu := s_mu st; s_cancel := s_cancel st; s_err := s_err st; send_ret := send_ret st; s_broken := s_broken st; rl_pc := rl_pc st; rl_i := rl_i st; fl_pc := fl_pc st; dl_pc := dl_pc st; dl_i := dl_i st; do_pc := do_pc st; wrs := wrs st; walk_n := walk_n st; walk_closed := walk_closed st; close_ch := close_ch st; c2_n := c2_n st; c2_closed := c2_closed st; rfiles := rfiles st; pipes := pipes st; completed := completed st; written := written st; r_mu := r_mu st; r_cancel := r_cancel st; d_cancel := d_cancel st; dw_cancel := dw_cancel st; eg_cancel := eg_cancel st; r_err := r_err st; d_err := d_err st; eg_err := eg_err st; recv_ret := recv_ret st; r_broken := r_broken st; buf_sr := buf_sr st; buf_rs := buf_rs st; sr_closed := sr_closed st; g_fin_rs := g_fin_rs st; g_fin_sr := g_fin_sr st; g_got_fin_s := g_got_fin_s st; g_got_fin_r := g_got_fin_r st; g_open_err := g_open_err st; g_end_sr := g_end_sr st; g_got_end_r := g_got_end_r st; reqs := reqs st |}.
Definition set_sw_i (v : nat) (st : state) : state :=
  {| sw_pc := sw_pc st; sw_i := v; wks := wks st; rq_pc := rq_pc st; pipe := pipe st; pipe_closed := pipe_closed st; sfiles := sfiles st; s_mu := s_mu st; s_cancel := s_cancel st; s_err := s_err st; send_ret := send_ret st; s_broken := s_broken st; rl_pc := rl_pc st; rl_i := rl_i st; fl_pc := fl_pc st; dl_pc := dl_pc st; dl_i := dl_i st; do_pc := do_pc st; wrs := wrs st; walk_n := walk_n st; walk_closed := walk_closed st; close_ch := close_ch st; c2_n := c2_n st; c2_closed := c2_closed st; rfiles := rfiles st; pipes := pipes st; completed := completed st; written := written st; r_mu := r_mu st; r_cancel := r_cancel st; d_cancel := d_cancel st; dw_cancel := dw_cancel st; eg_cancel := eg_cancel st; r_err := r_err st; d_err := d_err st; eg_err := eg_err st; recv_ret := recv_ret st; r_broken := r_broken st; buf_sr := buf_sr st; buf_rs := buf_rs st; sr_closed := sr_closed st; g_fin_rs := g_fin_rs st; g_fin_sr := g_fin_sr st; g_got_fin_s := g_got_fin_s st; g_got_fin_r := g_got_fin_r st; g_open_err := g_open_err st; g_end_sr := g_end_sr st; g_got_end_r := g_got_end_r st; reqs := reqs st |}.
Definition set_wks (v : list wkpc) (st : state) : state :=
  {| sw_pc := sw_pc st; sw_i := sw_i st; wks := v; rq_pc := rq_pc st; pipe := pipe st; pipe_closed := pipe_closed st; sfiles := sfiles st; s_mu := s_mu st; s_cancel := s_cancel st; s_err := s_err st; send_ret := send_ret st; s_broken := s_broken st; rl_pc := rl_pc st; rl_i := rl_i st; fl_pc := fl_pc st; dl_pc := dl_pc st; dl_i := dl_i st; do_pc := do_pc st; wrs := wrs st; walk_n := walk_n st; walk_closed := walk_closed st; close_ch := close_ch st; c2_n := c2_n st; c2_closed := c2_closed st; rfiles := rfiles st; pipes := pipes st; completed := completed st; written := written st; r_mu := r_mu st; r_cancel := r_cancel st; d_cancel := d_cancel st; dw_cancel := dw_cancel st; eg_cancel := eg_cancel st; r_err := r_err st; d_err := d_err st; eg_err := eg_err st; recv_ret := recv_ret st; r_broken := r_broken st; buf_sr := buf_sr st; buf_rs := buf_rs st; sr_closed := sr_closed st; g_fin_rs := g_fin_rs st; g_fin_sr := g_fin_sr st; g_got_fin_s := g_got_fin_s st; g_got_fin_r := g_got_fin_r st; g_open_err := g_open_err st; g_end_sr := g_end_sr st; g_got_end_r := g_got_end_r st; reqs := reqs st |}.
Definition set_rq_pc (v : rqpc) (st : state) : state :=
  {| sw_pc := sw_pc st; sw_i := sw_i st; wks := wks st; rq_pc := v; pipe := pipe st; pipe_closed := pipe_closed st; sfiles := sfiles st; s_mu := s_mu st; s_cancel := s_cancel st; s_err := s_err st; send_ret := send_ret st; s_broken := s_broken st; rl_pc := rl_pc st; rl_i := rl_i st; fl_pc := fl_pc st; dl_pc := dl_pc st; dl_i := dl_i st; do_pc := do_pc st; wrs := wrs st; walk_n := walk_n st; walk_closed := walk_closed st; close_ch := close_ch st; c2_n := c2_n st; c2_closed := c2_closed st; rfiles := rfiles st; pipes := pipes st; completed := completed st; written := written st; r_mu := r_mu st; r_cancel := r_cancel st; d_cancel := d_cancel st; dw_cancel := dw_cancel st; eg_cancel := eg_cancel st; r_err := r_err st; d_err := d_err st; eg_err := eg_err st; recv_ret := recv_ret st; r_broken := r_broken st; buf_sr := buf_sr st; buf_rs := buf_rs st; sr_closed := sr_closed st; g_fin_rs := g_fin_rs st; g_fin_sr := g_fin_sr st; g_got_fin_s := g_got_fin_s st; g_got_fin_r := g_got_fin_r st; g_open_err := g_open_err st; g_end_sr := g_end_sr st; g_got_end_r := g_got_end_r st; reqs := reqs st |}.
Definition set_pipe (v : list nat) (st : state) : state :=
  {| sw_pc := sw_pc st; sw_i := sw_i st; wks := wks st; rq_pc := rq_pc st; pipe := v; pipe_closed := pipe_closed st; sfiles := sfiles st; s_mu := s_mu st; s_cancel := s_cancel st; s_err := s_err st; send_ret := send_ret st; s_broken := s_broken st; rl_pc := rl_pc st; rl_i := rl_i st; fl_pc := fl_pc st; dl_pc := dl_pc st; dl_i := dl_i st; do_pc := do_pc st; wrs := wrs st; walk_n := walk_n st; walk_closed := walk_closed st; close_ch := close_ch st; c2_n := c2_n st; c2_closed := c2_closed st; rfiles := rfiles st; pipes := pipes st; completed := completed st; written := written st; r_mu := r_mu st; r_cancel := r_cancel st; d_cancel := d_cancel st; dw_cancel := dw_cancel st; eg_cancel := eg_cancel st; r_err := r_err st; d_err := d_err st; eg_err := eg_err st; recv_ret := recv_ret st; r_broken := r_broken st; buf_sr := buf_sr st; buf_rs := buf_rs st; sr_closed := sr_closed st; g_fin_rs := g_fin_rs st; g_fin_sr := g_fin_sr st; g_got_fin_s := g_got_fin_s st; g_got_fin_r := g_got_fin_r st; g_open_err := g_open_err st; g_end_sr := g_end_sr st; g_got_end_r := g_got_end_r st; reqs := reqs st |}.
Definition set_pipe_closed (v : bool) (st : state) : state :=
  {| sw_pc := sw_pc st; sw_i := sw_i st; wks := wks st; rq_pc := rq_pc st; pipe := pipe st; pipe_closed := v; sfiles := sfiles st; s_mu := s_mu st; s_cancel := s_cancel st; s_err := s_err st; send_ret := send_ret st; s_broken := s_broken st; rl_pc := rl_pc st; rl_i := rl_i st; fl_pc := fl_pc st; dl_pc := dl_pc st; dl_i := dl_i st; do_pc := do_pc st; wrs := wrs st; walk_n := walk_n st; walk_closed := walk_closed st; close_ch := close_ch st; c2_n := c2_n st; c2_closed := c2_closed st; rfiles := rfiles st; pipes := pipes st; completed := completed st; written := written st; r_mu := r_mu st; r_cancel := r_cancel st; d_cancel := d_cancel st; dw_cancel := dw_cancel st; eg_cancel := eg_cancel st; r_err := r_err st; d_err := d_err st; eg_err := eg_err st; recv_ret := recv_ret st; r_broken := r_broken st; buf_sr := buf_sr st; buf_rs := buf_rs st; sr_closed := sr_closed st; g_fin_rs := g_fin_rs st; g_fin_sr := g_fin_sr st; g_got_fin_s := g_got_fin_s st; g_got_fin_r := g_got_fin_r st; g_open_err := g_open_err st; g_end_sr := g_end_sr st; g_got_end_r := g_got_end_r st; reqs := reqs st |}.
Definition set_sfiles (v : list nat) (st : state) : state :=
  {| sw_pc := sw_pc st; sw_i := sw_i st; wks := wks st; rq_pc := rq_pc st; pipe := pipe st; pipe_closed := pipe_closed st; sfiles := v; s_mu := s_mu st; s_cancel := s_cancel st; s_err := s_err st; send_ret := send_ret st; s_broken := s_broken st; rl_pc := rl_pc st; rl_i := rl_i st; fl_pc := fl_pc st; dl_pc := dl_pc st; dl_i := dl_i st; do_pc := do_pc st; wrs := wrs st; walk_n := walk_n st; walk_closed := walk_closed st; close_ch := close_ch st; c2_n := c2_n st; c2_closed := c2_closed st; rfiles := rfiles st; pipes := pipes st; completed := completed st; written := written st; r_mu := r_mu st; r_cancel := r_cancel st; d_cancel := d_cancel st; dw_cancel := dw_cancel st; eg_cancel := eg_cancel st; r_err := r_err st; d_err := d_err st; eg_err := eg_err st; recv_ret := recv_ret st; r_broken := r_broken st; buf_sr := buf_sr st; buf_rs := buf_rs st; sr_closed := sr_closed st; g_fin_rs := g_fin_rs st; g_fin_sr := g_fin_sr st; g_got_fin_s := g_got_fin_s st; g_got_fin_r := g_got_fin_r st; g_open_err := g_open_err st; g_end_sr := g_end_sr st; g_got_end_r := g_got_end_r st; reqs := reqs st |}.
Definition set_s_mu (v : option gid) (st : state) : state :=
  {| sw_pc := sw_pc st; sw_i := sw_i st; wks := wks st; rq_pc := rq_pc st; pipe := pipe st; pipe_closed := pipe_closed st; sfiles := sfiles st; s_mu := v; s_cancel := s_cancel st; s_err := s_err st; send_ret := send_ret st; s_broken := s_broken st; rl_pc := rl_pc st; rl_i := rl_i st; fl_pc := fl_pc st; dl_pc := dl_pc st; dl_i := dl_i st; do_pc := do_pc st; wrs := wrs st; walk_n := walk_n st; walk_closed := walk_closed st; close_ch := close_ch st; c2_n := c2_n st; c2_closed := c2_closed st; rfiles := rfiles st; pipes := pipes st; completed := completed st; written := written st; r_mu := r_mu st; r_cancel := r_cancel st; d_cancel := d_cancel st; dw_cancel := dw_cancel st; eg_cancel := eg_cancel st; r_err := r_err st; d_err := d_err st; eg_err := eg_err st; recv_ret := recv_ret st; r_broken := r_broken st; buf_sr := buf_sr st; buf_rs := buf_rs st; sr_closed := sr_closed st; g_fin_rs := g_fin_rs st; g_fin_sr := g_fin_sr st; g_got_fin_s := g_got_fin_s st; g_got_fin_r := g_got_fin_r st; g_open_err := g_open_err st; g_end_sr := g_end_sr st; g_got_end_r := g_got_end_r st; reqs := reqs st |}.
Definition set_s_cancel (v : bool) (st : state) : state :=
  {| sw_pc := sw_pc st; sw_i := sw_i st; wks := wks st; rq_pc := rq_pc st; pipe := pipe st; pipe_closed := pipe_closed st; sfiles := sfiles st; s_mu := s_mu st; s_cancel := v; s_err := s_err st; send_ret := send_ret st; s_broken := s_broken st; rl_pc := rl_pc st; rl_i := rl_i st; fl_pc := fl_pc st; dl_pc := dl_pc st; dl_i := dl_i st; do_pc := do_pc st; wrs := wrs st; walk_n := walk_n st; walk_closed := walk_closed st; close_ch := close_ch st; c2_n := c2_n st; c2_closed := c2_closed st; rfiles := rfiles st; pipes := pipes st; completed := completed st; written := written st; r_mu := r_mu st; r_cancel := r_cancel st; d_cancel := d_cancel st; dw_cancel := dw_cancel st; eg_cancel := eg_cancel st; r_err := r_err st; d_err := d_err st; eg_err := eg_err st; recv_ret := recv_ret st; r_broken := r_broken st; buf_sr := buf_sr st; buf_rs := buf_rs st; sr_closed := sr_closed st; g_fin_rs := g_fin_rs st; g_fin_sr := g_fin_sr st; g_got_fin_s := g_got_fin_s st; g_got_fin_r := g_got_fin_r st; g_open_err := g_open_err st; g_end_sr := g_end_sr st; g_got_end_r := g_got_end_r st; reqs := reqs st |}.
Definition set_s_err (v : bool) (st : state) : state :=
  {| sw_pc := sw_pc st; sw_i := sw_i st; wks := wks st; rq_pc := rq_pc st; pipe := pipe st; pipe_closed := pipe_closed st; sfiles := sfiles st; s_mu := s_mu st; s_cancel := s_cancel st; s_err := v; send_ret := send_ret st; s_broken := s_broken st; rl_pc := rl_pc st; rl_i := rl_i st; fl_pc := fl_pc st; dl_pc := dl_pc st; dl_i := dl_i st; do_pc := do_pc st; wrs := wrs st; walk_n := walk_n st; walk_closed := walk_closed st; close_ch := close_ch st; c2_n := c2_n st; c2_closed := c2_closed st; rfiles := rfiles st; pipes := pipes st; completed := completed st; written := written st; r_mu := r_mu st; r_cancel := r_cancel st; d_cancel := d_cancel st; dw_cancel := dw_cancel st; eg_cancel := eg_cancel st; r_err := r_err st; d_err := d_err st; eg_err := eg_err st; recv_ret := recv_ret st; r_broken := r_broken st; buf_sr := buf_sr st; buf_rs := buf_rs st; sr_closed := sr_closed st; g_fin_rs := g_fin_rs st; g_fin_sr := g_fin_sr st; g_got_fin_s := g_got_fin_s st; g_got_fin_r := g_got_fin_r st; g_open_err := g_open_err st; g_end_sr := g_end_sr st; g_got_end_r := g_got_end_r st; reqs := reqs st |}.
Definition set_send_ret (v : option bool) (st : state) : state :=
  {| sw_pc := sw_pc st; sw_i := sw_i st; wks := wks st; rq_pc := rq_pc st; pipe := pipe st; pipe_closed := pipe_closed st; sfiles := sfiles st; s_mu := s_mu st; s_cancel := s_cancel st; s_err := s_err st; send_ret := v; s_broken := s_broken st; rl_pc := rl_pc st; rl_i := rl_i st; fl_pc := fl_pc st; dl_pc := dl_pc st; dl_i := dl_i st; do_pc := do_pc st; wrs := wrs st; walk_n := walk_n st; walk_closed := walk_closed st; close_ch := close_ch st; c2_n := c2_n st; c2_closed := c2_closed st; rfiles := rfiles st; pipes := pipes st; completed := completed st; written := written st; r_mu := r_mu st; r_cancel := r_cancel st; d_cancel := d_cancel st; dw_cancel := dw_cancel st; eg_cancel := eg_cancel st; r_err := r_err st; d_err := d_err st; eg_err := eg_err st; recv_ret := recv_ret st; r_broken := r_broken st; buf_sr := buf_sr st; buf_rs := buf_rs st; sr_closed := sr_closed st; g_fin_rs := g_fin_rs st; g_fin_sr := g_fin_sr st; g_got_fin_s := g_got_fin_s st; g_got_fin_r := g_got_fin_r st; g_open_err := g_open_err st; g_end_sr := g_end_sr st; g_got_end_r := g_got_end_r st; reqs := reqs st |}.
Definition set_s_broken (v : bool) (st : state) : state :=
  {| sw_pc := sw_pc st; sw_i := sw_i st; wks := wks st; rq_pc := rq_pc st; pipe := pipe st; pipe_closed := pipe_closed st; sfiles := sfiles st; s_mu := s_mu st; s_cancel := s_cancel st; s_err := s_err st; send_ret := send_ret st; s_broken := v; rl_pc := rl_pc st; rl_i := rl_i st; fl_pc := fl_pc st; dl_pc := dl_pc st; dl_i := dl_i st; do_pc := do_pc st; wrs := wrs st; walk_n := walk_n st; walk_closed := walk_closed st; close_ch := close_ch st; c2_n := c2_n st; c2_closed := c2_closed st; rfiles := rfiles st; pipes := pipes st; completed := completed st; written := written st; r_mu := r_mu st; r_cancel := r_cancel st; d_cancel := d_cancel st; dw_cancel := dw_cancel st; eg_cancel := eg_cancel st; r_err := r_err st; d_err := d_err st; eg_err := eg_err st; recv_ret := recv_ret st; r_broken := r_broken st; buf_sr := buf_sr st; buf_rs := buf_rs st; sr_closed := sr_closed st; g_fin_rs := g_fin_rs st; g_fin_sr := g_fin_sr st; g_got_fin_s := g_got_fin_s st; g_got_fin_r := g_got_fin_r st; g_open_err := g_open_err st; g_end_sr := g_end_sr st; g_got_end_r := g_got_end_r st; reqs := reqs st |}.
Definition set_rl_pc (v : rlpc) (st : state) : state :=
  {| sw_pc := sw_pc st; sw_i := sw_i st; wks := wks st; rq_pc := rq_pc st; pipe := pipe st; pipe_closed := pipe_closed st; sfiles := sfiles st; s_mu := s_mu st; s_cancel := s_cancel st; s_err := s_err st; send_ret := send_ret st; s_broken := s_broken st; rl_pc := v; rl_i := rl_i st; fl_pc := fl_pc st; dl_pc := dl_pc st; dl_i := dl_i st; do_pc := do_pc st; wrs := wrs st; walk_n := walk_n st; walk_closed := walk_closed st; close_ch := close_ch st; c2_n := c2_n st; c2_closed := c2_closed st; rfiles := rfiles st; pipes := pipes st; completed := completed st; written := written st; r_mu := r_mu st; r_cancel := r_cancel st; d_cancel := d_cancel st; dw_cancel := dw_cancel st; eg_cancel := eg_cancel st; r_err := r_err st; d_err := d_err st; eg_err := eg_err st; recv_ret := recv_ret st; r_broken := r_broken st; buf_sr := buf_sr st; buf_rs := buf_rs st; sr_closed := sr_closed st; g_fin_rs := g_fin_rs st; g_fin_sr := g_fin_sr st; g_got_fin_s := g_got_fin_s st; g_got_fin_r := g_got_fin_r st; g_open_err := g_open_err st; g_end_sr := g_end_sr st; g_got_end_r := g_got_end_r st; reqs := reqs st |}.
Definition set_rl_i (v : nat) (st : state) : state :=
  {| sw_pc := sw_pc st; sw_i := sw_i st; wks := wks st; rq_pc := rq_pc st; pipe := pipe st; pipe_closed := pipe_closed st; sfiles := sfiles st; s_mu := s_mu st; s_cancel := s_cancel st; s_err := s_err st; send_ret := send_ret st; s_broken := s_broken st; rl_pc := rl_pc st; rl_i := v; fl_pc := fl_pc st; dl_pc := dl_pc st; dl_i := dl_i st; do_pc := do_pc st; wrs := wrs st; walk_n := walk_n st; walk_closed := walk_closed st; close_ch := close_ch st; c2_n := c2_n st; c2_closed := c2_closed st; rfiles := rfiles st; pipes := pipes st; completed := completed st; written := written st; r_mu := r_mu st; r_cancel := r_cancel st; d_cancel := d_cancel st; dw_cancel := dw_cancel st; eg_cancel := eg_cancel st; r_err := r_err st; d_err := d_err st; eg_err := eg_err st; recv_ret := recv_ret st; r_broken := r_broken st; buf_sr := buf_sr st; buf_rs := buf_rs st; sr_closed := sr_closed st; g_fin_rs := g_fin_rs st; g_fin_sr := g_fin_sr st; g_got_fin_s := g_got_fin_s st; g_got_fin_r := g_got_fin_r st; g_open_err := g_open_err st; g_end_sr := g_end_sr st; g_got_end_r := g_got_end_r st; reqs := reqs st |}.
Definition set_fl_pc (v : flpc) (st : state) : state :=
  {| sw_pc := sw_pc st; sw_i := sw_i st; wks := wks st; rq_pc := rq_pc st; pipe := pipe st; pipe_closed := pipe_closed st; sfiles := sfiles st; s_mu := s_mu st; s_cancel := s_cancel st; s_err := s_err st; send_ret := send_ret st; s_broken := s_broken st; rl_pc := rl_pc st; rl_i := rl_i st; fl_pc := v; dl_pc := dl_pc st; dl_i := dl_i st; do_pc := do_pc st; wrs := wrs st; walk_n := walk_n st; walk_closed := walk_closed st; close_ch := close_ch st; c2_n := c2_n st; c2_closed := c2_closed st; rfiles := rfiles st; pipes := pipes st; completed := completed st; written := written st; r_mu := r_mu st; r_cancel := r_cancel st; d_cancel := d_cancel st; dw_cancel := dw_cancel st; eg_cancel := eg_cancel st; r_err := r_err st; d_err := d_err st; eg_err := eg_err st; recv_ret := recv_ret st; r_broken := r_broken st; buf_sr := buf_sr st; buf_rs := buf_rs st; sr_closed := sr_closed st; g_fin_rs := g_fin_rs st; g_fin_sr := g_fin_sr st; g_got_fin_s := g_got_fin_s st; g_got_fin_r := g_got_fin_r st; g_open_err := g_open_err st; g_end_sr := g_end_sr st; g_got_end_r := g_got_end_r st; reqs := reqs st |}.
Definition set_dl_pc (v : dlpc) (st : state) : state :=
  {| sw_pc := sw_pc st; sw_i := sw_i st; wks := wks st; rq_pc := rq_pc st; pipe := pipe st; pipe_closed := pipe_closed st; sfiles := sfiles st; s_mu := s_mu st; s_cancel := s_cancel st; s_err := s_err st; send_ret := send_ret st; s_broken := s_broken st; rl_pc := rl_pc st; rl_i := rl_i st; fl_pc := fl_pc st; dl_pc := v; dl_i := dl_i st; do_pc := do_pc st; wrs := wrs st; walk_n := walk_n st; walk_closed := walk_closed st; close_ch := close_ch st; c2_n := c2_n st; c2_closed := c2_closed st; rfiles := rfiles st; pipes := pipes st; completed := completed st; written := written st; r_mu := r_mu st; r_cancel := r_cancel st; d_cancel := d_cancel st; dw_cancel := dw_cancel st; eg_cancel := eg_cancel st; r_err := r_err st; d_err := d_err st; eg_err := eg_err st; recv_ret := recv_ret st; r_broken := r_broken st; buf_sr := buf_sr st; buf_rs := buf_rs st; sr_closed := sr_closed st; g_fin_rs := g_fin_rs st; g_fin_sr := g_fin_sr st; g_got_fin_s := g_got_fin_s st; g_got_fin_r := g_got_fin_r st; g_open_err := g_open_err st; g_end_sr := g_end_sr st; g_got_end_r := g_got_end_r st; reqs := reqs st |}.
Definition set_dl_i (v : nat) (st : state) : state :=
  {| sw_pc := sw_pc st; sw_i := sw_i st; wks := wks st; rq_pc := rq_pc st; pipe := pipe st; pipe_closed := pipe_closed st; sfiles := sfiles st; s_mu := s_mu st; s_cancel := s_cancel st; s_err := s_err st; send_ret := send_ret st; s_broken := s_broken st; rl_pc := rl_pc st; rl_i := rl_i st; fl_pc := fl_pc st; dl_pc := dl_pc st; dl_i := v; do_pc := do_pc st; wrs := wrs st; walk_n := walk_n st; walk_closed := walk_closed st; close_ch := close_ch st; c2_n := c2_n st; c2_closed := c2_closed st; rfiles := rfiles st; pipes := pipes st; completed := completed st; written := written st; r_mu := r_mu st; r_cancel := r_cancel st; d_cancel := d_cancel st; dw_cancel := dw_cancel st; eg_cancel := eg_cancel st; r_err := r_err st; d_err := d_err st; eg_err := eg_err st; recv_ret := recv_ret st; r_broken := r_broken st; buf_sr := buf_sr st; buf_rs := buf_rs st; sr_closed := sr_closed st; g_fin_rs := g_fin_rs st; g_fin_sr := g_fin_sr st; g_got_fin_s := g_got_fin_s st; g_got_fin_r := g_got_fin_r st; g_open_err := g_open_err st; g_end_sr := g_end_sr st; g_got_end_r := g_got_end_r st; reqs := reqs st |}.
Definition set_do_pc (v : dopc) (st : state) : state :=
  {| sw_pc := sw_pc st; sw_i := sw_i st; wks := wks st; rq_pc := rq_pc st; pipe := pipe st; pipe_closed := pipe_closed st; sfiles := sfiles st; s_mu := s_mu st; s_cancel := s_cancel st; s_err := s_err st; send_ret := send_ret st; s_broken := s_broken st; rl_pc := rl_pc st; rl_i := rl_i st; fl_pc := fl_pc st; dl_pc := dl_pc st; dl_i := dl_i st; do_pc := v; wrs := wrs st; walk_n := walk_n st; walk_closed := walk_closed st; close_ch := close_ch st; c2_n := c2_n st; c2_closed := c2_closed st; rfiles := rfiles st; pipes := pipes st; completed := completed st; written := written st; r_mu := r_mu st; r_cancel := r_cancel st; d_cancel := d_cancel st; dw_cancel := dw_cancel st; eg_cancel := eg_cancel st; r_err := r_err st; d_err := d_err st; eg_err := eg_err st; recv_ret := recv_ret st; r_broken := r_broken st; buf_sr := buf_sr st; buf_rs := buf_rs st; sr_closed := sr_closed st; g_fin_rs := g_fin_rs st; g_fin_sr := g_fin_sr st; g_got_fin_s := g_got_fin_s st; g_got_fin_r := g_got_fin_r st; g_open_err := g_open_err st; g_end_sr := g_end_sr st; g_got_end_r := g_got_end_r st; reqs := reqs st |}.
Definition set_wrs (v : list writer) (st : state) : state :=
  {| sw_pc := sw_pc st; sw_i := sw_i st; wks := wks st; rq_pc := rq_pc st; pipe := pipe st; pipe_closed := pipe_closed st; sfiles := sfiles st; s_mu := s_mu st; s_cancel := s_cancel st; s_err := s_err st; send_ret := send_ret st; s_broken := s_broken st; rl_pc := rl_pc st; rl_i := rl_i st; fl_pc := fl_pc st; dl_pc := dl_pc st; dl_i := dl_i st; do_pc := do_pc st; wrs := v; walk_n := walk_n st; walk_closed := walk_closed st; close_ch := close_ch st; c2_n := c2_n st; c2_closed := c2_closed st; rfiles := rfiles st; pipes := pipes st; completed := completed st; written := written st; r_mu := r_mu st; r_cancel := r_cancel st; d_cancel := d_cancel st; dw_cancel := dw_cancel st; eg_cancel := eg_cancel st; r_err := r_err st; d_err := d_err st; eg_err := eg_err st; recv_ret := recv_ret st; r_broken := r_broken st; buf_sr := buf_sr st; buf_rs := buf_rs st; sr_closed := sr_closed st; g_fin_rs := g_fin_rs st; g_fin_sr := g_fin_sr st; g_got_fin_s := g_got_fin_s st; g_got_fin_r := g_got_fin_r st; g_open_err := g_open_err st; g_end_sr := g_end_sr st; g_got_end_r := g_got_end_r st; reqs := reqs st |}.
Definition set_walk_n (v : nat) (st : state) : state :=
  {| sw_pc := sw_pc st; sw_i := sw_i st; wks := wks st; rq_pc := rq_pc st; pipe := pipe st; pipe_closed := pipe_closed st; sfiles := sfiles st; s_mu := s_mu st; s_cancel := s_cancel st; s_err := s_err st; send_ret := send_ret st; s_broken := s_broken st; rl_pc := rl_pc st; rl_i := rl_i st; fl_pc := fl_pc st; dl_pc := dl_pc st; dl_i := dl_i st; do_pc := do_pc st; wrs := wrs st; walk_n := v; walk_closed := walk_closed st; close_ch := close_ch st; c2_n := c2_n st; c2_closed := c2_closed st; rfiles := rfiles st; pipes := pipes st; completed := completed st; written := written st; r_mu := r_mu st; r_cancel := r_cancel st; d_cancel := d_cancel st; dw_cancel := dw_cancel st; eg_cancel := eg_cancel st; r_err := r_err st; d_err := d_err st; eg_err := eg_err st; recv_ret := recv_ret st; r_broken := r_broken st; buf_sr := buf_sr st; buf_rs := buf_rs st; sr_closed := sr_closed st; g_fin_rs := g_fin_rs st; g_fin_sr := g_fin_sr st; g_got_fin_s := g_got_fin_s st; g_got_fin_r := g_got_fin_r st; g_open_err := g_open_err st; g_end_sr := g_end_sr st; g_got_end_r := g_got_end_r st; reqs := reqs st |}.
Definition set_walk_closed (v : bool) (st : state) : state :=
  {| sw_pc := sw_pc st; sw_i := sw_i st; wks := wks st; rq_pc := rq_pc st; pipe := pipe st; pipe_closed := pipe_closed st; sfiles := sfiles st; s_mu := s_mu st; s_cancel := s_cancel st; s_err := s_err st; send_ret := send_ret st; s_broken := s_broken st; rl_pc := rl_pc st; rl_i := rl_i st; fl_pc := fl_pc st; dl_pc := dl_pc st; dl_i := dl_i st; do_pc := do_pc st; wrs := wrs st; walk_n := walk_n st; walk_closed := v; close_ch := close_ch st; c2_n := c2_n st; c2_closed := c2_closed st; rfiles := rfiles st; pipes := pipes st; completed := completed st; written := written st; r_mu := r_mu st; r_cancel := r_cancel st; d_cancel := d_cancel st; dw_cancel := dw_cancel st; eg_cancel := eg_cancel st; r_err := r_err st; d_err := d_err st; eg_err := eg_err st; recv_ret := recv_ret st; r_broken := r_broken st; buf_sr := buf_sr st; buf_rs := buf_rs st; sr_closed := sr_closed st; g_fin_rs := g_fin_rs st; g_fin_sr := g_fin_sr st; g_got_fin_s := g_got_fin_s st; g_got_fin_r := g_got_fin_r st; g_open_err := g_open_err st; g_end_sr := g_end_sr st; g_got_end_r := g_got_end_r st; reqs := reqs st |}.
Definition set_close_ch (v : bool) (st : state) : state :=
  {| sw_pc := sw_pc st; sw_i := sw_i st; wks := wks st; rq_pc := rq_pc st; pipe := pipe st; pipe_closed := pipe_closed st; sfiles := sfiles st; s_mu := s_mu st; s_cancel := s_cancel st; s_err := s_err st; send_ret := send_ret st; s_broken := s_broken st; rl_pc := rl_pc st; rl_i := rl_i st; fl_pc := fl_pc st; dl_pc := dl_pc st; dl_i := dl_i st; do_pc := do_pc st; wrs := wrs st; walk_n := walk_n st; walk_closed := walk_closed st; close_ch := v; c2_n := c2_n st; c2_closed := c2_closed st; rfiles := rfiles st; pipes := pipes st; completed := completed st; written := written st; r_mu := r_mu st; r_cancel := r_cancel st; d_cancel := d_cancel st; dw_cancel := dw_cancel st; eg_cancel := eg_cancel st; r_err := r_err st; d_err := d_err st; eg_err := eg_err st; recv_ret := recv_ret st; r_broken := r_broken st; buf_sr := buf_sr st; buf_rs := buf_rs st; sr_closed := sr_closed st; g_fin_rs := g_fin_rs st; g_fin_sr := g_fin_sr st; g_got_fin_s := g_got_fin_s st; g_got_fin_r := g_got_fin_r st; g_open_err := g_open_err st; g_end_sr := g_end_sr st; g_got_end_r := g_got_end_r st; reqs := reqs st |}.
Definition set_c2_n (v : nat) (st : state) : state :=
  {| sw_pc := sw_pc st; sw_i := sw_i st; wks := wks st; rq_pc := rq_pc st; pipe := pipe st; pipe_closed := pipe_closed st; sfiles := sfiles st; s_mu := s_mu st; s_cancel := s_cancel st; s_err := s_err st; send_ret := send_ret st; s_broken := s_broken st; rl_pc := rl_pc st; rl_i := rl_i st; fl_pc := fl_pc st; dl_pc := dl_pc st; dl_i := dl_i st; do_pc := do_pc st; wrs := wrs st; walk_n := walk_n st; walk_closed := walk_closed st; close_ch := close_ch st; c2_n := v; c2_closed := c2_closed st; rfiles := rfiles st; pipes := pipes st; completed := completed st; written := written st; r_mu := r_mu st; r_cancel := r_cancel st; d_cancel := d_cancel st; dw_cancel := dw_cancel st; eg_cancel := eg_cancel st; r_err := r_err st; d_err := d_err st; eg_err := eg_err st; recv_ret := recv_ret st; r_broken := r_broken st; buf_sr := buf_sr st; buf_rs := buf_rs st; sr_closed := sr_closed st; g_fin_rs := g_fin_rs st; g_fin_sr := g_fin_sr st; g_got_fin_s := g_got_fin_s st; g_got_fin_r := g_got_fin_r st; g_open_err := g_open_err st; g_end_sr := g_end_sr st; g_got_end_r := g_got_end_r st; reqs := reqs st |}.
Definition set_c2_closed (v : bool) (st : state) : state :=
  {| sw_pc := sw_pc st; sw_i := sw_i st; wks := wks st; rq_pc := rq_pc st; pipe := pipe st; pipe_closed := pipe_closed st; sfiles := sfiles st; s_mu := s_mu st; s_cancel := s_cancel st; s_err := s_err st; send_ret := send_ret st; s_broken := s_broken st; rl_pc := rl_pc st; rl_i := rl_i st; fl_pc := fl_pc st; dl_pc := dl_pc st; dl_i := dl_i st; do_pc := do_pc st; wrs := wrs st; walk_n := walk_n st; walk_closed := walk_closed st; close_ch := close_ch st; c2_n := c2_n st; c2_closed := v; rfiles := rfiles st; pipes := pipes st; completed := completed st; written := written st; r_mu := r_mu st; r_cancel := r_cancel st; d_cancel := d_cancel st; dw_cancel := dw_cancel st; eg_cancel := eg_cancel st; r_err := r_err st; d_err := d_err st; eg_err := eg_err st; recv_ret := recv_ret st; r_broken := r_broken st; buf_sr := buf_sr st; buf_rs := buf_rs st; sr_closed := sr_closed st; g_fin_rs := g_fin_rs st; g_fin_sr := g_fin_sr st; g_got_fin_s := g_got_fin_s st; g_got_fin_r := g_got_fin_r st; g_open_err := g_open_err st; g_end_sr := g_end_sr st; g_got_end_r := g_got_end_r st; reqs := reqs st |}.
Definition set_rfiles (v : list nat) (st : state) : state :=
  {| sw_pc := sw_pc st; sw_i := sw_i st; wks := wks st; rq_pc := rq_pc st; pipe := pipe st; pipe_closed := pipe_closed st; sfiles := sfiles st; s_mu := s_mu st; s_cancel := s_cancel st; s_err := s_err st; send_ret := send_ret st; s_broken := s_broken st; rl_pc := rl_pc st; rl_i := rl_i st; fl_pc := fl_pc st; dl_pc := dl_pc st; dl_i := dl_i st; do_pc := do_pc st; wrs := wrs st; walk_n := walk_n st; walk_closed := walk_closed st; close_ch := close_ch st; c2_n := c2_n st; c2_closed := c2_closed st; rfiles := v; pipes := pipes st; completed := completed st; written := written st; r_mu := r_mu st; r_cancel := r_cancel st; d_cancel := d_cancel st; dw_cancel := dw_cancel st; eg_cancel := eg_cancel st; r_err := r_err st; d_err := d_err st; eg_err := eg_err st; recv_ret := recv_ret st; r_broken := r_broken st; buf_sr := buf_sr st; buf_rs := buf_rs st; sr_closed := sr_closed st; g_fin_rs := g_fin_rs st; g_fin_sr := g_fin_sr st; g_got_fin_s := g_got_fin_s st; g_got_fin_r := g_got_fin_r st; g_open_err := g_open_err st; g_end_sr := g_end_sr st; g_got_end_r := g_got_end_r st; reqs := reqs st |}.
Definition set_pipes (v : list nat) (st : state) : state :=
  {| sw_pc := sw_pc st; sw_i := sw_i st; wks := wks st; rq_pc := rq_pc st; pipe := pipe st; pipe_closed := pipe_closed st; sfiles := sfiles st; s_mu := s_mu st; s_cancel := s_cancel st; s_err := s_err st; send_ret := send_ret st; s_broken := s_broken st; rl_pc := rl_pc st; rl_i := rl_i st; fl_pc := fl_pc st; dl_pc := dl_pc st; dl_i := dl_i st; do_pc := do_pc st; wrs := wrs st; walk_n := walk_n st; walk_closed := walk_closed st; close_ch := close_ch st; c2_n := c2_n st; c2_closed := c2_closed st; rfiles := rfiles st; pipes := v; completed := completed st; written := written st; r_mu := r_mu st; r_cancel := r_cancel st; d_cancel := d_cancel st; dw_cancel := dw_cancel st; eg_cancel := eg_cancel st; r_err := r_err st; d_err := d_err st; eg_err := eg_err st; recv_ret := recv_ret st; r_broken := r_broken st; buf_sr := buf_sr st; buf_rs := buf_rs st; sr_closed := sr_closed st; g_fin_rs := g_fin_rs st; g_fin_sr := g_fin_sr st; g_got_fin_s := g_got_fin_s st; g_got_fin_r := g_got_fin_r st; g_open_err := g_open_err st; g_end_sr := g_end_sr st; g_got_end_r := g_got_end_r st; reqs := reqs st |}.
Definition set_completed (v : list nat) (st : state) : state :=
  {| sw_pc := sw_pc st; sw_i := sw_i st; wks := wks st; rq_pc := rq_pc st; pipe := pipe st; pipe_closed := pipe_closed st; sfiles := sfiles st; s_mu := s_mu st; s_cancel := s_cancel st; s_err := s_err st; send_ret := send_ret st; s_broken := s_broken st; rl_pc := rl_pc st; rl_i := rl_i st; fl_pc := fl_pc st; dl_pc := dl_pc st; dl_i := dl_i st; do_pc := do_pc st; wrs := wrs st; walk_n := walk_n st; walk_closed := walk_closed st; close_ch := close_ch st; c2_n := c2_n st; c2_closed := c2_closed st; rfiles := rfiles st; pipes := pipes st; completed := v; written := written st; r_mu := r_mu st; r_cancel := r_cancel st; d_cancel := d_cancel st; dw_cancel := dw_cancel st; eg_cancel := eg_cancel st; r_err := r_err st; d_err := d_err st; eg_err := eg_err st; recv_ret := recv_ret st; r_broken := r_broken st; buf_sr := buf_sr st; buf_rs := buf_rs st; sr_closed := sr_closed st; g_fin_rs := g_fin_rs st; g_fin_sr := g_fin_sr st; g_got_fin_s := g_got_fin_s st; g_got_fin_r := g_got_fin_r st; g_open_err := g_open_err st; g_end_sr := g_end_sr st; g_got_end_r := g_got_end_r st; reqs := reqs st |}.
Definition set_written (v : list nat) (st : state) : state :=
  {| sw_pc := sw_pc st; sw_i := sw_i st; wks := wks st; rq_pc := rq_pc st; pipe := pipe st; pipe_closed := pipe_closed st; sfiles := sfiles st; s_mu := s_mu st; s_cancel := s_cancel st; s_err := s_err st; send_ret := send_ret st; s_broken := s_broken st; rl_pc := rl_pc st; rl_i := rl_i st; fl_pc := fl_pc st; dl_pc := dl_pc st; dl_i := dl_i st; do_pc := do_pc st; wrs := wrs st; walk_n := walk_n st; walk_closed := walk_closed st; close_ch := close_ch st; c2_n := c2_n st; c2_closed := c2_closed st; rfiles := rfiles st; pipes := pipes st; completed := completed st; written := v; r_mu := r_mu st; r_cancel := r_cancel st; d_cancel := d_cancel st; dw_cancel := dw_cancel st; eg_cancel := eg_cancel st; r_err := r_err st; d_err := d_err st; eg_err := eg_err st; recv_ret := recv_ret st; r_broken := r_broken st; buf_sr := buf_sr st; buf_rs := buf_rs st; sr_closed := sr_closed st; g_fin_rs := g_fin_rs st; g_fin_sr := g_fin_sr st; g_got_fin_s := g_got_fin_s st; g_got_fin_r := g_got_fin_r st; g_open_err := g_open_err st; g_end_sr := g_end_sr st; g_got_end_r := g_got_end_r st; reqs := reqs st |}.
Definition set_r_mu (v : option gid) (st : state) : state :=
  {| sw_pc := sw_pc st; sw_i := sw_i st; wks := wks st; rq_pc := rq_pc st; pipe := pipe st; pipe_closed := pipe_closed st; sfiles := sfiles st; s_mu := s_mu st; s_cancel := s_cancel st; s_err := s_err st; send_ret := send_ret st; s_broken := s_broken st; rl_pc := rl_pc st; rl_i := rl_i st; fl_pc := fl_pc st; dl_pc := dl_pc st; dl_i := dl_i st; do_pc := do_pc st; wrs := wrs st; walk_n := walk_n st; walk_closed := walk_closed st; close_ch := close_ch st; c2_n := c2_n st; c2_closed := c2_closed st; rfiles := rfiles st; pipes := pipes st; completed := completed st; written := written st; r_mu := v; r_cancel := r_cancel st; d_cancel := d_cancel st; dw_cancel := dw_cancel st; eg_cancel := eg_cancel st; r_err := r_err st; d_err := d_err st; eg_err := eg_err st; recv_ret := recv_ret st; r_broken := r_broken st; buf_sr := buf_sr st; buf_rs := buf_rs st; sr_closed := sr_closed st; g_fin_rs := g_fin_rs st; g_fin_sr := g_fin_sr st; g_got_fin_s := g_got_fin_s st; g_got_fin_r := g_got_fin_r st; g_open_err := g_open_err st; g_end_sr := g_end_sr st; g_got_end_r := g_got_end_r st; reqs := reqs st |}.
Definition set_r_cancel (v : bool) (st : state) : state :=
  {| sw_pc := sw_pc st; sw_i := sw_i st; wks := wks st; rq_pc := rq_pc st; pipe := pipe st; pipe_closed := pipe_closed st; sfiles := sfiles st; s_mu := s_mu st; s_cancel := s_cancel st; s_err := s_err st; send_ret := send_ret st; s_broken := s_broken st; rl_pc := rl_pc st; rl_i := rl_i st; fl_pc := fl_pc st; dl_pc := dl_pc st; dl_i := dl_i st; do_pc := do_pc st; wrs := wrs st; walk_n := walk_n st; walk_closed := walk_closed st; close_ch := close_ch st; c2_n := c2_n st; c2_closed := c2_closed st; rfiles := rfiles st; pipes := pipes st; completed := completed st; written := written st; r_mu := r_mu st; r_cancel := v; d_cancel := d_cancel st; dw_cancel := dw_cancel st; eg_cancel := eg_cancel st; r_err := r_err st; d_err := d_err st; eg_err := eg_err st; recv_ret := recv_ret st; r_broken := r_broken st; buf_sr := buf_sr st; buf_rs := buf_rs st; sr_closed := sr_closed st; g_fin_rs := g_fin_rs st; g_fin_sr := g_fin_sr st; g_got_fin_s := g_got_fin_s st; g_got_fin_r := g_got_fin_r st; g_open_err := g_open_err st; g_end_sr := g_end_sr st; g_got_end_r := g_got_end_r st; reqs := reqs st |}.
Definition set_d_cancel (v : bool) (st : state) : state :=
  {| sw_pc := sw_pc st; sw_i := sw_i st; wks := wks st; rq_pc := rq_pc st; pipe := pipe st; pipe_closed := pipe_closed st; sfiles := sfiles st; s_mu := s_mu st; s_cancel := s_cancel st; s_err := s_err st; send_ret := send_ret st; s_broken := s_broken st; rl_pc := rl_pc st; rl_i := rl_i st; fl_pc := fl_pc st; dl_pc := dl_pc st; dl_i := dl_i st; do_pc := do_pc st; wrs := wrs st; walk_n := walk_n st; walk_closed := walk_closed st; close_ch := close_ch st; c2_n := c2_n st; c2_closed := c2_closed st; rfiles := rfiles st; pipes := pipes st; completed := completed st; written := written st; r_mu := r_mu st; r_cancel := r_cancel st; d_cancel := v; dw_cancel := dw_cancel st; eg_cancel := eg_cancel st; r_err := r_err st; d_err := d_err st; eg_err := eg_err st; recv_ret := recv_ret st; r_broken := r_broken st; buf_sr := buf_sr st; buf_rs := buf_rs st; sr_closed := sr_closed st; g_fin_rs := g_fin_rs st; g_fin_sr := g_fin_sr st; g_got_fin_s := g_got_fin_s st; g_got_fin_r := g_got_fin_r st; g_open_err := g_open_err st; g_end_sr := g_end_sr st; g_got_end_r := g_got_end_r st; reqs := reqs st |}.
Definition set_dw_cancel (v : bool) (st : state) : state :=
  {| sw_pc := sw_pc st; sw_i := sw_i st; wks := wks st; rq_pc := rq_pc st; pipe := pipe st; pipe_closed := pipe_closed st; sfiles := sfiles st; s_mu := s_mu st; s_cancel := s_cancel st; s_err := s_err st; send_ret := send_ret st; s_broken := s_broken st; rl_pc := rl_pc st; rl_i := rl_i st; fl_pc := fl_pc st; dl_pc := dl_pc st; dl_i := dl_i st; do_pc := do_pc st; wrs := wrs st; walk_n := walk_n st; walk_closed := walk_closed st; close_ch := close_ch st; c2_n := c2_n st; c2_closed := c2_closed st; rfiles := rfiles st; pipes := pipes st; completed := completed st; written := written st; r_mu := r_mu st; r_cancel := r_cancel st; d_cancel := d_cancel st; dw_cancel := v; eg_cancel := eg_cancel st; r_err := r_err st; d_err := d_err st; eg_err := eg_err st; recv_ret := recv_ret st; r_broken := r_broken st; buf_sr := buf_sr st; buf_rs := buf_rs st; sr_closed := sr_closed st; g_fin_rs := g_fin_rs st; g_fin_sr := g_fin_sr st; g_got_fin_s := g_got_fin_s st; g_got_fin_r := g_got_fin_r st; g_open_err := g_open_err st; g_end_sr := g_end_sr st; g_got_end_r := g_got_end_r st; reqs := reqs st |}.
Definition set_eg_cancel (v : bool) (st : state) : state :=
  {| sw_pc := sw_pc st; sw_i := sw_i st; wks := wks st; rq_pc := rq_pc st; pipe := pipe st; pipe_closed := pipe_closed st; sfiles := sfiles st; s_mu := s_mu st; s_cancel := s_cancel st; s_err := s_err st; send_ret := send_ret st; s_broken := s_broken st; rl_pc := rl_pc st; rl_i := rl_i st; fl_pc := fl_pc st; dl_pc := dl_pc st; dl_i := dl_i st; do_pc := do_pc st; wrs := wrs st; walk_n := walk_n st; walk_closed := walk_closed st; close_ch := close_ch st; c2_n := c2_n st; c2_closed := c2_closed st; rfiles := rfiles st; pipes := pipes st; completed := completed st; written := written st; r_mu := r_mu st; r_cancel := r_cancel st; d_cancel := d_cancel st; dw_cancel := dw_cancel st; eg_cancel := v; r_err := r_err st; d_err := d_err st; eg_err := eg_err st; recv_ret := recv_ret st; r_broken := r_broken st; buf_sr := buf_sr st; buf_rs := buf_rs st; sr_closed := sr_closed st; g_fin_rs := g_fin_rs st; g_fin_sr := g_fin_sr st; g_got_fin_s := g_got_fin_s st; g_got_fin_r := g_got_fin_r st; g_open_err := g_open_err st; g_end_sr := g_end_sr st; g_got_end_r := g_got_end_r st; reqs := reqs st |}.
Definition set_r_err (v : bool) (st : state) : state :=
  {| sw_pc := sw_pc st; sw_i := sw_i st; wks := wks st; rq_pc := rq_pc st; pipe := pipe st; pipe_closed := pipe_closed st; sfiles := sfiles st; s_mu := s_mu st; s_cancel := s_cancel st; s_err := s_err st; send_ret := send_ret st; s_broken := s_broken st; rl_pc := rl_pc st; rl_i := rl_i st; fl_pc := fl_pc st; dl_pc := dl_pc st; dl_i := dl_i st; do_pc := do_pc st; wrs := wrs st; walk_n := walk_n st; walk_closed := walk_closed st; close_ch := close_ch st; c2_n := c2_n st; c2_closed := c2_closed st; rfiles := rfiles st; pipes := pipes st; completed := completed st; written := written st; r_mu := r_mu st; r_cancel := r_cancel st; d_cancel := d_cancel st; dw_cancel := dw_cancel st; eg_cancel := eg_cancel st; r_err := v; d_err := d_err st; eg_err := eg_err st; recv_ret := recv_ret st; r_broken := r_broken st; buf_sr := buf_sr st; buf_rs := buf_rs st; sr_closed := sr_closed st; g_fin_rs := g_fin_rs st; g_fin_sr := g_fin_sr st; g_got_fin_s := g_got_fin_s st; g_got_fin_r := g_got_fin_r st; g_open_err := g_open_err st; g_end_sr := g_end_sr st; g_got_end_r := g_got_end_r st; reqs := reqs st |}.
Definition set_d_err (v : bool) (st : state) : state :=
  {| sw_pc := sw_pc st; sw_i := sw_i st; wks := wks st; rq_pc := rq_pc st; pipe := pipe st; pipe_closed := pipe_closed st; sfiles := sfiles st; s_mu := s_mu st; s_cancel := s_cancel st; s_err := s_err st; send_ret := send_ret st; s_broken := s_broken st; rl_pc := rl_pc st; rl_i := rl_i st; fl_pc := fl_pc st; dl_pc := dl_pc st; dl_i := dl_i st; do_pc := do_pc st; wrs := wrs st; walk_n := walk_n st; walk_closed := walk_closed st; close_ch := close_ch st; c2_n := c2_n st; c2_closed := c2_closed st; rfiles := rfiles st; pipes := pipes st; completed := completed st; written := written st; r_mu := r_mu st; r_cancel := r_cancel st; d_cancel := d_cancel st; dw_cancel := dw_cancel st; eg_cancel := eg_cancel st; r_err := r_err st; d_err := v; eg_err := eg_err st; recv_ret := recv_ret st; r_broken := r_broken st; buf_sr := buf_sr st; buf_rs := buf_rs st; sr_closed := sr_closed st; g_fin_rs := g_fin_rs st; g_fin_sr := g_fin_sr st; g_got_fin_s := g_got_fin_s st; g_got_fin_r := g_got_fin_r st; g_open_err := g_open_err st; g_end_sr := g_end_sr st; g_got_end_r := g_got_end_r st; reqs := reqs st |}.
Definition set_eg_err (v : bool) (st : state) : state :=
  {| sw_pc := sw_pc st; sw_i := sw_i st; wks := wks st; rq_pc := rq_pc st; pipe := pipe st; pipe_closed := pipe_closed st; sfiles := sfiles st; s_mu := s_mu st; s_cancel := s_cancel st; s_err := s_err st; send_ret := send_ret st; s_broken := s_broken st; rl_pc := rl_pc st; rl_i := rl_i st; fl_pc := fl_pc st; dl_pc := dl_pc st; dl_i := dl_i st; do_pc := do_pc st; wrs := wrs st; walk_n := walk_n st; walk_closed := walk_closed st; close_ch := close_ch st; c2_n := c2_n st; c2_closed := c2_closed st; rfiles := rfiles st; pipes := pipes st; completed := completed st; written := written st; r_mu := r_mu st; r_cancel := r_cancel st; d_cancel := d_cancel st; dw_cancel := dw_cancel st; eg_cancel := eg_cancel st; r_err := r_err st; d_err := d_err st; eg_err := v; recv_ret := recv_ret st; r_broken := r_broken st; buf_sr := buf_sr st; buf_rs := buf_rs st; sr_closed := sr_closed st; g_fin_rs := g_fin_rs st; g_fin_sr := g_fin_sr st; g_got_fin_s := g_got_fin_s st; g_got_fin_r := g_got_fin_r st; g_open_err := g_open_err st; g_end_sr := g_end_sr st; g_got_end_r := g_got_end_r st; reqs := reqs st |}.
Definition set_recv_ret (v : option bool) (st : state) : state :=
  {| sw_pc := sw_pc st; sw_i := sw_i st; wks := wks st; rq_pc := rq_pc st; pipe := pipe st; pipe_closed := pipe_closed st; sfiles := sfiles st; s_mu := s_mu st; s_cancel := s_cancel st; s_err := s_err st; send_ret := send_ret st; s_broken := s_broken st; rl_pc := rl_pc st; rl_i := rl_i st; fl_pc := fl_pc st; dl_pc := dl_pc st; dl_i := dl_i st; do_pc := do_pc st; wrs := wrs st; walk_n := walk_n st; walk_closed := walk_closed st; close_ch := close_ch st; c2_n := c2_n st; c2_closed := c2_closed st; rfiles := rfiles st; pipes := pipes st; completed := completed st; written := written st; r_mu := r_mu st; r_cancel := r_cancel st; d_cancel := d_cancel st; dw_cancel := dw_cancel st; eg_cancel := eg_cancel st; r_err := r_err st; d_err := d_err st; eg_err := eg_err st; recv_ret := v; r_broken := r_broken st; buf_sr := buf_sr st; buf_rs := buf_rs st; sr_closed := sr_closed st; g_fin_rs := g_fin_rs st; g_fin_sr := g_fin_sr st; g_got_fin_s := g_got_fin_s st; g_got_fin_r := g_got_fin_r st; g_open_err := g_open_err st; g_end_sr := g_end_sr st; g_got_end_r := g_got_end_r st; reqs := reqs st |}.
Definition set_r_broken (v : bool) (st : state) : state :=
  {| sw_pc := sw_pc st; sw_i := sw_i st; wks := wks st; rq_pc := rq_pc st; pipe := pipe st; pipe_closed := pipe_closed st; sfiles := sfiles st; s_mu := s_mu st; s_cancel := s_cancel st; s_err := s_err st; send_ret := send_ret st; s_broken := s_broken st; rl_pc := rl_pc st; rl_i := rl_i st; fl_pc := fl_pc st; dl_pc := dl_pc st; dl_i := dl_i st; do_pc := do_pc st; wrs := wrs st; walk_n := walk_n st; walk_closed := walk_closed st; close_ch := close_ch st; c2_n := c2_n st; c2_closed := c2_closed st; rfiles := rfiles st; pipes := pipes st; completed := completed st; written := written st; r_mu := r_mu st; r_cancel := r_cancel st; d_cancel := d_cancel st; dw_cancel := dw_cancel st; eg_cancel := eg_cancel st; r_err := r_err st; d_err := d_err st; eg_err := eg_err st; recv_ret := recv_ret st; r_broken := v; buf_sr := buf_sr st; buf_rs := buf_rs st; sr_closed := sr_closed st; g_fin_rs := g_fin_rs st; g_fin_sr := g_fin_sr st; g_got_fin_s := g_got_fin_s st; g_got_fin_r := g_got_fin_r st; g_open_err := g_open_err st; g_end_sr := g_end_sr st; g_got_end_r := g_got_end_r st; reqs := reqs st |}.
Definition set_buf_sr (v : list packet) (st : state) : state :=
  {| sw_pc := sw_pc st; sw_i := sw_i st; wks := wks st; rq_pc := rq_pc st; pipe := pipe st; pipe_closed := pipe_closed st; sfiles := sfiles st; s_mu := s_mu st; s_cancel := s_cancel st; s_err := s_err st; send_ret := send_ret st; s_broken := s_broken st; rl_pc := rl_pc st; rl_i := rl_i st; fl_pc := fl_pc st; dl_pc := dl_pc st; dl_i := dl_i st; do_pc := do_pc st; wrs := wrs st; walk_n := walk_n st; walk_closed := walk_closed st; close_ch := close_ch st; c2_n := c2_n st; c2_closed := c2_closed st; rfiles := rfiles st; pipes := pipes st; completed := completed st; written := written st; r_mu := r_mu st; r_cancel := r_cancel st; d_cancel := d_cancel st; dw_cancel := dw_cancel st; eg_cancel := eg_cancel st; r_err := r_err st; d_err := d_err st; eg_err := eg_err st; recv_ret := recv_ret st; r_broken := r_broken st; buf_sr := v; buf_rs := buf_rs st; sr_closed := sr_closed st; g_fin_rs := g_fin_rs st; g_fin_sr := g_fin_sr st; g_got_fin_s := g_got_fin_s st; g_got_fin_r := g_got_fin_r st; g_open_err := g_open_err st; g_end_sr := g_end_sr st; g_got_end_r := g_got_end_r st; reqs := reqs st |}.
Definition set_buf_rs (v : list packet) (st : state) : state :=
  {| sw_pc := sw_pc st; sw_i := sw_i st; wks := wks st; rq_pc := rq_pc st; pipe := pipe st; pipe_closed := pipe_closed st; sfiles := sfiles st; s_mu := s_mu st; s_cancel := s_cancel st; s_err := s_err st; send_ret := send_ret st; s_broken := s_broken st; rl_pc := rl_pc st; rl_i := rl_i st; fl_pc := fl_pc st; dl_pc := dl_pc st; dl_i := dl_i st; do_pc := do_pc st; wrs := wrs st; walk_n := walk_n st; walk_closed := walk_closed st; close_ch := close_ch st; c2_n := c2_n st; c2_closed := c2_closed st; rfiles := rfiles st; pipes := pipes st; completed := completed st; written := written st; r_mu := r_mu st; r_cancel := r_cancel st; d_cancel := d_cancel st; dw_cancel := dw_cancel st; eg_cancel := eg_cancel st; r_err := r_err st; d_err := d_err st; eg_err := eg_err st; recv_ret := recv_ret st; r_broken := r_broken st; buf_sr := buf_sr st; buf_rs := v; sr_closed := sr_closed st; g_fin_rs := g_fin_rs st; g_fin_sr := g_fin_sr st; g_got_fin_s := g_got_fin_s st; g_got_fin_r := g_got_fin_r st; g_open_err := g_open_err st; g_end_sr := g_end_sr st; g_got_end_r := g_got_end_r st; reqs := reqs st |}.
Definition set_sr_closed (v : bool) (st : state) : state :=
  {| sw_pc := sw_pc st; sw_i := sw_i st; wks := wks st; rq_pc := rq_pc st; pipe := pipe st; pipe_closed := pipe_closed st; sfiles := sfiles st; s_mu := s_mu st; s_cancel := s_cancel st; s_err := s_err st; send_ret := send_ret st; s_broken := s_broken st; rl_pc := rl_pc st; rl_i := rl_i st; fl_pc := fl_pc st; dl_pc := dl_pc st; dl_i := dl_i st; do_pc := do_pc st; wrs := wrs st; walk_n := walk_n st; walk_closed := walk_closed st; close_ch := close_ch st; c2_n := c2_n st; c2_closed := c2_closed st; rfiles := rfiles st; pipes := pipes st; completed := completed st; written := written st; r_mu := r_mu st; r_cancel := r_cancel st; d_cancel := d_cancel st; dw_cancel := dw_cancel st; eg_cancel := eg_cancel st; r_err := r_err st; d_err := d_err st; eg_err := eg_err st; recv_ret := recv_ret st; r_broken := r_broken st; buf_sr := buf_sr st; buf_rs := buf_rs st; sr_closed := v; g_fin_rs := g_fin_rs st; g_fin_sr := g_fin_sr st; g_got_fin_s := g_got_fin_s st; g_got_fin_r := g_got_fin_r st; g_open_err := g_open_err st; g_end_sr := g_end_sr st; g_got_end_r := g_got_end_r st; reqs := reqs st |}.
Definition set_g_fin_rs (v : bool) (st : state) : state :=
  {| sw_pc := sw_pc st; sw_i := sw_i st; wks := wks st; rq_pc := rq_pc st; pipe := pipe st; pipe_closed := pipe_closed st; sfiles := sfiles st; s_mu := s_mu st; s_cancel := s_cancel st; s_err := s_err st; send_ret := send_ret st; s_broken := s_broken st; rl_pc := rl_pc st; rl_i := rl_i st; fl_pc := fl_pc st; dl_pc := dl_pc st; dl_i := dl_i st; do_pc := do_pc st; wrs := wrs st; walk_n := walk_n st; walk_closed := walk_closed st; close_ch := close_ch st; c2_n := c2_n st; c2_closed := c2_closed st; rfiles := rfiles st; pipes := pipes st; completed := completed st; written := written st; r_mu := r_mu st; r_cancel := r_cancel st; d_cancel := d_cancel st; dw_cancel := dw_cancel st; eg_cancel := eg_cancel st; r_err := r_err st; d_err := d_err st; eg_err := eg_err st; recv_ret := recv_ret st; r_broken := r_broken st; buf_sr := buf_sr st; buf_rs := buf_rs st; sr_closed := sr_closed st; g_fin_rs := v; g_fin_sr := g_fin_sr st; g_got_fin_s := g_got_fin_s st; g_got_fin_r := g_got_fin_r st; g_open_err := g_open_err st; g_end_sr := g_end_sr st; g_got_end_r := g_got_end_r st; reqs := reqs st |}.
Definition set_g_fin_sr (v : bool) (st : state) : state :=
  {| sw_pc := sw_pc st; sw_i := sw_i st; wks := wks st; rq_pc := rq_pc st; pipe := pipe st; pipe_closed := pipe_closed st; sfiles := sfiles st; s_mu := s_mu st; s_cancel := s_cancel st; s_err := s_err st; send_ret := send_ret st; s_broken := s_broken st; rl_pc := rl_pc st; rl_i := rl_i st; fl_pc := fl_pc st; dl_pc := dl_pc st; dl_i := dl_i st; do_pc := do_pc st; wrs := wrs st; walk_n := walk_n st; walk_closed := walk_closed st; close_ch := close_ch st; c2_n := c2_n st; c2_closed := c2_closed st; rfiles := rfiles st; pipes := pipes st; completed := completed st; written := written st; r_mu := r_mu st; r_cancel := r_cancel st; d_cancel := d_cancel st; dw_cancel := dw_cancel st; eg_cancel := eg_cancel st; r_err := r_err st; d_err := d_err st; eg_err := eg_err st; recv_ret := recv_ret st; r_broken := r_broken st; buf_sr := buf_sr st; buf_rs := buf_rs st; sr_closed := sr_closed st; g_fin_rs := g_fin_rs st; g_fin_sr := v; g_got_fin_s := g_got_fin_s st; g_got_fin_r := g_got_fin_r st; g_open_err := g_open_err st; g_end_sr := g_end_sr st; g_got_end_r := g_got_end_r st; reqs := reqs st |}.
Definition set_g_got_fin_s (v : bool) (st : state) : state :=
  {| sw_pc := sw_pc st; sw_i := sw_i st; wks := wks st; rq_pc := rq_pc st; pipe := pipe st; pipe_closed := pipe_closed st; sfiles := sfiles st; s_mu := s_mu st; s_cancel := s_cancel st; s_err := s_err st; send_ret := send_ret st; s_broken := s_broken st; rl_pc := rl_pc st; rl_i := rl_i st; fl_pc := fl_pc st; dl_pc := dl_pc st; dl_i := dl_i st; do_pc := do_pc st; wrs := wrs st; walk_n := walk_n st; walk_closed := walk_closed st; close_ch := close_ch st; c2_n := c2_n st; c2_closed := c2_closed st; rfiles := rfiles st; pipes := pipes st; completed := completed st; written := written st; r_mu := r_mu st; r_cancel := r_cancel st; d_cancel := d_cancel st; dw_cancel := dw_cancel st; eg_cancel := eg_cancel st; r_err := r_err st; d_err := d_err st; eg_err := eg_err st; recv_ret := recv_ret st; r_broken := r_broken st; buf_sr := buf_sr st; buf_rs := buf_rs st; sr_closed := sr_closed st; g_fin_rs := g_fin_rs st; g_fin_sr := g_fin_sr st; g_got_fin_s := v; g_got_fin_r := g_got_fin_r st; g_open_err := g_open_err st; g_end_sr := g_end_sr st; g_got_end_r := g_got_end_r st; reqs := reqs st |}.
Definition set_g_got_fin_r (v : bool) (st : state) : state :=
  {| sw_pc := sw_pc st; sw_i := sw_i st; wks := wks st; rq_pc := rq_pc st; pipe := pipe st; pipe_closed := pipe_closed st; sfiles := sfiles st; s_mu := s_mu st; s_cancel := s_cancel st; s_err := s_err st; send_ret := send_ret st; s_broken := s_broken st; rl_pc := rl_pc st; rl_i := rl_i st; fl_pc := fl_pc st; dl_pc := dl_pc st; dl_i := dl_i st; do_pc := do_pc st; wrs := wrs st; walk_n := walk_n st; walk_closed := walk_closed st; close_ch := close_ch st; c2_n := c2_n st; c2_closed := c2_closed st; rfiles := rfiles st; pipes := pipes st; completed := completed st; written := written st; r_mu := r_mu st; r_cancel := r_cancel st; d_cancel := d_cancel st; dw_cancel := dw_cancel st; eg_cancel := eg_cancel st; r_err := r_err st; d_err := d_err st; eg_err := eg_err st; recv_ret := recv_ret st; r_broken := r_broken st; buf_sr := buf_sr st; buf_rs := buf_rs st; sr_closed := sr_closed st; g_fin_rs := g_fin_rs st; g_fin_sr := g_fin_sr st; g_got_fin_s := g_got_fin_s st; g_got_fin_r := v; g_open_err := g_open_err st; g_end_sr := g_end_sr st; g_got_end_r := g_got_end_r st; reqs := reqs st |}.
Definition set_g_open_err (v : bool) (st : state) : state :=
  {| sw_pc := sw_pc st; sw_i := sw_i st; wks := wks st; rq_pc := rq_pc st; pipe := pipe st; pipe_closed := pipe_closed st; sfiles := sfiles st; s_mu := s_mu st; s_cancel := s_cancel st; s_err := s_err st; send_ret := send_ret st; s_broken := s_broken st; rl_pc := rl_pc st; rl_i := rl_i st; fl_pc := fl_pc st; dl_pc := dl_pc st; dl_i := dl_i st; do_pc := do_pc st; wrs := wrs st; walk_n := walk_n st; walk_closed := walk_closed st; close_ch := close_ch st; c2_n := c2_n st; c2_closed := c2_closed st; rfiles := rfiles st; pipes := pipes st; completed := completed st; written := written st; r_mu := r_mu st; r_cancel := r_cancel st; d_cancel := d_cancel st; dw_cancel := dw_cancel st; eg_cancel := eg_cancel st; r_err := r_err st; d_err := d_err st; eg_err := eg_err st; recv_ret := recv_ret st; r_broken := r_broken st; buf_sr := buf_sr st; buf_rs := buf_rs st; sr_closed := sr_closed st; g_fin_rs := g_fin_rs st; g_fin_sr := g_fin_sr st; g_got_fin_s := g_got_fin_s st; g_got_fin_r := g_got_fin_r st; g_open_err := v; g_end_sr := g_end_sr st; g_got_end_r := g_got_end_r st; reqs := reqs st |}.
Definition set_g_end_sr (v : bool) (st : state) : state :=
  {| sw_pc := sw_pc st; sw_i := sw_i st; wks := wks st; rq_pc := rq_pc st; pipe := pipe st; pipe_closed := pipe_closed st; sfiles := sfiles st; s_mu := s_mu st; s_cancel := s_cancel st; s_err := s_err st; send_ret := send_ret st; s_broken := s_broken st; rl_pc := rl_pc st; rl_i := rl_i st; fl_pc := fl_pc st; dl_pc := dl_pc st; dl_i := dl_i st; do_pc := do_pc st; wrs := wrs st; walk_n := walk_n st; walk_closed := walk_closed st; close_ch := close_ch st; c2_n := c2_n st; c2_closed := c2_closed st; rfiles := rfiles st; pipes := pipes st; completed := completed st; written := written st; r_mu := r_mu st; r_cancel := r_cancel st; d_cancel := d_cancel st; dw_cancel := dw_cancel st; eg_cancel := eg_cancel st; r_err := r_err st; d_err := d_err st; eg_err := eg_err st; recv_ret := recv_ret st; r_broken := r_broken st; buf_sr := buf_sr st; buf_rs := buf_rs st; sr_closed := sr_closed st; g_fin_rs := g_fin_rs st; g_fin_sr := g_fin_sr st; g_got_fin_s := g_got_fin_s st; g_got_fin_r := g_got_fin_r st; g_open_err := g_open_err st; g_end_sr := v; g_got_end_r := g_got_end_r st; reqs := reqs st |}.
Definition set_g_got_end_r (v : bool) (st : state) : state :=
  {| sw_pc := sw_pc st; sw_i := sw_i st; wks := wks st; rq_pc := rq_pc st; pipe := pipe st; pipe_closed := pipe_closed st; sfiles := sfiles st; s_mu := s_mu st; s_cancel := s_cancel st; s_err := s_err st; send_ret := send_ret st; s_broken := s_broken st; rl_pc := rl_pc st; rl_i := rl_i st; fl_pc := fl_pc st; dl_pc := dl_pc st; dl_i := dl_i st; do_pc := do_pc st; wrs := wrs st; walk_n := walk_n st; walk_closed := walk_closed st; close_ch := close_ch st; c2_n := c2_n st; c2_closed := c2_closed st; rfiles := rfiles st; pipes := pipes st; completed := completed st; written := written st; r_mu := r_mu st; r_cancel := r_cancel st; d_cancel := d_cancel st; dw_cancel := dw_cancel st; eg_cancel := eg_cancel st; r_err := r_err st; d_err := d_err st; eg_err := eg_err st; recv_ret := recv_ret st; r_broken := r_broken st; buf_sr := buf_sr st; buf_rs := buf_rs st; sr_closed := sr_closed st; g_fin_rs := g_fin_rs st; g_fin_sr := g_fin_sr st; g_got_fin_s := g_got_fin_s st; g_got_fin_r := g_got_fin_r st; g_open_err := g_open_err st; g_end_sr := g_end_sr st; g_got_end_r := v; reqs := reqs st |}.
Definition set_reqs (v : list nat) (st : state) : state :=
  {| sw_pc := sw_pc st; sw_i := sw_i st; wks := wks st; rq_pc := rq_pc st; pipe := pipe st; pipe_closed := pipe_closed st; sfiles := sfiles st; s_mu := s_mu st; s_cancel := s_cancel st; s_err := s_err st; send_ret := send_ret st; s_broken := s_broken st; rl_pc := rl_pc st; rl_i := rl_i st; fl_pc := fl_pc st; dl_pc := dl_pc st; dl_i := dl_i st; do_pc := do_pc st; wrs := wrs st; walk_n := walk_n st; walk_closed := walk_closed st; close_ch := close_ch st; c2_n := c2_n st; c2_closed := c2_closed st; rfiles := rfiles st; pipes := pipes st; completed := completed st; written := written st; r_mu := r_mu st; r_cancel := r_cancel st; d_cancel := d_cancel st; dw_cancel := dw_cancel st; eg_cancel := eg_cancel st; r_err := r_err st; d_err := d_err st; eg_err := eg_err st; recv_ret := recv_ret st; r_broken := r_broken st; buf_sr := buf_sr st; buf_rs := buf_rs st; sr_closed := sr_closed st; g_fin_rs := g_fin_rs st; g_fin_sr := g_fin_sr st; g_got_fin_s := g_got_fin_s st; g_got_fin_r := g_got_fin_r st; g_open_err := g_open_err st; g_end_sr := g_end_sr st; g_got_end_r := g_got_end_r st; reqs := v |}.

(* ---------- small helpers ---------- *)
Fixpoint set_nth {A} (j : nat) (x : A) (l : list A) : list A :=
  match l, j with
  | [], _ => []
  | _ :: r, O => x :: r
  | a :: r, S j' => a :: set_nth j' x r
  end.
Definition memb (x : nat) (l : list nat) : bool := existsb (Nat.eqb x) l.
Definition remb (x : nat) (l : list nat) : list nat := filter (fun y => negb (Nat.eqb x y)) l.
Definition b2n (b : bool) : nat := if b then 1 else 0.
Definition is_none {A} (o : option A) : bool := match o with None => true | Some _ => false end.

Definition wk_idle (w : wkpc) : bool := match w with WK_Idle => true | _ => false end.
Definition wk_done (w : wkpc) : bool := match w with WK_Done => true | _ => false end.
Definition wr_done (w : writer) : bool := match wr_pc w with WR_Done => true | _ => false end.

(* effective cancellation of the derived contexts on the receiver side:
   Receive's ctx/errgroup ctx (r_cancel) > { doubleWalkDiff's errgroup ctx (d_cancel),
   dw.ctx (dw_cancel) > dw.egCtx (eg_cancel) } *)
Definition d_canc (st : state) : bool := r_cancel st || d_cancel st.
Definition dw_canc (st : state) : bool := r_cancel st || dw_cancel st.
Definition eg_canc (st : state) : bool := r_cancel st || dw_cancel st || eg_cancel st.

(* a blocked receiver makes an unbuffered send possible (Go channel rendezvous);
   with capacity c and a waiting receiver at most c+1 sends can complete *)
Definition rl_in_recv (st : state) : bool :=
  match rl_pc st with RL_Recv | RL_Drain => true | _ => false end.
Definition rq_in_recv (st : state) : bool :=
  match rq_pc st with RQ_Recv => true | _ => false end.
Definition fl_in_sel (st : state) : bool := match fl_pc st with FL_Sel => true | _ => false end.
Definition dl_in_next (st : state) : bool := match dl_pc st with DL_Next => true | _ => false end.
Definition idle_workers (st : state) : nat := length (filter wk_idle (wks st)).

Definition room_sr (p : params) (st : state) : bool :=
  length (buf_sr st) <? p_capSR p + b2n (rl_in_recv st).
Definition room_rs (p : params) (st : state) : bool :=
  length (buf_rs st) <? p_capRS p + b2n (rq_in_recv st).
Definition room_pipe (p : params) (st : state) : bool :=
  length (pipe st) <? p_P p + idle_workers st.
Definition room_walk (p : params) (st : state) : bool :=
  walk_n st <? p_C p + b2n (fl_in_sel st).
Definition room_c2 (p : params) (st : state) : bool :=
  c2_n st <? p_C2 p + b2n (dl_in_next st).

(* Stream.SendMsg under the syncStream mutex (already held): completes with an error at
   once if this endpoint is broken / torn down, completes when the direction has room,
   blocks otherwise.  The mutex is released on completion.  (ok?, state) *)
Definition send_s (p : params) (pk : packet) (st : state) : option (bool * state) :=
  if s_broken st then Some (false, set_s_mu None st)
  else if room_sr p st then Some (true, set_s_mu None (set_buf_sr (buf_sr st ++ [pk]) st))
  else None.
Definition send_r (p : params) (pk : packet) (st : state) : option (bool * state) :=
  if r_broken st then Some (false, set_r_mu None st)
  else if room_rs p st then Some (true, set_r_mu None (set_buf_rs (buf_rs st ++ [pk]) st))
  else None.
Definition lock_s (g : gid) (st : state) : option state :=
  match s_mu st with None => Some (set_s_mu (Some g) st) | Some _ => None end.
Definition lock_r (g : gid) (st : state) : option state :=
  match r_mu st with None => Some (set_r_mu (Some g) st) | Some _ => None end.

(* a goroutine of an errgroup returns a non-nil error: first error kept, ctx cancelled *)
Definition s_fail (st : state) : state := set_s_err true (set_s_cancel true st).
Definition r_fail (st : state) : state := set_r_err true (set_r_cancel true st).
Definition d_fail (st : state) : state := set_d_err true (set_d_cancel true st).
Definition eg_fail (st : state) : state := set_eg_err true (set_eg_cancel true st).

Definition pkt_of (k : skind) : packet :=
  match k with KStat => PStat | KEnd => PEnd | KErr => PErr end.

(* ---------- sender ---------- *)
Definition step_walker (p : params) (st : state) : option state :=
  match sw_pc st with
  | SW_Next =>
      (* fs.Walk checks ctx.Done once per entry, before reporting it; after the last entry it
         returns nil without another check and sender.walk sends the end marker *)
      if sw_i st <? nentries p then
        if s_cancel st then Some (set_sw_pc (SW_Lock KErr) st)    (* ctx.Done -> ctx.Err() *)
        else Some (set_sw_pc (SW_Lock KStat)
                     (if is_file p (sw_i st) then set_sfiles (sw_i st :: sfiles st) st else st))
      else Some (set_sw_pc (SW_Lock KEnd) st)
  | SW_Lock k => lock_s GWalker (set_sw_pc (SW_Send k) st)
  | SW_Send k =>
      match send_s p (pkt_of k) st with
      | None => None
      | Some (ok, st1) =>
        Some (match k, ok with
              | KStat, true => set_sw_i (S (sw_i st)) (set_sw_pc SW_Next st1)
              | KEnd, true => set_g_end_sr true (set_sw_pc SW_Done st1)
              | KErr, _ => s_fail (set_sw_pc SW_Done st1)
              | _, false => set_sw_pc (SW_Lock KErr) st1     (* walk returned err: send ERR *)
              end)
      end
  | SW_Done => None
  end.

(* fault: the FS reports an error at entry sw_i *)
Definition step_walker_err (p : params) (st : state) : option state :=
  match sw_pc st with
  | SW_Next => if sw_i st <? nentries p then Some (set_sw_pc (SW_Lock KErr) st) else None
  | _ => None
  end.

Definition setw (j : nat) (w : wkpc) (st : state) : state := set_wks (set_nth j w (wks st)) st.

Definition step_worker (p : params) (j : nat) (st : state) : option state :=
  match nth_error (wks st) j with
  | None => None
  | Some w =>
    match w with
    | WK_Idle =>
        match pipe st with
        | h :: r => Some (setw j (WK_Ctx h) (set_pipe r st))
        | [] => if pipe_closed st then Some (setw j WK_Done st) else None
        end
    | WK_Ctx h => if s_cancel st then Some (s_fail (setw j WK_Done st)) else Some (setw j (WK_Open h) st)
    | WK_Open h => Some (setw j (WK_Read h 0) st)
    | WK_Read h c =>
        if c <? chunks_of p h then Some (setw j (WK_Lock h c) st) else Some (setw j (WK_LockFin h) st)
    | WK_Lock h c => lock_s (GWorker j) (setw j (WK_Send h c) st)
    | WK_Send h c =>
        match send_s p (PData h) st with
        | None => None
        | Some (true, st1) => Some (setw j (WK_Read h (S c)) st1)
        | Some (false, st1) => Some (s_fail (setw j WK_Done st1))    (* no ERR packet: F6 observation *)
        end
    | WK_LockFin h => lock_s (GWorker j) (setw j (WK_SendFin h) st)
    | WK_SendFin h =>
        match send_s p (PDataEnd h) st with
        | None => None
        | Some (true, st1) => Some (setw j WK_Idle st1)
        | Some (false, st1) => Some (s_fail (setw j WK_Done st1))
        end
    | WK_Done => None
    end
  end.

(* fault: Open fails -> sendFile skips the copy and sends the terminator (K3) *)
Definition step_worker_openerr (j : nat) (st : state) : option state :=
  match nth_error (wks st) j with
  | Some (WK_Open h) => Some (set_g_open_err true (setw j (WK_LockFin h) st))
  | _ => None
  end.
(* fault: Read fails -> io.CopyBuffer error -> worker returns it; nothing is sent *)
Definition step_worker_readerr (j : nat) (st : state) : option state :=
  match nth_error (wks st) j with
  | Some (WK_Read h c) => Some (s_fail (setw j WK_Done st))
  | _ => None
  end.

Definition step_req (p : params) (st : state) : option state :=
  match rq_pc st with
  | RQ_Top => Some (set_rq_pc (if s_cancel st then RQ_Close false else RQ_Recv) st)
  | RQ_Recv =>
      if s_broken st then Some (set_rq_pc (RQ_Close false) st)
      else match buf_rs st with
           | [] => None
           | pk :: r =>
             let st1 := set_buf_rs r st in
             Some (match pk with
                   | PErr => set_rq_pc (RQ_Close false) st1
                   | PReq id =>
                       if memb id (sfiles st) then set_sfiles (remb id (sfiles st)) (set_rq_pc (RQ_Push id) st1)
                       else set_rq_pc (RQ_Close false) st1           (* invalid file id *)
                   | PFin => set_g_got_fin_s true (set_rq_pc RQ_LockFin st1)
                   | _ => set_rq_pc RQ_Top st1
                   end)
           end
  | RQ_Push id =>
      if room_pipe p st then Some (set_pipe (pipe st ++ [id]) (set_rq_pc RQ_Top st)) else None
  | RQ_LockFin => lock_s GReq (set_rq_pc RQ_SendFin st)
  | RQ_SendFin =>
      match send_s p PFin st with
      | None => None
      | Some (true, st1) => Some (set_g_fin_sr true (set_rq_pc (RQ_Close true) st1))
      | Some (false, st1) => Some (set_rq_pc (RQ_Close false) st1)
      end
  | RQ_Close ok => Some (set_pipe_closed true (set_rq_pc (RQ_Ret ok) st))
  | RQ_Ret ok => Some (let st1 := set_rq_pc RQ_Done st in if ok then st1 else s_fail st1)
  | RQ_Done => None
  end.

(* queue(): the ctx.Done branch of the select (absent before fix 6c5966d) *)
Definition step_req_ctx (p : params) (st : state) : option state :=
  match rq_pc st with
  | RQ_Push _ => if s_cancel st && negb (p_old_queue p) then Some (set_rq_pc (RQ_Close false) st) else None
  | _ => None
  end.

Definition sw_is_done (st : state) : bool := match sw_pc st with SW_Done => true | _ => false end.
Definition rq_is_done (st : state) : bool := match rq_pc st with RQ_Done => true | _ => false end.
Definition sender_quiet (st : state) : bool :=
  sw_is_done st && rq_is_done st && forallb wk_done (wks st).

(* g.Wait() in sender.run returns *)
Definition step_send_ret (st : state) : option state :=
  if sender_quiet st && is_none (send_ret st)
  then Some (set_s_cancel true (set_send_ret (Some (negb (s_err st))) st)) else None.

(* ---------- receiver ---------- *)
Definition rl_fail (st : state) : state := r_fail (set_rl_pc RL_Done st).

Definition step_recvloop (p : params) (st : state) : option state :=
  match rl_pc st with
  | RL_Recv =>
      if r_broken st then Some (rl_fail st)
      else match buf_sr st with
           | [] => if sr_closed st then Some (rl_fail st) else None   (* io.EOF before FIN is an error *)
           | pk :: r =>
             let st1 := set_buf_sr r st in
             Some (match pk with
                   | PErr => rl_fail st1
                   | PStat =>
                       let i := rl_i st in
                       set_rl_i (S i) (set_rl_pc RL_Upd
                         (if is_file p i then set_rfiles (i :: rfiles st) st1 else st1))
                   | PEnd => set_g_got_end_r true (set_rl_pc RL_UpdEnd st1)
                   | PData id => if memb id (pipes st) then set_rl_pc (RL_Write id) st1 else rl_fail st1
                   | PDataEnd id => if memb id (pipes st) then set_rl_pc (RL_CloseP id) st1 else rl_fail st1
                   | PFin => set_g_got_fin_r true (set_rl_pc RL_Drain st1)
                   | PReq _ => st1
                   end)
           end
  | RL_Upd => Some (if close_ch st then rl_fail st else set_rl_pc RL_Push st)
  | RL_Push => if room_walk p st then Some (set_walk_n (S (walk_n st)) (set_rl_pc RL_Recv st)) else None
  | RL_UpdEnd => Some (if close_ch st then rl_fail st else set_walk_closed true (set_rl_pc RL_Recv st))
  | RL_Write id => Some (set_written (id :: written st) (set_rl_pc RL_Recv st))
  | RL_CloseP id => Some (set_completed (id :: completed st) (set_rl_pc RL_Recv st))
  | RL_Drain =>
      if r_broken st then Some (rl_fail st)
      else match buf_sr st with
           | [] => if sr_closed st then Some (set_rl_pc RL_Done st) else None     (* io.EOF: return nil *)
           | _ :: r => Some (set_buf_sr r st)
           end
  | RL_Done => None
  end.

(* w.update: the closeCh branch of the second select *)
Definition step_recvloop_closed (st : state) : option state :=
  match rl_pc st with
  | RL_Push => if close_ch st then Some (rl_fail st) else None
  | _ => None
  end.

Definition step_fill (p : params) (st : state) : option state :=
  match fl_pc st with
  | FL_Sel =>
      match walk_n st with
      | S k => Some (set_walk_n k (set_fl_pc FL_Push st))
      | O => if walk_closed st then Some (set_fl_pc (FL_Close true) st) else None
      end
  | FL_Push => if room_c2 p st then Some (set_c2_n (S (c2_n st)) (set_fl_pc FL_Sel st)) else None
  | FL_Close ok => Some (set_c2_closed true (set_fl_pc (FL_Ret ok) st))
  | FL_Ret ok => Some (let st1 := set_fl_pc FL_Done st in if ok then st1 else d_fail st1)
  | FL_Done => None
  end.

(* fill: the ctx.Done branch of either select: w.err = ctx.Err(); close(w.closeCh) *)
Definition step_fill_ctx (st : state) : option state :=
  match fl_pc st with
  | FL_Sel | FL_Push =>
      if d_canc st then Some (set_close_ch true (set_fl_pc (FL_Close false) st)) else None
  | _ => None
  end.

Definition dl_fail (st : state) : state := d_fail (set_dl_pc DL_Done st).

Definition step_diff (p : params) (st : state) : option state :=
  match dl_pc st with
  | DL_Next =>
      match c2_n st with
      | S k => Some (set_c2_n k (set_dl_i (S (dl_i st)) (set_dl_pc (DL_Handle (dl_i st)) st)))
      | O => if c2_closed st then Some (set_dl_pc DL_Done st) else None
      end
  | DL_Handle i =>
      match kind_of p i with
      | ESame => Some (set_dl_pc DL_Next st)
      | EMeta => Some (if dw_canc st then dl_fail st else set_dl_pc DL_Next st)
      | ENeed => Some (if dw_canc st then dl_fail st
                       else set_wrs (wrs st ++ [{| wr_id := i; wr_pc := WR_Start |}]) (set_dl_pc DL_Next st))
      end
  | DL_Done => None
  end.

Definition step_diff_ctx (st : state) : option state :=
  match dl_pc st with
  | DL_Next => if d_canc st then Some (dl_fail st) else None
  | _ => None
  end.

(* fault: a callback / syscall inside HandleChange fails (ContentHasher, NotifyHashed,
   Lstat ...): deferred dw.cancel(), error returned to the diff loop *)
Definition step_diff_cberr (p : params) (st : state) : option state :=
  match dl_pc st with
  | DL_Handle i =>
      match kind_of p i with
      | ESame => None
      | _ => Some (if dw_canc st then dl_fail st else set_dw_cancel true (dl_fail st))
      end
  | _ => None
  end.

Definition fl_is_done (st : state) : bool := match fl_pc st with FL_Done => true | _ => false end.
Definition dl_is_done (st : state) : bool := match dl_pc st with DL_Done => true | _ => false end.
Definition do_is_done (st : state) : bool := match do_pc st with DO_Done => true | _ => false end.
Definition rl_is_done (st : state) : bool := match rl_pc st with RL_Done => true | _ => false end.

Definition step_diffouter (p : params) (st : state) : option state :=
  match do_pc st with
  | DO_WaitDiff =>
      if fl_is_done st && dl_is_done st
      then Some (set_d_cancel true (set_do_pc (if d_err st then DO_LockErr else DO_WaitW) st))
      else None
  | DO_WaitW =>
      if forallb wr_done (wrs st)
      then Some (set_do_pc (if eg_err st then DO_LockErr else DO_LockFin) st)
      else None
  | DO_LockFin => lock_r GDiffOuter (set_do_pc DO_SendFin st)
  | DO_SendFin =>
      match send_r p PFin st with
      | None => None
      | Some (true, st1) => Some (set_g_fin_rs true (set_do_pc DO_Done st1))
      | Some (false, st1) => Some (set_do_pc DO_Done st1)         (* result of SendMsg(FIN) is ignored *)
      end
  | DO_LockErr => lock_r GDiffOuter (set_do_pc DO_SendErr st)
  | DO_SendErr =>
      match send_r p PErr st with
      | None => None
      | Some (_, st1) => Some (r_fail (set_do_pc DO_Done st1))
      end
  | DO_Done => None
  end.

Definition setwr (j : nat) (id : nat) (pc : wrpc) (st : state) : state :=
  set_wrs (set_nth j {| wr_id := id; wr_pc := pc |} (wrs st)) st.
Definition wr_fail (j id : nat) (st : state) : state := eg_fail (setwr j id WR_Done st).

Definition step_writer (p : params) (j : nat) (st : state) : option state :=
  match nth_error (wrs st) j with
  | None => None
  | Some w =>
    let id := wr_id w in
    match wr_pc w with
    | WR_Start =>
        Some (if memb id (rfiles st)
              then set_rfiles (remb id (rfiles st)) (set_pipes (id :: pipes st) (setwr j id WR_Lock st))
              else wr_fail j id st)                                   (* invalid file request *)
    | WR_Lock => lock_r (GWriter j) (setwr j id WR_Send st)
    | WR_Send =>
        match send_r p (PReq id) st with
        | None => None
        | Some (true, st1) => Some (set_reqs (id :: reqs st) (setwr j id WR_Wait st1))
        | Some (false, st1) => Some (wr_fail j id st1)
        end
    | WR_Wait => if memb id (completed st) then Some (setwr j id WR_Notify st) else None
    | WR_Notify => Some (set_pipes (remb id (pipes st)) (setwr j id WR_Done st))
    | WR_Done => None
    end
  end.

Definition step_writer_ctx (j : nat) (st : state) : option state :=
  match nth_error (wrs st) j with
  | Some w => match wr_pc w with
              | WR_Wait => if eg_canc st then Some (wr_fail j (wr_id w) st) else None
              | _ => None
              end
  | None => None
  end.

(* fault: ContentHasher (at start) / NotifyHashed (at the end) returns an error *)
Definition step_writer_cberr (j : nat) (st : state) : option state :=
  match nth_error (wrs st) j with
  | Some w => match wr_pc w with
              | WR_Start => Some (wr_fail j (wr_id w) st)
              | WR_Notify => Some (set_pipes (remb (wr_id w) (pipes st)) (wr_fail j (wr_id w) st))
              | _ => None
              end
  | None => None
  end.

(* g.Wait() in receiver.run returns; Receive's deferred cancel() *)
Definition step_recv_ret (st : state) : option state :=
  if do_is_done st && rl_is_done st && is_none (recv_ret st)
  then Some (set_r_cancel true (set_recv_ret (Some (negb (r_err st))) st)) else None.

(* ---------- environment ---------- *)
Definition torn_down (st : state) : bool := s_broken st && r_broken st.

Inductive label :=
| LSWalk | LSWalkErr
| LWorker (j : nat) | LWorkerOpenErr (j : nat) | LWorkerReadErr (j : nat)
| LReq | LReqCtx | LSendRet
| LRecvLoop | LRecvLoopClosed
| LFill | LFillCtx
| LDiff | LDiffCtx | LDiffCbErr
| LDiffOuter
| LWriter (j : nat) | LWriterCtx (j : nat) | LWriterCbErr (j : nat)
| LRecvRet
| LEnvCancelS | LEnvCancelR            (* the caller's context of Send / Receive is cancelled *)
| LEnvBreakS | LEnvBreakR              (* this endpoint of the stream fails from now on *)
| LEnvTearDown                         (* both endpoints fail from now on *)
| LEnvCloseSend.                       (* transport closes the sender's direction after Send returned: EOF after draining *)

Definition step (p : params) (st : state) (l : label) : option state :=
  match l with
  | LSWalk => step_walker p st
  | LSWalkErr => step_walker_err p st
  | LWorker j => step_worker p j st
  | LWorkerOpenErr j => step_worker_openerr j st
  | LWorkerReadErr j => step_worker_readerr j st
  | LReq => step_req p st
  | LReqCtx => step_req_ctx p st
  | LSendRet => step_send_ret st
  | LRecvLoop => step_recvloop p st
  | LRecvLoopClosed => step_recvloop_closed st
  | LFill => step_fill p st
  | LFillCtx => step_fill_ctx st
  | LDiff => step_diff p st
  | LDiffCtx => step_diff_ctx st
  | LDiffCbErr => step_diff_cberr p st
  | LDiffOuter => step_diffouter p st
  | LWriter j => step_writer p j st
  | LWriterCtx j => step_writer_ctx j st
  | LWriterCbErr j => step_writer_cberr j st
  | LRecvRet => step_recv_ret st
  | LEnvCancelS => if s_cancel st then None else Some (set_s_cancel true st)
  | LEnvCancelR => if r_cancel st then None else Some (set_r_cancel true st)
  | LEnvBreakS => if s_broken st then None else Some (set_s_broken true st)
  | LEnvBreakR => if r_broken st then None else Some (set_r_broken true st)
  | LEnvTearDown => if torn_down st then None else Some (set_s_broken true (set_r_broken true st))
  | LEnvCloseSend =>
      if negb (is_none (send_ret st)) && negb (sr_closed st) then Some (set_sr_closed true st) else None
  end.

(* environment events (faults, tear-down, close) vs moves of the program *)
Definition is_env (l : label) : bool :=
  match l with
  | LSWalkErr | LWorkerOpenErr _ | LWorkerReadErr _ | LDiffCbErr | LWriterCbErr _
  | LEnvCancelS | LEnvCancelR | LEnvBreakS | LEnvBreakR | LEnvTearDown | LEnvCloseSend => true
  | _ => false
  end.

Definition all_labels (st : state) : list label :=
  [LSWalk; LSWalkErr; LReq; LReqCtx; LSendRet; LRecvLoop; LRecvLoopClosed; LFill; LFillCtx;
   LDiff; LDiffCtx; LDiffCbErr; LDiffOuter; LRecvRet;
   LEnvCancelS; LEnvCancelR; LEnvBreakS; LEnvBreakR; LEnvTearDown; LEnvCloseSend]
  ++ flat_map (fun j => [LWorker j; LWorkerOpenErr j; LWorkerReadErr j]) (seq 0 (length (wks st)))
  ++ flat_map (fun j => [LWriter j; LWriterCtx j; LWriterCbErr j]) (seq 0 (length (wrs st))).

Definition is_some {A} (o : option A) : bool := match o with Some _ => true | None => false end.
Definition enabled (p : params) (st : state) : list label :=
  filter (fun l => is_some (step p st l)) (all_labels st).

Definition init (p : params) : state :=
  {| sw_pc := SW_Next; sw_i := 0; wks := repeat WK_Idle (p_W p); rq_pc := RQ_Top; pipe := [];
     pipe_closed := false; sfiles := []; s_mu := None; s_cancel := false; s_err := false;
     send_ret := None; s_broken := false;
     rl_pc := RL_Recv; rl_i := 0; fl_pc := FL_Sel; dl_pc := DL_Next; dl_i := 0; do_pc := DO_WaitDiff;
     wrs := []; walk_n := 0; walk_closed := false; close_ch := false; c2_n := 0; c2_closed := false;
     rfiles := []; pipes := []; completed := []; written := [];
     r_mu := None; r_cancel := false; d_cancel := false; dw_cancel := false; eg_cancel := false;
     r_err := false; d_err := false; eg_err := false; recv_ret := None; r_broken := false;
     buf_sr := []; buf_rs := []; sr_closed := false;
     g_fin_rs := false; g_fin_sr := false; g_got_fin_s := false; g_got_fin_r := false;
     g_open_err := false; g_end_sr := false; g_got_end_r := false; reqs := [] |}.

(* run a label sequence; reachable = result of some sequence from init *)
Fixpoint run (p : params) (st : state) (ls : list label) : option state :=
  match ls with
  | [] => Some st
  | l :: r => match step p st l with Some st' => run p st' r | None => None end
  end.

Inductive reachable (p : params) : state -> Prop :=
| reach_init : reachable p (init p)
| reach_step : forall st l st', reachable p st -> step p st l = Some st' -> reachable p st'.

(* all goroutines of both calls have ended and both calls have returned *)
Definition all_done (st : state) : bool :=
  sender_quiet st && fl_is_done st && dl_is_done st && do_is_done st && rl_is_done st
  && forallb wr_done (wrs st).
Definition final (st : state) : bool :=
  all_done st && negb (is_none (send_ret st)) && negb (is_none (recv_ret st)).
