(* L11 — tree-level model of the copier (/repo/copy, Linux build).

   Source side: a tree VALUE (snode), read only.  Destination side: a small kernel-like file
   system: directory entries [names : path -> option inode-id] and an inode table
   [inodes : id -> dent]; hard links are two names for one id, so metadata written through
   one name is seen through the other (as on disk).  Paths are component lists relative to
   the destination root.  No path component of the src/dst ARGUMENTS may be a symlink
   (that is C14's syscall-level model): meeting one yields EScope.

   Transcribed: Copy, prepareTargetDir, MkdirAll, fixCreatedParentDirs, copier.copy,
   copyDirectory, copyDirectoryOnly, ensureEmptyFileTarget, removeTargetIfNeeded,
   copyFileInfo, copyFileTimestamp, copyXAttrs, getLinkSource, copyDevice, copyFile,
   notifyChange, ResolveWildcards/splitWildcards/resolveWildcards (patterns with * and ?),
   continuity's fs.RootPath restricted to symlink-free paths.
   Kernel facts used: mkdir/create/mknod apply the umask; a new inode is owned by 0:0 except
   that below a set-group-ID directory it takes the directory's group (and a new directory
   the S_ISGID bit); creating or removing an entry sets the directory's mtime to "now"
   (value NOW: the glue maps every timestamp later than the start of the run to it). *)
From Coq Require Import List NArith Bool.
From FS Require Import Sx Model.Path Model.SymMode.
Import ListNotations.
Open Scope N_scope.
Open Scope bool_scope.

Notation path := (list (list N)) (only parsing).

(* ---- unix st_mode ---- *)
Definition S_IFMT : N := 61440.   (* 0170000 *)
Definition S_IFDIR : N := 16384.  (* 0040000 *)
Definition S_IFREG : N := 32768.  (* 0100000 *)
Definition S_IFLNK : N := 40960.  (* 0120000 *)
Definition S_IFIFO : N := 4096.   (* 0010000 *)
Definition S_IFCHR : N := 8192.   (* 0020000 *)
Definition S_IFBLK : N := 24576.  (* 0060000 *)
Definition S_IFSOCK : N := 49152. (* 0140000 *)
Definition S_ISGID : N := 1024.
Definition NOW : N := 18446744073709551615.

Record dent := {
  d_mode : N;       (* st_mode: type bits + 07777 *)
  d_uid : N; d_gid : N;
  d_mtime : N;      (* ns *)
  d_rdev : N;
  d_target : bytes; (* symlink target *)
  d_xattrs : list (bytes * bytes);   (* sorted by key *)
  d_content : bytes (* regular files *)
}.

Definition ftype (d : dent) : N := N.land (d_mode d) S_IFMT.
Definition perm12 (d : dent) : N := N.land (d_mode d) allBits.
Definition is_dir (d : dent) : bool := N.eqb (ftype d) S_IFDIR.
Definition is_reg (d : dent) : bool := N.eqb (ftype d) S_IFREG.
Definition is_lnk (d : dent) : bool := N.eqb (ftype d) S_IFLNK.
Definition is_sock (d : dent) : bool := N.eqb (ftype d) S_IFSOCK.
Definition is_dev (d : dent) : bool := N.eqb (ftype d) S_IFCHR || N.eqb (ftype d) S_IFBLK.
Definition has_sgid (d : dent) : bool := nz (N.land (d_mode d) S_ISGID).

Definition set_perm (m12 : N) (d : dent) : dent :=
  {| d_mode := N.lor (ftype d) (N.land m12 allBits); d_uid := d_uid d; d_gid := d_gid d; d_mtime := d_mtime d;
     d_rdev := d_rdev d; d_target := d_target d; d_xattrs := d_xattrs d; d_content := d_content d |}.
Definition set_owner (u g : N) (d : dent) : dent :=
  {| d_mode := d_mode d; d_uid := u; d_gid := g; d_mtime := d_mtime d;
     d_rdev := d_rdev d; d_target := d_target d; d_xattrs := d_xattrs d; d_content := d_content d |}.
Definition set_mtime (t : N) (d : dent) : dent :=
  {| d_mode := d_mode d; d_uid := d_uid d; d_gid := d_gid d; d_mtime := t;
     d_rdev := d_rdev d; d_target := d_target d; d_xattrs := d_xattrs d; d_content := d_content d |}.
Definition set_xattrs (x : list (bytes * bytes)) (d : dent) : dent :=
  {| d_mode := d_mode d; d_uid := d_uid d; d_gid := d_gid d; d_mtime := d_mtime d;
     d_rdev := d_rdev d; d_target := d_target d; d_xattrs := x; d_content := d_content d |}.

(* setxattr(key, value, flags 0): create or replace; list kept sorted by key *)
Fixpoint xattr_set (k v : bytes) (l : list (bytes * bytes)) : list (bytes * bytes) :=
  match l with
  | [] => [(k, v)]
  | (k', v') :: r =>
    match cmp_bytes k k' with
    | Lt => (k, v) :: l
    | Eq => (k, v) :: r
    | Gt => (k', v') :: xattr_set k v r
    end
  end.

(* ---- source trees ---- *)
Inductive snode : Type := SNode (name : bytes) (ino : N) (d : dent) (kids : list snode).
Definition sname (n : snode) := match n with SNode a _ _ _ => a end.
Definition sino (n : snode) := match n with SNode _ i _ _ => i end.
Definition sdent (n : snode) := match n with SNode _ _ d _ => d end.
Definition skids (n : snode) := match n with SNode _ _ _ k => k end.

Fixpoint find_kid (a : bytes) (l : list snode) : option snode :=
  match l with
  | [] => None
  | k :: r => if bytes_eqb (sname k) a then Some k else find_kid a r
  end.

Fixpoint s_lookup (n : snode) (p : path) : option snode :=
  match p with
  | [] => Some n
  | a :: r => match find_kid a (skids n) with Some k => s_lookup k r | None => None end
  end.

Fixpoint s_inos (n : snode) {struct n} : list N :=
  match n with
  | SNode _ i d kids =>
    (if is_dir d then [] else [i]) ++
    (fix go (l : list snode) : list N := match l with [] => [] | k :: r => s_inos k ++ go r end) kids
  end.

Fixpoint count_N (i : N) (l : list N) : nat :=
  match l with [] => O | j :: r => if N.eqb i j then S (count_N i r) else count_N i r end.

(* getLinkInfo: !IsDir && Nlink > 1 (links counted in the whole source root) *)
Definition multi_of (root : snode) (i : N) : bool :=
  match count_N i (s_inos root) with O => false | S O => false | _ => true end.

(* ---- destination file system ---- *)
Fixpoint path_eqb (a b : path) : bool :=
  match a, b with
  | [], [] => true
  | x :: a', y :: b' => bytes_eqb x y && path_eqb a' b'
  | _, _ => false
  end.

Fixpoint is_prefix (a b : path) : bool :=   (* a is a (non-strict) prefix of b *)
  match a, b with
  | [], _ => true
  | x :: a', y :: b' => bytes_eqb x y && is_prefix a' b'
  | _ :: _, [] => false
  end.

Record fsys := {
  names : path -> option N;
  inodes : N -> dent;
  next : N;            (* ids >= next are unused *)
  dom : list path      (* every path that may be bound (superset), for enumeration *)
}.

Definition lstat (fs : fsys) (p : path) : option dent :=
  match names fs p with Some i => Some (inodes fs i) | None => None end.

Definition parent (p : path) : path := removelast p.

Definition set_name (p : path) (v : option N) (fs : fsys) : fsys :=
  {| names := fun q => if path_eqb q p then v else names fs q; inodes := inodes fs; next := next fs;
     dom := p :: dom fs |}.
Definition upd_inode (i : N) (f : dent -> dent) (fs : fsys) : fsys :=
  {| names := names fs; inodes := fun j => if N.eqb j i then f (inodes fs j) else inodes fs j;
     next := next fs; dom := dom fs |}.
Definition upd_path (p : path) (f : dent -> dent) (fs : fsys) : option fsys :=
  match names fs p with Some i => Some (upd_inode i f fs) | None => None end.

Definition touch_parent (p : path) (fs : fsys) : fsys :=
  match p with
  | [] => fs
  | _ => match names fs (parent p) with Some i => upd_inode i (set_mtime NOW) fs | None => fs end
  end.

(* a new inode bound at p (p must be free, its parent an existing directory) *)
Definition k_new (umask : N) (p : path) (typ m12 rdev : N) (target content : bytes) (fs : fsys) : option fsys :=
  match p, names fs p, lstat fs (parent p) with
  | _ :: _, None, Some pd =>
    if is_dir pd then
      let m := andnot (N.land m12 allBits) umask in
      let m' := if N.eqb typ S_IFDIR && has_sgid pd then N.lor m S_ISGID else m in
      let d := {| d_mode := N.lor typ m'; d_uid := 0; d_gid := if has_sgid pd then d_gid pd else 0;
                  d_mtime := NOW; d_rdev := rdev; d_target := target; d_xattrs := []; d_content := content |} in
      let i := next fs in
      Some (touch_parent p
        {| names := fun q => if path_eqb q p then Some i else names fs q;
           inodes := fun j => if N.eqb j i then d else inodes fs j;
           next := i + 1; dom := p :: dom fs |})
    else None
  | _, _, _ => None
  end.

(* mkdir(2): only rwx and sticky survive *)
Definition k_mkdir (umask : N) (p : path) (m12 : N) := k_new umask p S_IFDIR (N.land m12 1023) 0 [] [].
(* os.Create: 0666 *)
Definition k_create (umask : N) (p : path) (content : bytes) := k_new umask p S_IFREG 438 0 [] content.
Definition k_symlink (p : path) (target : bytes) := k_new 0 p S_IFLNK 511 0 target [].
(* mknod(2) with a full st_mode; type bits 0 mean a regular file *)
Definition k_mknod (umask : N) (p : path) (mode rdev : N) :=
  let t := N.land mode S_IFMT in
  k_new umask p (if N.eqb t 0 then S_IFREG else t) (N.land mode allBits) rdev [] [].

(* link(2) *)
Definition k_link (old new : path) (fs : fsys) : option fsys :=
  match new, names fs old, names fs new, lstat fs (parent new) with
  | _ :: _, Some i, None, Some pd =>
    if is_dir pd && negb (is_dir (inodes fs i)) then Some (touch_parent new (set_name new (Some i) fs)) else None
  | _, _, _, _ => None
  end.

(* unlink(2) of a non-directory (os.Remove) *)
Definition k_unlink (p : path) (fs : fsys) : option fsys :=
  match lstat fs p with
  | Some d => if is_dir d then None else Some (touch_parent p (set_name p None fs))
  | None => None
  end.

(* os.RemoveAll *)
Definition k_remove_all (p : path) (fs : fsys) : fsys :=
  match names fs p with
  | None => fs
  | Some _ =>
    touch_parent p
      {| names := fun q => if is_prefix p q then None else names fs q; inodes := inodes fs; next := next fs;
         dom := dom fs |}
  end.

(* ---- options, state, results ---- *)
Record copts := {
  o_chown : option (N * N);
  o_mode : option N;          (* CopyInfo.Mode *)
  o_modestr : bytes;          (* CopyInfo.ModeStr *)
  o_utime : option N;         (* ns *)
  o_dircontents : bool;
  o_replace : bool;           (* AlwaysReplaceExistingDestPaths *)
  o_wild : bool;              (* AllowWildcards *)
  o_umask : N                 (* process umask *)
}.

Inductive err := EDirOverNondir | ENondirOverDir | ENoMatch | EOther | EScope.

Record cstate := {
  c_fs : fsys;
  c_imap : list (N * (path * N));  (* copier.inodes: source inode -> destination path of the copy
                                      that later members are linked to (+ ghost: its inode id) *)
  c_notifs : list (path * bool);   (* change notifications, newest first: (destination path, is-dir) *)
  c_split : bool                   (* ghost: forgetLinkSources dropped a record while another name of
                                      that copy survives: the group will be spread over two inodes *)
}.
Definition with_fs (st : cstate) (fs : fsys) : cstate :=
  {| c_fs := fs; c_imap := c_imap st; c_notifs := c_notifs st; c_split := c_split st |}.

Definition R := (cstate * option err)%type.
Definition ok (st : cstate) : R := (st, None).
Definition fail (e : err) (st : cstate) : R := (st, Some e).
Definition bind (r : R) (k : cstate -> R) : R :=
  match r with (s, None) => k s | (s, Some e) => (s, Some e) end.
Notation "s <~ m ;; k" := (bind m (fun s => k)) (at level 61, m at next level, right associativity).

(* a system call that can fail *)
Definition sys (o : option fsys) (st : cstate) : R :=
  match o with Some fs' => ok (with_fs st fs') | None => fail EOther st end.

Fixpoint imap_find (i : N) (l : list (N * (path * N))) : option (path * N) :=
  match l with [] => None | (j, p) :: r => if N.eqb i j then Some p else imap_find i r end.

Definition notify (p : path) (isdir : bool) (st : cstate) : cstate :=
  {| c_fs := c_fs st; c_imap := c_imap st; c_notifs := (p, isdir) :: c_notifs st; c_split := c_split st |}.

(* forgetLinkSources(path): drop every record whose destination path is [T] or lies below it *)
Definition imap_forget (T : path) (l : list (N * (path * N))) : list (N * (path * N)) :=
  filter (fun e => negb (is_prefix T (fst (snd e)))) l.
Definition forget (T : path) (st : cstate) : cstate :=
  let gone := filter (fun e => is_prefix T (fst (snd e))) (c_imap st) in
  let split := existsb (fun e => existsb (fun q => negb (is_prefix T q) &&
                                    match names (c_fs st) q with Some j => N.eqb j (snd (snd e)) | None => false end)
                                  (dom (c_fs st))) gone in
  {| c_fs := c_fs st; c_imap := imap_forget T (c_imap st); c_notifs := c_notifs st; c_split := c_split st || split |}.

Section Copy.
  Variable o : copts.
  Variable ms : option (list bitcmd).      (* parsed ModeStr *)
  Variable multi : N -> bool.              (* source inode has more than one link *)
  Variable selected : path -> bool.        (* include/exclude verdict on source components (C16); all-true here *)

  (* copyFileTimestamp *)
  Definition copy_file_timestamp (sd : dent) (p : path) (st : cstate) : R :=
    let t := match o_utime o with Some t => t | None => d_mtime sd end in
    sys (upd_path p (set_mtime t) (c_fs st)) st.

  (* the mode copyFileInfo passes to chmod *)
  Definition info_mode (sd : dent) : N :=
    match ms with
    | Some cmds => apply_mode cmds (perm12 sd) (is_dir sd)
    | None => match o_mode o with Some m => N.land m allBits | None => perm12 sd end
    end.
  Definition info_owner (sd : dent) : N * N :=
    match o_chown o with Some ug => ug | None => (d_uid sd, d_gid sd) end.

  (* copyFileInfo: lchown, chmod (not for symlinks), timestamp *)
  Definition copy_file_info (sd : dent) (p : path) (st : cstate) : R :=
    let '(u, g) := info_owner sd in
    s1 <~ sys (upd_path p (set_owner u g) (c_fs st)) st ;;
    s2 <~ (if is_lnk sd then ok s1 else sys (upd_path p (set_perm (info_mode sd)) (c_fs s1)) s1) ;;
    copy_file_timestamp sd p s2.

  (* copyXAttrs *)
  Definition copy_xattrs (sd : dent) (p : path) (st : cstate) : R :=
    sys (upd_path p (fun d => set_xattrs (fold_left (fun l kv => xattr_set (fst kv) (snd kv) l) (d_xattrs sd) (d_xattrs d)) d)
                  (c_fs st)) st.

  (* removeTargetIfNeeded *)
  Definition remove_target_if_needed (target : path) (sd : dent) (tfi : option dent) (st : cstate) : R :=
    if negb (o_replace o) then ok st else
    match tfi with
    | None => ok st
    | Some td => if is_dir sd && is_dir td then ok st
                 else let st' := forget target st in ok (with_fs st' (k_remove_all target (c_fs st')))
    end.

  (* ensureEmptyFileTarget *)
  Definition ensure_empty_file_target (target : path) (st : cstate) : R :=
    match lstat (c_fs st) target with
    | None => ok st
    | Some td => if is_dir td then fail ENondirOverDir st else sys (k_unlink target (c_fs st)) st
    end.

  (* copyDirectoryOnly: (state, error, created) *)
  Definition copy_dir_only (target : path) (sd : dent) (ow : bool) (st : cstate) : cstate * option err * bool :=
    match lstat (c_fs st) target with
    | None =>
      match k_mkdir (o_umask o) target (perm12 sd) (c_fs st) with
      | Some fs' => (with_fs st fs', None, true)
      | None => (st, Some EOther, false)
      end
    | Some td =>
      if negb (is_dir td) then (st, Some EDirOverNondir, false)
      else if ow then
        match upd_path target (set_perm (perm12 sd)) (c_fs st) with
        | Some fs' => (with_fs st fs', None, false)
        | None => (st, Some EOther, false)
        end
      else (st, None, false)
    end.

  (* regular file: getLinkSource + os.Link, or copyFile *)
  Definition copy_regular (ino : N) (sd : dent) (target : path) (st : cstate) : R :=
    let fresh := sys (k_create (o_umask o) target (d_content sd) (c_fs st)) in
    if multi ino then
      match imap_find ino (c_imap st) with
      | Some (link, _) => sys (k_link link target (c_fs st)) st
      | None => fresh {| c_fs := c_fs st; c_imap := (ino, (target, next (c_fs st))) :: c_imap st;
                         c_notifs := c_notifs st; c_split := c_split st |}
      end
    else fresh st.

  (* copyDevice: devices keep st_rdev, fifos get 0, a socket becomes a regular stub *)
  Definition copy_device (sd : dent) (target : path) (st : cstate) : R :=
    let mode := if is_sock sd then andnot (d_mode sd) S_IFSOCK else d_mode sd in
    sys (k_mknod (o_umask o) target mode (if is_dev sd then d_rdev sd else 0) (c_fs st)) st.

  (* copier.copy + copyDirectory.  [sc] = srcComponents ([] for the top-level source),
     [ow] = overwriteTargetMetadata *)
  Fixpoint copy_node (n : snode) (sc target : path) (ow : bool) (st : cstate) {struct n} : R :=
    match n with
    | SNode _ ino sd kids =>
      let tfi := lstat (c_fs st) target in
      let include := match sc with [] => true | _ => selected sc end in
      st1 <~ (if include then remove_target_if_needed target sd tfi st else ok st) ;;
      (* createParentDirs (deferred creation of unselected ancestors) belongs to C16: with
         [selected] all-true the list of pending parents is always empty *)
      if is_dir sd then
        match (if include then copy_dir_only target sd ow st1 else (st1, None, false)) with
        | (st2, Some e, _) => (st2, Some e)
        | (st2, None, created) =>
          let st3 := if include && (created || ow) then notify target true st2 else st2 in
          st4 <~ (fix kids_loop (l : list snode) (s : cstate) {struct l} : R :=
                    match l with
                    | [] => ok s
                    | k :: r =>
                      s' <~ copy_node k (sc ++ [sname k]) (target ++ [sname k]) true s ;;
                      kids_loop r s'
                    end) kids st3 ;;
          let cfi := if ow then include else created in
          let restore := if ow then false else negb created in
          if cfi then (s5 <~ copy_file_info sd target st4 ;; copy_xattrs sd target s5)
          else if restore && (match tfi with Some _ => true | None => false end)
               then copy_file_timestamp sd target st4
          else ok st4
        end
      else if negb include then ok st1
      else
        (* if targetFi != nil { c.forgetLinkSources(target) } *)
        st2 <~ ensure_empty_file_target target
                 (match tfi with Some _ => forget target st1 | None => st1 end) ;;
        st3 <~ (if is_reg sd then copy_regular ino sd target st2
                else if is_lnk sd then sys (k_symlink target (d_target sd) (c_fs st2)) st2
                else copy_device sd target st2) ;;
        st4 <~ copy_file_info sd target st3 ;;
        st5 <~ copy_xattrs sd target st4 ;;
        ok (notify target false st5)
    end.

  (* MkdirAll on the reversed component list: (state, error, created directories, parents first) *)
  Fixpoint mkdir_all_rev (rp : path) (st : cstate) {struct rp} : cstate * option err * list path :=
    let p := rev rp in
    match lstat (c_fs st) p with
    | Some d => if is_dir d then (st, None, []) else (st, Some (if is_lnk d then EScope else EOther), [])
    | None =>
      match rp with
      | [] => (st, Some EOther, [])
      | _ :: rp' =>
        match mkdir_all_rev rp' st with
        | (st1, Some e, _) => (st1, Some e, [])
        | (st1, None, created) =>
          let perm := match o_mode o with Some m => m | None => 493 end in
          match k_mkdir (o_umask o) p (N.land perm 511) (c_fs st1) with
          | None => (st1, Some EOther, [])
          | Some fs1 =>
            let fs2 := match o_chown o with
                       | Some (u, g) => match upd_path p (set_owner u g) fs1 with Some f => f | None => fs1 end
                       | None => fs1 end in
            let fs3 := match o_utime o with
                       | Some t => match upd_path p (set_mtime t) fs2 with Some f => f | None => fs2 end
                       | None => fs2 end in
            (with_fs st1 fs3, None, created ++ [p])
          end
        end
      end
    end.
  Definition mkdir_all (p : path) (st : cstate) := mkdir_all_rev (rev p) st.

  (* fixCreatedParentDirs (deferred; errors dropped) *)
  Definition fix_created (dirs : list path) (st : cstate) : cstate :=
    match o_utime o with
    | None => st
    | Some t =>
      fold_left (fun s d => match upd_path d (set_mtime t) (c_fs s) with Some f => with_fs s f | None => s end)
                dirs st
    end.
End Copy.

(* ---- path arguments ---- *)
Definition nonempty (c : bytes) : bool := match c with [] => false | _ => true end.

(* one lexical step of filepath.Join/Clean on a rooted component stack (top last) *)
Definition lex_step (stk : path) (c : bytes) : path :=
  if bytes_eqb c [] || bytes_eqb c s_dot then stk
  else if bytes_eqb c s_dotdot then removelast stk
  else stk ++ [c].

(* components of Clean("/" + p): the path below a root *)
Definition rooted (p : bytes) : path := fold_left lex_step (comps p) [].

(* continuity fs.RootPath(dstRoot, p) on a symlink-free path: every prefix is lstat'ed;
   a non-directory in the middle is ENOTDIR, a symlink is outside this model *)
Definition root_path (fs : fsys) (p : bytes) : path + err :=
  fold_left (fun (acc : path + err) c =>
    match acc with
    | inr e => inr e
    | inl stk =>
      let stk' := lex_step stk c in
      match stk' with
      | [] => inl stk'
      | _ =>
        match lstat fs (parent stk') with
        | Some pd =>
          if is_dir pd then
            match lstat fs stk' with
            | Some d => if is_lnk d then inr EScope else inl stk'
            | None => inl stk'
            end
          else inr (if is_lnk pd then EScope else EOther)
        | None => inl stk'
        end
      end
    end) (comps p) (inl []).

(* rootPath(srcRoot, src, followLinks=false) + the Lstat in prepareTargetDir *)
Fixpoint s_resolve (n : snode) (p : path) : snode + err :=
  match p with
  | [] => inl n
  | a :: r =>
    if is_dir (sdent n) then
      match find_kid a (skids n) with
      | Some k => s_resolve k r
      | None => inr EOther
      end
    else inr (if is_lnk (sdent n) then EScope else EOther)
  end.

(* ---- wildcards ---- *)
Definition ch_star : N := 42. Definition ch_qm : N := 63. Definition ch_lbr : N := 91. Definition ch_bsl : N := 92.

(* filepath.Match restricted to patterns made of literals, '*' and '?' (one component) *)
Fixpoint glob (pat name : bytes) {struct pat} : bool :=
  match pat with
  | [] => match name with [] => true | _ => false end
  | c :: pr =>
    if N.eqb c ch_star then
      (fix try (n : bytes) : bool := glob pr n || match n with [] => false | _ :: n' => try n' end) name
    else match name with
         | [] => false
         | x :: nr => (N.eqb c ch_qm || N.eqb c x) && glob pr nr
         end
  end.

Fixpoint glob_path (pat rel : path) : bool :=
  match pat, rel with
  | [], [] => true
  | p :: pr, r :: rr => glob p r && glob_path pr rr
  | _, _ => false
  end.

Definition has_wild (c : bytes) : bool := existsb (fun x => N.eqb x ch_star || N.eqb x ch_qm || N.eqb x ch_lbr) c.
Definition has_unsupported (c : bytes) : bool := existsb (fun x => N.eqb x ch_lbr || N.eqb x ch_bsl) c.

(* splitWildcards on Clean(p): components before the first wildcard component / the rest *)
Fixpoint split_wild (cs : path) : path * path :=
  match cs with
  | [] => ([], [])
  | c :: r => if has_wild c then ([], cs) else let '(a, b) := split_wild r in (c :: a, b)
  end.

(* ---- backslash escapes (Linux): containsWildcards skips the byte after a backslash; filepath.Match
   takes it literally.  Character classes ([...]) and a trailing lone backslash stay outside the model. *)
Fixpoint has_wild_e (c : bytes) : bool :=
  match c with
  | [] => false
  | x :: r =>
    if N.eqb x ch_bsl then match r with [] => false | _ :: r' => has_wild_e r' end
    else N.eqb x ch_star || N.eqb x ch_qm || N.eqb x ch_lbr || has_wild_e r
  end.
(* an unescaped '[' or a trailing lone backslash *)
Fixpoint has_unsupported_e (c : bytes) : bool :=
  match c with
  | [] => false
  | x :: r =>
    if N.eqb x ch_bsl then match r with [] => true | _ :: r' => has_unsupported_e r' end
    else N.eqb x ch_lbr || has_unsupported_e r
  end.
Fixpoint split_wild_e (cs : path) : path * path :=
  match cs with
  | [] => ([], [])
  | c :: r => if has_wild_e c then ([], cs) else let '(a, b) := split_wild_e r in (c :: a, b)
  end.
(* filepath.Match on one component: literals, '*', '?', '\x' *)
Fixpoint glob_e (pat name : bytes) {struct pat} : bool :=
  match pat with
  | [] => match name with [] => true | _ => false end
  | c :: pr =>
    if N.eqb c ch_star then
      (fix try (n : bytes) : bool := glob_e pr n || match n with [] => false | _ :: n' => try n' end) name
    else if N.eqb c ch_bsl then
      match pr with
      | [] => false
      | e :: pr' => match name with [] => false | x :: nr => N.eqb e x && glob_e pr' nr end
      end
    else match name with
         | [] => false
         | x :: nr => (N.eqb c ch_qm || N.eqb c x) && glob_e pr nr
         end
  end.
Fixpoint glob_path_e (pat rel : path) : bool :=
  match pat, rel with
  | [], [] => true
  | p :: pr, r :: rr => glob_e p r && glob_path_e pr rr
  | _, _ => false
  end.

(* resolveWildcards: filepath.Walk below [n] (names in stored = lexical order), matches are
   not descended into *)
Fixpoint wild_walk (pat : path) (rel : path) (n : snode) {struct n} : list path :=
  match n with
  | SNode _ _ d kids =>
    (fix go (l : list snode) : list path :=
       match l with
       | [] => []
       | k :: r =>
         let rel' := rel ++ [sname k] in
         (if glob_path_e pat rel' then [rel']
          else if is_dir (sdent k) then wild_walk pat rel' k else []) ++ go r
       end) kids
  end.

Definition joinp (p : path) : bytes := joinc p.

(* ---- Copy ---- *)
Section Top.
  Variable o : copts.
  Variable selected : path -> bool.
  Variable sroot : snode.        (* the source root directory *)

  (* filepath.Join(destPath, filepath.Base(filepath.Join("/", src))): the last component of the
     resolved source path; the root itself ("/") adds nothing *)
  Definition join_base (d : path) (src : bytes) : path :=
    match rev (rooted src) with
    | [] => d
    | b :: _ => d ++ [b]
    end.

  (* one source: rootPath, prepareTargetDir, copier.copy.  Returns the state, the error and
     the directories MkdirAll created (for the deferred fixCreatedParentDirs) *)
  Definition copy_one (ms : option (list bitcmd)) (dst : bytes) (src : bytes) (st : cstate)
    : cstate * option err * list path :=
    match s_resolve sroot (rooted src), root_path (c_fs st) (clean dst) with
    | inr e, _ => (st, Some e, [])
    | _, inr e => (st, Some e, [])
    | inl sn, inl dstp =>
      let fi_dest := lstat (c_fs st) dstp in
      match (match fi_dest with Some d => is_lnk d | None => false end) with
      | true => (st, Some EScope, [])
      | false =>
        let src_dir := is_dir (sdent sn) in
        let dest_exists := match fi_dest with Some _ => true | None => false end in
        let dest_dir := match fi_dest with Some d => is_dir d | None => false end in
        let dest_path := if (negb (o_dircontents o) && src_dir && dest_exists) || (negb src_dir && dest_dir)
                         then join_base dstp src else dstp in
          let target := if o_dircontents o && src_dir && negb dest_exists then dest_path else parent dest_path in
          match mkdir_all o target st with
          | (st1, Some e, _) => (st1, Some e, [])
          | (st1, None, created) =>
            let '(st2, e) := copy_node o ms (multi_of sroot) selected sn [] dest_path false st1 in
            (st2, e, created)
          end
      end
    end.

  Fixpoint copy_srcs (ms : option (list bitcmd)) (dstp : bytes) (srcs : list bytes) (st : cstate)
    : cstate * option err * list path :=
    match srcs with
    | [] => (st, None, [])
    | s :: r =>
      match copy_one ms dstp s st with
      | (st1, Some e, cr) => (st1, Some e, cr)
      | (st1, None, cr) => let '(st2, e, cr2) := copy_srcs ms dstp r st1 in (st2, e, cr ++ cr2)
      end
    end.

  (* ResolveWildcards: splitWildcards on Clean(src) (backslash escapes honoured: the components before
     the first one with an unescaped metacharacter are a literal path, backslashes included), then the
     walk below the literal prefix *)
  Definition resolve_wild (src : bytes) : list bytes + err :=
    let cs0 := match src with [] => [[]] | _ => comps (clean src) end in
    let cs := map (fun c => match c with [] => [sep] | _ => c end) cs0 in
    let '(p1, p2) := split_wild_e cs in
    let d1 := match p1 with [] => [] | _ => clean (joinc p1) end in
    if existsb has_unsupported_e p2 then inr EScope else
    match p2 with
    | [] => inl [d1]
    | _ =>
      match s_resolve sroot (rooted d1) with
      | inr e => inr e
      | inl base_node => inl (map (fun m => joinc (rooted d1 ++ m)) (wild_walk p2 [] base_node))
      end
    end.

  Definition copy_top (fs : fsys) (src dst : bytes) : R :=
    let st0 := {| c_fs := fs; c_imap := []; c_notifs := []; c_split := false |} in
    let ensure := match split_last dst with
                  | Some (d, f) => if nonempty f && negb (bytes_eqb f s_dot) && negb (bytes_eqb f s_dotdot) then d else dst
                  | None => if nonempty dst && negb (bytes_eqb dst s_dot) && negb (bytes_eqb dst s_dotdot) then [] else dst
                  end in
    let '(st1, e1, cr1) :=
      match ensure with
      | [] => (st0, None, [])
      | _ => match root_path fs ensure with
             | inr e => (st0, Some e, [])
             | inl ep => mkdir_all o ep st0
             end
      end in
    match e1 with
    | Some e => (st1, Some e)
    | None =>
      let body : cstate * option err * list path :=
        match (match o_modestr o with [] => Some None | s => option_map Some (parse_mode s) end) with
        | None => (st1, Some EOther, [])
        | Some ms =>
          match (if o_wild o then resolve_wild src else inl [src]) with
          | inr e => (st1, Some e, [])
          | inl [] => (st1, Some ENoMatch, [])
          | inl srcs => copy_srcs ms dst srcs st1
          end
        end in
      let '(st2, e2, cr2) := body in
      (fix_created o (cr1 ++ cr2) st2, e2)
    end.
End Top.

(* ---- enumeration of the result (for the correspondence) ---- *)
Fixpoint insert_path (p : path) (l : list path) : list path :=
  match l with
  | [] => [p]
  | q :: r => match lex_cmp p q with
              | Lt => p :: l
              | Eq => l
              | Gt => q :: insert_path p r
              end
  end.
Definition sort_paths (l : list path) : list path := fold_right insert_path [] l.

Definition fs_list (fs : fsys) : list (path * N * dent) :=
  flat_map (fun p => match names fs p with Some i => [(p, i, inodes fs i)] | None => [] end)
           (sort_paths (dom fs)).
