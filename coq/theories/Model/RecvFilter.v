(* C03 — ReceiveOpt.Filter: the callback the receiver hands to the disk writer and to
   doubleWalkDiff.
     diskwriter.go HandleChange:  delete: if !filter(p, &empty) { return nil }
                                  add / modify: statCopy := stat.Clone(); if !filter(p, statCopy) { return nil };
                                  everything after that uses statCopy
     diff_containerd.go:          filter(f2.path, statCopy) before f2 is compared with the old entry
                                  (sameFile); its answer is ignored there
   A filter is modelled by [f_rej] (the paths it answers false for) and [f_map] (what it does to
   the copy of the stat; the generated filters shift uid and gid, as an id-mapping filter does,
   and leave path, mode and link name alone).  The receive loop itself (validators, ids, the
   metadata branch) does not consult the filter.
   These are the definitions of Model/DiskWriterFs.v with the filter threaded through; without a
   filter the originals are used (Model/RecvMeta.v [recv_run_opt]). *)
From Coq Require Import List NArith Bool.
From FS Require Import Sx Model.Path Model.Stat Model.Validator Model.Fs Model.DiskWriterFs.
Import ListNotations.
Open Scope N_scope.
Open Scope bool_scope.

Record rfilter := { f_rej : bytes -> bool; f_map : stat -> stat }.

(* a rejected change is no change (and no effect); an accepted one is applied with the mapped stat *)
Definition apply_change_f (fl : rfilter) (c : ctx) (idx : nat) (kind : N) (p : bytes) (s : stat) (st : rstate) : rstate :=
  if f_rej fl p then st else apply_change c idx kind p (if N.eqb kind 2 then s else f_map fl s) st.

Fixpoint diff_feed_f (fl : rfilter) (c : ctx) (idx : nat) (f2 : stat) (old : list stat) (st : rstate) : rstate :=
  match old with
  | [] => apply_change_f fl c idx 0 (st_path f2) f2 (set_diff st [] [])
  | f1 :: rest =>
    match compare_path (st_path f1) (st_path f2) with
    | Lt =>
      if suppressed (r_rmdir st) (st_path f1) then diff_feed_f fl c idx f2 rest (set_diff st rest (r_rmdir st))
      else
        let st1 := apply_change_f fl c idx 2 (st_path f1) f1 (set_diff st rest (rm_prefix_of f1)) in
        if live st1 then diff_feed_f fl c idx f2 rest st1 else st1
    | Gt => apply_change_f fl c idx 0 (st_path f2) f2 (set_diff st old [])
    | Eq =>
      let rm := if st_is_dir f1 && negb (st_is_dir f2) then st_path f1 ++ [sep] else [] in
      let st1 := set_diff st rest rm in
      if same_file f1 (f_map fl f2) then st1 else apply_change_f fl c idx 1 (st_path f2) f2 st1
    end
  end.

Fixpoint diff_flush_f (fl : rfilter) (c : ctx) (idx : nat) (old : list stat) (st : rstate) : rstate :=
  match old with
  | [] => set_diff st [] (r_rmdir st)
  | f1 :: rest =>
    if suppressed (r_rmdir st) (st_path f1) then diff_flush_f fl c idx rest (set_diff st rest (r_rmdir st))
    else
      let st1 := apply_change_f fl c idx 2 (st_path f1) f1 (set_diff st rest (rm_prefix_of f1)) in
      if live st1 then diff_flush_f fl c idx rest st1 else st1
  end.

(* the diff with or without a filter *)
Definition dfeed (flt : option rfilter) : ctx -> nat -> stat -> list stat -> rstate -> rstate :=
  match flt with None => diff_feed | Some fl => diff_feed_f fl end.
Definition dflush (flt : option rfilter) : ctx -> nat -> list stat -> rstate -> rstate :=
  match flt with None => diff_flush | Some fl => diff_flush_f fl end.

Definition recv_stat_f (fl : rfilter) (c : ctx) (idx : nat) (s : stat) (st : rstate) : rstate :=
  let files := if mode_is_regular (st_mode s) then bset (st_path s) (r_next st) (r_files st) else r_files st in
  let st0 := set_valid st (r_vstk st) (r_seen st) files (r_next st + 1) in
  match vstep (r_vstk st) (item_of s) with
  | None => set_out st0 (Failed idx)
  | Some v' =>
    match hl_step (r_seen st) s with
    | None => set_out (set_valid st0 v' (r_seen st) files (r_next st + 1)) (Failed idx)
    | Some seen' =>
      let st1 := set_valid st0 v' seen' files (r_next st + 1) in
      if is_dead st1 && negb (r_closed st1) then set_out st1 (Failed idx)
      else if r_closed st1 then set_out st1 (Panicked idx)
      else diff_feed_f fl c idx s (r_old st1) st1
    end
  end.

(* a packet other than a non-empty STAT *)
Definition recv_other (flt : option rfilter) (c : ctx) (dl : bool) (idx : nat) (pk : packet) (st : rstate) : rstate :=
  match flt with
  | None => recv_packet c dl idx pk st
  | Some fl =>
    if negb (running st) then st else
    maybe_wait c dl idx
      match pk with
      | PErr => set_out st (Failed idx)
      | PFin => set_out st (Drained idx)
      | POther => st
      | PStat None =>
        if r_closed st then set_out st (Panicked idx)
        else if is_dead st then set_out st (Failed idx)
        else diff_flush_f fl c idx (r_old st) (set_flags st true (r_waited st))
      | PStat (Some s) => recv_stat_f fl c idx s st
      | PData id d => recv_data c idx id d st
      end
  end.

Fixpoint recv_loop_f (flt : option rfilter) (c : ctx) (dl : bool) (idx : nat) (pks : list packet) (st : rstate) : rstate :=
  match pks with
  | [] => st
  | pk :: r => recv_loop_f flt c dl (S idx) r (recv_other flt c dl idx pk st)
  end.
