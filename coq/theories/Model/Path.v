(* L0 — paths as byte strings.  Models (for '/' as separator, i.e. the Linux build):
     fsutil.ComparePath                      -> compare_path      (byte loop transcribed)
     path/filepath.Clean                     -> clean             (component-wise formulation of Go's four rules)
     path/filepath.IsAbs / Dir / Base / Join -> is_abs dir base join2
     strings.HasPrefix                       -> has_prefix
   and the component view used by specifications: comps / joinc / lex_cmp. *)
From Coq Require Import List NArith Bool.
From FS Require Import Sx.
Import ListNotations.
Open Scope N_scope.
Open Scope bool_scope.

Definition sep : N := 47.   (* '/' *)
Definition dot : N := 46.   (* '.' *)

Definition s_dot : bytes := [dot].
Definition s_dotdot : bytes := [dot; dot].
Definition s_dotdotsep : bytes := [dot; dot; sep].

(* --- fsutil.ComparePath: byte-by-byte, separator sorts lowest, then length --- *)
Fixpoint compare_path (p q : bytes) : comparison :=
  match p, q with
  | [], [] => Eq
  | [], _ => Lt
  | _, [] => Gt
  | a :: p', b :: q' =>
    if N.eqb a b then compare_path p' q'
    else if (negb (N.eqb b sep) && N.ltb a b) || N.eqb a sep then Lt else Gt
  end.

(* --- Go string comparison (<, >=) is bytewise lexicographic --- *)
Fixpoint cmp_bytes (a b : bytes) : comparison :=
  match a, b with
  | [], [] => Eq | [], _ => Lt | _, [] => Gt
  | x :: a', y :: b' => match N.compare x y with Eq => cmp_bytes a' b' | c => c end
  end.

(* --- component view --- *)
(* split at every separator: "a/b" -> [a;b], "" -> [[]], "/a" -> [[];a], "a/" -> [a;[]] *)
Fixpoint comps (p : bytes) : list bytes :=
  match p with
  | [] => [[]]
  | a :: p' =>
    if N.eqb a sep then [] :: comps p'
    else match comps p' with
         | [] => [[a]]   (* impossible *)
         | c :: cs => (a :: c) :: cs
         end
  end.

Fixpoint joinc (cs : list bytes) : bytes :=
  match cs with
  | [] => []
  | [c] => c
  | c :: r => c ++ sep :: joinc r
  end.

Fixpoint lex_cmp (a b : list bytes) : comparison :=
  match a, b with
  | [], [] => Eq | [], _ => Lt | _, [] => Gt
  | x :: a', y :: b' => match cmp_bytes x y with Eq => lex_cmp a' b' | c => c end
  end.

(* components of a relative path, with "" denoting the root (no components) *)
Definition pcomps (p : bytes) : list bytes := match p with [] => [] | _ => comps p end.

(* --- strings.HasPrefix --- *)
Fixpoint has_prefix (pre s : bytes) : bool :=
  match pre, s with
  | [], _ => true
  | a :: pre', b :: s' => N.eqb a b && has_prefix pre' s'
  | _ :: _, [] => false
  end.

Definition is_abs (p : bytes) : bool :=
  match p with a :: _ => N.eqb a sep | [] => false end.

(* --- filepath.Clean --- *)
(* one component processed against the stack of kept components (top first) *)
Definition cstep (rooted : bool) (stk : list bytes) (c : bytes) : list bytes :=
  if bytes_eqb c [] || bytes_eqb c s_dot then stk
  else if bytes_eqb c s_dotdot then
    match stk with
    | t :: r => if bytes_eqb t s_dotdot then c :: stk else r
    | [] => if rooted then stk else [c]
    end
  else c :: stk.

Definition clean (p : bytes) : bytes :=
  let rooted := is_abs p in
  let out := joinc (rev (fold_left (cstep rooted) (comps p) [])) in
  if rooted then sep :: out
  else match out with [] => s_dot | _ => out end.

(* index-free "split at the last separator": (through-last-sep, rest) *)
Fixpoint split_last (p : bytes) : option (bytes * bytes) :=
  match p with
  | [] => None
  | a :: p' =>
    match split_last p' with
    | Some (d, b) => Some (a :: d, b)
    | None => if N.eqb a sep then Some ([a], p') else None
    end
  end.

(* filepath.Dir: Clean(path[:i+1]) with i the last separator *)
Definition dir (p : bytes) : bytes :=
  match split_last p with
  | Some (d, _) => clean d
  | None => clean []
  end.

(* filepath.Base: strip trailing separators, take what follows the last separator *)
Fixpoint strip_trailing_seps_rev (r : bytes) : bytes :=
  match r with
  | a :: r' => if N.eqb a sep then strip_trailing_seps_rev r' else r
  | [] => []
  end.
Definition strip_trailing_seps (p : bytes) : bytes := rev (strip_trailing_seps_rev (rev p)).

Definition base (p : bytes) : bytes :=
  match p with
  | [] => s_dot
  | _ =>
    let q := strip_trailing_seps p in
    match q with
    | [] => [sep]
    | _ => match split_last q with Some (_, b) => b | None => q end
    end
  end.

(* filepath.Join(a, b) for two elements: empty elements are ignored, result cleaned *)
Definition join2 (a b : bytes) : bytes :=
  match a, b with
  | [], [] => []
  | [], _ => clean b
  | _, [] => clean a
  | _, _ => clean (a ++ sep :: b)
  end.

(* path order as a boolean "strictly before" *)
Definition path_ltb (p q : bytes) : bool :=
  match compare_path p q with Lt => true | _ => false end.
