(* L5 — the destination as a map  path -> (stat, bytes, inode class)  and the abstract
   effect of DiskWriter.HandleChange / processChange / requestAsyncFileData (diskwriter.go)
   together with receiver.asyncDataFunc (receive.go), "Level A" of DESIGN section 3.

   What one HandleChange(kind, p, fi) does here ([apply_map]):
     delete                     os.RemoveAll(dest/p): p and everything below disappear
     add/modify, lstat finds a directory and fi is a directory
                                rewriteMetadata in place (same inode), notify
     add/modify otherwise       new inode created next to p (directory, device/fifo, symlink,
                                hard link to dest/Linkname, or regular file whose content is
                                REQUESTED from the sender), metadata written, then — if
                                something was at p — RemoveAll(p) when directory-ness differs,
                                and rename over p.  modify of a missing path = error.
   A device or fifo entry WITH a Linkname is a further name of an existing inode like a regular
   one: the device / fifo case of the switch applies to an empty Linkname only ([is_hardlink] =
   neither directory nor symbolic link, Linkname non-empty; the walker reports a Linkname for
   every non-directory with more than one name).
   Re-linking a path that already is a link to the inode of dest/Linkname leaves the tree
   as it is (since /repo 19c7373 the temporary link is removed instead of renamed): here the
   entry keeps the inode class of its target, which is the one it had.
   Content: a regular file without Linkname gets the bytes the source holds for p
   ([src p]); a hard link shares bytes and inode class with dest/Linkname (error when that
   is missing or a directory).
   Metadata of a hard link: os.Link gives the inode of dest/Linkname one more name and
   nothing is written to that inode (rewriteMetadata is skipped for hard-link entries): the
   new name shows mode, uid, gid, size, mtime, device numbers and xattrs of the entry that
   dest/Linkname holds AT THAT MOMENT ([link_stat]); only the path (and the Linkname, which is
   not on disk) are those of the stat that was sent.  A sender whose hard-link entries carry
   other metadata than their target ("dishonest": fs.Walk never does that, all names of an
   inode are listed with the same metadata) therefore does not get what it sent — but the
   notification still carries the stat as sent ([honest_change], [honest_run], [links_meta]
   are the decidable hypotheses of the theorems that need the two to agree).
   Notification ([notif_of]): delete -> (delete, p); regular file with requested content ->
   (ADD, p, stat, H(hdr stat ++ bytes)) whatever the change kind was (requestAsyncFileData
   calls processChange with ChangeKindAdd); everything else -> (kind, p, stat, H(hdr stat)).
   [H] = the hash, [hdr] = what the caller's ContentHasher feeds it for the stat: Section
   variables.

   Simplifications (stated, not hidden):
   * the FilterFunc of the DiskWriter (DiskWriterOpt.Filter = ReceiveOpt.Filter) is modelled by
     the [_f] variants at the end of this file ([receive_abs_f]): the writer works on a COPY of
     the stat that the filter has rewritten (metadata on disk, link and symlink targets, device
     numbers), the notification and the hashed header keep the stat as sent; everything above
     is the case filter = nil;
   * file contents complete in HandleChange order: the model emits the notification of a
     regular file at the position of its HandleChange call; the real one is emitted by a
     goroutine when the content has arrived (any later position) — see
     Proofs/AbsDestP.v, replay_delay, for why the position does not matter;
   * a hard-link entry that names a symbolic link (os.Link succeeds and gives the link itself
     a second name) is kept with the stat as sent; [links_ok] excludes it, no generator
     produces it (the walker reports a second name of a symbolic link as a symbolic link whose
     target is the first name — not a hard-link entry at all);
   * a default-branch entry whose mode has ModeSocket/ModeIrregular/lone ModeCharDevice
     would make receiver.asyncDataFunc fail ("invalid file request"); not modelled;
   * the directory-mtime pass of DiskWriter.Wait is not modelled (directory mtime and size
     are not part of the identity key);
   * timing: the destination listing is an input (what the destination walker reported). *)
From Coq Require Import List NArith Bool.
From FS Require Import Sx Model.Path Model.Stat Model.Diff.
Import ListNotations.
Open Scope N_scope.
Open Scope bool_scope.

(* ---- association lists keyed by path (first binding wins) ---- *)
Section AMap.
Context {V : Type}.
Definition amap := list (bytes * V).
Definition alookup (p : bytes) (M : amap) : option V :=
  match find (fun kv => bytes_eqb (fst kv) p) M with Some kv => Some (snd kv) | None => None end.
Definition aremove_if (f : bytes -> bool) (M : amap) : amap := filter (fun kv => negb (f (fst kv))) M.
Definition aset (p : bytes) (v : V) (M : amap) : amap := (p, v) :: aremove_if (bytes_eqb p) M.
End AMap.
Arguments amap V : clear implicits.

(* p itself or anything below it *)
Definition at_or_below (q p : bytes) : bool := bytes_eqb q p || above q p.

Record dentry := { de_stat : stat; de_bytes : bytes; de_ino : N }.
Definition dmap := amap dentry.

(* the switch of HandleChange *)
Definition is_special (st : stat) : bool :=
  has_bits (st_mode st) ModeDevice || has_bits (st_mode st) ModeNamedPipe.
(* reaches the last two cases of the switch: hard link or regular file *)
Definition is_reg (st : stat) : bool :=
  negb (st_is_dir st) && negb (is_special st) && negb (mode_is_symlink (st_mode st)).
(* an inode that can have several names in a listing: anything but a directory or a symbolic link
   (for a symbolic link Linkname is its target) *)
Definition is_node (st : stat) : bool := negb (st_is_dir st) && negb (mode_is_symlink (st_mode st)).
(* a FURTHER NAME of such an inode — regular file, device or fifo alike: the device / fifo case of
   HandleChange applies to an empty Linkname only, every other non-directory, non-symlink entry
   with a Linkname reaches `case statCopy.Linkname != ""` (os.Link) *)
Definition is_hardlink (st : stat) : bool := is_node st && negb (is_empty (st_linkname st)).
(* default case: regular file whose content is requested *)
Definition wants_content (st : stat) : bool := is_reg st && is_empty (st_linkname st).

Definition entry := (stat * bytes)%type.           (* listing entry with content, as Tree.entry *)
Definition efind (p : bytes) (E : list entry) : option entry :=
  find (fun e => bytes_eqb (st_path (fst e)) p) E.
Definition src_of (E : list entry) (p : bytes) : bytes :=
  match efind p E with Some e => snd e | None => [] end.

(* what two names of one inode share *)
Definition ino_meta_eq (t s : stat) : Prop :=
  st_mode t = st_mode s /\ st_uid t = st_uid s /\ st_gid t = st_gid s /\ st_size t = st_size s
  /\ st_mtime t = st_mtime s /\ st_devmajor t = st_devmajor s /\ st_devminor t = st_devminor s
  /\ st_xattrs t = st_xattrs s.
Definition ino_meta_eqb (t s : stat) : bool :=
  N.eqb (st_mode t) (st_mode s) && N.eqb (st_uid t) (st_uid s) && N.eqb (st_gid t) (st_gid s)
  && N.eqb (st_size t) (st_size s) && N.eqb (st_mtime t) (st_mtime s)
  && N.eqb (st_devmajor t) (st_devmajor s) && N.eqb (st_devminor t) (st_devminor s)
  && xattrs_eqb (st_xattrs t) (st_xattrs s).

(* the stat a NEW NAME of the inode shown as [t] presents when it was announced as [st]: the
   inode's metadata under the path (and Linkname) of the announcement *)
Definition link_stat (t st : stat) : stat :=
  if is_node t then
    {| st_path := st_path st; st_mode := st_mode t; st_uid := st_uid t; st_gid := st_gid t;
       st_size := st_size t; st_mtime := st_mtime t; st_linkname := st_linkname st;
       st_devmajor := st_devmajor t; st_devminor := st_devminor t; st_xattrs := st_xattrs t |}
  else st.

Section Apply.
Variable src : bytes -> bytes.          (* content the sender holds for a path *)

(* None = HandleChange returns an error (the transfer aborts) *)
Definition apply_map (D : dmap) (next : N) (c : change) : option (dmap * N) :=
  match c with
  | (KDelete, p, _) => Some (aremove_if (at_or_below p) D, next)
  | (_, _, None) => None                                     (* "change without stat info" *)
  | (k, p, Some st) =>
    let old := alookup p D in
    match old, k with
    | None, KModify => None                                  (* "modify/rm" *)
    | _, _ =>
      match old with
      | Some o =>
        if st_is_dir st && st_is_dir (de_stat o) then
          (* directory over directory: metadata only *)
          Some (aset p {| de_stat := st; de_bytes := de_bytes o; de_ino := de_ino o |} D, next)
        else
          let D1 := if Bool.eqb (st_is_dir (de_stat o)) (st_is_dir st) then D
                    else aremove_if (at_or_below p) D in
          if is_hardlink st then
            match alookup (st_linkname st) D with
            | Some t => if st_is_dir (de_stat t) then None
                        else Some (aset p {| de_stat := link_stat (de_stat t) st; de_bytes := de_bytes t; de_ino := de_ino t |} D1, next)
            | None => None
            end
          else Some (aset p {| de_stat := st; de_bytes := if wants_content st then src p else [];
                               de_ino := next |} D1, next + 1)
      | None =>
          if is_hardlink st then
            match alookup (st_linkname st) D with
            | Some t => if st_is_dir (de_stat t) then None
                        else Some (aset p {| de_stat := link_stat (de_stat t) st; de_bytes := de_bytes t; de_ino := de_ino t |} D, next)
            | None => None
            end
          else Some (aset p {| de_stat := st; de_bytes := if wants_content st then src p else [];
                               de_ino := next |} D, next + 1)
      end
    end
  end.

(* content request sent for this change (asyncDataFunc -> PACKET_REQ) *)
Definition req_of (c : change) : option bytes :=
  match c with
  | (KDelete, _, _) => None
  | (_, p, Some st) => if wants_content st then Some p else None
  | (_, _, None) => None
  end.

Fixpoint filter_map {X Y} (f : X -> option Y) (l : list X) : list Y :=
  match l with
  | [] => []
  | x :: r => match f x with Some y => y :: filter_map f r | None => filter_map f r end
  end.

(* applies the changes in order; stops at the first error.
   Result: map, next inode, the changes that were applied, error flag *)
Fixpoint apply_all (cs : list change) (D : dmap) (next : N) : dmap * N * list change * bool :=
  match cs with
  | [] => (D, next, [], false)
  | c :: r =>
    match apply_map D next c with
    | None => (D, next, [], true)
    | Some (D', next') =>
      let '(D2, n2, done, e) := apply_all r D' next' in (D2, n2, c :: done, e)
    end
  end.

(* ---- honest hard-link entries: the stat announced for a new name of an inode is what that
        name then shows, i.e. the entry carries the metadata of the entry it names ([eqb]
        = which fields are compared; [stat_eqb] = all of them) ---- *)
Definition honest_change_by (eqb : stat -> stat -> bool) (D : dmap) (c : change) : bool :=
  match c with
  | (KDelete, _, _) => true
  | (_, _, Some st) =>
    if is_hardlink st then
      match alookup (st_linkname st) D with
      | Some t => eqb (link_stat (de_stat t) st) st
      | None => true
      end
    else true
  | (_, _, None) => true
  end.

(* ... for every change of a run, each judged in the state it is applied to *)
Fixpoint honest_run_by (eqb : stat -> stat -> bool) (cs : list change) (D : dmap) (next : N) : bool :=
  match cs with
  | [] => true
  | c :: r =>
    match apply_map D next c with
    | None => true
    | Some (D', next') => honest_change_by eqb D c && honest_run_by eqb r D' next'
    end
  end.

Definition honest_change := honest_change_by stat_eqb.
Definition honest_run := honest_run_by stat_eqb.

Variable H : bytes -> bytes.            (* the hash of the caller's ContentHasher *)
Variable hdr : stat -> bytes.           (* what the ContentHasher writes for the stat first *)

(* digest of an entry: header, then the content for a regular file whose content was sent *)
Definition digest (st : stat) (content : bytes) : bytes :=
  H (hdr st ++ (if wants_content st then content else [])).

(* kind, path, (stat, digest) — None for a delete (NotifyCb(kind, p, nil, nil)) *)
Definition notif := (ckind * bytes * option (stat * bytes))%type.

Definition notif_of (c : change) : notif :=
  match c with
  | (KDelete, p, _) => (KDelete, p, None)
  | (k, p, Some st) => (if wants_content st then KAdd else k, p, Some (st, digest st (src p)))
  | (k, p, None) => (k, p, None)
  end.

(* ---- what a consumer of the notifications can rebuild: path -> (stat, digest) ---- *)
Definition nmap := amap (stat * bytes).

Definition nview (D : dmap) : nmap :=
  map (fun kv => (fst kv, (de_stat (snd kv), digest (de_stat (snd kv)) (de_bytes (snd kv))))) D.

Definition replay_step (M : nmap) (n : notif) : nmap :=
  match n with
  | (KDelete, p, _) => aremove_if (at_or_below p) M
  | (_, p, Some (st, dg)) =>
    let M1 := match alookup p M with
              | Some (old, _) => if Bool.eqb (st_is_dir old) (st_is_dir st) then M
                                 else aremove_if (at_or_below p) M
              | None => M
              end in
    aset p (st, dg) M1
  | (_, _, None) => M
  end.

Definition replay (ns : list notif) (M : nmap) : nmap := fold_left replay_step ns M.

End Apply.

(* ---- the old destination as a map: entry i gets inode class i, a hard-link entry the
        class of the entry it names (when that was listed before it) ---- *)
Fixpoint dest_from (A : list entry) (i : N) (seen : amap N) : dmap :=
  match A with
  | [] => []
  | (st, bs) :: r =>
    let ino := if is_hardlink st then
                 match alookup (st_linkname st) seen with Some j => j | None => i end
               else i in
    (st_path st, {| de_stat := st; de_bytes := bs; de_ino := ino |})
      :: dest_from r (i + 1) ((st_path st, ino) :: seen)
  end.
Definition dest_of (A : list entry) : dmap := dest_from A 0 [].

(* ---- executable specification of the request set (C02 reqs_exact) ---- *)
(* b is present in the old listing with the same identity key *)
Definition unchanged_b (d : differ) (LA : list stat) (b : stat) : bool :=
  match lookup (st_path b) LA with Some a => same_file d a b | None => false end.
(* the regular files (no Linkname) of the source that are new or whose identity differs *)
Definition reqs_spec (d : differ) (LA LB : list stat) : list bytes :=
  map st_path (filter (fun b => wants_content b && negb (unchanged_b d LA b)) LB).

Inductive rmode := Fresh | Merge.       (* ReceiveOpt.Merge: the destination walker is emptyWalker *)

Record dstate := {
  ds_map : dmap;
  ds_reqs : list bytes;                 (* content requests, in order *)
  ds_notifs : list notif;               (* change notifications, in HandleChange order *)
  ds_changes : list change;             (* what the diff handed to HandleChange (applied prefix) *)
  ds_err : bool }.

Section Receive.
Variable H : bytes -> bytes.
Variable hdr : stat -> bytes.

(* Receive into a destination that lists as A, from a source that lists as B *)
Definition receive_abs (m : rmode) (d : differ) (A B : list entry) : dstate :=
  let LA := match m with Fresh => map fst A | Merge => [] end in
  let cs := diff (fun s => s) d LA (map fst B) in
  let '(D, _, done, e) := apply_all (src_of B) cs (dest_of A) (N.of_nat (length A)) in
  {| ds_map := D; ds_reqs := filter_map req_of done;
     ds_notifs := map (notif_of (src_of B) H hdr) done; ds_changes := done; ds_err := e |}.

End Receive.

(* every hard-link entry the writer applies in this transfer carries the metadata of the entry
   it names, as the destination shows it at that moment *)
Definition recv_honest_by (eqb : stat -> stat -> bool) (m : rmode) (d : differ) (A B : list entry) : bool :=
  let LA := match m with Fresh => map fst A | Merge => [] end in
  honest_run_by (src_of B) eqb (diff (fun s => s) d LA (map fst B)) (dest_of A) (N.of_nat (length A)).
Definition recv_honest := recv_honest_by stat_eqb.

(* ---------------------------------------------------------------- hypotheses of the theorems *)
(* a hard-link entry names an earlier entry of the same listing that is neither a directory nor a
   symbolic link (a regular one if the link entry says "regular"), with the same bytes *)
Definition links_ok (B : list entry) : Prop :=
  forall sb bb, In (sb, bb) B -> is_hardlink sb = true ->
  exists st bt, In (st, bt) B /\ st_path st = st_linkname sb /\
                compare_path (st_path st) (st_path sb) = Lt /\ is_node st = true /\
                (is_reg sb = true -> is_reg st = true) /\ bt = bb.

(* honest sender: a hard-link entry carries the metadata of the entry it names (all names of
   an inode are listed with the same metadata: what every walk produces) *)
Definition links_meta (B : list entry) : Prop :=
  forall sb bb st bt, In (sb, bb) B -> is_hardlink sb = true -> In (st, bt) B ->
  st_path st = st_linkname sb -> ino_meta_eq st sb.

(* xattrs are not part of the identity key: a link target that stays in place keeps the
   xattrs the destination had.  Needed only where the destination must show the stat of a new
   hard link EXACTLY as announced (xattrs included). *)
Definition link_xattrs_kept (d : differ) (A B : list entry) : Prop :=
  forall sb bb st bt sa ba, In (sb, bb) B -> is_hardlink sb = true -> In (st, bt) B ->
  st_path st = st_linkname sb -> In (sa, ba) A -> st_path sa = st_path st ->
  same_file d sa st = true -> st_xattrs sa = st_xattrs st.

(* same identity key => same bytes (regular files and hard links) *)
Definition identity_faithful (d : differ) (A B : list entry) : Prop :=
  forall sa ba sb bb, In (sa, ba) A -> In (sb, bb) B -> st_path sa = st_path sb ->
  same_file d sa sb = true -> is_reg sb = true -> ba = bb.

(* executable forms, for the satisfiability examples *)
Definition links_ok_b (B : list entry) : bool :=
  forallb (fun e => negb (is_hardlink (fst e)) ||
     existsb (fun t => bytes_eqb (st_path (fst t)) (st_linkname (fst e))
                       && path_ltb (st_path (fst t)) (st_path (fst e))
                       && is_node (fst t) && (negb (is_reg (fst e)) || is_reg (fst t))
                       && bytes_eqb (snd t) (snd e)) B) B.
Definition links_meta_b (B : list entry) : bool :=
  forallb (fun e => negb (is_hardlink (fst e)) ||
     forallb (fun t => negb (bytes_eqb (st_path (fst t)) (st_linkname (fst e)))
                       || ino_meta_eqb (fst t) (fst e)) B) B.
Definition link_xattrs_kept_b (d : differ) (A B : list entry) : bool :=
  forallb (fun e => negb (is_hardlink (fst e)) ||
     forallb (fun t => negb (bytes_eqb (st_path (fst t)) (st_linkname (fst e))) ||
        forallb (fun a => negb (bytes_eqb (st_path (fst a)) (st_path (fst t)))
                          || negb (same_file d (fst a) (fst t))
                          || xattrs_eqb (st_xattrs (fst a)) (st_xattrs (fst t))) A) B) B.
Definition identity_faithful_b (d : differ) (A B : list entry) : bool :=
  forallb (fun ea => forallb (fun eb =>
     negb (bytes_eqb (st_path (fst ea)) (st_path (fst eb))) || negb (same_file d (fst ea) (fst eb))
     || negb (is_reg (fst eb)) || bytes_eqb (snd ea) (snd eb)) B) A.

(* what "the destination shows the source's entry" means: same identity key, and the same
   bytes for a regular file / hard link *)
Definition view_equiv (o : option dentry) (e : option entry) : Prop :=
  match o, e with
  | None, None => True
  | Some x, Some (sb, bb) =>
      same_file DMetadata (de_stat x) sb = true /\ (is_reg sb = true -> de_bytes x = bb)
  | _, _ => False
  end.

(* the same without a claim on the identity key of a hard-link entry (whose metadata is that
   of the inode it joined, whatever the sender announced): a non-directory with the bytes *)
Definition view_equiv_w (o : option dentry) (e : option entry) : Prop :=
  match o, e with
  | None, None => True
  | Some x, Some (sb, bb) =>
      (is_hardlink sb = false -> same_file DMetadata (de_stat x) sb = true) /\
      st_is_dir (de_stat x) = st_is_dir sb /\ (is_reg sb = true -> de_bytes x = bb)
  | _, _ => False
  end.

(* p is listed on both sides with the same identity key *)
Definition unchanged (d : differ) (A B : list entry) (p : bytes) : Prop :=
  exists a b, In a (map fst A) /\ In b (map fst B) /\ st_path a = p /\ st_path b = p /\ same_file d a b = true.

(* a path of the source that is new, or changed other than directory-over-directory, and is
   not a hard link: the writer creates a new inode for it *)
Definition fresh_target (d : differ) (A B : list entry) (p : bytes) : Prop :=
  exists b, In b (map fst B) /\ st_path b = p /\ is_hardlink b = false /\
    (notin (map fst A) p \/
     exists a, In a (map fst A) /\ st_path a = p /\ same_file d a b = false /\
               (st_is_dir a && st_is_dir b) = false).
(* the destination holds at p the source's stat as sent, under an inode class >= n0 *)
Definition fresh_entry (B : list entry) (n0 : N) (p : bytes) (o : option dentry) : Prop :=
  exists e b, o = Some e /\ In b (map fst B) /\ st_path b = p /\ de_stat e = b /\ n0 <= de_ino e.

(* a hard-link entry of the source that is new, or whose identity key differs from what the old
   destination listed at its path: the writer links it *)
Definition link_changed (d : differ) (A B : list entry) (p : bytes) : Prop :=
  exists b, In b (map fst B) /\ st_path b = p /\ is_hardlink b = true /\
    (notin (map fst A) p \/
     exists a, In a (map fst A) /\ st_path a = p /\ same_file d a b = false).
(* p is one more name of the inode shown at the path its entry names: same inode class, same
   bytes, and THAT inode's metadata under the announced path *)
Definition joined_entry (B : list entry) (D : dmap) (p : bytes) : Prop :=
  exists b e t, In b (map fst B) /\ st_path b = p /\ alookup p D = Some e /\
    alookup (st_linkname b) D = Some t /\ de_ino e = de_ino t /\ de_bytes e = de_bytes t /\
    de_stat e = link_stat (de_stat t) b.

(* the new destination as a walker lists it, given that it holds exactly the paths of B
   (view_equiv): under every path of B the stat and bytes the map holds there *)
Definition dest_listing (B : list entry) (D : dmap) : list entry :=
  map (fun e => match alookup (st_path (fst e)) D with
                | Some x => (set_path (de_stat x) (st_path (fst e)), de_bytes x)
                | None => e
                end) B.

(* ------------------------------------------------------------------------------------------
   The receiver's Filter (ReceiveOpt.Filter, handed to BOTH doubleWalkDiff and the DiskWriter).
   [wf p st] = (result, the stat as the FilterFunc leaves its copy).
   HandleChange:  statCopy := stat.Clone(); if !filter(p, statCopy) { return nil }   — skipped:
   nothing written, nothing notified; for a delete the filter sees an empty stat and only its
   result counts.  Everything that reaches the disk comes from statCopy (rewriteMetadata,
   symlink / hard-link target, device numbers, the chmod/chtimes after the content); the
   notification (processChange(kind, p, fi, ...)) and the header given to the ContentHasher
   come from fi: the stat AS SENT.  The type switch looks at fi's mode and statCopy's Linkname:
   the model switches on statCopy — exact for filters that keep the type bits ([filter_ok]).
   doubleWalkDiff compares the old entry with the filtered copy of the new one (boolean result
   ignored) and hands the entry as sent to HandleChange: Diff.diff (filter_stat wf). *)
Definition empty_stat : stat :=
  {| st_path := []; st_mode := 0; st_uid := 0; st_gid := 0; st_size := 0; st_mtime := 0;
     st_linkname := []; st_devmajor := 0; st_devminor := 0; st_xattrs := [] |}.

Section Filtered.
Variable wf : bytes -> stat -> bool * stat.

Definition filter_stat (s : stat) : stat := snd (wf (st_path s) s).

(* the change as the writer executes it; None = skipped *)
Definition filter_change (c : change) : option change :=
  match c with
  | (KDelete, p, _) => if fst (wf p empty_stat) then Some c else None
  | (k, p, Some st) => if fst (wf p st) then Some (k, p, Some (snd (wf p st))) else None
  | (_, _, None) => Some c                  (* "change without stat info": error before the filter *)
  end.

Variable src : bytes -> bytes.

(* as apply_all; the third component lists the changes AS RECEIVED that were executed *)
Fixpoint apply_all_f (cs : list change) (D : dmap) (next : N) : dmap * N * list change * bool :=
  match cs with
  | [] => (D, next, [], false)
  | c :: r =>
    match filter_change c with
    | None => apply_all_f r D next
    | Some c' =>
      match apply_map src D next c' with
      | None => (D, next, [], true)
      | Some (D', next') =>
        let '(D2, n2, done, e) := apply_all_f r D' next' in (D2, n2, c :: done, e)
      end
    end
  end.

Definition req_of_f (c : change) : option bytes :=
  match filter_change c with Some c' => req_of c' | None => None end.
End Filtered.

Section ReceiveF.
Variable wf : bytes -> stat -> bool * stat.
Variable H : bytes -> bytes.
Variable hdr : stat -> bytes.

Definition receive_abs_f (m : rmode) (d : differ) (A B : list entry) : dstate :=
  let LA := match m with Fresh => map fst A | Merge => [] end in
  let cs := diff (filter_stat wf) d LA (map fst B) in
  let '(D, _, done, e) := apply_all_f wf (src_of B) cs (dest_of A) (N.of_nat (length A)) in
  {| ds_map := D; ds_reqs := filter_map (req_of_f wf) done;
     ds_notifs := map (notif_of (src_of B) H hdr) done; ds_changes := done; ds_err := e |}.
End ReceiveF.

(* the source as the writer sees it: every stat rewritten by the filter *)
Definition filter_entries (wf : bytes -> stat -> bool * stat) (B : list entry) : list entry :=
  map (fun e => (filter_stat wf (fst e), snd e)) B.

(* a filter that never says "skip" and keeps path, type bits and link name (what the umask-,
   ownership- and timestamp-normalising filters of the callers do) *)
Definition filter_ok (wf : bytes -> stat -> bool * stat) : Prop :=
  forall p s, fst (wf p s) = true /\
    (p = st_path s ->
     st_path (snd (wf p s)) = st_path s /\ st_is_dir (snd (wf p s)) = st_is_dir s /\
     is_special (snd (wf p s)) = is_special s /\
     mode_is_symlink (st_mode (snd (wf p s))) = mode_is_symlink (st_mode s) /\
     st_linkname (snd (wf p s)) = st_linkname s).

(* every hard-link change applied announces — after the filter — what the new name then shows *)
Definition recv_honest_f_by (eqb : stat -> stat -> bool) (wf : bytes -> stat -> bool * stat)
    (m : rmode) (d : differ) (A B : list entry) : bool :=
  let LA := match m with Fresh => map fst A | Merge => [] end in
  honest_run_by (src_of B) eqb
    (filter_map (filter_change wf) (diff (filter_stat wf) d LA (map fst B))) (dest_of A) (N.of_nat (length A)).
