(* L7 — what crosses the boundary of one endpoint of the fsutil transfer protocol
   (send.go / receive.go, types/wire.proto), as a sequence of events, and the generic
   "deterministic event acceptor" machinery shared by SenderAcc and ReceiverAcc.

   An endpoint (Send or Receive) is observed at its own boundary:
     Out p        the endpoint calls conn.SendMsg(p)            (recorded when the call starts)
     Inp p         conn.RecvMsg returned packet p to the endpoint (recorded when the call returns)
     InEof        conn.RecvMsg returned io.EOF (the peer closed its sending side)
     Fault        a local failure became visible to the endpoint (an injected FS error,
                  a stream operation failing for a reason other than EOF, a cancelled context)
     Progress n l the progress callback was called with (n, l)
     Return ok    the call returned (nil / an error)
   All events of one run are recorded in one global order that respects causality. *)
From Coq Require Import List NArith Bool.
From FS Require Import Sx Model.Stat.
Import ListNotations.
Open Scope N_scope.

(* types.Packet: Type + the fields that type uses *)
Inductive pkt : Type :=
| PStat (s : option stat)      (* PACKET_STAT; None = empty stat = end of the STAT sequence *)
| PReq (id : N)                (* PACKET_REQ *)
| PData (id : N) (d : bytes)   (* PACKET_DATA; d = [] terminates the id *)
| PFin                         (* PACKET_FIN *)
| PErr (msg : bytes).          (* PACKET_ERR *)

Inductive event : Type :=
| Out (p : pkt)
| Inp (p : pkt)
| InEof
| Fault
| Progress (n : N) (last : bool)
| Return (ok : bool).

(* running an acceptor over a trace *)
Section Run.
  Context {St : Type}.
  Variable step : St -> event -> option St.
  Fixpoint run (s : St) (tr : list event) : option St :=
    match tr with
    | [] => Some s
    | e :: r => match step s e with Some s' => run s' r | None => None end
    end.
End Run.

(* ---- byte helpers that stay tail-recursive after extraction (payloads can be large) ---- *)
(* strip_prefix p s = Some r  <->  s = p ++ r *)
Fixpoint strip_prefix (p s : bytes) : option bytes :=
  match p, s with
  | [], _ => Some s
  | a :: p', b :: s' => if N.eqb a b then strip_prefix p' s' else None
  | _ :: _, [] => None
  end.

(* strip_chunks cs s = Some r  <->  s = concat cs ++ r *)
Fixpoint strip_chunks (cs : list bytes) (s : bytes) : option bytes :=
  match cs with
  | [] => Some s
  | c :: r => match strip_prefix c s with Some s' => strip_chunks r s' | None => None end
  end.

Definition is_nil {A} (l : list A) : bool := match l with [] => true | _ => false end.

(* association lists keyed by N (ids) *)
Fixpoint nlookup {A} (k : N) (m : list (N * A)) : option A :=
  match m with
  | [] => None
  | (k', v) :: r => if N.eqb k k' then Some v else nlookup k r
  end.
Fixpoint nupdate {A} (k : N) (v : A) (m : list (N * A)) : list (N * A) :=
  match m with
  | [] => []
  | (k', v') :: r => if N.eqb k k' then (k', v) :: r else (k', v') :: nupdate k v r
  end.
Fixpoint nremove {A} (k : N) (m : list (N * A)) : list (N * A) :=
  match m with
  | [] => []
  | (k', v') :: r => if N.eqb k k' then r else (k', v') :: nremove k r
  end.

(* ---- trace projections used by the property statements ---- *)
Definition stats_out (tr : list event) : list (option stat) :=
  flat_map (fun e => match e with Out (PStat s) => [s] | _ => [] end) tr.
Definition stats_in (tr : list event) : list (option stat) :=
  flat_map (fun e => match e with Inp (PStat s) => [s] | _ => [] end) tr.
(* payloads of the DATA packets of id n, in trace order (terminators appear as []) *)
Definition data_out (n : N) (tr : list event) : list bytes :=
  flat_map (fun e => match e with Out (PData m d) => if N.eqb m n then [d] else [] | _ => [] end) tr.
Definition data_in (n : N) (tr : list event) : list bytes :=
  flat_map (fun e => match e with Inp (PData m d) => if N.eqb m n then [d] else [] | _ => [] end) tr.
Definition progress_of (tr : list event) : list (N * bool) :=
  flat_map (fun e => match e with Progress n l => [(n, l)] | _ => [] end) tr.
Definition is_in (e : event) : bool := match e with Inp _ | InEof => true | _ => false end.
Definition is_return (e : event) : bool := match e with Return _ => true | _ => false end.

(* the stats among a STAT sequence (end markers dropped) *)
Definition some_stats (l : list (option stat)) : list stat :=
  flat_map (fun o => match o with Some s => [s] | None => [] end) l.

(* ---- exchange format ----
   pkt:   (#0) empty STAT | (#0 stat) | (#1 id) | (#2 id data) | (#3) | (#4 msg)
   event: (#0 pkt) Out | (#1 pkt) Inp | (#2) InEof | (#3) Fault | (#4 n last) Progress | (#5 ok) Return *)
Definition dec_pkt (s : sx) : option pkt :=
  match s with
  | SL [SN 0] => Some (PStat None)
  | SL [SN 0; st] => x <- dec_stat st ;; Some (PStat (Some x))
  | SL [SN 1; SN id] => Some (PReq id)
  | SL [SN 2; SN id; SB d] => Some (PData id d)
  | SL [SN 3] => Some PFin
  | SL [SN 4; SB m] => Some (PErr m)
  | _ => None
  end.

Definition dec_event (s : sx) : option event :=
  match s with
  | SL [SN 0; p] => x <- dec_pkt p ;; Some (Out x)
  | SL [SN 1; p] => x <- dec_pkt p ;; Some (Inp x)
  | SL [SN 2] => Some InEof
  | SL [SN 3] => Some Fault
  | SL [SN 4; SN n; l] => b <- sx_bool l ;; Some (Progress n b)
  | SL [SN 5; ok] => b <- sx_bool ok ;; Some (Return b)
  | _ => None
  end.
