(* L9 — a Gallina model of a Linux file system (one mount, no permissions: the caller is
   root), general enough for the receiver (C03) and the copy package (C14).

   State   : an inode table (association list ino -> inode).  Inodes are never garbage
             collected: an inode no dentry refers to is simply unreachable (nlink is
             implicit = number of dentries that name the inode).
   Inode   : kind (directory with parent pointer and name->ino list / regular file with
             bytes / symlink with target / special file with type and rdev) + metadata
             (permission bits 07777, uid, gid, mtime, xattrs).
   mtime   : the kernel stamps "now" on content changes; the model writes the marker
             [now_mark] there (the harness maps every mtime >= start of the run to it).
   Process : [ctx] = root directory (chroot) and working directory.
   Lookup  : [walk] = Linux path resolution: intermediate symlinks always followed, the
             final one only when [follow]; "." ".." empty components; ".." stops at the
             process root; absolute symlink targets restart at the process root; at most
             40 symlinks per lookup (ELOOP); ENOENT / ENOTDIR.
   Syscalls: total functions  ctx -> fs -> args -> fs * result.
   Validated against the kernel by harness kind 0301 (random syscall sequences). *)
From Coq Require Import List NArith Bool.
From FS Require Import Sx Model.Path.
Import ListNotations.
Open Scope N_scope.
Open Scope bool_scope.

Inductive errno := ENOENT | ENOTDIR | EEXIST | EISDIR | ELOOP | ENOTEMPTY | EINVAL | EBUSY | EPERM | ENXIO | ENOTSUP.

Definition errno_code (e : errno) : N :=
  match e with
  | ENOENT => 2 | ENOTDIR => 20 | EEXIST => 17 | EISDIR => 21 | ELOOP => 40
  | ENOTEMPTY => 39 | EINVAL => 22 | EBUSY => 16 | EPERM => 1 | ENXIO => 6 | ENOTSUP => 95
  end.

Record meta := {
  m_mode : N;       (* permission bits incl. setuid/setgid/sticky: st_mode & 07777 *)
  m_uid : N;
  m_gid : N;
  m_mtime : N;      (* ns since the epoch, two's complement mod 2^64; [now_mark] = "now" *)
  m_xattrs : list (bytes * bytes)   (* sorted by key *)
}.

Inductive ikind :=
| KDir (parent : N) (ents : list (bytes * N))   (* entries in creation order *)
| KFile (data : bytes)
| KLink (target : bytes)
| KSpecial (typ : N) (rdev : N).                (* typ = S_IFIFO / S_IFCHR / S_IFBLK / S_IFSOCK *)

Record inode := { i_kind : ikind; i_meta : meta }.

Record fs := { f_inodes : list (N * inode); f_next : N }.

Record ctx := { c_root : N; c_cwd : N }.

Definition now_mark : N := 9223372036854775807.  (* 2^63-1 *)

(* ---- association lists ---- *)
Fixpoint alookup {A} (k : N) (l : list (N * A)) : option A :=
  match l with
  | [] => None
  | (k', v) :: r => if N.eqb k k' then Some v else alookup k r
  end.
Fixpoint aset {A} (k : N) (v : A) (l : list (N * A)) : list (N * A) :=
  match l with
  | [] => [(k, v)]
  | (k', v') :: r => if N.eqb k k' then (k, v) :: r else (k', v') :: aset k v r
  end.
Fixpoint blookup {A} (k : bytes) (l : list (bytes * A)) : option A :=
  match l with
  | [] => None
  | (k', v) :: r => if bytes_eqb k k' then Some v else blookup k r
  end.
Fixpoint bremove {A} (k : bytes) (l : list (bytes * A)) : list (bytes * A) :=
  match l with
  | [] => []
  | (k', v) :: r => if bytes_eqb k k' then r else (k', v) :: bremove k r
  end.
(* replace in place, or append *)
Fixpoint bset {A} (k : bytes) (v : A) (l : list (bytes * A)) : list (bytes * A) :=
  match l with
  | [] => [(k, v)]
  | (k', v') :: r => if bytes_eqb k k' then (k, v) :: r else (k', v') :: bset k v r
  end.
(* sorted insert (xattrs are kept sorted by key) *)
Fixpoint bset_sorted {A} (k : bytes) (v : A) (l : list (bytes * A)) : list (bytes * A) :=
  match l with
  | [] => [(k, v)]
  | (k', v') :: r =>
    match cmp_bytes k k' with
    | Eq => (k, v) :: r
    | Lt => (k, v) :: l
    | Gt => (k', v') :: bset_sorted k v r
    end
  end.

Definition get (f : fs) (i : N) : option inode := alookup i (f_inodes f).
Definition put (f : fs) (i : N) (n : inode) : fs :=
  {| f_inodes := aset i n (f_inodes f); f_next := f_next f |}.
(* a new inode; numbers are never reused *)
Definition alloc (f : fs) (n : inode) : fs * N :=
  ({| f_inodes := aset (f_next f) n (f_inodes f); f_next := f_next f + 1 |}, f_next f).

Definition dir_of (f : fs) (i : N) : option (N * list (bytes * N)) :=
  match get f i with
  | Some {| i_kind := KDir p es |} => Some (p, es)
  | _ => None
  end.
Definition is_dir (f : fs) (i : N) : bool := match dir_of f i with Some _ => true | None => false end.

Definition set_kind (n : inode) (k : ikind) : inode := {| i_kind := k; i_meta := i_meta n |}.
Definition set_meta (n : inode) (m : meta) : inode := {| i_kind := i_kind n; i_meta := m |}.
Definition with_mtime (m : meta) (t : N) : meta :=
  {| m_mode := m_mode m; m_uid := m_uid m; m_gid := m_gid m; m_mtime := t; m_xattrs := m_xattrs m |}.
Definition with_mode (m : meta) (p : N) : meta :=
  {| m_mode := p; m_uid := m_uid m; m_gid := m_gid m; m_mtime := m_mtime m; m_xattrs := m_xattrs m |}.
Definition with_owner (m : meta) (u g : N) : meta :=
  {| m_mode := m_mode m; m_uid := u; m_gid := g; m_mtime := m_mtime m; m_xattrs := m_xattrs m |}.
Definition with_xattrs (m : meta) (x : list (bytes * bytes)) : meta :=
  {| m_mode := m_mode m; m_uid := m_uid m; m_gid := m_gid m; m_mtime := m_mtime m; m_xattrs := x |}.

(* rewrite the entry list of directory [d] and stamp its mtime *)
Definition set_ents (f : fs) (d : N) (es : list (bytes * N)) : fs :=
  match get f d with
  | Some {| i_kind := KDir p _; i_meta := m |} =>
    put f d {| i_kind := KDir p es; i_meta := with_mtime m now_mark |}
  | _ => f
  end.

(* ---------------- path resolution ---------------- *)
(* Result of a lookup: the directory that holds (or would hold) the final name, the
   name, and the inode it names if the entry exists.  [l_name = []] means the lookup
   ended on a directory reached through "." / ".." / "/" (no dentry to operate on);
   then [l_ino = Some l_dir]. *)
Record lres := { l_dir : N; l_name : bytes; l_ino : option N }.

Definition nonempty (c : bytes) : bool := match c with [] => false | _ => true end.
Definition pcs (p : bytes) : list bytes := filter nonempty (comps p).
Definition ends_with_sep (p : bytes) : bool :=
  match rev p with a :: _ => N.eqb a sep | [] => false end.
Definition is_nil {A} (l : list A) : bool := match l with [] => true | _ => false end.

Definition max_symlinks : N := 40.

(* [cs]: remaining non-empty components; [follow]: follow a symlink in final position;
   [nsym]: symlinks followed so far.  Fuel only guards termination (every step consumes a
   component or follows a symlink; out of fuel = ELOOP). *)
Fixpoint walk (fuel : nat) (f : fs) (root cur : N) (cs : list bytes) (follow : bool) (nsym : N)
  : lres + errno :=
  match fuel with
  | O => inr ELOOP
  | S fuel' =>
    match dir_of f cur with
    | None => inr ENOTDIR
    | Some (par, ents) =>
      match cs with
      | [] => inl {| l_dir := cur; l_name := []; l_ino := Some cur |}
      | c :: rest =>
        if bytes_eqb c s_dot then walk fuel' f root cur rest follow nsym
        else if bytes_eqb c s_dotdot then
          walk fuel' f root (if N.eqb cur root then cur else par) rest follow nsym
        else
          match blookup c ents with
          | None => if is_nil rest then inl {| l_dir := cur; l_name := c; l_ino := None |}
                    else inr ENOENT
          | Some i =>
            match get f i with
            | Some {| i_kind := KLink t |} =>
              if is_nil rest && negb follow then inl {| l_dir := cur; l_name := c; l_ino := Some i |}
              else if N.leb max_symlinks nsym then inr ELOOP
              else if is_nil t then inr ENOENT
              else walk fuel' f root (if is_abs t then root else cur) (pcs t ++ rest) follow (nsym + 1)
            | _ =>
              if is_nil rest then inl {| l_dir := cur; l_name := c; l_ino := Some i |}
              else walk fuel' f root i rest follow nsym
            end
          end
      end
    end
  end.

Definition rfuel : nat := 64 * 64.

(* Lookup of a path string.  A trailing separator forces the final symlink to be
   followed and the result to be a directory (lookups only; creating calls with a
   trailing separator are outside the validated domain). *)
(* Go refuses a string with a NUL byte before any system call is made (EINVAL) *)
Definition has_nul (p : bytes) : bool := existsb (N.eqb 0) p.

Definition resolve (c : ctx) (f : fs) (p : bytes) (follow : bool) : lres + errno :=
  match p with
  | [] => inr ENOENT
  | _ =>
    if has_nul p then inr EINVAL else
    let md := ends_with_sep p in
    match walk rfuel f (c_root c) (if is_abs p then c_root c else c_cwd c) (pcs p) (follow || md) 0 with
    | inr e => inr e
    | inl r =>
      if md then
        match l_ino r with
        | None => inr ENOENT
        | Some i => if is_dir f i then inl r else inr ENOTDIR
        end
      else inl r
    end
  end.

(* lookup that must name an existing inode *)
Definition resolve_ino (c : ctx) (f : fs) (p : bytes) (follow : bool) : N + errno :=
  match resolve c f p follow with
  | inr e => inr e
  | inl r => match l_ino r with Some i => inl i | None => inr ENOENT end
  end.

(* ---------------- syscalls ---------------- *)
Inductive result :=
| ROk
| RErr (e : errno)
| RStat (i : N) (n : inode)      (* lstat/stat: inode number and record *)
| RBytes (b : bytes)             (* readlink *)
| RNames (l : list bytes)        (* readdir, in directory order *)
| RFd (i : N).                   (* open: the inode the descriptor refers to *)

Definition S_ISUID : N := 2048.  (* 04000 *)
Definition S_ISGID : N := 1024.  (* 02000 *)
Definition S_IXGRP : N := 8.     (* 00010 *)
Definition perm_mask : N := 4095.   (* 07777 *)
Definition mkdir_mask : N := 1023.  (* 01777: mkdir(2) ignores setuid/setgid *)
Definition clear_bits (m b : N) : N := N.ldiff m b.

(* metadata of an inode created in directory [d] by root with umask 0: a setgid
   directory passes on its group (and the setgid bit to sub-directories) *)
Definition new_meta (f : fs) (d : N) (isdir : bool) (mode : N) : meta :=
  match get f d with
  | Some dn =>
    let dm := i_meta dn in
    if negb (N.eqb (N.land (m_mode dm) S_ISGID) 0) then
      {| m_mode := if isdir then N.lor mode S_ISGID else mode; m_uid := 0; m_gid := m_gid dm;
         m_mtime := now_mark; m_xattrs := [] |}
    else {| m_mode := mode; m_uid := 0; m_gid := 0; m_mtime := now_mark; m_xattrs := [] |}
  | None => {| m_mode := mode; m_uid := 0; m_gid := 0; m_mtime := now_mark; m_xattrs := [] |}
  end.

(* add entry [name -> i] to directory [d] (appended: directory order = creation order) *)
Definition add_ent (f : fs) (d : N) (name : bytes) (i : N) : fs :=
  match dir_of f d with
  | Some (_, es) => set_ents f d (es ++ [(name, i)])
  | None => f
  end.
Definition del_ent (f : fs) (d : N) (name : bytes) : fs :=
  match dir_of f d with
  | Some (_, es) => set_ents f d (bremove name es)
  | None => f
  end.

(* create a new inode of kind [k] under the name a lookup ended on *)
Definition create_at (f : fs) (r : lres) (isdir : bool) (k : ikind) (mode : N) : fs * N :=
  let (f1, i) := alloc f {| i_kind := k; i_meta := new_meta f (l_dir r) isdir mode |} in
  (add_ent f1 (l_dir r) (l_name r) i, i).

Definition sys_lstat (c : ctx) (f : fs) (p : bytes) : fs * result :=
  match resolve_ino c f p false with
  | inr e => (f, RErr e)
  | inl i => match get f i with Some n => (f, RStat i n) | None => (f, RErr ENOENT) end
  end.

Definition sys_stat (c : ctx) (f : fs) (p : bytes) : fs * result :=
  match resolve_ino c f p true with
  | inr e => (f, RErr e)
  | inl i => match get f i with Some n => (f, RStat i n) | None => (f, RErr ENOENT) end
  end.

Definition sys_readlink (c : ctx) (f : fs) (p : bytes) : fs * result :=
  match resolve_ino c f p false with
  | inr e => (f, RErr e)
  | inl i => match get f i with
             | Some {| i_kind := KLink t |} => (f, RBytes t)
             | _ => (f, RErr EINVAL)
             end
  end.

(* open(O_DIRECTORY) + getdents: follows a final symlink *)
Definition sys_readdir (c : ctx) (f : fs) (p : bytes) : fs * result :=
  match resolve_ino c f p true with
  | inr e => (f, RErr e)
  | inl i => match dir_of f i with
             | Some (_, es) => (f, RNames (map fst es))
             | None => (f, RErr ENOTDIR)
             end
  end.

(* creating calls never follow a final symlink: an existing name (even a dangling
   symlink) is EEXIST; "." / ".." / "/" are existing directories *)
Definition sys_mkdir (c : ctx) (f : fs) (p : bytes) (mode : N) : fs * result :=
  match resolve c f p false with
  | inr e => (f, RErr e)
  | inl r =>
    match l_ino r with
    | Some _ => (f, RErr EEXIST)
    | None => (fst (create_at f r true (KDir (l_dir r) []) (N.land mode mkdir_mask)), ROk)
    end
  end.

Definition sys_mknod (c : ctx) (f : fs) (p : bytes) (typ mode rdev : N) : fs * result :=
  match resolve c f p false with
  | inr e => (f, RErr e)
  | inl r =>
    match l_ino r with
    | Some _ => (f, RErr EEXIST)
    | None =>
      (* the device number is kept for character and block devices only *)
      let rdev' := if N.eqb typ 8192 || N.eqb typ 24576 then rdev else 0 in
      (fst (create_at f r false (KSpecial typ rdev') (N.land mode perm_mask)), ROk)
    end
  end.

Definition sys_symlink (c : ctx) (f : fs) (target p : bytes) : fs * result :=
  match target with
  | [] => (f, RErr ENOENT)
  | _ =>
    if has_nul target then (f, RErr EINVAL) else
    match resolve c f p false with
    | inr e => (f, RErr e)
    | inl r =>
      match l_ino r with
      | Some _ => (f, RErr EEXIST)
      | None => (fst (create_at f r false (KLink target) 511), ROk)
      end
    end
  end.

(* link(2) / linkat(..., 0): the old path's final symlink is NOT followed (the link
   names the symlink itself); directories cannot be linked; the new name must not exist *)
Definition sys_link (c : ctx) (f : fs) (oldp newp : bytes) : fs * result :=
  match resolve_ino c f oldp false with
  | inr e => (f, RErr e)
  | inl i =>
    match resolve c f newp false with
    | inr e => (f, RErr e)
    | inl r =>
      match l_ino r with
      | Some _ => (f, RErr EEXIST)
      | None => if is_dir f i then (f, RErr EPERM) else (add_ent f (l_dir r) (l_name r) i, ROk)
      end
    end
  end.

(* open(O_WRONLY [|O_CREAT], mode) without O_TRUNC / O_EXCL / O_NOFOLLOW: FOLLOWS a
   final symlink; with O_CREAT a dangling final symlink makes the kernel create the
   link's target.  Returns the inode opened.  FIFOs / device nodes: ENXIO (what
   O_NONBLOCK gives without a reader / driver). *)
Definition sys_open_wronly (c : ctx) (f : fs) (p : bytes) (creat : bool) (mode : N) : fs * result :=
  match resolve c f p true with
  | inr e => (f, RErr e)
  | inl r =>
    match l_ino r with
    | Some i =>
      match get f i with
      | Some {| i_kind := KFile _ |} => (f, RFd i)
      | Some {| i_kind := KDir _ _ |} => (f, RErr EISDIR)
      | Some {| i_kind := KSpecial _ _ |} => (f, RErr ENXIO)
      | _ => (f, RErr ELOOP)     (* a symlink cannot be the result of a following lookup *)
      end
    | None =>
      if creat then
        let (f1, i) := create_at f r false (KFile []) (N.land mode perm_mask) in (f1, RFd i)
      else (f, RErr ENOENT)
    end
  end.

(* write [data] at byte offset [off] through a descriptor (pwrite): a hole is zero filled *)
Fixpoint overwrite (old : bytes) (off : nat) (data : bytes) : bytes :=
  match off with
  | O => data ++ skipn (length data) old
  | S o => match old with
           | [] => 0 :: overwrite [] o data
           | b :: r => b :: overwrite r o data
           end
  end.
Definition fd_pwrite (f : fs) (i : N) (off : nat) (data : bytes) : fs * result :=
  match get f i with
  | Some {| i_kind := KFile old; i_meta := m |} =>
    match data with
    | [] => (f, ROk)       (* a zero-length write changes nothing *)
    | _ => (put f i {| i_kind := KFile (overwrite old off data); i_meta := with_mtime m now_mark |}, ROk)
    end
  | _ => (f, RErr EINVAL)
  end.

(* open(2) with O_WRONLY|O_CREAT|O_TRUNC (follows a final symlink): an existing regular file
   loses its bytes and gets a new mtime, whether or not it had any *)
Definition fd_truncate (f : fs) (i : N) : fs :=
  match get f i with
  | Some {| i_kind := KFile _; i_meta := m |} => put f i {| i_kind := KFile []; i_meta := with_mtime m now_mark |}
  | _ => f
  end.
Definition sys_open_trunc (c : ctx) (f : fs) (p : bytes) (mode : N) : fs * result :=
  match sys_open_wronly c f p true mode with
  | (f1, RFd i) => (fd_truncate f1 i, RFd i)
  | x => x
  end.

(* unlink(2): no follow; directories are refused *)
Definition sys_unlink (c : ctx) (f : fs) (p : bytes) : fs * result :=
  match resolve c f p false with
  | inr e => (f, RErr e)
  | inl r =>
    match l_ino r with
    | None => (f, RErr ENOENT)
    | Some i =>
      if is_dir f i then (f, RErr EISDIR)
      else (del_ent f (l_dir r) (l_name r), ROk)
    end
  end.

(* rmdir(2): no follow; "." is EINVAL, the root EBUSY, ".." ENOTEMPTY — all reported as
   EINVAL here (outside the validated domain) *)
Definition sys_rmdir (c : ctx) (f : fs) (p : bytes) : fs * result :=
  match resolve c f p false with
  | inr e => (f, RErr e)
  | inl r =>
    match l_ino r with
    | None => (f, RErr ENOENT)
    | Some i =>
      match dir_of f i with
      | None => (f, RErr ENOTDIR)
      | Some (_, es) =>
        if is_nil (l_name r) then (f, RErr EINVAL)
        else if is_nil es then (del_ent f (l_dir r) (l_name r), ROk)
        else (f, RErr ENOTEMPTY)
      end
    end
  end.

(* Go's os.RemoveAll: unlink / rmdir, else recursive removal through directory
   descriptors opened O_NOFOLLOW — symlinks inside the tree are unlinked, never followed.
   A missing path is success; other lookup errors are returned.  Since inodes are not
   collected, removing a tree is removing its entry: files of the tree that are also
   linked elsewhere stay reachable there, untouched. *)
Definition ends_with_dot (p : bytes) : bool :=   (* os.endsWithDot: "." or ".../." *)
  match rev p with
  | [a] => N.eqb a dot
  | a :: b :: _ => N.eqb a dot && N.eqb b sep
  | [] => false
  end.
Definition sys_remove_all (c : ctx) (f : fs) (p : bytes) : fs * result :=
  match p with
  | [] => (f, ROk)
  | _ =>
    if ends_with_dot p then (f, RErr EINVAL)
    else
      match resolve c f p false with
      | inr ENOENT => (f, ROk)
      | inr e => (f, RErr e)
      | inl r =>
        match l_ino r with
        | None => (f, ROk)
        | Some _ => if is_nil (l_name r) then (f, RErr EBUSY)
                    else (del_ent f (l_dir r) (l_name r), ROk)
        end
      end
  end.

(* is directory [a] equal to, or an ancestor of, directory [d]?  (parent pointers, fuel) *)
Fixpoint is_ancestor (fuel : nat) (f : fs) (a d : N) : bool :=
  N.eqb a d ||
  match fuel with
  | O => false
  | S fuel' =>
    match dir_of f d with
    | Some (p, _) => if N.eqb p d then false else is_ancestor fuel' f a p
    | None => false
    end
  end.

Definition set_parent (f : fs) (i newpar : N) : fs :=
  match get f i with
  | Some {| i_kind := KDir _ es; i_meta := m |} => put f i {| i_kind := KDir newpar es; i_meta := m |}
  | _ => f
  end.

(* rename(2): neither final component is followed; an existing destination is replaced
   atomically (non-directory over non-directory, directory over EMPTY directory); two
   names of one inode: nothing happens.  Error precedence as in do_renameat2/vfs_rename. *)
Definition sys_rename (c : ctx) (f : fs) (oldp newp : bytes) : fs * result :=
  match resolve c f oldp false with
  | inr e => (f, RErr e)
  | inl ro =>
    match resolve c f newp false with
    | inr e => (f, RErr e)
    | inl rn =>
      if is_nil (l_name ro) || is_nil (l_name rn) then (f, RErr EBUSY)
      else
        match l_ino ro with
        | None => (f, RErr ENOENT)
        | Some i =>
          let odir := is_dir f i in
          if odir && is_ancestor rfuel f i (l_dir rn) then (f, RErr EINVAL)
          else
            let move (_ : unit) :=
              let f1 := del_ent f (l_dir ro) (l_name ro) in
              let f2 := match dir_of f1 (l_dir rn) with
                        | Some (_, es) => set_ents f1 (l_dir rn) (bset (l_name rn) i es)
                        | None => f1
                        end in
              (if odir then set_parent f2 i (l_dir rn) else f2, ROk) in
            match l_ino rn with
            | None => move tt
            | Some j =>
              if is_dir f j && is_ancestor rfuel f j (l_dir ro) then (f, RErr ENOTEMPTY)
              else if N.eqb i j then (f, ROk)
              else
                match dir_of f j with
                | Some (_, es) =>
                  if negb odir then (f, RErr EISDIR)
                  else if is_nil es then move tt else (f, RErr ENOTEMPTY)
                | None => if odir then (f, RErr ENOTDIR) else move tt
                end
            end
        end
    end
  end.

(* chmod(2) FOLLOWS a final symlink *)
Definition sys_chmod (c : ctx) (f : fs) (p : bytes) (mode : N) : fs * result :=
  match resolve_ino c f p true with
  | inr e => (f, RErr e)
  | inl i =>
    match get f i with
    | Some n => (put f i (set_meta n (with_mode (i_meta n) (N.land mode perm_mask))), ROk)
    | None => (f, RErr ENOENT)
    end
  end.

(* lchown(2): no follow.  An id of 2^32-1 (-1) leaves that id unchanged.  As for every
   caller since Linux 2.2.13, setuid is cleared on non-directories, and setgid too when
   the file is group-executable. *)
Definition no_id : N := 4294967295.
Definition sys_lchown (c : ctx) (f : fs) (p : bytes) (u g : N) : fs * result :=
  match resolve_ino c f p false with
  | inr e => (f, RErr e)
  | inl i =>
    match get f i with
    | Some n =>
      let m := i_meta n in
      let u' := if N.eqb u no_id then m_uid m else u in
      let g' := if N.eqb g no_id then m_gid m else g in
      let md := m_mode m in
      let md' := match i_kind n with
                 | KDir _ _ => md
                 | _ => let a := clear_bits md S_ISUID in   (* even when both ids are -1 *)
                        if negb (N.eqb (N.land md S_IXGRP) 0) then clear_bits a S_ISGID else a
                 end in
      (put f i (set_meta n (with_mode (with_owner m u' g') md')), ROk)
    | None => (f, RErr ENOENT)
    end
  end.

(* utimensat(AT_SYMLINK_NOFOLLOW) with atime = mtime = t *)
Definition sys_utimens (c : ctx) (f : fs) (p : bytes) (t : N) : fs * result :=
  match resolve_ino c f p false with
  | inr e => (f, RErr e)
  | inl i =>
    match get f i with
    | Some n => (put f i (set_meta n (with_mtime (i_meta n) t)), ROk)
    | None => (f, RErr ENOENT)
    end
  end.

(* lsetxattr(2), flags 0: no follow.  Name spaces modelled: "user." (regular files and
   directories only: EPERM on symlinks and special files) and "trusted."; any other
   name is ENOTSUP. *)
Definition pfx_user : bytes := [117; 115; 101; 114; 46].
Definition pfx_trusted : bytes := [116; 114; 117; 115; 116; 101; 100; 46].
Definition sys_lsetxattr (c : ctx) (f : fs) (p key value : bytes) : fs * result :=
  match resolve_ino c f p false with
  | inr e => (f, RErr e)
  | inl i =>
    match get f i with
    | Some n =>
      let user := has_prefix pfx_user key in
      if negb user && negb (has_prefix pfx_trusted key) then (f, RErr ENOTSUP)
      else if user && match i_kind n with KLink _ | KSpecial _ _ => true | _ => false end
      then (f, RErr EPERM)
      else (put f i (set_meta n (with_xattrs (i_meta n) (bset_sorted key value (m_xattrs (i_meta n))))), ROk)
    | None => (f, RErr ENOENT)
    end
  end.

(* chdir(2): follows; the working directory is part of the process context *)
Definition sys_chdir (c : ctx) (f : fs) (p : bytes) : ctx * result :=
  match resolve_ino c f p true with
  | inr e => (c, RErr e)
  | inl i => if is_dir f i then ({| c_root := c_root c; c_cwd := i |}, ROk) else (c, RErr ENOTDIR)
  end.

(* ---------------- observation: what an lstat-walk from a directory sees ---------------- *)
Fixpoint insert_sorted {A} (k : bytes) (v : A) (l : list (bytes * A)) : list (bytes * A) :=
  match l with
  | [] => [(k, v)]
  | (k', v') :: r => match cmp_bytes k k' with
                     | Gt => (k', v') :: insert_sorted k v r
                     | _ => (k, v) :: l
                     end
  end.
Definition sort_ents {A} (l : list (bytes * A)) : list (bytes * A) :=
  fold_right (fun kv acc => insert_sorted (fst kv) (snd kv) acc) [] l.

Definition child_path (d name : bytes) : bytes :=
  match d with [] => name | _ => d ++ sep :: name end.

(* entries below directory [i] (not [i] itself): relative path, inode number, record;
   directory before its contents, siblings bytewise by name; never through symlinks.
   [fuel] bounds the depth. *)
Fixpoint tree_below (fuel : nat) (f : fs) (i : N) (rel : bytes) : list (bytes * N * inode) :=
  match fuel with
  | O => []
  | S fuel' =>
    match dir_of f i with
    | None => []
    | Some (_, es) =>
      flat_map (fun e : bytes * N =>
                  let p := child_path rel (fst e) in
                  match get f (snd e) with
                  | Some n => (p, snd e, n) :: tree_below fuel' f (snd e) p
                  | None => []
                  end) (sort_ents es)
    end
  end.

Definition empty_meta (mode : N) : meta :=
  {| m_mode := mode; m_uid := 0; m_gid := 0; m_mtime := now_mark; m_xattrs := [] |}.
(* a file system holding one empty root directory (inode 1, its own parent), mode 0755 *)
Definition fs_init : fs :=
  {| f_inodes := [(1, {| i_kind := KDir 1 []; i_meta := empty_meta 493 |})]; f_next := 2 |}.
Definition ctx_init : ctx := {| c_root := 1; c_cwd := 1 |}.
