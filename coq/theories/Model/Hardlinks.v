(* L2/L3 — hardlinks.go: the receiver's hard-link validator (Hardlinks.HandleChange)
   and the sender-side reset filter (hardlinkFilter.Walk, installed by Send through
   WithHardlinkReset), over listings of stats in stream order. *)
From Coq Require Import List NArith Bool.
From FS Require Import Sx Model.Path Model.Stat.
Import ListNotations.
Open Scope bool_scope.

(* entries the two functions look at: neither directory nor symlink — i.e. regular files AND
   FIFOs, devices, sockets (hardlinks.go: `fi.IsDir() || fi.Mode()&os.ModeSymlink != 0` passes
   through; mkstat assigns Linkname to every non-directory with Nlink > 1) *)
Definition hl_plain (s : stat) : bool :=
  negb (mode_is_dir (st_mode s)) && negb (mode_is_symlink (st_mode s)).

Definition has_link (s : stat) : bool := negb (bytes_eqb (st_linkname s) []).

Fixpoint mem_bytes (p : bytes) (l : list bytes) : bool :=
  match l with [] => false | x :: r => bytes_eqb p x || mem_bytes p r end.

(* Hardlinks.HandleChange for kind add/modify: None = rejected *)
Definition hl_step (seen : list bytes) (s : stat) : option (list bytes) :=
  if negb (hl_plain s) then Some seen
  else if has_link s then (if mem_bytes (st_linkname s) seen then Some seen else None)
  else Some (st_path s :: seen).

Fixpoint hl_run (seen : list bytes) (l : list stat) (i : nat) : option nat :=
  match l with
  | [] => None
  | s :: r => match hl_step seen s with None => Some i | Some seen' => hl_run seen' r (S i) end
  end.

(* index of the first rejected entry; None = all accepted *)
Definition hardlink_check (l : list stat) : option nat := hl_run [] l 0.

(* hardlinkFilter.Walk: seenFiles : linkname-or-path -> representative path *)
Fixpoint lookup_b (k : bytes) (m : list (bytes * bytes)) : option bytes :=
  match m with
  | [] => None
  | (k', v) :: r => if bytes_eqb k k' then Some v else lookup_b k r
  end.

Definition reset_step (m : list (bytes * bytes)) (s : stat) : list (bytes * bytes) * stat :=
  if negb (hl_plain s) then (m, s)
  else
    let '(m1, s1) :=
      if has_link s then
        match lookup_b (st_linkname s) m with
        | None => ((st_linkname s, st_path s) :: m, set_linkname s [])
        | Some v => if bytes_eqb v (st_path s) then (m, s) else (m, set_linkname s v)
        end
      else (m, s) in
    ((st_path s, st_path s) :: m1, s1).

Fixpoint reset_run (m : list (bytes * bytes)) (l : list stat) : list stat :=
  match l with
  | [] => []
  | s :: r => let '(m', s') := reset_step m s in s' :: reset_run m' r
  end.

Definition hardlink_reset (l : list stat) : list stat := reset_run [] l.

(* ---- well-formed input of the reset filter: a sub-sequence of a canonical walk ----
   paths are distinct and non-empty; a link name is never the path of a link member, and if the
   entry it names is in the listing at all it is an EARLIER plain non-link entry. *)
Fixpoint wf_links_from (before : list stat) (l : list stat) : bool :=
  match l with
  | [] => true
  | s :: r =>
    negb (existsb (fun b => bytes_eqb (st_path b) (st_path s)) before)
    && negb (bytes_eqb (st_path s) [])
    && (if hl_plain s && has_link s then
          negb (bytes_eqb (st_linkname s) (st_path s))
          && forallb (fun b => negb (bytes_eqb (st_path b) (st_linkname s))
                               || (hl_plain b && negb (has_link b))) before
          && negb (existsb (fun a => bytes_eqb (st_path a) (st_linkname s)) r)
        else true)
    && wf_links_from (before ++ [s]) r
  end.

Definition wf_links (l : list stat) : bool := wf_links_from [] l.

(* ---- declarative description of the reset's result ----
   source of a plain entry = the path its group is named after *)
Definition orig_rep (s : stat) : bytes := match st_linkname s with [] => st_path s | l => l end.

(* path of the first plain entry of the listing whose group is named k *)
Fixpoint first_rep (l : list stat) (k : bytes) : option bytes :=
  match l with
  | [] => None
  | s :: r => if hl_plain s && bytes_eqb (orig_rep s) k then Some (st_path s) else first_rep r k
  end.

(* every plain entry ends up pointing at (or being) the first kept member of its group *)
Definition reset_spec_entry (whole : list stat) (s : stat) : stat :=
  if negb (hl_plain s) then s
  else match first_rep whole (orig_rep s) with
       | Some r => if bytes_eqb r (st_path s) then set_linkname s [] else set_linkname s r
       | None => s
       end.
Definition reset_spec (l : list stat) : list stat := map (reset_spec_entry l) l.
