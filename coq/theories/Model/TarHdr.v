(* L12 — tar export: WriteTar's header construction (tarwriter.go) on top of
   archive/tar.FileInfoHeader, the payload decision, the sequential writer with
   archive/tar's size accounting, what archive/tar's Writer+Reader give back for a
   header (mtime rounded to the second), the inverse an extractor applies, and the
   declarative member-by-member specification used as oracle.
   Models only — proofs are in Proofs/TarP.v. *)
From Coq Require Import List NArith ZArith Bool.
From FS Require Import Sx Model.Path Model.Stat Model.Tree Model.Hardlinks.
Import ListNotations.
Open Scope N_scope.

(* ---------- signed 64-bit values travel as two's complement (mod 2^64) ---------- *)
Definition two63 : N := 9223372036854775808.
Definition two64 : N := 18446744073709551616.
Definition sint (n : N) : Z :=
  if n <? two63 then Z.of_N n else (Z.of_N n - Z.of_N two64)%Z.
Definition of_sint (z : Z) : N := Z.to_N (z mod Z.of_N two64).

(* ---------- archive/tar constants ---------- *)
Definition TypeReg     : N := 48.  (* '0' *)
Definition TypeLink    : N := 49.  (* '1' hard link *)
Definition TypeSymlink : N := 50.  (* '2' *)
Definition TypeChar    : N := 51.  (* '3' *)
Definition TypeBlock   : N := 52.  (* '4' *)
Definition TypeDir     : N := 53.  (* '5' *)
Definition TypeFifo    : N := 54.  (* '6' *)
Definition c_ISUID : N := 2048.    (* 04000 *)
Definition c_ISGID : N := 1024.    (* 02000 *)
Definition c_ISVTX : N := 512.     (* 01000 *)

Record hdr := {
  h_name : bytes;
  h_typeflag : N;
  h_mode : N;         (* tar mode: perm | c_ISUID | c_ISGID | c_ISVTX *)
  h_uid : N;
  h_gid : N;
  h_size : N;         (* int64, two's complement *)
  h_mtime : N;        (* ns, int64 two's complement, as given by the view *)
  h_linkname : bytes;
  h_devmajor : N;     (* int64, two's complement *)
  h_devminor : N;
  h_xattrs : list (bytes * bytes)   (* PAXRecords "SCHILY.xattr."+k = v, sorted by k *)
}.

(* ---------- tar.FileInfoHeader ---------- *)
(* h.Mode = int64(fm.Perm()) | c_ISUID/c_ISGID/c_ISVTX from ModeSetuid/ModeSetgid/ModeSticky *)
Definition tar_mode (m : N) : N :=
  N.lor (N.lor (N.lor (N.land m ModePerm)
                      (if has_bits m ModeSetuid then c_ISUID else 0))
               (if has_bits m ModeSetgid then c_ISGID else 0))
        (if has_bits m ModeSticky then c_ISVTX else 0).

(* the type switch, in the order of the Go code; None = FileInfoHeader returns an error
   ("sockets not supported" / "unknown file mode") *)
Definition fih_typeflag (m : N) : option N :=
  if mode_is_regular m then Some TypeReg
  else if mode_is_dir m then Some TypeDir
  else if mode_is_symlink m then Some TypeSymlink
  else if has_bits m ModeDevice then Some (if has_bits m ModeCharDevice then TypeChar else TypeBlock)
  else if has_bits m ModeNamedPipe then Some TypeFifo
  else None.
Definition fih_ok (m : N) : bool := match fih_typeflag m with Some _ => true | None => false end.

Definition is_nil {A} (l : list A) : bool := match l with [] => true | _ => false end.

(* ---------- WriteTar: header of one walk entry ---------- *)
(* name := path; if fi.IsDir() && !strings.HasSuffix(name, "/") { name += "/" } *)
Definition ends_with_sep (p : bytes) : bool := N.eqb (last p 0) sep.
Definition tar_name (m : N) (p : bytes) : bytes :=
  if mode_is_dir m && negb (ends_with_sep p) then p ++ [sep] else p.

(* hdr.Linkname = stat.Linkname; if != "" { Size = 0; Typeflag = symlink ? '2' : '1' } *)
Definition hdr_typeflag (m : N) (ln : bytes) : N :=
  if is_nil ln then match fih_typeflag m with Some t => t | None => 0 end
  else if mode_is_symlink m then TypeSymlink else TypeLink.
(* FileInfoHeader sets Size = fi.Size() only for regular files *)
Definition hdr_size (m : N) (ln : bytes) (sz : N) : N :=
  if is_nil ln && mode_is_regular m then sz else 0.

Definition hdr_of_stat (s : stat) : hdr :=
  {| h_name := tar_name (st_mode s) (st_path s);
     h_typeflag := hdr_typeflag (st_mode s) (st_linkname s);
     h_mode := tar_mode (st_mode s);
     h_uid := st_uid s;
     h_gid := st_gid s;
     h_size := hdr_size (st_mode s) (st_linkname s) (st_size s);
     h_mtime := st_mtime s;
     h_linkname := st_linkname s;
     h_devmajor := st_devmajor s;
     h_devminor := st_devminor s;
     h_xattrs := st_xattrs s |}.

(* if hdr.Typeflag == tar.TypeReg && hdr.Size > 0 && hdr.Linkname == "" { io.Copy(tw, Open(path)) } *)
Definition has_payload (h : hdr) : bool :=
  N.eqb (h_typeflag h) TypeReg && Z.ltb 0 (sint (h_size h)) && is_nil (h_linkname h).

Definition member := (hdr * bytes)%type.

Definition member_of_entry (e : entry) : member :=
  let h := hdr_of_stat (fst e) in (h, if has_payload h then snd e else []).

(* WriteTar first wraps its FS in WithHardlinkReset (hardlinks.go, Model/Hardlinks.v): a
   hard-link member whose source is not in the listing (filtered out) becomes the
   representative of its group; the bytes Open serves are those of the path, unchanged *)
Definition reset_entries (l : list entry) : list entry :=
  combine (hardlink_reset (map fst l)) (map snd l).

(* the archive of a listing (a walk, filtered or not), and of a whole view *)
Definition tar_of_listing (l : list entry) : list member := map member_of_entry l.
Definition tar_members_listing (l : list entry) : list member := tar_of_listing (reset_entries l).
Definition tar_members (v : list node) : list member := tar_members_listing (walk_root v).

(* ---------- archive/tar Writer + Reader on one header (trusted, validated by the run) ----------
   Header.Format is FormatUnknown, so WriteHeader does ModTime.Round(time.Second)
   (nearest second, halves up) BEFORE choosing USTAR / PAX / GNU: no format keeps the
   sub-second part.  Every other field comes back as written. *)
Definition ns_per_s : Z := 1000000000.
Definition round_sec (ns : N) : Z := ((sint ns + 500000000) / ns_per_s)%Z.
Definition round_ns (ns : N) : N := of_sint (round_sec ns * ns_per_s).

Definition archived (h : hdr) : hdr :=
  {| h_name := h_name h; h_typeflag := h_typeflag h; h_mode := h_mode h; h_uid := h_uid h; h_gid := h_gid h;
     h_size := h_size h; h_mtime := round_ns (h_mtime h); h_linkname := h_linkname h;
     h_devmajor := h_devmajor h; h_devminor := h_devminor h; h_xattrs := h_xattrs h |}.
Definition archived_member (m : member) : member := (archived (fst m), snd m).
Definition archive (v : list node) : list member := map archived_member (tar_members v).

(* Which headers does Writer.WriteHeader accept (Header.allowedFormats <> FormatUnknown)?
   USTAR-encodable headers are PAX-encodable, so only PAX and GNU need to be described:
   PAX: Devmajor/Devminor must fit 7 octal digits (they have no PAX key); GNU: no PAXRecords,
   no NUL in names, numbers fit base-256.  Independently of the format: every PAX record that
   would be needed must be valid, a non-header-only type must not have a negative size, and
   the name of a '0' '3' '4' '6' member must not end in '/'. *)
Definition fits_octal8 (n : N) : bool := n <? 2097152.                       (* 0 <= x < 2^21 *)
Definition fits_base256_8 (n : N) : bool :=                                   (* -2^56 <= x < 2^56 *)
  (Z.leb (- 72057594037927936) (sint n) && Z.ltb (sint n) 72057594037927936)%Z.
Definition is_ascii (s : bytes) : bool := forallb (fun b => b <? 128) s.
Definition has_nul (s : bytes) : bool := existsb (N.eqb 0) s.
Definition needs_pax_string (s : bytes) : bool := negb (is_ascii s) || (100 <? N.of_nat (length s)).
Definition xattr_key_ok (k : bytes) : bool := negb (existsb (N.eqb 61) k) && negb (has_nul k).  (* '=' *)
Definition header_only (t : N) : bool :=
  N.eqb t TypeLink || N.eqb t TypeSymlink || N.eqb t TypeChar || N.eqb t TypeBlock || N.eqb t TypeDir || N.eqb t TypeFifo.

Definition tar_encodable (h : hdr) : bool :=
  let pax_ok := fits_octal8 (h_devmajor h) && fits_octal8 (h_devminor h) in
  let gnu_ok := is_nil (h_xattrs h) && negb (has_nul (h_name h)) && negb (has_nul (h_linkname h))
                && fits_base256_8 (h_devmajor h) && fits_base256_8 (h_devminor h) in
  let records_ok := negb (needs_pax_string (h_name h) && has_nul (h_name h))
                    && negb (needs_pax_string (h_linkname h) && has_nul (h_linkname h))
                    && forallb (fun kv => xattr_key_ok (fst kv)) (h_xattrs h) in
  let size_ok := header_only (h_typeflag h) || Z.leb 0 (sint (h_size h)) in
  let slash_ok := header_only (h_typeflag h) && negb (N.eqb (h_typeflag h) TypeChar)
                  && negb (N.eqb (h_typeflag h) TypeBlock) && negb (N.eqb (h_typeflag h) TypeFifo)
                  || negb (ends_with_sep (h_name h)) in
  (pax_ok || gnu_ok) && records_ok && size_ok && slash_ok.

(* ---------- WriteTar as a sequential program over the walk ----------
   TarErr k: WriteTar returned an error after k walk callbacks had completed.
   [short]: the previous member received fewer bytes than its declared size; the next
   WriteHeader (or Close) then fails in Flush ("missed writing n bytes").  More bytes than
   declared fail inside io.Copy (ErrWriteTooLong). *)
Inductive tar_result := TarOk (ms : list member) | TarErr (completed : nat).

Definition blen (c : bytes) : N := N.of_nat (length c).

Fixpoint write_loop (l : list entry) (short : bool) (idx : nat) (acc : list member) : tar_result :=
  match l with
  | [] => if short then TarErr idx else TarOk (rev acc)
  | e :: r =>
    let s := fst e in
    if short then TarErr idx
    else if negb (fih_ok (st_mode s)) then TarErr idx
    else
      let h := hdr_of_stat s in
      if negb (tar_encodable h) then TarErr idx
      else if has_payload h then
        if h_size h <? blen (snd e) then TarErr idx
        else write_loop r (blen (snd e) <? h_size h) (S idx) ((h, snd e) :: acc)
      else write_loop r false (S idx) ((h, []) :: acc)
  end.

Definition write_listing (l : list entry) : tar_result := write_loop l false O [].
Definition write_tar_listing (l : list entry) : tar_result := write_listing (reset_entries l).
Definition write_tar (v : list node) : tar_result := write_tar_listing (walk_root v).

(* ---------- the inverse an extractor applies (tar.Header.FileInfo().Mode()) ---------- *)
Definition type_bits_of_flag (t : N) : N :=
  if N.eqb t TypeDir then ModeDir
  else if N.eqb t TypeSymlink then ModeSymlink
  else if N.eqb t TypeChar then N.lor ModeDevice ModeCharDevice
  else if N.eqb t TypeBlock then ModeDevice
  else if N.eqb t TypeFifo then ModeNamedPipe
  else 0.

Definition go_mode_of_tar (t tm : N) : N :=
  N.lor (N.lor (N.lor (N.lor (N.land tm ModePerm)
                             (if has_bits tm c_ISUID then ModeSetuid else 0))
                      (if has_bits tm c_ISGID then ModeSetgid else 0))
               (if has_bits tm c_ISVTX then ModeSticky else 0))
        (type_bits_of_flag t).

Definition strip_dir_slash (t : N) (name : bytes) : bytes :=
  if N.eqb t TypeDir && ends_with_sep name then removelast name else name.

Definition stat_of_hdr (h : hdr) : stat :=
  {| st_path := strip_dir_slash (h_typeflag h) (h_name h);
     st_mode := go_mode_of_tar (h_typeflag h) (h_mode h);
     st_uid := h_uid h; st_gid := h_gid h; st_size := h_size h; st_mtime := h_mtime h;
     st_linkname := h_linkname h; st_devmajor := h_devmajor h; st_devminor := h_devminor h;
     st_xattrs := h_xattrs h |}.

(* what survives the trip: the mtime to the (nearest) second; Stat.Size only where the
   header carries it (regular files that are not link members) *)
Definition set_mtime (s : stat) (t : N) : stat :=
  {| st_path := st_path s; st_mode := st_mode s; st_uid := st_uid s; st_gid := st_gid s; st_size := st_size s;
     st_mtime := t; st_linkname := st_linkname s; st_devmajor := st_devmajor s;
     st_devminor := st_devminor s; st_xattrs := st_xattrs s |}.
Definition round_mtime_to_second (s : stat) : stat := set_mtime s (round_ns (st_mtime s)).
Definition carries_size (s : stat) : bool := is_nil (st_linkname s) && mode_is_regular (st_mode s).
Definition header_size_only (s : stat) : stat := set_size s (if carries_size s then st_size s else 0).

(* ---------- extraction of a whole archive back into a listing ----------
   A hard-link member takes size and bytes from the earlier extracted entry it names. *)
Definition find_entry (p : bytes) (l : list entry) : option entry :=
  find (fun e => bytes_eqb (st_path (fst e)) p) l.

Definition extract_member (done : list entry) (m : member) : entry :=
  let s := stat_of_hdr (fst m) in
  if N.eqb (h_typeflag (fst m)) TypeLink then
    match find_entry (h_linkname (fst m)) done with
    | Some t => (set_size s (st_size (fst t)), snd t)
    | None => (s, [])                          (* dangling link: nothing to link to *)
    end
  else (s, snd m).

Fixpoint extract_loop (ms : list member) (done : list entry) : list entry :=
  match ms with
  | [] => []
  | m :: r => let e := extract_member done m in e :: extract_loop r (done ++ [e])
  end.
Definition extract (ms : list member) : list entry := extract_loop ms [].

(* what an extracted entry is expected to look like: the mtime to the second; Size kept for
   regular files (a hard-link member gets it back from the file it links to), dropped
   otherwise; the bytes unchanged *)
Definition extracted_stat (s : stat) : stat :=
  round_mtime_to_second (if mode_is_regular (st_mode s) then s else set_size s 0).
Definition extracted (e : entry) : entry := (extracted_stat (fst e), snd e).

(* ---------- well-formedness ---------- *)
(* Mode bits within the FileMode layout: permission bits, setuid/setgid/sticky, and exactly
   one of the six types tar can express.  Stated on the part above the nine permission
   bits: m / 512 is one of 6 x 8 values. *)
Definition wf_types : list N :=
  [0; ModeDir; ModeSymlink; ModeNamedPipe; ModeDevice; ModeDevice + ModeCharDevice].
Definition wf_specials : list N :=
  [0; ModeSticky; ModeSetgid; ModeSetgid + ModeSticky; ModeSetuid; ModeSetuid + ModeSticky;
   ModeSetuid + ModeSetgid; ModeSetuid + ModeSetgid + ModeSticky].
Definition wf_high_parts : list N :=
  flat_map (fun t => map (fun sp => (t + sp) / 512) wf_specials) wf_types.
Definition mode_okb (m : N) : bool := existsb (N.eqb (m / 512)) wf_high_parts.

(* a stat whose header can be inverted: mode as above; a link name only on symlinks and on
   regular files (hard-link members); the path does not end in '/' *)
Definition wf_stat_b (s : stat) : bool :=
  mode_okb (st_mode s)
  && (is_nil (st_linkname s) || mode_is_symlink (st_mode s) || mode_is_regular (st_mode s))
  && negb (ends_with_sep (st_path s)).
Definition wf_stat (s : stat) : Prop := wf_stat_b s = true.

(* an entry WriteTar can export: additionally, a regular non-link file's Size is
   non-negative and is the number of bytes Open serves; entries that carry no payload have
   no content in the view; archive/tar can encode the header *)
Definition wf_entry_b (e : entry) : bool :=
  wf_stat_b (fst e)
  && (if carries_size (fst e)
      then (st_size (fst e) <? two63) && N.eqb (st_size (fst e)) (blen (snd e))
      else true)
  && tar_encodable (hdr_of_stat (fst e)).
Definition wf_listing_b (l : list entry) : bool := forallb wf_entry_b l.

(* the WRITE domain is wider: a link name may also sit on a fifo or a device (a second name
   of such an inode; WriteTar makes it a hard-link member).  The header of such a member
   cannot be inverted on its own (a '1' member carries no type), so the round-trip statements
   keep the narrower domain above; everything about what WriteTar emits holds here. *)
Definition wf_stat_wb (s : stat) : bool :=
  mode_okb (st_mode s)
  && (is_nil (st_linkname s) || negb (mode_is_dir (st_mode s)))
  && negb (ends_with_sep (st_path s)).
Definition wf_entry_wb (e : entry) : bool :=
  wf_stat_wb (fst e)
  && (if carries_size (fst e)
      then (st_size (fst e) <? two63) && N.eqb (st_size (fst e)) (blen (snd e))
      else true)
  && tar_encodable (hdr_of_stat (fst e)).
Definition wf_listing_wb (l : list entry) : bool := forallb wf_entry_wb l.
(* a view is exportable when the listing WriteTar works on (after the hard-link reset) is *)
Definition wf_view (v : list node) : Prop := wf_listing_b (reset_entries (walk_root v)) = true.

(* link closure (needed to EXTRACT, not to write): a hard-link member names an earlier
   regular non-link entry with the same size and bytes; entries that are not regular
   files have no content *)
Definition link_target_ok (done : list entry) (e : entry) : bool :=
  if carries_size (fst e) then true
  else if mode_is_regular (st_mode (fst e)) then
    match find_entry (st_linkname (fst e)) done with
    | Some t => carries_size (fst t) && N.eqb (st_size (fst t)) (st_size (fst e)) && bytes_eqb (snd t) (snd e)
    | None => false
    end
  else is_nil (snd e).
Fixpoint links_closed_from (done l : list entry) : bool :=
  match l with
  | [] => true
  | e :: r => link_target_ok done e && links_closed_from (done ++ [e]) r
  end.
Definition links_closed (l : list entry) : bool := links_closed_from [] l.

(* mtimes whose rounded value is representable in int64 nanoseconds (1677-09-21 .. 2262-04-11
   minus half a second at either end) *)
Definition mtime_in_range (e : entry) : bool :=
  (Z.leb (-9223372036500000000) (sint (st_mtime (fst e))) && Z.ltb (sint (st_mtime (fst e))) 9223372036500000000)%Z.

(* ---------- the specification, member by member (oracle of the correspondence run) ----------
   Written against the view entry, independently of hdr_of_stat: classification of the
   entry, then a table of what the member must be. *)
Inductive ekind := KReg | KDir | KSym | KChar | KBlock | KFifo | KOther.
Definition ekind_of (m : N) : ekind :=
  let t := N.land m ModeType in
  if N.eqb t 0 then KReg
  else if N.eqb t ModeDir then KDir
  else if N.eqb t ModeSymlink then KSym
  else if N.eqb t (ModeDevice + ModeCharDevice) then KChar
  else if N.eqb t ModeDevice then KBlock
  else if N.eqb t ModeNamedPipe then KFifo
  else KOther.

Definition spec_typeflag (k : ekind) (link : bool) : option N :=
  match k, link with
  | KReg, false => Some TypeReg
  | KReg, true => Some TypeLink
  | KDir, false => Some TypeDir
  | KSym, _ => Some TypeSymlink
  | KChar, false => Some TypeChar
  | KBlock, false => Some TypeBlock
  | KFifo, false => Some TypeFifo
  (* a second name of a device / fifo inode (the walker's inode map gives it a Linkname too)
     is a hard-link member like a second name of a regular file *)
  | KChar, true => Some TypeLink
  | KBlock, true => Some TypeLink
  | KFifo, true => Some TypeLink
  | _, _ => None
  end.

Definition optN_eqb (a : option N) (b : N) : bool := match a with Some x => N.eqb x b | None => false end.

(* a: the member as read back from the archive *)
Definition member_matches (e : entry) (a : member) : bool :=
  let s := fst e in let h := fst a in
  let k := ekind_of (st_mode s) in
  let link := negb (is_nil (st_linkname s)) in
  let plain_file := match k with KReg => negb link | _ => false end in
  (* name: the path, with a trailing slash exactly for directories *)
  bytes_eqb (h_name h) (match k with KDir => st_path s ++ [sep] | _ => st_path s end)
  && optN_eqb (spec_typeflag k link) (h_typeflag h)
  (* mode: permission bits, and setuid/setgid/sticky as tar bits 04000/02000/01000 *)
  && (h_mode h <? 4096) && N.eqb (h_mode h mod 512) (st_mode s mod 512)
  && Bool.eqb (N.testbit (h_mode h) 11) (N.testbit (st_mode s) 23)
  && Bool.eqb (N.testbit (h_mode h) 10) (N.testbit (st_mode s) 22)
  && Bool.eqb (N.testbit (h_mode h) 9) (N.testbit (st_mode s) 20)
  && N.eqb (h_uid h) (st_uid s) && N.eqb (h_gid h) (st_gid s)
  (* mtime: whole seconds, less than one second away *)
  && (Z.eqb (sint (h_mtime h) mod ns_per_s) 0
      && Z.ltb (Z.abs (sint (h_mtime h) - sint (st_mtime s))) ns_per_s)%Z
  && bytes_eqb (h_linkname h) (st_linkname s)
  && N.eqb (h_devmajor h) (st_devmajor s) && N.eqb (h_devminor h) (st_devminor s)
  && xattrs_eqb (h_xattrs h) (st_xattrs s)
  (* payload: exact bytes for regular non-link files, nothing otherwise; declared size = bytes *)
  && bytes_eqb (snd a) (if plain_file then snd e else [])
  && N.eqb (h_size h) (blen (snd a)).

Fixpoint members_match (l : list entry) (ms : list member) : bool :=
  match l, ms with
  | [], [] => true
  | e :: l', m :: ms' => member_matches e m && members_match l' ms'
  | _, _ => false
  end.

(* every hard-link member names an earlier regular ('0') member: the archive is self-contained *)
Fixpoint links_resolve_from (seen : list bytes) (ms : list member) : bool :=
  match ms with
  | [] => true
  | m :: r =>
    let h := fst m in
    (if N.eqb (h_typeflag h) TypeLink then existsb (bytes_eqb (h_linkname h)) seen else true)
    && links_resolve_from (if N.eqb (h_typeflag h) TypeReg then h_name h :: seen else seen) r
  end.
Definition links_resolve (ms : list member) : bool := links_resolve_from [] ms.

(* ---------- link groups of a (filtered) listing ----------
   Two plain entries belong to the same hard-link group when they name the same source
   (Hardlinks.orig_rep: the link name, or the own path for the entry the others name).  In a
   view taken from a file system these are one inode: same type, same size, same bytes.  The
   filters may drop any members of a group, also the one the others name. *)
Definition same_group (a b : stat) : bool :=
  hl_plain a && hl_plain b && bytes_eqb (orig_rep a) (orig_rep b).
Definition group_types_agree (l : list entry) : bool :=
  forallb (fun a => forallb (fun b =>
    negb (same_group (fst a) (fst b))
    || Bool.eqb (mode_is_regular (st_mode (fst a))) (mode_is_regular (st_mode (fst b)))) l) l.
Definition group_contents_agree (l : list entry) : bool :=
  forallb (fun a => forallb (fun b =>
    negb (same_group (fst a) (fst b))
    || (N.eqb (st_size (fst a)) (st_size (fst b)) && bytes_eqb (snd a) (snd b))) l) l.
(* only regular files have bytes *)
Definition no_content_unless_regular (l : list entry) : bool :=
  forallb (fun e => mode_is_regular (st_mode (fst e)) || is_nil (snd e)) l.
