(* C14 — vocabulary of the containment theorems about Model/CopyFs.v. *)
From Coq Require Import List NArith Bool.
From FS Require Import Sx Model.Path Model.Fs Model.RootPath Model.CopyFs.
Import ListNotations.
Open Scope N_scope.
Open Scope bool_scope.

(* entries of a directory (nil for anything else) *)
Definition dents (f : fs) (i : N) : list (bytes * N) :=
  match dir_of f i with Some (_, es) => es | None => [] end.

(* [chain f d cs e]: the names cs lead from directory d to directory e through real
   directories only (no symlink, no missing entry) *)
Inductive chain (f : fs) : N -> list bytes -> N -> Prop :=
| chain_nil : forall d, is_dir f d = true -> chain f d [] d
| chain_cons : forall d x i cs e,
    blookup x (dents f d) = Some i -> is_dir f i = true -> chain f i cs e -> chain f d (x :: cs) e.

(* i is the directory dr or a directory below it (reached through real directories) *)
Definition inside_dir (f : fs) (dr i : N) : Prop := exists cs, chain f dr cs i.

(* no directory can be reached from itself: the directory graph has no cycle *)
Definition acyclic (f : fs) : Prop := forall i cs, cs <> [] -> ~ chain f i cs i.

(* inode numbers at or above the allocation counter are unused *)
Definition alloc_ok (f : fs) : Prop := forall i, f_next f <= i -> get f i = None.

(* did the lookup of cs from cur expand (follow) a symlink?  Mirrors Fs.walk. *)
Fixpoint walk_follows (fuel : nat) (f : fs) (root cur : N) (cs : list bytes) (follow : bool) (nsym : N) : bool :=
  match fuel with
  | O => false
  | S fuel' =>
    match dir_of f cur with
    | None => false
    | Some (par, ents) =>
      match cs with
      | [] => false
      | c :: rest =>
        if bytes_eqb c s_dot then walk_follows fuel' f root cur rest follow nsym
        else if bytes_eqb c s_dotdot then
          walk_follows fuel' f root (if N.eqb cur root then cur else par) rest follow nsym
        else
          match blookup c ents with
          | None => false
          | Some i =>
            match get f i with
            | Some {| i_kind := KLink t |} =>
              if is_nil rest && negb follow then false
              else if N.leb max_symlinks nsym then false
              else if is_nil t then false
              else true
            | _ => if is_nil rest then false else walk_follows fuel' f root i rest follow nsym
            end
          end
      end
    end
  end.

(* ---- well-formedness of the initial file system, as far as the containment proofs use it ---- *)
Definition entry_name_ok (n : bytes) : bool := name_ok n.

Record fs_wf (f : fs) : Prop := {
  wf_alloc : alloc_ok f;                                              (* numbers >= f_next are unused *)
  wf_target : forall j name child, blookup name (dents f j) = Some child -> child < f_next f;
  wf_nodup : forall j, NoDup (map fst (dents f j));                   (* names in a directory are unique *)
  wf_names : forall j, forallb entry_name_ok (map fst (dents f j)) = true;   (* proper names *)
  wf_single : forall j1 j2 n1 n2 i, blookup n1 (dents f j1) = Some i -> blookup n2 (dents f j2) = Some i ->
              is_dir f i = true -> j1 = j2 /\ n1 = n2;                (* a directory has one parent entry *)
  wf_acyclic : acyclic f                                              (* no directory below itself *)
}.

(* ---- the deferred parents of copier.copy (include patterns) ----
   The stack c.parentDirs holds (source path, destination path, copied) for the directories the
   walk is inside of; those with copied = false have not been created at the destination yet.
   [deferred_targets dcs cs pend]: the destination paths "<dstRoot>/cs/p1", "<dstRoot>/cs/p1/p2", …
   of the pending directories pend below "<dstRoot>/cs". *)
Definition uncopied_targets (ps : list (bytes * bytes * bool)) : list bytes :=
  map (fun e => snd (fst e)) (filter (fun e => negb (snd e)) ps).

Fixpoint deferred_targets (dcs cs pend : list bytes) : list bytes :=
  match pend with
  | [] => []
  | p :: r => render (dcs ++ cs ++ [p]) :: deferred_targets dcs (cs ++ [p]) r
  end.

Definition cst_with_parents (f : fs) (ps : list (bytes * bytes * bool)) : cst :=
  {| s_fs := f; s_links := []; s_parents := ps; s_reads := [] |}.

(* ---- the source side ----
   [src_reach f sr i]: inode i is the directory sr, a directory below it (through real directories),
   or an entry (of any kind) of such a directory: what a walk below srcRoot that never follows a
   symlink can reach. *)
Definition src_reach (f : fs) (sr i : N) : Prop :=
  exists ns d, chain f sr ns d /\ (i = d \/ exists x, blookup x (dents f d) = Some i).
