(* L6 — vocabulary for "decoding never yields more than its input": what the decoder allocates
   per field, and the executable predicate "no map entry overruns its declared length"
   (the hypothesis that separates the known finding map-entry-overrun-overallocates).

   Nothing here is run against the implementation: Model/Codec.v stays the model of the code,
   with the rewinding behaviour of the map-entry loop (iNdEx = postIndex) kept as it is. *)
From Coq Require Import List NArith Bool.
From FS Require Import Sx Model.Path Model.Stat Model.Varint Model.Codec.
Import ListNotations.
Open Scope N_scope.

(* bytes a decoded field makes the receiver hold *)
Definition sfield_alloc (f : sfield) : N :=
  match f with
  | SF_path b => len b
  | SF_linkname b => len b
  | SF_xattr k v => len k + len v
  | SF_unknown raw => len raw
  | _ => 0
  end.
Definition pfield_alloc (f : pfield) : N :=
  match f with
  | PF_stat b => len b
  | PF_data b => len b
  | PF_unknown raw => len raw
  | _ => 0
  end.
Definition pstate_alloc (q : pstate) : N :=
  match q_stat q with Some su => stat_alloc su | None => 0 end + len (q_data q) + len (q_unk q).

(* Where the map-entry loop of Codec.dec_entry stops: the rest of the MESSAGE at the moment
   the loop condition iNdEx < postIndex fails.  The entry is contained iff that rest is
   exactly the [stop] bytes that follow the entry; if it is shorter, the last key/value read
   ran past the end of the entry (and the code rewinds to postIndex afterwards). *)
Fixpoint entry_end (fuel : nat) (stop : N) (cur : bytes) : option bytes :=
  if len cur <=? stop then Some cur else
  match fuel with
  | O => None
  | S f =>
    match get_tag cur with
    | None => None
    | Some (fn, _, r) =>
      if fn =? 1 then
        match get_bytes r with Some (_, r') => entry_end f stop r' | None => None end
      else if fn =? 2 then
        match get_bytes r with Some (_, r') => entry_end f stop r' | None => None end
      else
        match skip cur with
        | Some r' => if len r' <? stop then None else entry_end f stop r'
        | None => None
        end
    end
  end.

(* [r] = the input after the tag of field 10 *)
Definition xattr_contained (r : bytes) : bool :=
  match get_varint r with
  | Some (n, r1) =>
    if n <=? len r1 then
      match entry_end (length r1) (len r1 - n) r1 with
      | Some e => len e =? len r1 - n
      | None => true
      end
    else true
  | None => true
  end.

Definition sfield_contained (l : bytes) : bool :=
  match get_tag l with
  | Some (fn, _, r) => if fn =? 10 then xattr_contained r else true
  | None => true
  end.

(* every map entry met by Stat.UnmarshalVT on [l] is contained *)
Fixpoint no_overrun_f (fuel : nat) (l : bytes) : bool :=
  match l with
  | [] => true
  | _ :: _ =>
    match fuel with
    | O => true
    | S f =>
      match dec_sfield l with
      | Some (_, rest) => sfield_contained l && no_overrun_f f rest
      | None => true
      end
    end
  end.
Definition no_overrun_stat (b : bytes) : bool := no_overrun_f (length b) b.

Definition pfield_contained (f : pfield) : bool :=
  match f with PF_stat b => no_overrun_stat b | _ => true end.
Fixpoint no_overrun_pf (fuel : nat) (l : bytes) : bool :=
  match l with
  | [] => true
  | _ :: _ =>
    match fuel with
    | O => true
    | S f =>
      match dec_pfield l with
      | Some (fld, rest) => pfield_contained fld && no_overrun_pf f rest
      | None => true
      end
    end
  end.
Definition no_overrun_packet (b : bytes) : bool := no_overrun_pf (length b) b.
