(* Executable companions of the goroutine LTS (Model/Lts.v): a deterministic scheduler
   (used by the non-vacuity examples), fault scenarios as restrictions of the label set
   (what the harness forces on the real code), and an exhaustive visited-set search with
   fuel over the states of a small instance.  The search is used by the glue to compute
   the set of outcome classes the model can reach for an abstracted scenario; it
   validates the model against the real code, it is not part of any proof. *)
From Coq Require Import List Arith Bool PeanoNat PArith MSets.MSetPositive.
From FS Require Import Model.Lts.
Import ListNotations.

(* ---------- canonical key of a state (positive), for the visited set ---------- *)
Fixpoint enc_nat (n : nat) (k : positive) : positive :=
  match n with O => xO k | S m => xI (enc_nat m k) end.
Fixpoint enc_nats (l : list nat) (k : positive) : positive :=
  match l with [] => xO k | a :: r => xI (enc_nat a (enc_nats r k)) end.

Fixpoint insert_sorted (x : nat) (l : list nat) : list nat :=
  match l with
  | [] => [x]
  | y :: r => if x <=? y then x :: l else y :: insert_sorted x r
  end.
Definition sort_nats (l : list nat) : list nat := fold_right insert_sorted [] l.

Definition skind_code (k : skind) : nat := match k with KStat => 0 | KEnd => 1 | KErr => 2 end.
Definition swpc_code (pc : swpc) : list nat :=
  match pc with
  | SW_Next => [0] | SW_Lock k => [1; skind_code k] | SW_Send k => [2; skind_code k] | SW_Done => [3]
  end.
Definition wkpc_code (w : wkpc) : list nat :=
  match w with
  | WK_Idle => [0] | WK_Ctx h => [1; h] | WK_Open h => [2; h] | WK_Read h c => [3; h; c]
  | WK_Lock h c => [4; h; c] | WK_Send h c => [5; h; c] | WK_LockFin h => [6; h]
  | WK_SendFin h => [7; h] | WK_Done => [8]
  end.
Definition rqpc_code (pc : rqpc) : list nat :=
  match pc with
  | RQ_Top => [0] | RQ_Recv => [1] | RQ_Push id => [2; id] | RQ_LockFin => [3] | RQ_SendFin => [4]
  | RQ_Close ok => [5; b2n ok] | RQ_Ret ok => [6; b2n ok] | RQ_Done => [7]
  end.
Definition rlpc_code (pc : rlpc) : list nat :=
  match pc with
  | RL_Recv => [0] | RL_Upd => [1] | RL_Push => [2] | RL_UpdEnd => [3] | RL_Write id => [4; id]
  | RL_CloseP id => [5; id] | RL_Drain => [6] | RL_Done => [7]
  end.
Definition flpc_code (pc : flpc) : list nat :=
  match pc with
  | FL_Sel => [0] | FL_Push => [1] | FL_Close ok => [2; b2n ok] | FL_Ret ok => [3; b2n ok] | FL_Done => [4]
  end.
Definition dlpc_code (pc : dlpc) : list nat :=
  match pc with DL_Next => [0] | DL_Handle i => [1; i] | DL_Done => [2] end.
Definition dopc_code (pc : dopc) : nat :=
  match pc with
  | DO_WaitDiff => 0 | DO_WaitW => 1 | DO_LockFin => 2 | DO_SendFin => 3 | DO_LockErr => 4
  | DO_SendErr => 5 | DO_Done => 6
  end.
Definition wrpc_code (pc : wrpc) : nat :=
  match pc with
  | WR_Start => 0 | WR_Lock => 1 | WR_Send => 2 | WR_Wait => 3 | WR_Notify => 4 | WR_Done => 5
  end.
Definition gid_code (g : option gid) : list nat :=
  match g with
  | None => [0] | Some GWalker => [1] | Some (GWorker j) => [2; j] | Some GReq => [3]
  | Some GDiffOuter => [4] | Some (GWriter j) => [5; j]
  end.
Definition packet_code (pk : packet) : list nat :=
  match pk with
  | PStat => [0] | PEnd => [1] | PData id => [2; id] | PDataEnd id => [3; id] | PReq id => [4; id]
  | PFin => [5] | PErr => [6]
  end.
Definition optb_code (o : option bool) : nat :=
  match o with None => 0 | Some true => 1 | Some false => 2 end.
Definition lenpref (l : list nat) : list nat := length l :: l.

(* lists used as sets by the transition function (memb / remb only) are sorted, so that
   states that differ in the order of arrival only share a key *)
Definition state_code (st : state) : list nat :=
  swpc_code (sw_pc st) ++ [sw_i st] ++ lenpref (flat_map wkpc_code (wks st)) ++ rqpc_code (rq_pc st)
  ++ lenpref (pipe st) ++ [b2n (pipe_closed st)] ++ lenpref (sort_nats (sfiles st)) ++ gid_code (s_mu st)
  ++ [b2n (s_cancel st); b2n (s_err st); optb_code (send_ret st); b2n (s_broken st)]
  ++ rlpc_code (rl_pc st) ++ [rl_i st] ++ flpc_code (fl_pc st) ++ dlpc_code (dl_pc st) ++ [dl_i st; dopc_code (do_pc st)]
  ++ lenpref (flat_map (fun w => [wr_id w; wrpc_code (wr_pc w)]) (wrs st))
  ++ [walk_n st; b2n (walk_closed st); b2n (close_ch st); c2_n st; b2n (c2_closed st)]
  ++ lenpref (sort_nats (rfiles st)) ++ lenpref (sort_nats (pipes st)) ++ lenpref (sort_nats (completed st))
  ++ lenpref (sort_nats (written st)) ++ gid_code (r_mu st)
  ++ [b2n (r_cancel st); b2n (d_cancel st); b2n (dw_cancel st); b2n (eg_cancel st); b2n (r_err st);
      b2n (d_err st); b2n (eg_err st); optb_code (recv_ret st); b2n (r_broken st)]
  ++ lenpref (flat_map packet_code (buf_sr st)) ++ lenpref (flat_map packet_code (buf_rs st))
  ++ [b2n (sr_closed st); b2n (g_fin_rs st); b2n (g_fin_sr st); b2n (g_got_fin_s st); b2n (g_got_fin_r st);
      b2n (g_open_err st); b2n (g_end_sr st); b2n (g_got_end_r st)]
  ++ lenpref (sort_nats (reqs st)).
Definition state_key (st : state) : positive := enc_nats (state_code st) xH.

(* ---------- fault scenarios ---------- *)
Inductive fault :=
| FNone
| FBreak (recv_side at_start : bool)   (* one endpoint of the stream fails from some point on *)
| FCancel (recv_side at_start : bool)  (* the caller's context of Send / Receive is cancelled *)
| FCancelStream (at_start : bool)      (* the stream's own context is cancelled: both endpoints fail *)
| FCancelAll (at_start : bool)         (* one context shared by Send, Receive and the stream is cancelled *)
| FVanish (sender at_start : bool)     (* one side is gone (process killed / connection dropped): its context is
                                          cancelled and its endpoint fails; the survivor sees a clean end of stream.
                                          An EOF on the s->r direction is LEnvCloseSend (after the dead Send has
                                          returned); the LTS has no EOF value for the r->s direction: RecvMsg of the
                                          request loop ending in io.EOF is a failed RecvMsg, i.e. a break of the
                                          sender's endpoint as well (tear-down) *)
| FWalkErr (k : nat)                   (* FS.Walk fails when it reaches entry k *)
| FReadErr (h c : nat)                 (* Read of file h fails after c chunks *)
| FOpenErr (h : nat)                   (* Open of file h fails *)
| FHashErr (i : nat)                   (* ContentHasher fails for entry i *)
| FNotifyErr (i : nat).                (* NotifyHashed fails for entry i *)

Record scenario := {
  sc_fault : fault;
  sc_gated : bool;   (* the harness stream holds back REQ delivery until every request has been
                        sent and then blocks every DATA send until tear-down (large fan-out) *)
  sc_stall : option nat;  (* with sc_hold: the receiver-side callbacks of this entry block until the
                             same moment and then return normally (a slow diff) *)
  sc_hold : bool     (* the fault is held back (its hook blocks / the cancellation or endpoint failure
                        is postponed) until no goroutine of either call can move, then released *)
}.

Definition n_need (p : params) : nat :=
  length (filter (fun e => match e_kind e with ENeed => true | _ => false end) (p_entries p)).
Definition ret_err (o : option bool) : bool := match o with Some false => true | _ => false end.
Definition returned_err (st : state) : bool := ret_err (send_ret st) || ret_err (recv_ret st).
Definition is_meta (k : ekind) : bool := match k with EMeta => true | _ => false end.

(* which labels the harness lets happen in a scenario (everything except tear-down):
   a fault hook is deterministic, so where it applies the normal move is excluded *)
Definition allowed0 (sc : scenario) (p : params) (st : state) (l : label) : bool :=
  let f := sc_fault sc in
  match l with
  | LSWalk =>
      match f, sw_pc st with
      | FWalkErr k, SW_Next => negb (Nat.eqb (sw_i st) k) || s_cancel st
      | _, _ => true
      end
  | LSWalkErr => match f with FWalkErr k => Nat.eqb (sw_i st) k && negb (s_cancel st) | _ => false end
  | LWorker j =>
      match nth_error (wks st) j with
      | Some (WK_Open h) => match f with FOpenErr h' => negb (Nat.eqb h h') | _ => true end
      | Some (WK_Read h c) => match f with FReadErr h' c' => negb (Nat.eqb h h' && Nat.eqb c c') | _ => true end
      | Some (WK_Send _ _) | Some (WK_SendFin _) => negb (sc_gated sc) || s_broken st
      | _ => true
      end
  | LWorkerOpenErr j =>
      match nth_error (wks st) j, f with
      | Some (WK_Open h), FOpenErr h' => Nat.eqb h h'
      | _, _ => false
      end
  | LWorkerReadErr j =>
      match nth_error (wks st) j, f with
      | Some (WK_Read h c), FReadErr h' c' => Nat.eqb h h' && Nat.eqb c c'
      | _, _ => false
      end
  | LReq =>
      match rq_pc st with
      | RQ_Recv => negb (sc_gated sc) || s_broken st || (n_need p <=? length (reqs st))
      | _ => true
      end
  | LDiff =>
      match dl_pc st, f with
      | DL_Handle i, FHashErr i' | DL_Handle i, FNotifyErr i' =>
          negb (Nat.eqb i i' && is_meta (kind_of p i))
      | _, _ => true
      end
  | LDiffCbErr =>
      match dl_pc st, f with
      | DL_Handle i, FHashErr i' | DL_Handle i, FNotifyErr i' => Nat.eqb i i' && is_meta (kind_of p i)
      | _, _ => false
      end
  | LWriter j =>
      match nth_error (wrs st) j with
      | Some w =>
          match wr_pc w, f with
          | WR_Start, FHashErr i => negb (Nat.eqb (wr_id w) i)
          | WR_Notify, FNotifyErr i => negb (Nat.eqb (wr_id w) i)
          | _, _ => true
          end
      | None => true
      end
  | LWriterCbErr j =>
      match nth_error (wrs st) j with
      | Some w =>
          match wr_pc w, f with
          | WR_Start, FHashErr i => Nat.eqb (wr_id w) i
          | WR_Notify, FNotifyErr i => Nat.eqb (wr_id w) i
          | _, _ => false
          end
      | None => false
      end
  | LEnvCancelS | LEnvCancelR | LEnvBreakS | LEnvBreakR | LEnvTearDown => false   (* see [succs] *)
  | _ => true
  end.

(* moves that touch nothing any other goroutine reads or writes in a conflicting way, that no
   other move can disable, and that are the only move of their goroutine: exploring them first
   (and alone) loses no terminal state — a partial-order reduction with singleton ample sets *)
Definition safe_local (p : params) (st : state) (l : label) : bool :=
  match l with
  | LWorker j | LWorkerOpenErr j =>
      match nth_error (wks st) j with Some (WK_Open _) | Some (WK_Read _ _) => true | _ => false end
  | LReq => match rq_pc st with RQ_Close _ | RQ_Ret true => true | _ => false end
  | LRecvLoop => match rl_pc st with RL_Write _ | RL_CloseP _ => true | _ => false end
  | LFill => match fl_pc st with FL_Close _ | FL_Ret _ => true | _ => false end
  | LDiff => match dl_pc st with
             | DL_Handle i => match kind_of p i with ESame => true | _ => false end
             | _ => false end
  | LDiffOuter => match do_pc st with DO_WaitDiff | DO_WaitW => true | _ => false end
  | _ => false
  end.

Definition env_fault_labels (f : fault) (at_start : bool) : list label :=
  match f with
  | FBreak false a => if Bool.eqb a at_start then [LEnvBreakS] else []
  | FBreak true a => if Bool.eqb a at_start then [LEnvBreakR] else []
  | FCancel false a => if Bool.eqb a at_start then [LEnvCancelS] else []
  | FCancel true a => if Bool.eqb a at_start then [LEnvCancelR] else []
  | FCancelStream a => if Bool.eqb a at_start then [LEnvTearDown] else []
  | FCancelAll a => if Bool.eqb a at_start then [LEnvCancelS; LEnvCancelR; LEnvTearDown] else []
  | FVanish true a => if Bool.eqb a at_start then [LEnvCancelS; LEnvBreakS] else []
  | FVanish false a => if Bool.eqb a at_start then [LEnvCancelR; LEnvTearDown] else []
  | _ => []
  end.

(* the events of one environment fault happen together; those that are no longer possible
   (already cancelled / failed) are skipped; None = none of them was possible *)
Fixpoint apply_env (p : params) (st : state) (ls : list label) (any : bool) : option state :=
  match ls with
  | [] => if any then Some st else None
  | l :: r => match step p st l with
              | Some s => apply_env p s r true
              | None => apply_env p st r any
              end
  end.
Definition env_label_of (ls : list label) : label := match ls with l :: _ => l | [] => LEnvTearDown end.

(* the harness tears the stream down when either call has returned an error, or on
   quiescence (no goroutine of either call can move); when Send returns it closes the
   sending direction (LEnvCloseSend: the peer sees EOF after draining).  A cancellation /
   endpoint failure "at operation k" happens inside a stream operation: here it may follow
   any step that changed one of the two stream directions (and, at_start, precede everything). *)
(* the move that the stalled callback is part of *)
Definition is_stalled (sc : scenario) (p : params) (st : state) (l : label) : bool :=
  match sc_stall sc, l with
  | Some i, LDiff =>
      match dl_pc st with
      | DL_Handle i' => Nat.eqb i i' && is_meta (kind_of p i)
      | _ => false
      end
  | Some i, LWriter j =>
      match nth_error (wrs st) j with
      | Some w => match wr_pc w with WR_Start => Nat.eqb (wr_id w) i | _ => false end
      | None => false
      end
  | _, _ => false
  end.

Definition is_fault_label (l : label) : bool :=
  match l with
  | LSWalkErr | LWorkerOpenErr _ | LWorkerReadErr _ | LDiffCbErr | LWriterCbErr _ => true
  | _ => false
  end.

(* a stalled callback was entered before anything that is postponed to the same moment: the
   context check in front of it (DiskWriter.HandleChange) has already passed *)
Definition step_sc (sc : scenario) (p : params) (st : state) (l : label) : option state :=
  if sc_hold sc && is_stalled sc p st l
  then match step p (set_r_cancel false (set_dw_cancel false st)) l with
       | Some s => Some (set_r_cancel (r_cancel st) (set_dw_cancel (dw_cancel st) s))
       | None => None
       end
  else step p st l.

Definition succs (sc : scenario) (p : params) (st : state) : list (label * state) :=
  let ss0 := flat_map (fun l => if allowed0 sc p st l
                                then match step_sc sc p st l with Some s => [(l, s)] | None => [] end
                                else []) (all_labels st) in
  (* the postponed cancellation / endpoint failure, while it can still happen *)
  let els := env_fault_labels (sc_fault sc) false in
  let has_env := match els with [] => false | _ => true end in
  let env_now := match apply_env p st els false with Some s => [(env_label_of els, s)] | None => [] end in
  let env_pending := match env_now with [] => false | _ => true end in
  (* a stall lasts until the held fault is released: with a postponed cancellation / failure,
     until that has happened *)
  let stall_on := if has_env then env_pending else true in
  let deferred ls := is_fault_label (fst ls) || (stall_on && is_stalled sc p st (fst ls)) in
  let heldf := if sc_hold sc then filter deferred ss0 else [] in
  let ss := if sc_hold sc then filter (fun ls => negb (deferred ls)) ss0 else ss0 in
  match find (fun ls => safe_local p st (fst ls)) ss with
  | Some ls => [ls]
  | None =>
    let quiet := match ss with [] => true | _ => false end in
    let envs := if negb has_env then []
                else if sc_hold sc
                then (if quiet then env_now else [])
                else flat_map (fun ls =>
                  let s' := snd ls in
                  if (length (buf_sr s') =? length (buf_sr st)) && (length (buf_rs s') =? length (buf_rs st))
                  then []
                  else match apply_env p s' els false with Some s'' => [(env_label_of els, s'')] | None => [] end) ss in
    let faults := if quiet && negb (sc_hold sc && env_pending) then heldf else [] in
    let stuck := quiet && match faults, envs with [], [] => true | _, _ => false end in
    ss ++ envs ++ faults ++
    (if returned_err st || stuck
     then match step p st LEnvTearDown with Some s => [(LEnvTearDown, s)] | None => [] end
     else [])
  end.

Definition start_state (sc : scenario) (p : params) : state :=
  let st := init p in
  match apply_env p st (env_fault_labels (sc_fault sc) true) false with Some s => s | None => st end.

(* ---------- outcome classes ---------- *)
(* 3 * (Send: 0 not returned, 1 nil, 2 error) + (Receive: same);  +9 when the state is not
   final (a goroutine is still live or a call has not returned: a hang) *)
Definition outcome_code (st : state) : nat :=
  3 * optb_code (send_ret st) + optb_code (recv_ret st) + (if final st then 0 else 9).

Definition add_nat (x : nat) (l : list nat) : list nat := if memb x l then l else x :: l.

Record result := {
  res_outcomes : list nat;            (* outcome codes of the terminal states *)
  res_states : nat;                   (* states expanded *)
  res_quiescent : nat;                (* non-final states in which only the tear-down was possible and no call had failed *)
  res_complete : bool;                (* false = out of fuel *)
  res_hang : option (list label);     (* labels (reversed) leading to a terminal state that is not final *)
  res_quiet : option (list label)     (* labels (reversed) leading to the first quiescent state found: not final, no
                                         call has failed, and only the tear-down is possible *)
}.

Fixpoint explore (fuel : nat) (sc : scenario) (p : params) (todo : list (state * list label))
                 (seen : PositiveSet.t) (outs : list nat) (nstates nquiet : nat)
                 (hang qpath : option (list label)) : result :=
  match fuel with
  | O => {| res_outcomes := outs; res_states := nstates; res_quiescent := nquiet; res_complete := false; res_hang := hang; res_quiet := qpath |}
  | S fuel' =>
    match todo with
    | [] => {| res_outcomes := outs; res_states := nstates; res_quiescent := nquiet; res_complete := true; res_hang := hang; res_quiet := qpath |}
    | (st, path) :: rest =>
      let nx := succs sc p st in
      match nx with
      | [] =>
          let hang' := match hang with
                       | Some _ => hang
                       | None => if final st then None else Some path
                       end in
          explore fuel' sc p rest seen (add_nat (outcome_code st) outs) (S nstates) nquiet hang' qpath
      | _ =>
          let quiet := match nx with [(LEnvTearDown, _)] => negb (returned_err st) && negb (final st) | _ => false end in
          let '(todo', seen') :=
            fold_left (fun acc ls =>
                         let '(td, sn) := acc in
                         let k := state_key (snd ls) in
                         if PositiveSet.mem k sn then acc
                         else ((snd ls, fst ls :: path) :: td, PositiveSet.add k sn))
                      nx (rest, seen) in
          explore fuel' sc p todo' seen' outs (S nstates) (if quiet then S nquiet else nquiet) hang
                  (match qpath with Some _ => qpath | None => if quiet then Some path else None end)
      end
    end
  end.

Definition explore_scenario (fuel : nat) (sc : scenario) (p : params) : result :=
  let st := start_state sc p in
  explore fuel sc p [(st, [])] (PositiveSet.add (state_key st) PositiveSet.empty) [] 0 0 None None.

(* ---------- a deterministic scheduler ---------- *)
(* always the first successor in label order; used for non-vacuity examples *)
Fixpoint sched (fuel : nat) (sc : scenario) (p : params) (st : state) : state :=
  match fuel with
  | O => st
  | S fuel' =>
    match succs sc p st with
    | [] => st
    | (_, st') :: _ => sched fuel' sc p st'
    end
  end.

(* ... and the last successor (a different interleaving of the same run) *)
Fixpoint sched_last (fuel : nat) (sc : scenario) (p : params) (st : state) : state :=
  match fuel with
  | O => st
  | S fuel' =>
    match rev (succs sc p st) with
    | [] => st
    | (_, st') :: _ => sched_last fuel' sc p st'
    end
  end.

Definition no_fault : scenario := {| sc_fault := FNone; sc_gated := false; sc_stall := None; sc_hold := false |}.
Definition mk_scenario (f : fault) (gated : bool) : scenario := {| sc_fault := f; sc_gated := gated; sc_stall := None; sc_hold := false |}.

(* ---------- what a sequential receiver computes: the outcome of a complete fault-free run ---------- *)
Fixpoint need_ids_from (i : nat) (l : list entry) : list nat :=
  match l with
  | [] => []
  | e :: r => match e_kind e with
              | ENeed => i :: need_ids_from (S i) r
              | _ => need_ids_from (S i) r
              end
  end.
Definition need_ids (p : params) : list nat := need_ids_from 0 (p_entries p).
