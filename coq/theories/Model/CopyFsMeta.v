(* C14 — vocabulary for the statement about the metadata calls of the copier model. *)
From Coq Require Import List NArith Bool.
From FS Require Import Sx Model.Path Model.Fs Model.RootPath Model.CopyFs.
Import ListNotations.
Open Scope N_scope.

(* the call did nothing, or it changed only the inode that the path names WITHOUT following a final link *)
Definition nofollow_call (c : ctx) (f : fs) (p : bytes) (f' : fs) : Prop :=
  f' = f \/ exists i, resolve_ino c f p false = inl i /\ forall j, j <> i -> get f' j = get f j.

(* copyFileInfo for a symlink source: Lchown and the no-follow Utimes only — no chmod *)
Definition copy_file_info_link (c : ctx) (o : copts) (fi : inode) (name : bytes) : M unit :=
  let (u, g) := match o_chown o with Some ug => ug | None => (m_uid (i_meta fi), m_gid (i_meta fi)) end in
  r <~ sys (fun f => sys_lchown c f name u g) ;; expect_ok r ;;;
  copy_file_timestamp c o fi name.

