(* C04 rerun_converges: the LTS instance of a transfer from a source listing B into a
   destination that lists as A (whatever an earlier run left behind).

   The goroutine-level model (Model/Lts.v) abstracts every entry of the source to three facts:
   does the sender register it (fileCanRequestData), how many non-empty reads its content
   yields, and what the receiver's comparison with the old destination decides (nothing /
   metadata only / content needed).  The destination-level model (Model/AbsDest.v) decides the
   same three facts from the two listings; this file writes that decision down, so that the
   two models talk about the same transfer.  Definitions only. *)
From Coq Require Import List NArith Bool.
From FS Require Import Sx Model.Path Model.Stat Model.Diff Model.AbsDest Model.Lts.
Import ListNotations.
Local Open Scope nat_scope.

(* what doubleWalkDiff + the receiver's HandleChange decide for source entry b against the old
   listing LA: same identity key at the same path = no change; otherwise a change, with a
   content request exactly for a regular file without Linkname (AbsDest.reqs_spec) *)
Definition rerun_kind (d : differ) (LA : list stat) (b : stat) : ekind :=
  if unchanged_b d LA b then ESame
  else if wants_content b then ENeed else EMeta.

(* [chunks c] = the number of non-empty reads io.CopyBuffer sees for content c (any function:
   it depends on the file system's Read) *)
Definition rerun_entry (d : differ) (LA : list stat) (chunks : bytes -> nat) (e : AbsDest.entry) : Lts.entry :=
  {| e_file := mode_is_regular (st_mode (fst e));
     e_chunks := chunks (snd e);
     e_kind := rerun_kind d LA (fst e) |}.

Definition rerun_params (W P C C2 capSR capRS : nat) (d : differ) (chunks : bytes -> nat)
                        (A B : list AbsDest.entry) : Lts.params :=
  {| p_W := W; p_P := P; p_C := C; p_C2 := C2; p_capSR := capSR; p_capRS := capRS;
     p_entries := map (rerun_entry d (map fst A) chunks) B; p_old_queue := false |}.

(* the path the i-th STAT of the transfer announces *)
Definition path_of_id (B : list AbsDest.entry) (id : nat) : bytes :=
  match nth_error B id with Some e => st_path (fst e) | None => [] end.

(* every entry the receiver asks content for is one the sender registered: the receiver asks
   for "not a directory, device, pipe or symbolic link, no Linkname" (AbsDest.wants_content),
   the sender registers  mode & os.ModeType == 0  (send.go fileCanRequestData).  The two differ
   for a socket or an irregular file, for which a request is answered "invalid file request"
   (in the LTS: wf_params of Proofs/LtsClean3.v fails); such sources are excluded by this hypothesis. *)
Definition sender_serves (B : list AbsDest.entry) : Prop :=
  forall sb bb, In (sb, bb) B -> wants_content sb = true -> mode_is_regular (st_mode sb) = true.
Definition sender_serves_b (B : list AbsDest.entry) : bool :=
  forallb (fun e => negb (wants_content (fst e)) || mode_is_regular (st_mode (fst e))) B.

(* what an interrupted writer can leave: a file whose bytes are not the source's differs from
   the source entry in size, mtime or mode (content goes to a temporary name or is stamped
   after the last byte) - the hypothesis of C01 converges_from_any_prior *)
Definition leftovers_distinguishable (A B : list AbsDest.entry) : Prop :=
  forall sa ba sb bb, In (sa, ba) A -> In (sb, bb) B -> st_path sa = st_path sb ->
    AbsDest.is_reg sb = true ->
    ba = bb \/ st_size sa <> st_size sb \/ st_mtime sa <> st_mtime sb \/ st_mode sa <> st_mode sb.
Definition leftovers_distinguishable_b (A B : list AbsDest.entry) : bool :=
  forallb (fun ea => forallb (fun eb =>
     negb (bytes_eqb (st_path (fst ea)) (st_path (fst eb))) || negb (AbsDest.is_reg (fst eb))
     || bytes_eqb (snd ea) (snd eb)
     || negb (N.eqb (st_size (fst ea)) (st_size (fst eb)))
     || negb (N.eqb (st_mtime (fst ea)) (st_mtime (fst eb)))
     || negb (N.eqb (st_mode (fst ea)) (st_mode (fst eb)))) B) A.
