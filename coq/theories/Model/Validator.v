(* L2 — fsutil.Validator.HandleChange (validator.go), string level, with the
   "." / ".." rejection of fix F1.  The reverse binary search over the stack is
   modelled as "pop while top.dir > dir" (vpop): the stack dirs are strictly
   ascending bottom-to-top (invariant [chain] in the proofs), so sort.Search's
   predicate is monotone and both compute the same index.

   Also the executable specification of C12 (spec_ok_b / spec_first_bad), which does
   not look at the validator's state at all. *)
From Coq Require Import List NArith Bool.
From FS Require Import Sx Model.Path.
Import ListNotations.
Open Scope N_scope.
Open Scope bool_scope.

(* change kinds: 0 add, 1 modify, 2 delete *)
Record vitem := { vkind : N; vpath : bytes; visdir : bool }.
Definition vdel (it : vitem) : bool := N.eqb (vkind it) 2.

Definition ventry := (bytes * bytes)%type.   (* parent{dir,last} *)

Fixpoint vpop (d : bytes) (stk : list ventry) : list ventry :=
  match stk with
  | [] => []
  | (d', l) :: rest => match compare_path d' d with Gt => vpop d rest | _ => stk end
  end.

Definition bytes_geb (a b : bytes) : bool :=
  match cmp_bytes a b with Lt => false | _ => true end.

(* lexical admission checks of HandleChange; returns the (dir, base) used afterwards *)
Definition vsplit (p : bytes) : option (bytes * bytes) :=
  if negb (bytes_eqb p (clean p)) then None          (* unclean path *)
  else if is_abs p then None                         (* absolute path *)
  else
    let d0 := dir p in
    let b := base p in
    let d := if bytes_eqb d0 s_dot then [] else d0 in
    if bytes_eqb p s_dot || bytes_eqb p s_dotdot      (* fix F1 *)
       || bytes_eqb d s_dotdot || has_prefix s_dotdotsep p then None   (* escape check *)
    else Some (d, b).

Definition vstep (stk : list ventry) (it : vitem) : option (list ventry) :=
  match vsplit (vpath it) with
  | None => None
  | Some (d, b) =>
    match vpop d stk with
    | [] => None                       (* cannot happen: bottom entry has dir "" *)
    | (d', l) :: rest =>
      if negb (bytes_eqb d d') || bytes_geb l b then None     (* changes out of order *)
      else
        let stk' := (d', b) :: rest in
        Some (if negb (vdel it) && visdir it then (join2 d b, []) :: stk' else stk')
    end
  end.

Definition vinit : list ventry := [([], [])].

Fixpoint vrun (stk : list ventry) (its : list vitem) (i : nat) : option nat :=
  match its with
  | [] => None
  | it :: r => match vstep stk it with None => Some i | Some stk' => vrun stk' r (S i) end
  end.

(* index of the first rejected change, None = all accepted *)
Definition run_validator (its : list vitem) : option nat := vrun vinit its 0.

(* ---------- specification (C12) ---------- *)
Definition ok_path (p : bytes) : bool :=
  bytes_eqb p (clean p) && negb (is_abs p) && negb (bytes_eqb p s_dot)
  && negb (bytes_eqb p s_dotdot) && negb (has_prefix s_dotdotsep p).

(* parent of a clean relative path: "" for a single component *)
Definition parent_of (p : bytes) : bytes :=
  match split_last p with
  | Some (d, _) => removelast d
  | None => []
  end.

Definition spec_ok_b (acc : list vitem) (it : vitem) : bool :=
  let p := vpath it in
  ok_path p
  && forallb (fun q => path_ltb (vpath q) p) acc
  && (bytes_eqb (parent_of p) []
      || existsb (fun q => bytes_eqb (vpath q) (parent_of p) && negb (vdel q) && visdir q) acc).

Fixpoint spec_run (acc : list vitem) (its : list vitem) (i : nat) : option nat :=
  match its with
  | [] => None
  | it :: r => if spec_ok_b acc it then spec_run (acc ++ [it]) r (S i) else Some i
  end.

Definition spec_first_bad (its : list vitem) : option nat := spec_run [] its 0.
