(* L6 — util/protostream.go: 4-byte big-endian length prefix + Packet body, read back with
   io.ReadFull from a reader that may return fewer bytes than asked.

   The reader is a list of chunks: every Read(p) returns min(len p, rest of the current chunk)
   bytes of the current chunk (an empty chunk is a Read returning 0, nil), and (0, io.EOF)
   when no chunk is left. *)
From Coq Require Import List NArith Bool Permutation.
From FS Require Import Sx Model.Stat Model.Varint Model.Codec.
Import ListNotations.
Open Scope N_scope.

(* SendMsg: size := msg.Size(); b := make(size+4); PutUint32(b, uint32(size)); MarshalTo(b[4:]) *)
Definition frame (body : bytes) : bytes := be32 (len body) ++ body.
Definition send_msg (p : packet) : bytes := frame (encode_packet p).

Inductive rf_result :=
| RF_ok (b : bytes) (rest : list bytes)
| RF_eof                      (* io.EOF: nothing could be read *)
| RF_short.                   (* io.ErrUnexpectedEOF: some but not all *)

(* io.ReadFull(r, buf) with len buf = n.  [got] = whether earlier Reads of this call
   already returned bytes. *)
Fixpoint read_full_from (got : bool) (n : N) (cs : list bytes) : rf_result :=
  if n =? 0 then RF_ok [] cs else
  match cs with
  | [] => if got then RF_short else RF_eof
  | c :: r =>
    if len c <=? n then
      match read_full_from (got || negb (len c =? 0)) (n - len c) r with
      | RF_ok b cs' => RF_ok (c ++ b) cs'
      | e => e
      end
    else RF_ok (firstn (N.to_nat n) c) (skipn (N.to_nat n) c :: r)
  end.
Definition read_full := read_full_from false.

(* Repeated RecvMsg into a fresh (or reset) Packet until an error.  Result: the packets in
   order, terminated by [None] if the stream ended with an error other than io.EOF.
   A length-0 frame returns immediately WITHOUT touching the message: the caller's fresh
   message is the empty Packet.  A body read that hits the end of the stream before its
   first byte makes ReadFull, hence RecvMsg, return io.EOF — for the caller the same as a
   clean end of stream. *)
Fixpoint recv_msgs_f (fuel : nat) (cs : list bytes) : list (option packet) :=
  match fuel with
  | O => [None]
  | S f =>
    match read_full 4 cs with
    | RF_eof => []
    | RF_short => [None]
    | RF_ok h cs1 =>
      let n := be32_dec h in
      if n =? 0 then Some empty_packet :: recv_msgs_f f cs1
      else
        match read_full n cs1 with
        | RF_eof => []
        | RF_short => [None]
        | RF_ok b cs2 =>
          match decode_packet b with
          | Some p => Some p :: recv_msgs_f f cs2
          | None => [None]
          end
        end
    end
  end.
Definition recv_msgs (cs : list bytes) : list (option packet) :=
  recv_msgs_f (S (length (concat cs))) cs.

(* ------------------------------------------------------------------ vocabulary of the theorems *)
(* a packet that SendMsg can frame: well-formed and shorter than 2^32 bytes (uint32(size)) *)
Definition sendable (p : packet) : Prop := wf_packet p /\ size_packet p < two32.
(* [fr] is a frame of [p] for some iteration order of the xattr map *)
Definition frame_of (p : packet) (fr : bytes) : Prop :=
  exists xs, Permutation xs (pxattrs p) /\ fr = frame (encode_packet_ord xs p).

(* ------------------------------------------------------------------ readers that report errors WITH data
   The io.Reader contract allows Read to return n > 0 together with an error (io.EOF with the
   final bytes: iotest.DataErrReader, decompressors, HTTP/TLS bodies; or any other error).
   A reader is now a list of chunks each carrying the error reported by the Read call that
   EXHAUSTS the chunk (a Read that takes only part of a chunk returns nil; an empty chunk is a
   Read returning (0, err)); after the list, (0, io.EOF).

   io.ReadFull = ReadAtLeast(buf, len buf):
       for n < min && err == nil { nn, err = r.Read(buf[n:]); n += nn }
       if n >= min { err = nil } else if n > 0 && err == EOF { err = ErrUnexpectedEOF }
   i.e. a Read that COMPLETES the buffer counts even if it reports io.EOF (or anything else):
   the error is dropped; an error before completion ends the call (io.EOF only when nothing
   at all was read).  The error is not sticky in this model: the next Read goes on with the
   next chunk (the harness reader does the same). *)
Inductive rerr := RNone | REof | RErr.

Inductive rfx_result :=
| RFX_ok (b : bytes) (rest : list (bytes * rerr))
| RFX_eof                     (* io.EOF: clean end *)
| RFX_err.                    (* io.ErrUnexpectedEOF or the reader's own error *)

Fixpoint read_fullx_from (got : bool) (n : N) (cs : list (bytes * rerr)) : rfx_result :=
  if n =? 0 then RFX_ok [] cs else
  match cs with
  | [] => if got then RFX_err else RFX_eof
  | (c, f) :: r =>
    if len c <? n then                       (* chunk exhausted, buffer not yet complete *)
      match f with
      | RNone =>
        match read_fullx_from (got || negb (len c =? 0)) (n - len c) r with
        | RFX_ok b cs' => RFX_ok (c ++ b) cs'
        | e => e
        end
      | REof => if got || negb (len c =? 0) then RFX_err else RFX_eof
      | RErr => RFX_err
      end
    else if len c =? n then RFX_ok c r       (* this Read completes the buffer: its error is dropped *)
    else RFX_ok (firstn (N.to_nat n) c) ((skipn (N.to_nat n) c, f) :: r)
  end.
Definition read_fullx := read_fullx_from false.

Fixpoint recv_msgs_xf (fuel : nat) (cs : list (bytes * rerr)) : list (option packet) :=
  match fuel with
  | O => [None]
  | S f =>
    match read_fullx 4 cs with
    | RFX_eof => []
    | RFX_err => [None]
    | RFX_ok h cs1 =>
      let n := be32_dec h in
      if n =? 0 then Some empty_packet :: recv_msgs_xf f cs1
      else
        match read_fullx n cs1 with
        | RFX_eof => []
        | RFX_err => [None]
        | RFX_ok b cs2 =>
          match decode_packet b with
          | Some p => Some p :: recv_msgs_xf f cs2
          | None => [None]
          end
        end
    end
  end.
Definition xdata (cs : list (bytes * rerr)) : bytes := concat (map fst cs).
Definition recv_msgs_x (cs : list (bytes * rerr)) : list (option packet) :=
  recv_msgs_xf (S (length (xdata cs))) cs.

Definition quiet (cs : list bytes) : list (bytes * rerr) := map (fun c => (c, RNone)) cs.

(* readers that report an error only with (or instead of) their LAST chunk; an error other
   than io.EOF only together with data *)
Inductive tail_flagged : list (bytes * rerr) -> Prop :=
| tf_nil : tail_flagged []
| tf_last c f : (f = RErr -> c <> []) -> tail_flagged [(c, f)]
| tf_cons c r : tail_flagged r -> tail_flagged ((c, RNone) :: r).
