(* L5 — NewFilterFS (filter.go): how the include list handed to patternmatcher.New is ASSEMBLED
   from FilterOpt.IncludePatterns and FilterOpt.FollowPaths:

     includePatterns := copy(opt.IncludePatterns)                       user patterns, IN ORDER
     if opt.FollowPaths != nil {
         targets := FollowLinks(fs, opt.FollowPaths)                    Model/FollowLinks.v (C18)
         if targets != nil {                                            nil <=> "." was resolved
             includePatterns = append(includePatterns, targets...)         (no dedupePaths: fix of
         }                                                                  dedupe-order-sensitive-includes)
     }
     if len(includePatterns) > 0 { includeMatcher = New(includePatterns) }

   The list is ORDER-SENSITIVE (a '!' exception acts on what precedes it): no sorting, and no
   path-wise deduplication of the combined list (FollowLinks returns its targets sorted and
   deduplicated among themselves). *)
From Coq Require Import List NArith Bool.
From FS Require Import Sx Model.Path Model.Stat Model.Tree Model.Pattern Model.FilterWalk.
From FS Require Model.FollowLinks.
Import ListNotations.

Definition follow_targets (view : list node) (follow : list bytes) : FollowLinks.result (option (list bytes)) :=
  FollowLinks.follow_links_opt FollowLinks.go_match view (FollowLinks.fuel_bound view follow) follow.

(* [follow] = [] stands for FollowPaths == nil *)
Definition assemble_includes (view : list node) (inc follow : list bytes) : FollowLinks.result (list bytes) :=
  match follow with
  | [] => FollowLinks.Ok inc
  | _ =>
    match follow_targets view follow with
    | FollowLinks.OutOfFuel => FollowLinks.OutOfFuel
    | FollowLinks.Ok None => FollowLinks.Ok inc
    | FollowLinks.Ok (Some ts) =>
      FollowLinks.Ok (inc ++ ts)
    end
  end.

(* the list the property reads: the user's patterns in order, then the resolved targets *)
Definition stated_includes (view : list node) (inc follow : list bytes) : FollowLinks.result (list bytes) :=
  match follow with
  | [] => FollowLinks.Ok inc
  | _ =>
    match follow_targets view follow with
    | FollowLinks.OutOfFuel => FollowLinks.OutOfFuel
    | FollowLinks.Ok None => FollowLinks.Ok inc
    | FollowLinks.Ok (Some ts) => FollowLinks.Ok (inc ++ ts)
    end
  end.

(* NewFilterFS: None = patternmatcher.New rejected a list *)
Definition mk_cfg_opt (view : list node) (inc exc follow : list bytes) : FollowLinks.result (option cfg) :=
  match assemble_includes view inc follow with
  | FollowLinks.Ok l => FollowLinks.Ok (mk_cfg l exc)
  | FollowLinks.OutOfFuel => FollowLinks.OutOfFuel
  end.
