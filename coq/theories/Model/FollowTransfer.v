(* Definitions for the consequence clause of C18 (transfer_resolves_same): what
   NewFilterFS builds from FollowPaths (filter.go), on top of Model/FollowLinks.v and
   C10's Model/FilterWalk.v.  No proofs here. *)
From Coq Require Import List NArith Bool.
From FS Require Import Sx Model.Path Model.Stat Model.Tree Model.FollowLinks Model.Pattern Model.FilterWalk.
Import ListNotations.
Open Scope N_scope.
Open Scope bool_scope.

(* NewFilterFS(fs, &FilterOpt{FollowPaths: reqs}) with no other option set:
     targets := FollowLinks(fs, reqs)
     if targets != nil { includePatterns = append(includePatterns, targets...) }
   [follow] = what FollowLinks returned (None = nil).  Result None = patternmatcher.New refused
   the list.  (Before the fix of finding dedupe-order-sensitive-includes the combined list was
   passed through dedupePaths once more; for a FollowPaths-only filter that is the identity:
   theorem follow_targets_dedupe_fixpoint.) *)
Definition follow_includes (follow : option (list bytes)) : list bytes :=
  match follow with
  | Some l => l
  | None => []
  end.
Definition follow_cfg (follow : option (list bytes)) : option cfg := mk_cfg (follow_includes follow) [].

(* a component that patternmatcher.New reads as the literal text it is: no pattern
   character (star, brackets, question mark, caret, backslash), no leading '!', no leading / trailing ASCII white space *)
Definition plain_comp (c : bytes) : bool :=
  negb (contains_pattern_chars c) &&
  match c with a :: _ => negb (N.eqb a bang) && negb (is_space a) | [] => true end &&
  negb (is_space (last c 0)).
Definition plain_inputs (view : list node) (reqs : list bytes) : bool :=
  forallb plain_comp (comp_pool view reqs).

(* the entries a request needs in the copy: every symlink traversed, and the entry reached *)
Definition needed (o : cres) (x : list bytes) : Prop :=
  In x (traversed o) \/ (final o = Reached x /\ x <> []).

(* ---- requests whose last component is a bare star ---- *)
Definition s_star : bytes := [star].
(* plain, and safe as the literal part of an L/star pattern (what C10 assumes of the library) *)
Definition psafe_comp (c : bytes) : bool := plain_comp c && regex_safe c.
(* every component plain and safe; the last one may instead be a bare star *)
Fixpoint star_last_c (cs : list bytes) : bool :=
  match cs with
  | [] => true
  | c :: r => match r with
              | [] => psafe_comp c || bytes_eqb c s_star
              | _ => psafe_comp c && star_last_c r
              end
  end.
Definition star_inputs (view : list node) (reqs : list bytes) : bool :=
  forallb (fun r => star_last_c (norm_clamp (comps r))) reqs &&
  forallb (fun l => forallb psafe_comp (comps l)) (forest_links view).
