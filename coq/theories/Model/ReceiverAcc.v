(* L7 — packet-level behaviour of fsutil.Receive (receive.go, with the asynchronous data
   path of diskwriter.go) as a deterministic event acceptor.

   Go code modelled:
     receiver.run, reader goroutine   STAT: files[path] = i when fileCanRequestData, i counts
                                      every STAT; empty STAT closes the walker; DATA n: looked
                                      up in pipes (unknown id = error), non-empty payload is
                                      written, empty payload closes the file; ERR fails; FIN:
                                      drain until EOF and succeed; EOF earlier is an error
     receiver.asyncDataFunc           called by DiskWriter.requestAsyncFileData for every
                                      regular file without Linkname that the diff reports as
                                      added or modified: id = files[path] (deleted: single
                                      use), pipes[id] registered, REQ id sent, waits for close
     receiver.run, diff goroutine     doubleWalkDiff to the end (needs the empty STAT), then
                                      DiskWriter.Wait (every requested file closed), then FIN;
                                      on failure an ERR packet
   [needs] is the verdict of the diff for a path ("the writer asks content for it"): with a
   fresh destination it is constantly true.  MetadataOnly is not modelled here (C19).
   Stored content is kept as the list of payloads (newest first), not concatenated. *)
From Coq Require Import List NArith Bool.
From FS Require Import Sx Model.Path Model.Stat Model.AccEvents.
Import ListNotations.
Open Scope N_scope.
Open Scope bool_scope.

Record rstate : Type := {
  r_i : nat;                             (* non-empty STATs received = next id *)
  r_files : list (N * stat);             (* announced entries that can be requested, not yet requested *)
  r_reqd : list N;                       (* ids requested, newest first *)
  r_open : list (N * list bytes);        (* requested, not yet terminated: payloads so far, newest first *)
  r_stored : list (N * list bytes);      (* terminated ids: their payloads, newest first *)
  r_endm : bool;                         (* empty STAT received *)
  r_fin_out : bool;
  r_fin_in : bool;
  r_eof : bool;
  r_rdclosed : bool;                     (* the reader goroutine has stopped *)
  r_err : bool;                          (* error latch: the call has to fail *)
  r_ret : option bool
}.

Definition rinit : rstate :=
  {| r_i := 0; r_files := []; r_reqd := []; r_open := []; r_stored := []; r_endm := false; r_fin_out := false;
     r_fin_in := false; r_eof := false; r_rdclosed := false; r_err := false; r_ret := None |}.

Definition rset_stat (s : rstate) (f : list (N * stat)) : rstate :=
  {| r_i := S (r_i s); r_files := f; r_reqd := r_reqd s; r_open := r_open s; r_stored := r_stored s;
     r_endm := r_endm s; r_fin_out := r_fin_out s; r_fin_in := r_fin_in s; r_eof := r_eof s;
     r_rdclosed := r_rdclosed s; r_err := r_err s; r_ret := r_ret s |}.
Definition rset_endm (s : rstate) : rstate :=
  {| r_i := r_i s; r_files := r_files s; r_reqd := r_reqd s; r_open := r_open s; r_stored := r_stored s;
     r_endm := true; r_fin_out := r_fin_out s; r_fin_in := r_fin_in s; r_eof := r_eof s;
     r_rdclosed := r_rdclosed s; r_err := r_err s; r_ret := r_ret s |}.
Definition rset_request (s : rstate) (n : N) : rstate :=
  {| r_i := r_i s; r_files := nremove n (r_files s); r_reqd := n :: r_reqd s; r_open := (n, []) :: r_open s;
     r_stored := r_stored s; r_endm := r_endm s; r_fin_out := r_fin_out s; r_fin_in := r_fin_in s;
     r_eof := r_eof s; r_rdclosed := r_rdclosed s; r_err := r_err s; r_ret := r_ret s |}.
Definition rset_open (s : rstate) (o : list (N * list bytes)) : rstate :=
  {| r_i := r_i s; r_files := r_files s; r_reqd := r_reqd s; r_open := o; r_stored := r_stored s;
     r_endm := r_endm s; r_fin_out := r_fin_out s; r_fin_in := r_fin_in s; r_eof := r_eof s;
     r_rdclosed := r_rdclosed s; r_err := r_err s; r_ret := r_ret s |}.
Definition rset_close (s : rstate) (n : N) (cs : list bytes) : rstate :=
  {| r_i := r_i s; r_files := r_files s; r_reqd := r_reqd s; r_open := nremove n (r_open s);
     r_stored := (n, cs) :: r_stored s; r_endm := r_endm s; r_fin_out := r_fin_out s; r_fin_in := r_fin_in s;
     r_eof := r_eof s; r_rdclosed := r_rdclosed s; r_err := r_err s; r_ret := r_ret s |}.
Definition rset_fin_out (s : rstate) : rstate :=
  {| r_i := r_i s; r_files := r_files s; r_reqd := r_reqd s; r_open := r_open s; r_stored := r_stored s;
     r_endm := r_endm s; r_fin_out := true; r_fin_in := r_fin_in s; r_eof := r_eof s;
     r_rdclosed := r_rdclosed s; r_err := r_err s; r_ret := r_ret s |}.
Definition rset_fin_in (s : rstate) : rstate :=
  {| r_i := r_i s; r_files := r_files s; r_reqd := r_reqd s; r_open := r_open s; r_stored := r_stored s;
     r_endm := r_endm s; r_fin_out := r_fin_out s; r_fin_in := true; r_eof := r_eof s;
     r_rdclosed := r_rdclosed s; r_err := r_err s; r_ret := r_ret s |}.
Definition rset_eof (s : rstate) : rstate :=
  {| r_i := r_i s; r_files := r_files s; r_reqd := r_reqd s; r_open := r_open s; r_stored := r_stored s;
     r_endm := r_endm s; r_fin_out := r_fin_out s; r_fin_in := r_fin_in s; r_eof := true;
     r_rdclosed := true; r_err := r_err s; r_ret := r_ret s |}.
(* the reader goroutine returns an error *)
Definition rset_fail (s : rstate) : rstate :=
  {| r_i := r_i s; r_files := r_files s; r_reqd := r_reqd s; r_open := r_open s; r_stored := r_stored s;
     r_endm := r_endm s; r_fin_out := r_fin_out s; r_fin_in := r_fin_in s; r_eof := r_eof s;
     r_rdclosed := true; r_err := true; r_ret := r_ret s |}.
Definition rset_err (s : rstate) : rstate :=
  {| r_i := r_i s; r_files := r_files s; r_reqd := r_reqd s; r_open := r_open s; r_stored := r_stored s;
     r_endm := r_endm s; r_fin_out := r_fin_out s; r_fin_in := r_fin_in s; r_eof := r_eof s;
     r_rdclosed := r_rdclosed s; r_err := true; r_ret := r_ret s |}.
Definition rset_ret (s : rstate) (b : bool) : rstate :=
  {| r_i := r_i s; r_files := r_files s; r_reqd := r_reqd s; r_open := r_open s; r_stored := r_stored s;
     r_endm := r_endm s; r_fin_out := r_fin_out s; r_fin_in := r_fin_in s; r_eof := r_eof s;
     r_rdclosed := r_rdclosed s; r_err := r_err s; r_ret := Some b |}.

(* a STAT whose content the receiver may ask for: fileCanRequestData (receive.go registers
   it in files) and no Linkname (diskwriter.go links instead of requesting) *)
Definition reqable (st : stat) : bool := mode_is_regular (st_mode st) && is_nil (st_linkname st).

Section Acc.
  Variable needs : bytes -> bool.

  Definition wanted (st : stat) : bool := reqable st && needs (st_path st).

  Fixpoint none_wanted (f : list (N * stat)) : bool :=
    match f with
    | [] => true
    | (_, st) :: r => negb (wanted st) && none_wanted r
    end.

  (* a packet read by the reader goroutine *)
  Definition on_in (s : rstate) (p : pkt) : rstate :=
    if r_fin_in s then s                            (* after FIN everything is drained unread *)
    else match p with
         | PStat (Some st) =>
           if r_endm s then rset_fail s               (* not a legal sender; see ReceiverAccP *)
           else rset_stat s (if mode_is_regular (st_mode st) then (N.of_nat (r_i s), st) :: r_files s
                             else r_files s)
         | PStat None => if r_endm s then rset_fail s else rset_endm s
         | PData n d =>
           match nlookup n (r_open s) with
           | Some cs =>
             match d with
             | [] => rset_close s n cs
             | _ => rset_open s (nupdate n (d :: cs) (r_open s))
             end
           | None => rset_fail s                      (* "invalid file request" *)
           end
         | PFin => rset_fin_in s
         | PErr _ => rset_fail s
         | PReq _ => s                                (* no case in the switch *)
         end.

  Definition receiver_acc (s : rstate) (e : event) : option rstate :=
    match r_ret s with
    | Some _ => None
    | None =>
      match e with
      | Inp p => if r_rdclosed s then None else Some (on_in s p)
      | InEof =>
        if r_rdclosed s then None
        else if r_fin_in s then Some (rset_eof s) else Some (rset_fail s)
      | Out (PReq n) =>
        match nlookup n (r_files s) with
        | Some st => if wanted st then Some (rset_request s n) else None
        | None => None
        end
      | Out PFin =>
        if r_endm s && is_nil (r_open s) && negb (r_fin_out s) && none_wanted (r_files s)
        then Some (rset_fin_out s) else None
      | Out (PErr _) => if r_err s then Some s else None
      | Out (PStat _) | Out (PData _ _) => None
      | Fault => Some (rset_err s)
      | Progress _ _ => Some s
      | Return true =>
        if r_fin_out s && r_fin_in s && r_eof s && negb (r_err s) then Some (rset_ret s true) else None
      | Return false => if r_err s then Some (rset_ret s false) else None
      end
    end.

  Definition receiver_run (tr : list event) : option rstate := run receiver_acc rinit tr.
End Acc.

(* ---- what "a sender that follows the documented protocol" means for the packets the
   receiver reads: no STAT after the empty STAT, and nothing at all after its FIN (it sends
   FIN only as the last packet, then closes) ---- *)
Definition no_stat_after_end (tr : list event) : Prop :=
  forall pre o post, tr = pre ++ Inp (PStat o) :: post -> ~ List.In (Inp (PStat None)) pre.
Definition nothing_after_fin (tr : list event) : Prop :=
  forall pre p post, tr = pre ++ Inp p :: post -> ~ List.In (Inp PFin) pre.
Definition legal_sender (tr : list event) : Prop := no_stat_after_end tr /\ nothing_after_fin tr.

(* the STATs received, in order *)
Definition rstats (tr : list event) : list stat := some_stats (stats_in tr).

Definition receiver_accepts (needs : bytes -> bool) (tr : list event) : option bool :=
  match receiver_run needs tr with
  | Some s => r_ret s
  | None => None
  end.
