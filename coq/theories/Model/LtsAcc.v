(* L7/L8 bridge — the sender side of the goroutine-level LTS (Model/Lts.v, C04/C08) seen at
   the boundary of Send, in the event vocabulary of the acceptor of C06 (Model/SenderAcc.v).

   The LTS abstracts packets to PStat / PEnd / PData id / PDataEnd id / PReq id / PFin / PErr
   without payloads: STATs are numbered by position and DATA packets by the number of chunks
   a worker has sent.  The acceptor speaks about concrete packets.  The abstraction that
   relates the two is relative to

     p    : Lts.params          the LTS instance
     exp  : list Tree.entry     what the acceptor expects the sender to say (stat + served bytes)
     ch   : nat -> list bytes   for every position i the chunks io.CopyBuffer cuts the served bytes into

   with [abs_ok]: same number of entries; an LTS entry is a "file" (fileCanRequestData) iff the
   expected entry is regular; the chunks of position i are non-empty, as many as the LTS
   entry's e_chunks, and concatenate to the bytes served for i; at least one worker.

   Concretisation of the packets that cross the sender's boundary (it depends on WHERE in the
   run the packet is produced, since LTS packets carry no payload):
     walker's PStat while sw_i = i      |->  Out (PStat (Some (stat of exp[i])))
     walker's PEnd                      |->  Out (PStat None)
     walker's PErr                      |->  Out (PErr emsg)
     worker's PData h, c chunks sent    |->  Out (PData h (c-th chunk of ch h))
     worker's PDataEnd h                |->  Out (PData h [])
     reader's  PFin                     |->  Out PFin
     received PReq id / PFin / PErr     |->  Inp (PReq id) / Inp PFin / Inp (PErr rmsg)
     g.Wait() returns                   |->  Progress fprog true; Return ok
   (the deferred final progress call; intermediate progress calls are not in the LTS).

   An Out event is placed at the step in which the goroutine acquires the syncStream mutex,
   i.e. when the underlying Stream.SendMsg is CALLED: that is where harness/c0607_tap.go
   records it (the tap sits below syncStream).  In the runs considered here a started
   SendMsg always completes (the sender's endpoint never breaks). *)
From Coq Require Import List NArith Bool Arith.
From FS Require Import Model.Lts.
From FS Require Import Sx Model.Path Model.Stat Model.Tree Model.AccEvents Model.SenderAcc.
Import ListNotations.
Local Open Scope nat_scope.

Section Abs.
  Variable p : Lts.params.
  Variable exp : list Tree.entry.
  Variable ch : nat -> list bytes.
  Variable emsg rmsg : bytes.
  Variable fprog : N.

  Definition abs_ok : Prop :=
    length (p_entries p) = length exp
    /\ (forall i, is_file p i = match regular_at exp i with Some _ => true | None => false end)
    /\ (forall i c, regular_at exp i = Some c -> concat (ch i) = c)
    /\ (forall i, Lts.chunks_of p i = length (ch i))
    /\ (forall i c, In c (ch i) -> c <> [])
    /\ 0 < p_W p.

  (* packets sent by the walker goroutine while its index is i *)
  Definition abs_walk (k : skind) (i : nat) : pkt :=
    match k with
    | KStat => match nth_error exp i with Some e => AccEvents.PStat (Some (fst e)) | None => AccEvents.PStat None end
    | KEnd => AccEvents.PStat None
    | KErr => AccEvents.PErr emsg
    end.

  (* packets received from the receiver (only REQ / FIN / ERR are ever sent in that direction) *)
  Definition abs_in (pk : Lts.packet) : pkt :=
    match pk with
    | Lts.PReq id => AccEvents.PReq (N.of_nat id)
    | Lts.PFin => AccEvents.PFin
    | Lts.PErr => AccEvents.PErr rmsg
    | Lts.PStat | Lts.PEnd => AccEvents.PStat None
    | Lts.PData id | Lts.PDataEnd id => AccEvents.PData (N.of_nat id) []
    end.

  (* the events at the sender's boundary produced by one (enabled) step *)
  Definition sender_events (st : Lts.state) (l : label) : list event :=
    match l with
    | LSWalk => match sw_pc st with SW_Lock k => [Out (abs_walk k (sw_i st))] | _ => [] end
    | LWorker j =>
        match nth_error (wks st) j with
        | Some (WK_Lock h c) => [Out (AccEvents.PData (N.of_nat h) (nth c (ch h) []))]
        | Some (WK_LockFin h) => [Out (AccEvents.PData (N.of_nat h) [])]
        | _ => []
        end
    | LReq =>
        match rq_pc st with
        | RQ_Recv => if s_broken st then [Fault]
                     else match buf_rs st with pk :: _ => [Inp (abs_in pk)] | [] => [] end
        | RQ_LockFin => [Out AccEvents.PFin]
        | _ => []
        end
    | LSendRet => [Progress fprog true; Return (negb (Lts.s_err st))]
    | _ => []
    end.

  (* the boundary trace of a label sequence run from st (cut where a label is not enabled) *)
  Fixpoint lts_trace (st : Lts.state) (ls : list label) : list event :=
    match ls with
    | [] => []
    | l :: r => match Lts.step p st l with
                | Some st' => sender_events st l ++ lts_trace st' r
                | None => []
                end
    end.
End Abs.

(* environment events that hit the SENDER: injected FS faults, cancellation of Send's
   context, failure of its stream endpoint.  Faults of the receiver and of its endpoint are
   not excluded: the sender has to conform whatever the peer does. *)
Definition sender_fault (l : label) : bool :=
  match l with
  | LSWalkErr | LWorkerOpenErr _ | LWorkerReadErr _ | LEnvCancelS | LEnvBreakS | LEnvTearDown => true
  | _ => false
  end.
Definition sender_fault_free (ls : list label) : bool := forallb (fun l => negb (sender_fault l)) ls.

(* a chunking exists for every expectation: one chunk per non-empty file *)
Definition one_chunk (exp : list Tree.entry) (i : nat) : list bytes :=
  match regular_at exp i with
  | Some (b :: r) => [b :: r]
  | _ => []
  end.
Definition lts_entry_of (exp : list Tree.entry) (i : nat) (e : Tree.entry) : Lts.entry :=
  {| e_file := mode_is_regular (st_mode (fst e));
     e_chunks := length (one_chunk exp i);
     e_kind := if mode_is_regular (st_mode (fst e)) && is_nil (st_linkname (fst e)) then ENeed else EMeta |}.
Fixpoint lts_entries_from (exp : list Tree.entry) (i : nat) (l : list Tree.entry) : list Lts.entry :=
  match l with [] => [] | e :: r => lts_entry_of exp i e :: lts_entries_from exp (S i) r end.
Definition lts_params_of (exp : list Tree.entry) (capSR capRS : nat) : Lts.params :=
  {| p_W := 4; p_P := 128; p_C := 128; p_C2 := 128; p_capSR := capSR; p_capRS := capRS;
     p_entries := lts_entries_from exp 0 exp; p_old_queue := false |}.

(* a deterministic scheduler for examples: always the first enabled move of the program
   (no environment event), at most [fuel] steps *)
Fixpoint first_sched (p : Lts.params) (fuel : nat) (st : Lts.state) : list label :=
  match fuel with
  | O => []
  | S f =>
    match filter (fun l => negb (is_env l)) (enabled p st) with
    | l :: _ => match Lts.step p st l with Some st' => l :: first_sched p f st' | None => [] end
    | [] => []
    end
  end.
