(* C19 — the metadata-only transfer end to end: vocabulary of the composition theorems
   (Properties/C19.v: listing_roundtrip, meta_transfer_converges, meta_req_ids).

   Pieces composed:
     Model/MetaOnly.v   transcript of the metadata branch of the receive loop (this property)
     Model/Listing.v, Model/Codec.v, Model/MetaBuffer.v   byte format of the listing file (C20)
     Model/AbsDest.v    level-A receiver: doubleWalkDiff + abstract DiskWriter (C02/C05)
     Model/ConvergeA.v, Model/Converge.v   convergence relation (C01)

   receive.go: the entries the receive loop hands to w.update are what the diff sees as the
   source listing; the bytes of a requested file arrive under the id registered in r.files
   (asyncDataFunc), i.e. — by ids_aligned — they are the bytes of the announced entry at that
   position.  After g.Wait() the epilogue removes dest/.fsutil-metadata and writes the buffer. *)
From Coq Require Import List NArith Bool.
From FS Require Import Sx Model.Path Model.Stat Model.Diff Model.AbsDest Model.Codec Model.Listing
  Model.MetaOnly.
Import ListNotations.
Open Scope bool_scope.

(* ---- the listing file ---- *)
(* the records appended to the metadata buffer for an announced sequence (canonical xattr
   order; lrecord_of of Model/Listing.v allows every map iteration order) *)
Definition listing_records (sel : stat -> bool) (stats : list stat) : list bytes :=
  map listing_record (r_listing (meta_recv sel stats)).
(* the bytes the epilogue writes to dest/.fsutil-metadata: WriteTo of this property's buffer
   model after one alloc per record *)
Definition listing_file_of (recs : list bytes) : bytes :=
  buf_bytes (fold_left MetaOnly.alloc_write recs []).
Definition listing_file (sel : stat -> bool) (stats : list stat) : bytes :=
  listing_file_of (listing_records sel stats).

(* ---- the projection of the source the destination converges to ---- *)
(* an announced entry is handed to the diff/writer: it is not the listing-name entry and it is
   selected or a directory with a selected entry strictly below it *)
Definition fwd_pred (sel : stat -> bool) (L : list stat) (s : stat) : bool :=
  negb (is_listing s) && needed sel (recv_stream L) s.
(* source entries (with contents) restricted to those: selected entries + needed ancestors *)
Definition meta_proj (sel : stat -> bool) (B : list entry) : list entry :=
  filter (fun e => fwd_pred sel (map fst B) (fst e)) B.

(* ---- content requests ---- *)
(* asyncDataFunc: id, ok := r.files[p] on a Go map filled by r.files[path] = i: the last
   assignment wins; None = "invalid file request" *)
Fixpoint files_get (files : list (bytes * nat)) (p : bytes) : option nat :=
  match files with
  | [] => None
  | (q, id) :: r =>
    match files_get r p with
    | Some x => Some x
    | None => if bytes_eqb q p then Some id else None
    end
  end.
(* the ids of the REQ packets for the content requests [reqs] of the disk writer, in order *)
Definition req_ids (files : list (bytes * nat)) (reqs : list bytes) : list (option nat) :=
  map (files_get files) reqs.

(* the announced entry is a selected regular non-link entry, other than the listing name, whose
   content the destination (listing LA, differ d) lacks: absent or with another identity key *)
Definition wanted (sel : stat -> bool) (d : differ) (LA : list stat) (s : stat) : bool :=
  negb (is_listing s) && sel s && wants_content s && negb (unchanged_b d LA s).
