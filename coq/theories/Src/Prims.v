(* Src/Prims.v — the ONE trusted file of the source-to-Gallina translator tools/go2coq.

   gen/SrcFns.v (regenerated from /repo on every run) refers to nothing but the Coq standard
   library, Model/Stat.v's record [stat] (field access only) and the definitions below.  They give
   the meaning of the Go constructs the translator does not expand itself:
     * the data representation: string = list N (bytes), byte/uint32/uint64 = N, int = Z,
       int64 struct fields = N (two's complement mod 2^64; only == and != are translated on them),
       []string = list (list N), error = option (list N) (nil = None);
     * indexing, slicing, len, conversions, fixed-width wrap-around;
     * the loop result type [ctl] (out of fuel / early return / normal exit with the loop state);
     * a small table of standard-library functions and constants (Linux build).
   Self-contained on purpose (standard library only), so that it can be reviewed alone.  No proofs
   here; bridges to the hand models' own helpers are proved in Proofs/Src/PrimsP.v. *)
From Coq Require Import List NArith ZArith Bool.
Import ListNotations.

(* ---------------------------------------------------------------- control *)
(* result of a translated loop: R = return type of the enclosing function, S = loop state *)
Inductive ctl (R S : Type) : Type :=
| OutOfFuel : ctl R S            (* the fuel computed by the translator ran out: excluded by every _src_eq theorem *)
| Ret (r : R) : ctl R S          (* `return r` executed inside the loop *)
| Done (s : S) : ctl R S.        (* loop left by its condition or by `break`, with the values of the assigned variables *)
Arguments OutOfFuel {R S}.
Arguments Ret {R S} r.
Arguments Done {R S} s.

(* non-local exit of an inner loop towards the loop immediately around it *)
Inductive nl (R : Type) : Type :=
| NLRet (r : R) : nl R           (* return from the function *)
| NLCont : nl R                  (* `continue L`, L = the enclosing loop *)
| NLBrk : nl R.                  (* `break L` *)
Arguments NLRet {R} r.
Arguments NLCont {R}.
Arguments NLBrk {R}.

Definition error : Type := option (list N).     (* nil = None *)
Definition err_is_nil (e : error) : bool := match e with None => true | Some _ => false end.   (* e == nil *)

(* ---------------------------------------------------------------- fixed width *)
Definition wrap (k : N) (x : N) : N := N.modulo x (N.pow 2 k).            (* x mod 2^k *)
Definition usub (k : N) (a b : N) : N := N.modulo (a + N.pow 2 k - N.modulo b (N.pow 2 k)) (N.pow 2 k).  (* a - b on k-bit unsigned *)
Definition z_to_u (k : N) (x : Z) : N := Z.to_N (Z.modulo x (Z.pow 2 (Z.of_N k))).   (* uintK(x) for a signed x *)
Definition u_to_int (x : N) : Z :=                                        (* int(x) / int64(x) for a 64-bit unsigned x *)
  let z := Z.of_N (wrap 64 x) in if Z.ltb z 9223372036854775808 then z else (z - 18446744073709551616)%Z.

(* errors.Errorf / errors.New / &T{..}: some non-nil error (the text is not modelled);
   errors.WithStack / Wrap / Wrapf: nil for nil, otherwise a non-nil error *)
Definition some_error : error := Some [].
Definition errors_WithStack (e : error) : error := match e with None => None | Some _ => some_error end.

(* os.FileInfo: the record of what its methods return — IsDir(), Mode() (os.FileMode bits) and Sys(), of which
   only the type assertion Sys().( *types.Stat ) is translated: [fi_Sys] is Some s when the assertion succeeds
   (S is instantiated with Model/Stat.v's stat by the translator), None when it fails.  A nil FileInfo cannot
   be represented: where Go passes nil (deletions) any record may be passed, its methods are then not called
   by a panic-free run. *)
Record FileInfo (S : Type) : Type := { fi_IsDir : bool; fi_Mode : N; fi_Sys : option S }.
Arguments fi_IsDir {S} _.
Arguments fi_Mode {S} _.
Arguments fi_Sys {S} _.

(* ---------------------------------------------------------------- slices of any element type
   (a slice is the list of its elements: capacity, sharing and the difference between nil and empty are not
   represented; s == nil is "s is empty") *)
Definition slice_is_nil {A} (s : list A) : bool := match s with [] => true | _ => false end.
Definition make_slice {A} (n : Z) (zero : A) : list A := repeat zero (Z.to_nat n).
(* s[i]: Go panics outside 0 <= i < len(s); not modelled, the value is then d (the element type's zero value) *)
Definition nth_d {A} (s : list A) (i : Z) (d : A) : A := if Z.ltb i 0 then d else nth (Z.to_nat i) s d.
(* s[i] = x, as a new list; out of range (a panic in Go): unchanged *)
Fixpoint list_set_nat {A} (s : list A) (i : nat) (x : A) : list A :=
  match s, i with
  | [], _ => []
  | _ :: r, O => x :: r
  | a :: r, S i' => a :: list_set_nat r i' x
  end.
Definition list_set {A} (s : list A) (i : Z) (x : A) : list A := if Z.ltb i 0 then s else list_set_nat s (Z.to_nat i) x.
(* s[a:b], s[a:], s[:b]; Go panics unless 0 <= a <= b <= cap(s): not modelled, clamped *)
Definition lslice {A} (s : list A) (a b : Z) : list A := firstn (Z.to_nat (b - a)) (skipn (Z.to_nat a) s).
Definition lslice_from {A} (s : list A) (a : Z) : list A := skipn (Z.to_nat a) s.
Definition lslice_to {A} (s : list A) (b : Z) : list A := firstn (Z.to_nat b) s.

(* sort.Search(n, f): Go's algorithm itself,
       i, j := 0, n; for i < j { h := int(uint(i+j) >> 1); if !f(h) { i = h + 1 } else { j = h } }; return i
   (h = (i+j)/2: i+j does not overflow uint for 0 <= i <= j <= n <= MaxInt).  f may call loop functions, so it
   returns option; fuel n+1 suffices because j - i decreases in every iteration. *)
Fixpoint sort_Search_loop (fuel : nat) (f : Z -> option bool) (i j : Z) : option Z :=
  match fuel with
  | O => None
  | S fuel' =>
    if Z.ltb i j then
      let h := Z.shiftr (i + j) 1 in
      match f h with
      | None => None
      | Some b => if negb b then sort_Search_loop fuel' f (h + 1)%Z j else sort_Search_loop fuel' f i h
      end
    else Some i
  end.
Definition sort_Search (n : Z) (f : Z -> option bool) : option Z := sort_Search_loop (S (Z.to_nat n)) f 0%Z n.

(* int64: two's complement in N.  Arithmetic goes through the signed value and wraps back to 64 bits
   (Go: + - * wrap; / truncates towards zero, % has the sign of the dividend; MinInt64 / -1 wraps;
   division by zero panics — not modelled, Coq's Z.quot x 0 = 0). *)
Definition sint64 (n : N) : Z := u_to_int n.
Definition of_sint64 (z : Z) : N := Z.to_N (Z.modulo z 18446744073709551616).
Definition i64_add (a b : N) : N := of_sint64 (sint64 a + sint64 b).
Definition i64_sub (a b : N) : N := of_sint64 (sint64 a - sint64 b).
Definition i64_mul (a b : N) : N := of_sint64 (sint64 a * sint64 b).
Definition i64_quot (a b : N) : N := of_sint64 (Z.quot (sint64 a) (sint64 b)).
Definition i64_rem (a b : N) : N := of_sint64 (Z.rem (sint64 a) (sint64 b)).
Definition i64_ltb (a b : N) : bool := Z.ltb (sint64 a) (sint64 b).
Definition i64_leb (a b : N) : bool := Z.leb (sint64 a) (sint64 b).

(* time.Time values are only ever built by time.Unix(sec, nsec) in the subset: the pair of its arguments
   (int64 each).  time.Unix documents: the instant sec seconds and nsec nanoseconds after the epoch, for
   every nsec (also outside [0, 1e9)); [time_ns] is that instant in nanoseconds. *)
Definition time : Type := (N * N)%type.
Definition time_Unix (sec nsec : N) : time := (sec, nsec).
Definition time_ns (t : time) : Z := (sint64 (fst t) * 1000000000 + sint64 (snd t))%Z.

(* ---------------------------------------------------------------- strings *)
Definition len (s : list N) : Z := Z.of_nat (length s).
Definition slen {A} (s : list A) : Z := Z.of_nat (length s).
(* s[i]: Go panics outside 0 <= i < len(s); panics are not modelled, the value is then 0 *)
Definition idx (s : list N) (i : Z) : N := if Z.ltb i 0 then 0%N else nth (Z.to_nat i) s 0%N.
(* s[a:b]: Go panics unless 0 <= a <= b <= len(s); not modelled, the slice is then clamped *)
Definition slice (s : list N) (a b : Z) : list N := firstn (Z.to_nat (b - a)) (skipn (Z.to_nat a) s).
Definition slice_from (s : list N) (a : Z) : list N := skipn (Z.to_nat a) s.
Definition slice_to (s : list N) (b : Z) : list N := firstn (Z.to_nat b) s.

Fixpoint bytes_eqb (a b : list N) : bool :=
  match a, b with
  | [], [] => true
  | x :: a', y :: b' => N.eqb x y && bytes_eqb a' b'
  | _, _ => false
  end.
(* Go string order: bytewise lexicographic *)
Fixpoint bytes_cmp (a b : list N) : comparison :=
  match a, b with
  | [], [] => Eq | [], _ => Lt | _, [] => Gt
  | x :: a', y :: b' => match N.compare x y with Eq => bytes_cmp a' b' | c => c end
  end.
Definition bytes_ltb (a b : list N) : bool := match bytes_cmp a b with Lt => true | _ => false end.
Definition bytes_leb (a b : list N) : bool := match bytes_cmp a b with Gt => false | _ => true end.

(* map[string]struct{} as a set: the list of the keys stored so far, newest first (duplicates allowed).
   Only membership is observable: the translator gives no meaning to len or range on a map.
   nil and empty maps are the same list; writing to a nil map panics in Go (not modelled). *)
Definition map_is_nil {A} (m : list A) : bool := match m with [] => true | _ => false end.
Definition set_mem (k : list N) (m : list (list N)) : bool := existsb (fun x => bytes_eqb k x) m.   (* _, ok := m[k] *)
Definition set_add (m : list (list N)) (k : list N) : list (list N) := k :: m.                      (* m[k] = struct{}{} *)
Definition set_del (m : list (list N)) (k : list N) : list (list N) := filter (fun x => negb (bytes_eqb k x)) m.   (* delete(m, k) *)


(* ---------------------------------------------------------------- standard library (Linux) *)
Definition filepath_Separator : N := 47.      (* path/filepath.Separator = '/' *)
Definition runtime_GOOS : list N := [108; 105; 110; 117; 120]%N.   (* "linux" *)
(* os.ModeType = ModeDir | ModeSymlink | ModeNamedPipe | ModeSocket | ModeDevice | ModeCharDevice | ModeIrregular *)
Definition os_ModeType : N := 2401763328.
Definition os_ModeDir : N := 2147483648.
Definition os_ModeSymlink : N := 134217728.

(* os.FileMode.IsDir: m&ModeDir != 0 *)
Definition FileMode_IsDir (m : N) : bool := negb (N.eqb (N.land m os_ModeDir) 0).

Fixpoint strings_HasPrefix (s pre : list N) : bool :=
  match pre, s with
  | [], _ => true
  | a :: pre', b :: s' => N.eqb a b && strings_HasPrefix s' pre'
  | _ :: _, [] => false
  end.
Definition strings_HasSuffix (s suf : list N) : bool := strings_HasPrefix (rev s) (rev suf).
Definition strings_TrimPrefix (s pre : list N) : list N :=
  if strings_HasPrefix s pre then skipn (length pre) s else s.
Definition strings_TrimSuffix (s suf : list N) : list N :=
  if strings_HasSuffix s suf then firstn (length s - length suf) s else s.

(* strings.Split(s, sep) for a non-empty sep (an empty sep splits into UTF-8 sequences: not given a
   meaning here, the result is then [s]).  Fuel = length of s. *)
Fixpoint split_fuel (n : nat) (s sep : list N) : list (list N) :=
  match n with
  | O => [s]
  | S n' =>
    match s with
    | [] => [[]]
    | a :: s' =>
      if strings_HasPrefix s sep
      then [] :: split_fuel n' (skipn (length sep) s) sep
      else match split_fuel n' s' sep with
           | c :: cs => (a :: c) :: cs
           | [] => [[a]]
           end
    end
  end.
Definition strings_Split (s sep : list N) : list (list N) :=
  match sep with [] => [s] | _ => split_fuel (length s) s sep end.

(* path/filepath.Clean for '/' — the component-wise formulation of Go's four rules, the same text as
   Model/Path.v's [clean] (validated there against the Go library by kind 1203; PrimsP.filepath_Clean_bridge) *)
Fixpoint clean_comps (p : list N) : list (list N) :=
  match p with
  | [] => [[]]
  | a :: p' =>
    if N.eqb a filepath_Separator then [] :: clean_comps p'
    else match clean_comps p' with
         | [] => [[a]]
         | c :: cs => (a :: c) :: cs
         end
  end.
Fixpoint clean_joinc (cs : list (list N)) : list N :=
  match cs with
  | [] => []
  | [c] => c
  | c :: r => c ++ filepath_Separator :: clean_joinc r
  end.
Definition clean_step (rooted : bool) (stk : list (list N)) (c : list N) : list (list N) :=
  if bytes_eqb c [] || bytes_eqb c [46]%N then stk
  else if bytes_eqb c [46; 46]%N then
    match stk with
    | t :: r => if bytes_eqb t [46; 46]%N then c :: stk else r
    | [] => if rooted then stk else [c]
    end
  else c :: stk.
Definition filepath_Clean (p : list N) : list N :=
  let rooted := match p with a :: _ => N.eqb a filepath_Separator | [] => false end in
  let out := clean_joinc (rev (fold_left (clean_step rooted) (clean_comps p) [])) in
  if rooted then filepath_Separator :: out
  else match out with [] => [46]%N | _ => out end.
(* filepath.IsAbs / Dir / Base for '/': the same text as Model/Path.v's is_abs / dir / base (kind 1203 compares
   those with the Go library); FromSlash is the identity on Linux *)
Definition filepath_IsAbs (p : list N) : bool :=
  match p with a :: _ => N.eqb a filepath_Separator | [] => false end.
Fixpoint split_last_sep (p : list N) : option (list N * list N) :=
  match p with
  | [] => None
  | a :: p' =>
    match split_last_sep p' with
    | Some (d, b) => Some (a :: d, b)
    | None => if N.eqb a filepath_Separator then Some ([a], p') else None
    end
  end.
Definition filepath_Dir (p : list N) : list N :=
  match split_last_sep p with
  | Some (d, _) => filepath_Clean d
  | None => filepath_Clean []
  end.
Fixpoint strip_seps_rev (r : list N) : list N :=
  match r with
  | a :: r' => if N.eqb a filepath_Separator then strip_seps_rev r' else r
  | [] => []
  end.
Definition filepath_Base (p : list N) : list N :=
  match p with
  | [] => [46]%N
  | _ =>
    let q := rev (strip_seps_rev (rev p)) in
    match q with
    | [] => [filepath_Separator]
    | _ => match split_last_sep q with Some (_, b) => b | None => q end
    end
  end.
Definition filepath_FromSlash (p : list N) : list N := p.

(* filepath.Join(elems...): empty elements are ignored, the rest joined with the separator and cleaned;
   "" when nothing is left *)
Definition filepath_Join (elems : list (list N)) : list N :=
  match filter (fun e => match e with [] => false | _ => true end) elems with
  | [] => []
  | ne => filepath_Clean (clean_joinc ne)
  end.

(* moby/patternmatcher: a Pattern value (passed by pointer) is represented by its cleaned pattern
   string, which is what its String method returns *)
Definition Pattern_String (p : list N) : list N := p.
