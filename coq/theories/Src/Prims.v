(* Src/Prims.v — the ONE trusted file of the source-to-Gallina translator tools/go2coq.

   gen/SrcFns.v (regenerated from /repo on every run) refers to nothing but the Coq standard
   library, Model/Stat.v's record [stat] (field access only) and the definitions below.  They give
   the meaning of the Go constructs the translator does not expand itself:
     * the data representation: string = list N (bytes), byte/uint32/uint64 = N, int = Z,
       int64 struct fields = N (two's complement mod 2^64; only == and != are translated on them),
       []string = list (list N), error = option (list N) (nil = None);
     * indexing, slicing, len, conversions, fixed-width wrap-around;
     * the loop result type [ctl] (out of fuel / early return / normal exit with the loop state);
     * a small table of standard-library functions and constants (Linux build).
   Self-contained on purpose (standard library only), so that it can be reviewed alone.  No proofs
   here; bridges to the hand models' own helpers are proved in Proofs/Src/PrimsP.v. *)
From Coq Require Import List NArith ZArith Bool.
Import ListNotations.

(* ---------------------------------------------------------------- control *)
(* result of a translated loop: R = return type of the enclosing function, S = loop state *)
Inductive ctl (R S : Type) : Type :=
| OutOfFuel : ctl R S            (* the fuel computed by the translator ran out: excluded by every _src_eq theorem *)
| Ret (r : R) : ctl R S          (* `return r` executed inside the loop *)
| Done (s : S) : ctl R S.        (* loop left by its condition or by `break`, with the values of the assigned variables *)
Arguments OutOfFuel {R S}.
Arguments Ret {R S} r.
Arguments Done {R S} s.

(* non-local exit of an inner loop towards the loop immediately around it *)
Inductive nl (R : Type) : Type :=
| NLRet (r : R) : nl R           (* return from the function *)
| NLCont : nl R                  (* `continue L`, L = the enclosing loop *)
| NLBrk : nl R.                  (* `break L` *)
Arguments NLRet {R} r.
Arguments NLCont {R}.
Arguments NLBrk {R}.

Definition error : Type := option (list N).     (* nil = None *)
Definition err_is_nil (e : error) : bool := match e with None => true | Some _ => false end.   (* e == nil *)

(* ---------------------------------------------------------------- fixed width *)
Definition wrap (k : N) (x : N) : N := N.modulo x (N.pow 2 k).            (* x mod 2^k *)
Definition usub (k : N) (a b : N) : N := N.modulo (a + N.pow 2 k - N.modulo b (N.pow 2 k)) (N.pow 2 k).  (* a - b on k-bit unsigned *)
Definition z_to_u (k : N) (x : Z) : N := Z.to_N (Z.modulo x (Z.pow 2 (Z.of_N k))).   (* uintK(x) for a signed x *)
Definition u_to_int (x : N) : Z :=                                        (* int(x) / int64(x) for a 64-bit unsigned x *)
  let z := Z.of_N (wrap 64 x) in if Z.ltb z 9223372036854775808 then z else (z - 18446744073709551616)%Z.

(* ---------------------------------------------------------------- strings *)
Definition len (s : list N) : Z := Z.of_nat (length s).
Definition slen {A} (s : list A) : Z := Z.of_nat (length s).
(* s[i]: Go panics outside 0 <= i < len(s); panics are not modelled, the value is then 0 *)
Definition idx (s : list N) (i : Z) : N := if Z.ltb i 0 then 0%N else nth (Z.to_nat i) s 0%N.
(* s[a:b]: Go panics unless 0 <= a <= b <= len(s); not modelled, the slice is then clamped *)
Definition slice (s : list N) (a b : Z) : list N := firstn (Z.to_nat (b - a)) (skipn (Z.to_nat a) s).
Definition slice_from (s : list N) (a : Z) : list N := skipn (Z.to_nat a) s.
Definition slice_to (s : list N) (b : Z) : list N := firstn (Z.to_nat b) s.

Fixpoint bytes_eqb (a b : list N) : bool :=
  match a, b with
  | [], [] => true
  | x :: a', y :: b' => N.eqb x y && bytes_eqb a' b'
  | _, _ => false
  end.
(* Go string order: bytewise lexicographic *)
Fixpoint bytes_cmp (a b : list N) : comparison :=
  match a, b with
  | [], [] => Eq | [], _ => Lt | _, [] => Gt
  | x :: a', y :: b' => match N.compare x y with Eq => bytes_cmp a' b' | c => c end
  end.
Definition bytes_ltb (a b : list N) : bool := match bytes_cmp a b with Lt => true | _ => false end.
Definition bytes_leb (a b : list N) : bool := match bytes_cmp a b with Gt => false | _ => true end.

(* ---------------------------------------------------------------- standard library (Linux) *)
Definition filepath_Separator : N := 47.      (* path/filepath.Separator = '/' *)
Definition runtime_GOOS : list N := [108; 105; 110; 117; 120]%N.   (* "linux" *)
(* os.ModeType = ModeDir | ModeSymlink | ModeNamedPipe | ModeSocket | ModeDevice | ModeCharDevice | ModeIrregular *)
Definition os_ModeType : N := 2401763328.
Definition os_ModeDir : N := 2147483648.
Definition os_ModeSymlink : N := 134217728.

(* os.FileMode.IsDir: m&ModeDir != 0 *)
Definition FileMode_IsDir (m : N) : bool := negb (N.eqb (N.land m os_ModeDir) 0).

Fixpoint strings_HasPrefix (s pre : list N) : bool :=
  match pre, s with
  | [], _ => true
  | a :: pre', b :: s' => N.eqb a b && strings_HasPrefix s' pre'
  | _ :: _, [] => false
  end.
Definition strings_HasSuffix (s suf : list N) : bool := strings_HasPrefix (rev s) (rev suf).
Definition strings_TrimPrefix (s pre : list N) : list N :=
  if strings_HasPrefix s pre then skipn (length pre) s else s.
Definition strings_TrimSuffix (s suf : list N) : list N :=
  if strings_HasSuffix s suf then firstn (length s - length suf) s else s.

(* moby/patternmatcher: a Pattern value (passed by pointer) is represented by its cleaned pattern
   string, which is what its String method returns *)
Definition Pattern_String (p : list N) : list N := p.
