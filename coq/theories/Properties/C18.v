(* C18 — Following links yields a terminating, closed, minimal include set.
   Only the property theorems (closed by [exact]) and their [Print Assumptions];
   the model is Model/FollowLinks.v, the proofs are in Proofs/FollowLinksP.v,
   Proofs/FollowLinksClosedP.v and Proofs/FollowLinksWildP.v.

   [gmatch] (path/filepath.Match) is universally quantified in every theorem; the
   refutation witnesses and examples use [go_match], the transcription of Go's
   algorithm that the correspondence run plugs into the model. *)
From Coq Require Import List NArith Bool.
From FS Require Import Sx Model.Path Model.Stat Model.Tree Model.FollowLinks Model.Pattern Model.FilterWalk
     Model.FollowTransfer Proofs.PatternP Proofs.FollowLinksP Proofs.FollowLinksClosedP Proofs.FollowLinksWildP
     Proofs.FollowTransferP Proofs.FollowTransferStarP.
Import ListNotations.
Open Scope N_scope.

(* ---- termination: every tree (any cycle shape), every request list (wildcards anywhere) ---- *)
Theorem follow_terminates :
  forall gmatch view reqs, follow_links gmatch view (fuel_bound view reqs) reqs <> OutOfFuel.
Proof. exact FollowLinksP.follow_terminates_proof. Qed.

(* the correspondence run evaluates the same fuel without building the candidate keys *)
Theorem fuel_bound_fast_eq :
  forall view reqs, fuel_bound_fast view reqs = fuel_bound view reqs.
Proof. exact FollowLinksP.fuel_bound_fast_eq_proof. Qed.

(* ---- the result is sorted bytewise (strictly), no element is inside another
        (strings.HasPrefix(b, a+"/")), it is nil exactly when "." was resolved, and a
        request that denotes the root makes it nil ---- *)
Theorem result_sorted_minimal :
  forall gmatch view fuel reqs,
    (forall l, follow_links gmatch view fuel reqs = Ok l -> sorted_b l = true /\ minimal_b l = true) /\
    (forall st, follow_state gmatch view fuel reqs = Ok st ->
       (In s_dot (resolved st) <-> follow_links_opt gmatch view fuel reqs = Ok None)) /\
    (forall r l, In r reqs -> norm_clamp (comps r) = [] ->
       follow_links gmatch view fuel reqs = Ok l -> l = []).
Proof. exact FollowLinksP.result_sorted_minimal_proof. Qed.

(* ---- closure, part 1 (full): whatever the resolver put into [resolved] is in the
        result or strictly inside one of its elements; nothing else is in the result ---- *)
Theorem result_covers_resolved :
  forall gmatch view fuel reqs st l,
    follow_state gmatch view fuel reqs = Ok st -> follow_links_opt gmatch view fuel reqs = Ok (Some l) ->
    (forall x, In x (resolved st) -> exists e, In e l /\ (e = x \/ inside e x = true)) /\
    (forall e, In e l -> In e (resolved st)).
Proof. exact FollowLinksP.result_covers_resolved_proof. Qed.

(* ---- closure, part 2 (full): every symlink the independent resolver chroot_resolve
        traverses for every wildcard expansion of every request, and the entry it
        reaches, is in or below an element of the result (read as a pattern list for the
        include matcher); the result is nil when the root is reached.
        All trees: relative / absolute links, ".." beyond the root, chains, cycles, links
        in intermediate components, dangling links; wildcards in the last component of a
        request.  [fuel] is arbitrary: the statement is about any run that did not run out
        of fuel (follow_terminates: fuel_bound view reqs is such a run).
        Each of the four hypotheses no_revisit / lexical_safe / wild_last_only /
        links_literal is necessary: dropping it makes the statement false (the four
        _refuted theorems below = the four known findings). ---- *)
Theorem result_closed :
  forall gmatch view reqs (fuel : nat) (isnil : bool) (res : list bytes),
    FollowLinks.wf_view view = true ->
    follow_links_opt gmatch view fuel reqs = Ok (if isnil then None else Some res) ->
    no_revisit gmatch view fuel reqs = true ->
    lexical_safe view reqs = true ->
    wild_last_only reqs = true ->
    links_literal view = true ->
    closed_b gmatch view isnil res reqs = true.
Proof. exact FollowLinksWildP.result_closed_proof. Qed.

(* ---- the same with a weaker hypothesis on link targets: a component of a link target
        may contain pattern characters as long as, among the names that occur in the
        tree, it matches exactly its own text (then readSymlink's pattern reading and the
        literal reading coincide).  links_literal implies links_selfmatch. ---- *)
Theorem result_closed_selfmatch :
  forall gmatch view reqs (fuel : nat) (isnil : bool) (res : list bytes),
    FollowLinks.wf_view view = true ->
    follow_links_opt gmatch view fuel reqs = Ok (if isnil then None else Some res) ->
    no_revisit gmatch view fuel reqs = true ->
    lexical_safe view reqs = true ->
    wild_last_only reqs = true ->
    links_selfmatch gmatch view = true ->
    closed_b gmatch view isnil res reqs = true.
Proof. exact FollowLinksWildP.result_closed_selfmatch_proof. Qed.

(* ---- the consequence clause, as a composition with C10's model of filterFS.Walk:
        NewFilterFS(view, {FollowPaths: reqs}) computes FollowLinks, appends the result to the
        include patterns (follow_cfg: patternmatcher.New on the appended targets) and walks with them
        (filter_walk, no map function).  That walk reports every symlink the independent
        resolver traverses for every request and the entry it reaches - so each request
        resolves in the copy as in the source.
        PARTIAL: proved for plain inputs (plain_inputs: no component of a request or link
        target contains a pattern character * [ ] ? ^ \, starts with '!' or starts / ends
        with white space), for which patternmatcher.New reads every result element as the
        literal path it is; [pmatch] (Pattern.match of moby/patternmatcher) is universally
        quantified under C10's hypothesis prefix_semantics (a literal pattern matches
        exactly itself).  Outside plain inputs the statement is false of the real code:
        known finding follow-path-result-reinterpreted-as-pattern (a followed path "!x",
        " x", "a\b" is re-parsed as a pattern and not walked). ---- *)
Theorem transfer_resolves_same_partial :
  forall pmatch gmatch view reqs,
    prefix_semantics pmatch ->
    FollowLinks.wf_view view = true ->
    plain_inputs view reqs = true ->
    forall (fuel : nat) (follow : option (list bytes)),
      follow_links_opt gmatch view fuel reqs = Ok follow ->
      no_revisit gmatch view fuel reqs = true ->
      lexical_safe view reqs = true ->
      exists c, follow_cfg follow = Some c /\
        forall r o x, In r reqs -> In o (chroot_resolve_all gmatch view r) -> needed o x ->
          In (joinc x) (map st_path (filter_walk pmatch id_map c view)).
Proof. exact FollowTransferP.transfer_resolves_same_partial_proof. Qed.

(* ---- the same for requests whose LAST component is a bare star (d/star): FollowLinks then
        keeps the pattern d/star in its result, the one non-literal pattern shape to which C10's
        prefix_semantics gives a meaning (L/star matches L/ followed by one component, for
        regex-safe L).  star_inputs: every component of a link target and every component of a
        (cleaned) request is plain and regex-safe (ASCII, none of the braces and bar), except
        that the last component of a request may be a bare star.  The result must not contain the
        bare pattern "star" itself (a request star at the root, or below a link to the root): that
        shape is a general glob for the library.  Other wildcards (l-star, ?, classes) would need
        a hypothesis tying Pattern.match's regexp translation to filepath.Match: not covered. ---- *)
Theorem transfer_resolves_same_star_partial :
  forall pmatch gmatch view reqs,
    prefix_semantics pmatch ->
    FollowLinks.wf_view view = true ->
    star_inputs view reqs = true ->
    forall (fuel : nat) (follow : option (list bytes)),
      follow_links_opt gmatch view fuel reqs = Ok follow ->
      no_revisit gmatch view fuel reqs = true ->
      lexical_safe view reqs = true ->
      (forall res, follow = Some res -> ~ In s_star res) ->
      exists c, follow_cfg follow = Some c /\
        forall r o x, In r reqs -> In o (chroot_resolve_all gmatch view r) -> needed o x ->
          In (joinc x) (map st_path (filter_walk pmatch id_map c view)).
Proof. exact FollowTransferStarP.transfer_resolves_same_star_proof. Qed.

(* ---- what FollowLinks returns is a fixed point of dedupePaths: running dedupePaths once more
        over a FollowPaths-only include list (as NewFilterFS did before the fix of finding
        dedupe-order-sensitive-includes) changes nothing, so follow_cfg describes both versions ---- *)
Theorem follow_targets_dedupe_fixpoint :
  forall gmatch view fuel reqs l,
    follow_links_opt gmatch view fuel reqs = Ok (Some l) -> dedupe_paths l = Some l.
Proof. exact FollowTransferP.follow_targets_dedupe_fixpoint_proof. Qed.

Definition dirmode : N := 2147484141.   (* ModeDir | 0755 *)
Definition lnkmode : N := 134218239.    (* ModeSymlink | 0777 *)
Definition mkst (m : N) (l : bytes) : stat :=
  {| st_path := []; st_mode := m; st_uid := 0; st_gid := 0; st_size := 0; st_mtime := 0;
     st_linkname := l; st_devmajor := 0; st_devminor := 0; st_xattrs := [] |}.
Definition D (name : bytes) (kids : list node) : node := Node name (mkst dirmode []) [] kids.
Definition F (name : bytes) : node := Node name (mkst 420 []) name [].
Definition L (name target : bytes) : node := Node name (mkst lnkmode target) [] [].

Definition refutes (view : list node) (reqs : list bytes) (res : list bytes) (nr ls wl ll : bool) : Prop :=
  FollowLinks.wf_view view = true /\
  follow_links_opt go_match view (fuel_bound view reqs) reqs = Ok (Some res) /\
  no_revisit go_match view (fuel_bound view reqs) reqs = nr /\
  lexical_safe view reqs = ls /\ wild_last_only reqs = wl /\ links_literal view = ll /\
  links_selfmatch go_match view = ll /\
  closed_b go_match view false res reqs = false.

(* K4: self -> ., a; request self/self/a returns [self]; a is never included *)
Theorem result_closed_refuted :
  exists view reqs res, refutes view reqs res false true true true.
Proof.
  exists [F [97]; L [115;101;108;102] [46]], [[115;101;108;102;47;115;101;108;102;47;97]], [[115;101;108;102]].
  vm_compute. repeat split; reflexivity.
Qed.

(* '..' removed lexically: d/, d/e/, d/a, a, x -> d/e; request x/../a returns [a] *)
Theorem result_closed_lexical_refuted :
  exists view reqs res, refutes view reqs res true false true true.
Proof.
  exists [F [97]; D [100] [F [97]; D [101] []]; L [120] [100;47;101]], [[120;47;46;46;47;97]], [[97]].
  vm_compute. repeat split; reflexivity.
Qed.

(* wildcard in a middle component: d/, d/l -> t, d/t; request */l returns [*/l] *)
Theorem result_closed_wildcard_refuted :
  exists view reqs res, refutes view reqs res true true false true.
Proof.
  exists [D [100] [L [108] [116]; F [116]]], [[42;47;108]], [[42;47;108]].
  vm_compute. repeat split; reflexivity.
Qed.

(* link target read as a pattern: [a] -> x, l -> [a], x; request l returns [[a], l] *)
Theorem result_closed_linkglob_refuted :
  exists view reqs res, refutes view reqs res true true true false.
Proof.
  exists [L [91;97;93] [120]; L [108] [91;97;93]; F [120]], [[108]], [[91;97;93]; [108]].
  vm_compute. repeat split; reflexivity.
Qed.

(* ---- non-vacuity: the model computes the results of the Go test-suite examples, the
        specification accepts them, and the independent resolver goes where Linux goes ---- *)
(* TestFollowLinks: dir/foo, dir/l1 -> foo, l2 -> dir/l1, bar, baz; [l2, bar] *)
Definition v_chain : list node :=
  [F [98;97;114]; F [98;97;122]; D [100;105;114] [F [102;111;111]; L [108;49] [102;111;111]]; L [108;50] [100;105;114;47;108;49]].
Example chain_followed :
  follow_links go_match v_chain (fuel_bound v_chain [[108;50]; [98;97;114]]) [[108;50]; [98;97;114]]
    = Ok [[98;97;114]; [100;105;114;47;102;111;111]; [100;105;114;47;108;49]; [108;50]] /\
  closed_b go_match v_chain false [[98;97;114]; [100;105;114;47;102;111;111]; [100;105;114;47;108;49]; [108;50]] [[108;50]; [98;97;114]] = true /\
  no_revisit go_match v_chain (fuel_bound v_chain [[108;50]; [98;97;114]]) [[108;50]; [98;97;114]] = true /\
  chroot_resolve go_match v_chain [108;50] =
    {| traversed := [[[100;105;114]; [108;49]]; [[108;50]]]; final := Reached [[100;105;114]; [102;111;111]] |}.
Proof. vm_compute. repeat split; reflexivity. Qed.

(* TestFollowLinksLoop: l1 -> l1, l2 -> l3, l3 -> l2; [l1, l3] terminates with all three *)
Definition v_loop : list node := [L [108;49] [108;49]; L [108;50] [108;51]; L [108;51] [108;50]].
Example cycles_terminate :
  follow_links go_match v_loop (fuel_bound v_loop [[108;49]; [108;51]]) [[108;49]; [108;51]] = Ok [[108;49]; [108;50]; [108;51]] /\
  closed_b go_match v_loop false [[108;49]; [108;50]; [108;51]] [[108;49]; [108;51]] = true /\
  final (chroot_resolve go_match v_loop [108;51]) = Failed.
Proof. vm_compute. repeat split; reflexivity. Qed.

(* F8: "../a" is clamped at the root; absolute targets restart at the root; ".." beyond the root stays there *)
Definition v_abs : list node :=
  [F [98;97;122]; D [100;105;114] [L [108;49] [47;102;111;111;47;98;97;114;47;98;97;122]]; D [102;111;111] [L [98;97;114] [46;46;47;46;46;47;46;46;47]]].
Example clamped_at_root :
  follow_links go_match v_abs (fuel_bound v_abs [[46;46;47;98;97;122]]) [[46;46;47;98;97;122]] = Ok [[98;97;122]] /\
  follow_links go_match v_abs (fuel_bound v_abs [[100;105;114;47;108;49]]) [[100;105;114;47;108;49]] = Ok [[98;97;122]; [100;105;114;47;108;49]; [102;111;111;47;98;97;114]] /\
  closed_b go_match v_abs false [[98;97;122]; [100;105;114;47;108;49]; [102;111;111;47;98;97;114]] [[100;105;114;47;108;49]] = true /\
  final (chroot_resolve go_match v_abs [100;105;114;47;108;49]) = Reached [[98;97;122]].
Proof. vm_compute. repeat split; reflexivity. Qed.

(* a link to the root gives the nil result; wildcards expand over symlinks; the dedupe regression *)
Example root_and_wildcards :
  follow_links_opt go_match [L [108] [47]; F [120]] 5 [[108]] = Ok None /\
  follow_links go_match v_chain (fuel_bound v_chain [[100;105;114;47;42]]) [[100;105;114;47;42]] = Ok [[100;105;114;47;42]; [100;105;114;47;102;111;111]] /\
  follow_links go_match v_chain (fuel_bound v_chain [[108;63]]) [[108;63]] = Ok [[100;105;114;47;102;111;111]; [100;105;114;47;108;49]; [108;63]] /\
  closed_b go_match v_chain false [[100;105;114;47;102;111;111]; [100;105;114;47;108;49]; [108;63]] [[108;63]] = true /\
  dedupe_paths (sort_bytes [[97;47;122]; [97;33]; [97]]) = Some [[97]; [97;33]] /\
  dedupe_paths (sort_bytes [[97;47;122]; [97;33]; [46]; [97]]) = None.
Proof. vm_compute. repeat split; reflexivity. Qed.

(* the hypotheses of result_closed / result_closed_selfmatch are jointly satisfiable on
   non-trivial cases: a chain of links through a directory; three cycles; an absolute link
   and ".." beyond the root; a link to the root (nil result); wildcard requests that expand
   over links; a link target f* where an entry is literally named f* *)
Definition closed_hyps (view : list node) (reqs : list bytes) (fuel : nat) (isnil : bool) (res : list bytes)
           (ll : bool) : Prop :=
  FollowLinks.wf_view view = true /\
  follow_links_opt go_match view fuel reqs = Ok (if isnil then None else Some res) /\
  no_revisit go_match view fuel reqs = true /\ lexical_safe view reqs = true /\
  wild_last_only reqs = true /\ links_literal view = ll /\ links_selfmatch go_match view = true.
Definition v_self : list node := [L [102;42] [120]; L [108] [102;42]; F [120]].
Example closed_hyps_instances :
  closed_hyps v_chain [[108;50]; [98;97;114]] (fuel_bound v_chain [[108;50]; [98;97;114]]) false
    [[98;97;114]; [100;105;114;47;102;111;111]; [100;105;114;47;108;49]; [108;50]] true /\
  closed_hyps v_loop [[108;49]; [108;51]] (fuel_bound v_loop [[108;49]; [108;51]]) false [[108;49]; [108;50]; [108;51]] true /\
  closed_hyps v_abs [[100;105;114;47;108;49]] (fuel_bound v_abs [[100;105;114;47;108;49]]) false
    [[98;97;122]; [100;105;114;47;108;49]; [102;111;111;47;98;97;114]] true /\
  closed_hyps [L [108] [47]; F [120]] [[108]] 5 true [] true /\
  closed_hyps v_chain [[100;105;114;47;42]] (fuel_bound v_chain [[100;105;114;47;42]]) false
    [[100;105;114;47;42]; [100;105;114;47;102;111;111]] true /\
  closed_hyps v_chain [[42]] (fuel_bound v_chain [[42]]) false
    [[42]; [100;105;114;47;102;111;111]; [100;105;114;47;108;49]] true /\
  closed_hyps v_self [[108]] (fuel_bound v_self [[108]]) false [[102;42]; [108]; [120]] false.
Proof. vm_compute. repeat split; reflexivity. Qed.

(* the transfer composition on the examples: the inputs are plain, and the walk with the
   FollowLinks result as include patterns (literal matcher) reports the chain / the absolute
   target and the directories above them / the three cycles *)
Definition walked (view : list node) (reqs : list bytes) : option (list bytes) :=
  match follow_links_opt go_match view (fuel_bound view reqs) reqs with
  | Ok f => match follow_cfg f with
            | Some c => Some (map st_path (filter_walk (lit_pmatch go_match) id_map c view))
            | None => None
            end
  | OutOfFuel => None
  end.
Example transfer_instances :
  plain_inputs v_chain [[108;50]; [98;97;114]] = true /\
  walked v_chain [[108;50]; [98;97;114]] =
    Some [[98;97;114]; [100;105;114]; [100;105;114;47;102;111;111]; [100;105;114;47;108;49]; [108;50]] /\
  plain_inputs v_abs [[100;105;114;47;108;49]] = true /\
  walked v_abs [[100;105;114;47;108;49]] =
    Some [[98;97;122]; [100;105;114]; [100;105;114;47;108;49]; [102;111;111]; [102;111;111;47;98;97;114]] /\
  plain_inputs v_loop [[108;49]; [108;51]] = true /\
  walked v_loop [[108;49]; [108;51]] = Some [[108;49]; [108;50]; [108;51]] /\
  plain_inputs [F [33;120]] [[33;120]] = false.
Proof. vm_compute. repeat split; reflexivity. Qed.

(* a star request: dir/star on the chain tree keeps the pattern dir/star and adds dir/foo (target
   of dir/l1); the walk with these includes reports dir and everything directly below it *)
Example transfer_star_instances :
  star_inputs v_chain [[100;105;114;47;42]] = true /\
  plain_inputs v_chain [[100;105;114;47;42]] = false /\
  follow_links_opt go_match v_chain (fuel_bound v_chain [[100;105;114;47;42]]) [[100;105;114;47;42]] =
    Ok (Some [[100;105;114;47;42]; [100;105;114;47;102;111;111]]) /\
  walked v_chain [[100;105;114;47;42]] =
    Some [[100;105;114]; [100;105;114;47;102;111;111]; [100;105;114;47;108;49]] /\
  star_inputs v_chain [[108;50]; [98;97;114]] = true.
Proof. vm_compute. repeat split; reflexivity. Qed.

Print Assumptions follow_terminates.
Print Assumptions fuel_bound_fast_eq.
Print Assumptions result_sorted_minimal.
Print Assumptions result_covers_resolved.
Print Assumptions result_closed.
Print Assumptions result_closed_selfmatch.
Print Assumptions transfer_resolves_same_partial.
Print Assumptions follow_targets_dedupe_fixpoint.
Print Assumptions transfer_resolves_same_star_partial.
Print Assumptions result_closed_refuted.
Print Assumptions result_closed_lexical_refuted.
Print Assumptions result_closed_wildcard_refuted.
Print Assumptions result_closed_linkglob_refuted.

(* ---- source equivalences (tools/go2coq; gen/SrcFns.v is regenerated from /repo on every run): the
        Gallina definitions translated from followlinks.go's containsWildcards (Linux: runtime.GOOS =
        "linux") and dedupePaths (nested range loops with `continue loop`) equal the models; the
        model's None is the nil slice Go returns on ".", which the translation renders as the empty list ---- *)
From FSGen Require SrcFns.
From FS Require Proofs.Src.ContainsWildcardsEq Proofs.Src.DedupePathsEq.
Theorem containsWildcards_src_eq :
  forall s, SrcFns.containsWildcards s = Some (contains_wildcards s).
Proof. exact ContainsWildcardsEq.containsWildcards_src_eq. Qed.
Theorem dedupePaths_src_eq :
  forall l, SrcFns.dedupePaths l = Some (match dedupe_paths l with Some r => r | None => [] end).
Proof. exact DedupePathsEq.dedupePaths_src_eq. Qed.
Print Assumptions containsWildcards_src_eq.
Print Assumptions dedupePaths_src_eq.
