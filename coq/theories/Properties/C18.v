(* C18 — placeholder, filled in below *)
From Coq Require Import List NArith Bool.
From FS Require Import Sx Model.Path Model.FollowLinks.
