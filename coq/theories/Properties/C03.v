(* C03 — receiver containment: an untrusted sender cannot touch anything outside dest.
   This file contains only the property theorems (closed by [exact]), their [Print Assumptions]
   and non-vacuity examples closed by [vm_compute]; models are in Model/ (Fs.v: the file system,
   DiskWriterFs.v: DiskWriter.HandleChange, the receive loop and ReceiveOpt.Filter as sequences of
   system calls, RecvMeta.v: ReceiveOpt.MetadataOnly — which entries reach the walker, and the
   epilogue that writes dest/.fsutil-metadata), proofs in Proofs/ (FsP FsReachP FsFrameP FsSysP
   FsTreeP DwP RecvP OldListP RecvOldP RecvMetaP FsWfP C03P RejectP).

   receiver_contained is the full statement of DESIGN section 4 for Receive with its options:
   every hostile packet list, every pre-existing destination (symlinks to anywhere, hard links
   shared with the outside, special files, an entry of any kind under the name .fsutil-metadata),
   both settings of ReceiveOpt.Merge, every MetadataOnly selector (or none), every admissible
   Filter (or none) and every prefix j of the effects. *)
From Coq Require Import List NArith Bool String Ascii.
From FS Require Import Sx Model.Path Model.Stat Model.Validator Model.Fs Model.DiskWriterFs Model.RecvMeta Model.RecvSpec.
From FS Require Import Proofs.ValidatorP Proofs.FsP Proofs.FsReachP Proofs.RecvP Proofs.FsWfP Proofs.C03P Proofs.RejectP.
Import ListNotations.
Open Scope N_scope.

(* [outside_unchanged D f f']: every inode that existed in f and is not a directory inside D has
   the same record in f' (type, entries / bytes / link target, mode, uid, gid, mtime, xattrs);
   D itself is still a directory with the same parent, mode, uid, gid, xattrs.  Hence every
   directory entry and inode outside D — D's own entry in its parent included — is as before,
   also for inodes that have a second name inside D.  (Link count and ctime are not part of the
   model's inode record: the correspondence oracle compares them too, except for inodes that
   had a name inside D before the run.)
   Hypotheses:
   [wf D f] — the part of f inside D is a well-formed tree (names are single non-empty components
     other than "." / "..", unique per directory; one entry per directory inode; D is a directory
     and not its own descendant; allocation counter above all inode numbers);
   the temporary names ".tmp.<n>" the writer may use are well-formed, not in use inside D and
     never a component of a path the sender names ([clean_packet], first part);
   [filter_ok fl] — what the Filter does to its copy of the stat keeps type bits and link name,
     and a path it rejects it rejects with everything below it (a caller obligation: see
     receiver_contained_any_filter_refuted);
   no transferred hard link names a path the Filter rejects ([clean_packet], second part; empty
     without a Filter).  This one depends on the stream: with a rejecting Filter the real
     receiver does link such an entry to whatever dest/<Linkname> resolves to — known finding
     filter-rejected-hardlink-source. *)
Theorem receiver_contained :
  forall (fl : rfilter) (mo : option (stat -> bool)) (f : fs) (root D : N) (dl merge : bool) (tmps : list bytes)
         (pks : list packet) (j : nat),
    filter_ok fl ->
    wf D f -> (forall t, tmpname tmps t -> okname t) -> tmp_unused D f tmps ->
    Forall (clean_packet tmps fl) pks ->
    outside_unchanged D f (recv_fs_prefix_opt f root D dl merge mo fl tmps pks j).
Proof. exact receiver_contained_opt. Qed.

(* the filters of the correspondence run (reject the listed paths and everything below, shift
   uid / gid) are admissible, and so is no filter *)
Theorem subtree_filters_admissible : forall ps ua ga, filter_ok (subtree_filter ps ua ga).
Proof. exact subtree_filter_ok. Qed.
Theorem no_filter_admissible : filter_ok no_filter.
Proof. exact no_filter_ok. Qed.

(* Without "rejected with everything below" the statement is FALSE of the model and of the code:
   dest holds d -> /out; the Filter rejects exactly "d"; STAT d (directory), STAT d/x (file).
   The change for d is skipped, the symlink stays, and d/x is created through it: /out gets an
   entry x.  (Replayed on the real code through the harness, see props/C03.json.) *)
Theorem receiver_contained_any_filter_refuted :
  exists (fl : rfilter) (f : fs) (root D : N) (tmps : list bytes) (pks : list packet) (j : nat),
    (forall s, st_mode (f_map fl s) = st_mode s) /\ (forall s, st_linkname (f_map fl s) = st_linkname s)
    /\ wf D f /\ (forall t, tmpname tmps t -> okname t) /\ tmp_unused D f tmps
    /\ Forall (clean_packet tmps fl) pks
    /\ ~ outside_unchanged D f (recv_fs_prefix_opt f root D false true None fl tmps pks j).
Proof. exact receiver_contained_any_filter_refuted_proof. Qed.

(* A stream that the stream-only specification (Model/RecvSpec.v) calls bad at packet b — a STAT
   whose path is not a clean relative path inside the root, not strictly after every earlier path,
   or whose parent was not sent before as a directory; a hard link to a path not sent before;
   content for an id no earlier STAT announced as a regular file — makes the receive call fail at
   or before b (error return, or the "closed channel" panic when a STAT follows the terminator),
   it never succeeds, and the file system is the one left by the packets before b: nothing of the
   offending packet or of any later one is applied.  No hypothesis on the file system, the
   destination, Merge or the temporary names; any Filter whose stat copy keeps type bits and
   link name (MetadataOnly = nil: for metadata transfers the statement with [spec_bad_m] is
   checked by the correspondence run only, see props/C03.json). *)
Theorem bad_stream_rejected :
  forall (fl : rfilter),
    (forall s, st_mode (f_map fl s) = st_mode s) -> (forall s, st_linkname (f_map fl s) = st_linkname s) ->
  forall (f : fs) (root D : N) (dl merge : bool) (tmps : list bytes) (pks : list packet) (b : nat),
    spec_bad pks sspec_init 0 = Some b ->
    let st := recv_run_f fl f root D dl merge tmps pks None in
    (exists k, (k <= b)%nat /\ (r_out st = Failed k \/ r_out st = Panicked k))
    /\ recv_succeeds st = false
    /\ r_fs st = r_fs (recv_run_f fl f root D dl merge tmps (firstn b pks) None).
Proof. exact bad_stream_rejected_f. Qed.

Print Assumptions receiver_contained.
Print Assumptions subtree_filters_admissible.
Print Assumptions no_filter_admissible.
Print Assumptions receiver_contained_any_filter_refuted.
Print Assumptions bad_stream_rejected.

(* ---- non-vacuity: a hostile destination and a hostile stream inside the hypotheses ---- *)
(* /out/f "O:f" ; /w/dest with l -> /out (symlink), m -> ../../out/f (symlink), a (file) *)
Definition ex_fs : fs :=
  let c := ctx_init in
  let f := run1 (sys_mkdir c fs_init (bs "/out") 493) in
  let f := match sys_open_wronly c f (bs "/out/f") true 420 with
           | (g, RFd i) => run1 (fd_pwrite g i 0 (bs "O:f")) | (g, _) => g end in
  let f := run1 (sys_mkdir c f (bs "/w") 493) in
  let f := run1 (sys_mkdir c f (bs "/w/dest") 493) in
  let f := run1 (sys_symlink c f (bs "/out") (bs "/w/dest/l")) in
  let f := run1 (sys_symlink c f (bs "../../out/f") (bs "/w/dest/m")) in
  let f := match sys_open_wronly c f (bs "/w/dest/a") true 384 with
           | (g, RFd i) => run1 (fd_pwrite g i 0 (bs "D:a")) | (g, _) => g end in
  f.
Definition ex_D : N := match resolve_ino ctx_init ex_fs (bs "/w/dest") true with inl i => i | inr _ => 0 end.

Definition mkst (p : string) (mode : N) (ln : string) (xs : list (bytes * bytes)) : stat :=
  {| st_path := bs p; st_mode := mode; st_uid := 1000; st_gid := 1000; st_size := 0; st_mtime := 1000000;
     st_linkname := bs ln; st_devmajor := 0; st_devminor := 0; st_xattrs := xs |}.
Definition ex_pks : list packet :=
  [ PStat (Some (mkst "l" (ModeDir + 493) "" []));              (* the symlink l becomes a directory ... *)
    PStat (Some (mkst "l/g" 420 "" []));                          (* ... with a file in it *)
    PData 1 (bs "new"); PData 1 [];
    PStat (Some (mkst "m" (ModeSymlink + 511) "/out/f" [(bs "user.x", bs "X")]));  (* symlink with xattrs *)
    PStat (Some (mkst "n" 511 "l/g" []));                         (* hard link to an entry sent before *)
    PStat (Some (mkst ".." (ModeDir + 493) "" [])) ].            (* and an escaping path: rejected *)

Definition ex_run : rstate := recv_fs ex_fs 1 ex_D false true [] ex_pks.

(* the hypotheses of the theorem hold for this case *)
Example example_in_domain : ex_D = 5 /\ domain_b 8 ex_fs ex_D [] no_filter ex_pks = true.
Proof. vm_compute. split; reflexivity. Qed.

(* the specification calls the stream bad at packet 6 (the path "..") *)
Example example_spec_bad : spec_bad ex_pks sspec_init 0 = Some 6%nat.
Proof. vm_compute. reflexivity. Qed.

(* the stream is rejected at the escaping path (packet 6), after the six effects of the first six packets *)
Example example_rejected : r_out ex_run = Failed 6 /\ r_applied ex_run = 6%nat.
Proof. vm_compute. split; reflexivity. Qed.

(* inside: l is now a directory holding g with the bytes sent, m names /out/f, n is a second name of g *)
Example example_inside_changed :
  let f' := r_fs ex_run in
  (match rwalk f' ex_D [bs "l"; bs "g"] with
   | Some i => match get f' i with Some {| i_kind := KFile d |} => Some d | _ => None end
   | None => None end) = Some (bs "new")
  /\ rwalk f' ex_D [bs "n"] = rwalk f' ex_D [bs "l"; bs "g"]
  /\ (match rwalk f' ex_D [bs "m"] with
      | Some i => match get f' i with Some {| i_kind := KLink t |} => Some t | _ => None end
      | None => None end) = Some (bs "/out/f").
Proof. vm_compute. repeat split; reflexivity. Qed.

(* outside: the records of /, /out, /out/f and /w are exactly as before *)
Example example_outside_same :
  map (get (r_fs ex_run)) [1; 2; 3; 4] = map (get ex_fs) [1; 2; 3; 4]
  /\ (match get ex_fs 3 with Some {| i_kind := KFile d |} => Some d | _ => None end) = Some (bs "O:f").
Proof. vm_compute. split; reflexivity. Qed.

(* without Merge the same stream first removes what it does not name: the old file a is gone,
   the symlink l has been replaced by a directory — and the outside is as before *)
Definition ex_run2 : rstate := recv_fs ex_fs 1 ex_D false false [] ex_pks.
Example example_nomerge :
  let f' := r_fs ex_run2 in
  r_out ex_run2 = Failed 6
  /\ rwalk ex_fs ex_D [bs "a"] = Some 8 /\ rwalk f' ex_D [bs "a"] = None
  /\ (match rwalk f' ex_D [bs "l"] with Some i => is_dir f' i | None => false end) = true
  /\ map (get f') [1; 2; 3; 4] = map (get ex_fs) [1; 2; 3; 4].
Proof. vm_compute. repeat split; reflexivity. Qed.

(* a metadata transfer into a destination that holds .fsutil-metadata -> /out/f (a symlink that
   leaves dest): the selector transfers only "l/g"; its pending parent l is handed to the walker
   first (the symlink l becomes a directory), m is only recorded and stays the old symlink; the
   epilogue removes the symlink before it writes the listing: /out/f keeps its bytes *)
Definition ex_fs3 : fs := run1 (sys_symlink ctx_init ex_fs (bs "/out/f") (bs "/w/dest/.fsutil-metadata")).
Definition ex_sel (s : stat) : bool := bytes_eqb (st_path s) (bs "l/g").
Definition ex_pks3 : list packet :=
  [ PStat (Some (mkst "l" (ModeDir + 493) "" []));
    PStat (Some (mkst "l/g" 420 "" []));
    PData 1 (bs "new"); PData 1 [];
    PStat (Some (mkst "m" (ModeSymlink + 511) "/out/d" []));
    PStat None; PFin ].
Definition ex_run3 : rstate := recv_fs_opt ex_fs3 1 ex_D false true (Some ex_sel) no_filter [] ex_pks3.
Example example_meta_in_domain : domain_b 8 ex_fs3 ex_D [] no_filter ex_pks3 = true.
Proof. vm_compute. reflexivity. Qed.
Example example_meta :
  let f' := r_fs ex_run3 in
  recv_class ex_run3 = 0
  /\ (match rwalk ex_fs3 ex_D [listing_name] with Some i => is_link ex_fs3 i | None => false end) = true
  /\ (match rwalk f' ex_D [listing_name] with
      | Some i => match get f' i with Some {| i_kind := KFile d |} => negb (is_nil d) | _ => false end
      | None => false end) = true
  /\ (match rwalk f' ex_D [bs "l"; bs "g"] with
      | Some i => match get f' i with Some {| i_kind := KFile d |} => Some d | _ => None end
      | None => None end) = Some (bs "new")
  /\ (match rwalk f' ex_D [bs "m"] with
      | Some i => match get f' i with Some {| i_kind := KLink t |} => Some t | _ => None end
      | None => None end) = Some (bs "../../out/f")
  /\ map (get f') [1; 2; 3; 4] = map (get ex_fs3) [1; 2; 3; 4].
Proof. vm_compute. repeat split; reflexivity. Qed.

(* a Filter that rejects l and everything below it: the symlink l stays, nothing is written
   through it; a hard link to l/g is outside the hypotheses (clean_packet) *)
Definition ex_fl : rfilter := subtree_filter [bs "l"] 100000 100000.
Definition ex_pks4 : list packet :=
  [ PStat (Some (mkst "l" (ModeDir + 493) "" []));
    PStat (Some (mkst "l/g" 420 "" []));
    PStat (Some (mkst "q" 420 "" [])); PData 2 (bs "Q"); PData 2 [];
    PStat None; PFin ].
Definition ex_run4 : rstate := recv_fs_opt ex_fs 1 ex_D false true None ex_fl [] ex_pks4.
Example example_filter :
  let f' := r_fs ex_run4 in
  domain_b 8 ex_fs ex_D [] ex_fl ex_pks4 = true
  /\ recv_class ex_run4 = 0
  /\ (match rwalk f' ex_D [bs "l"] with Some i => is_link f' i | None => false end) = true
  /\ (match rwalk f' ex_D [bs "q"] with
      | Some i => match get f' i with Some n => Some (m_uid (i_meta n)) | None => None end
      | None => None end) = Some 101000
  /\ map (get f') [1; 2; 3; 4] = map (get ex_fs) [1; 2; 3; 4]
  /\ domain_b 8 ex_fs ex_D [] ex_fl [PStat (Some (mkst "l/g" 420 "" [])); PStat (Some (mkst "q" 420 "l/g" []))] = false.
Proof. vm_compute. repeat split; reflexivity. Qed.
