(* C03 — receiver containment (theorems added below as they are proved). *)
From Coq Require Import List NArith Bool.
From FS Require Import Sx Model.Path Model.Fs.
