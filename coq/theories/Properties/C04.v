(* C04 — Faults: both ends terminate, success is never reported for a partial tree.
   Theorems about the goroutine-level LTS of one Send <-> Receive transfer (Model/Lts.v:
   walker, W workers, request loop, receive loop, fill, diff loop, one writer per requested
   file, bounded channels, errgroup cancellation, the syncStream mutex, a two-way stream
   with bounded buffers, faults at every point, tear-down).  Only statements here; proofs
   are in Proofs/Lts{Inv,Safe,Term,C04,Clean*,Live*,RerunP}.v. *)
From Coq Require Import List NArith Arith Bool PeanoNat Permutation.
From FS Require Import Sx Model.Path Model.Stat Model.Diff Model.AbsDest Model.Converge Model.ConvergeA Proofs.ConvergeP.
From FS Require Import Model.Lts Model.LtsExplore Proofs.LtsInv Proofs.LtsSafe Proofs.LtsTerm Proofs.LtsC04
  Proofs.LtsClean1 Proofs.LtsClean3 Proofs.LtsClean5 Proofs.LtsLive2 Proofs.LtsLive3
  Model.LtsRerun Proofs.LtsRerunP.
Import ListNotations.
Local Open Scope nat_scope.

(* In every reachable state (every interleaving, every fault sequence, every parameter):
   Receive returned nil  =>  the end marker was received, every entry whose content is needed
   has been completed (its terminator written), the diff finished without error over all
   entries, and FIN was sent;  Send returned nil  =>  FIN was received from the peer and
   echoed, and the end marker was sent. *)
Theorem no_false_success : forall p st, reachable p st ->
  (recv_ret st = Some true ->
     g_got_end_r st = true /\
     (forall i, i < nentries p -> kind_of p i = ENeed -> memb i (completed st) = true) /\
     (dl_pc st = DL_Done /\ d_err st = false /\ dl_i st = nentries p) /\
     g_fin_rs st = true) /\
  (send_ret st = Some true ->
     g_got_fin_s st = true /\ g_fin_sr st = true /\ g_end_sr st = true).
Proof. exact no_false_success_proof. Qed.

(* Once the stream is torn down: (a) a measure strictly decreases on every step, (b) every
   state that is not "both calls returned, no goroutine live" has an enabled goroutine step;
   hence every execution is finite (at most [mu st] steps) and one that cannot be extended
   has ended with both calls returned and all goroutines gone — for every interleaving,
   every fault position, every W >= 1, P, C, C2, and stream capacities. *)
Theorem torn_down_terminates : forall p st,
  p_W p >= 1 -> p_old_queue p = false -> reachable p st -> torn_down st = true ->
  (forall l st', step p st l = Some st' -> mu st' < mu st /\ torn_down st' = true) /\
  (final st = false -> exists l, is_env l = false /\ step p st l <> None) /\
  (forall ls st', run p st ls = Some st' -> length ls <= mu st) /\
  (forall ls st', run p st ls = Some st' -> enabled p st' = [] -> final st' = true).
Proof. exact torn_down_terminates_proof. Qed.

(* After a walk error on the sender (or the walker seeing its context cancelled before an entry
   — the walk checks its context once per entry, not after the last one —, or a failed
   STAT send) the walker's next stream operation is SendMsg(ERR), and the packet is appended
   to the stream unless the endpoint has already failed; after a callback / syscall error
   inside HandleChange (and, through err_path_r, after any error of the diff or of a writer)
   the first goroutine of receiver.run ends with SendMsg(ERR) in the same way.  No other
   goroutine can take either of them off that path. *)
Theorem fault_reaches_peer : forall p st, reachable p st ->
  ((forall st', step p st LSWalkErr = Some st' -> err_path_s st') /\
   (sw_pc st = SW_Next -> sw_i st < nentries p -> s_cancel st = true -> forall st', step p st LSWalk = Some st' -> err_path_s st') /\
   (forall k, sw_pc st = SW_Send k -> s_broken st = true -> forall st', step p st LSWalk = Some st' ->
      err_path_s st' \/ k = KErr) /\
   (err_path_s st ->
      step p st LSWalkErr = None /\
      (forall l st', step p st l = Some st' -> l <> LSWalk -> sw_pc st' = sw_pc st) /\
      (forall st', step p st LSWalk = Some st' ->
         (sw_pc st = SW_Lock KErr /\ sw_pc st' = SW_Send KErr /\ buf_sr st' = buf_sr st) \/
         (sw_pc st = SW_Send KErr /\ sw_pc st' = SW_Done /\
          (s_broken st = false -> buf_sr st' = buf_sr st ++ [PErr]))))) /\
  ((forall st', step p st LDiffCbErr = Some st' -> err_path_r st') /\
   (err_path_r st ->
      (forall l st', step p st l = Some st' -> l <> LDiffOuter -> err_path_r st') /\
      (forall st', step p st LDiffOuter = Some st' ->
         err_path_r st' \/
         (do_pc st = DO_SendErr /\ do_pc st' = DO_Done /\
          (r_broken st = false -> buf_rs st' = buf_rs st ++ [PErr]))))).
Proof. exact fault_reaches_peer_proof. Qed.

(* Regression for fix 6c5966d: with the old queue() (unconditional send on the pipeline,
   [p_old_queue = true]) torn_down_terminates is FALSE: there is a reachable torn-down state
   in which Send has not returned and no label at all is enabled. *)
Theorem torn_down_terminates_old_queue_refuted :
  exists p ls st,
    p_W p >= 1 /\ p_old_queue p = true /\ run p (init p) ls = Some st /\ reachable p st /\
    torn_down st = true /\ send_ret st = None /\ final st = false /\
    (forall l, step p st l = None).
Proof. exact old_queue_deadlock_proof. Qed.

(* fault_free_completes, safety half: a run without fault, cancellation, stream failure or
   tear-down never fails — when it is complete (both calls returned, no goroutine live) both
   calls have returned nil; for every interleaving, W, P, C, C2 and stream capacities >= 0
   (wf_params: an entry whose content is requested is a regular file). *)
Theorem fault_free_completes_partial : forall p ls st, wf_params p -> fault_free ls ->
  run p (init p) ls = Some st -> final st = true ->
  send_ret st = Some true /\ recv_ret st = Some true.
Proof. exact fault_free_success_proof. Qed.

(* fault_free_completes, liveness half (no deadlock): every fault-free execution that has not
   ended with both calls returned and every goroutine gone can be extended by a fault-free step
   — for every W >= 1 and ALL capacities >= 0 of the send pipeline, the walker channel, the diff
   channel and both stream directions (no capacity hypothesis is needed: the receiver's chain
   receive loop -> fill -> diff never waits for the stream).  Together with the safety half:
   a fault-free execution that cannot be extended has ended with both calls returning nil.
   Finiteness is part of fault_free_completes below. *)
Theorem fault_free_progress : forall p ls st, wf_params p -> p_W p >= 1 -> fault_free ls ->
  run p (init p) ls = Some st -> final st = false ->
  exists l, fault_free_label l = true /\ step p st l <> None.
Proof. exact fault_free_progress_proof. Qed.

(* fault_free_completes, in full: every execution without fault, cancellation, stream failure or
   tear-down has at most [nu p (init p)] steps (a measure of the work still to be done strictly
   decreases on every step); as long as it is not complete it can be extended by a fault-free
   step; and when it is complete both calls have returned nil.  Hence every fault-free execution
   that cannot be extended is finite and ends with both calls returning nil and no goroutine
   live — for every interleaving, every W >= 1 and all capacities >= 0. *)
Theorem fault_free_completes : forall p ls st, wf_params p -> p_W p >= 1 -> fault_free ls ->
  run p (init p) ls = Some st ->
  length ls <= nu p (init p) /\
  (final st = false -> exists l, fault_free_label l = true /\ step p st l <> None) /\
  (final st = true -> send_ret st = Some true /\ recv_ret st = Some true).
Proof. exact fault_free_completes_proof. Qed.

(* Without tear-down the progress half is FALSE once a fault has happened: one NotifyHashed
   error on the receiver, more outstanding requests than P + W + cap(r->s), and every goroutine
   of both calls is blocked although neither call has returned and the stream is intact.  (This
   is why the property is worded "once the stream is torn down"; see torn_down_terminates.) *)
Theorem progress_without_teardown_refuted :
  exists p ls st,
    p_W p >= 1 /\ p_old_queue p = false /\ run p (init p) ls = Some st /\
    filter is_env ls = [LDiffCbErr] /\
    torn_down st = false /\ s_broken st = false /\ r_broken st = false /\
    send_ret st = None /\ recv_ret st = None /\ final st = false /\
    length (reqs st) + length (filter (fun w => match wr_pc w with WR_Send => true | _ => false end) (wrs st))
      > p_P p + p_W p + p_capRS p /\
    (forall l, is_env l = false -> step p st l = None).
Proof. exact no_teardown_deadlock_proof. Qed.

(* rerun_converges — full statement: "after a run that was aborted or killed at any point, a
   later fault-free transfer from the same source into whatever that run left behind ends with
   both calls nil and the destination equal to the source view".
   The two models meet only at the listings, so the proved part is a composition, named _partial:
     (a) the aborted run: torn_down_terminates / no_false_success above say both calls return and
         none reports success; what it leaves is ANY destination listing D' here that is well
         formed (sorted, parents listed, hard links canonical) and in which a file whose bytes
         are not the source's differs from the source entry in size, mtime or mode
         (Model/LtsRerun.v leftovers_distinguishable: the hypothesis of C01
         converges_from_any_prior) - nothing else is assumed about D';
     (b) the rerun as goroutines: the LTS instance whose entries are what the diff of D' against
         the source decides (Model/LtsRerun.v rerun_params: no change / metadata only / content
         needed, any chunking of the contents, every W >= 1 and all capacities): every
         fault-free execution is finite, can be extended until it is complete, and a complete
         one has both calls nil (fault_free_completes), has requested and completed exactly the
         files the destination-level model requests (C02 reqs_exact, as paths, up to order) and
         has written every chunk of exactly those (C08 success_content_is_sequential);
     (c) the rerun as destination: applying the change list of that diff to D' does not fail and
         leaves the source view (C01 converges_from_any_prior, vocabulary of Model/AbsDest.v).
   MISSING for the full statement: a refinement between the two models - that the writer calls
   made along a complete LTS run (HandleChange per STAT in order, content per completed id) ARE
   the change list [ds_changes] that (c) applies.  The LTS does not carry a destination map, so
   (b) and (c) are tied by the shared decision function (rerun_kind = AbsDest.reqs_spec, proved:
   the request/completed sets coincide) and, on the real code, by the harness: every kind-0x0401
   scenario is followed by a clean re-sync into the left-over destination which must pass the
   C01 oracle.  [sender_serves]: the receiver asks content only of entries the sender registered
   (differs for sockets/irregular files). *)
Theorem rerun_converges_partial :
  forall (H : bytes -> bytes) (hdr : stat -> bytes) (d : differ) (chunks : bytes -> nat)
         (W P C C2 capSR capRS : nat) (D' B : list AbsDest.entry),
  W >= 1 -> wf_entries D' -> wf_entries B -> sender_serves B -> leftovers_distinguishable D' B ->
  let p := rerun_params W P C C2 capSR capRS d chunks D' B in
  let r := receive_abs H hdr Fresh d D' B in
  (forall ls st, fault_free ls -> run p (init p) ls = Some st ->
     length ls <= nu p (init p) /\
     (final st = false -> exists l, fault_free_label l = true /\ step p st l <> None) /\
     (final st = true ->
        send_ret st = Some true /\ recv_ret st = Some true /\
        Permutation (map (path_of_id B) (reqs st)) (ds_reqs r) /\
        Permutation (map (path_of_id B) (completed st)) (ds_reqs r) /\
        (forall id sb bb, nth_error B id = Some (sb, bb) ->
           count_occ Nat.eq_dec (written st) id
           = if wants_content sb && negb (unchanged_b d (map fst D') sb) then chunks bb else 0))) /\
  ds_err r = false /\ approx D' B (view_of (ds_map r)).
Proof. exact rerun_converges_partial_proof. Qed.

Print Assumptions no_false_success.
Print Assumptions rerun_converges_partial.
Print Assumptions fault_free_completes_partial.
Print Assumptions fault_free_progress.
Print Assumptions fault_free_completes.
Print Assumptions progress_without_teardown_refuted.
Print Assumptions torn_down_terminates.
Print Assumptions fault_reaches_peer.
Print Assumptions torn_down_terminates_old_queue_refuted.

(* ---- non-vacuity ---- *)
Definition c04_file (c : nat) : entry := {| e_file := true; e_chunks := c; e_kind := ENeed |}.
Definition c04_dir : entry := {| e_file := false; e_chunks := 0; e_kind := EMeta |}.
Definition c04_same : entry := {| e_file := true; e_chunks := 1; e_kind := ESame |}.
Definition c04_params : params :=
  {| p_W := 2; p_P := 1; p_C := 1; p_C2 := 1; p_capSR := 1; p_capRS := 0;
     p_entries := [c04_dir; c04_file 2; c04_same; c04_file 1]; p_old_queue := false |}.
Definition c04_small : params :=
  {| p_W := 1; p_P := 1; p_C := 1; p_C2 := 1; p_capSR := 1; p_capRS := 1;
     p_entries := [c04_dir; c04_file 1]; p_old_queue := false |}.
Definition c04_obs (st : state) :=
  (final st, send_ret st, recv_ret st, sort_nats (completed st), sort_nats (written st)).

(* a complete fault-free run exists: both calls return nil, both files complete, 2 + 1 chunks written *)
Example complete_run_exists :
  c04_obs (sched 1000 no_fault c04_params (init c04_params))
  = (true, Some true, Some true, [1; 3], [1; 1; 3]).
Proof. vm_compute. reflexivity. Qed.

(* a read error after the first chunk of file 1 (no ERR is sent: both ends block), tear-down on
   quiescence: the run ends with both calls returned with an error and no goroutine live *)
Example faulty_run_with_teardown_terminates :
  let st := sched 1000 (mk_scenario (FReadErr 1 1) false) c04_params (init c04_params) in
  c04_obs st = (true, Some false, Some false, [], [1]) /\ torn_down st = true.
Proof. vm_compute. split; reflexivity. Qed.

(* every interleaving of the small instance: fault-free => both nil; read error / walk error
   => both fail; never a hang (exhaustive visited-set search, complete within the fuel) *)
Example all_interleavings_small :
  let r0 := explore_scenario 5000 no_fault c04_small in
  let r1 := explore_scenario 5000 (mk_scenario (FReadErr 1 0) false) c04_small in
  let r2 := explore_scenario 5000 (mk_scenario (FWalkErr 1) false) c04_small in
  (res_outcomes r0, res_complete r0, res_hang r0) = ([4], true, None) /\
  (res_outcomes r1, res_complete r1, res_hang r1) = ([8], true, None) /\
  (res_outcomes r2, res_complete r2, res_hang r2) = ([8], true, None).
Proof. vm_compute. repeat split; reflexivity. Qed.

(* the search finds the 6c5966d hang with the old queue() and not with the new one
   (gated stream: 1 worker + pipeline capacity 0 + 2 requests) *)
Example search_finds_old_queue_hang :
  res_outcomes (explore_scenario 5000 (mk_scenario (FNone) true) oldq_params) = [11] /\
  let r := explore_scenario 5000 (mk_scenario (FNone) true)
             {| p_W := 1; p_P := 0; p_C := 1; p_C2 := 1; p_capSR := 1; p_capRS := 2;
                p_entries := p_entries oldq_params; p_old_queue := false |} in
  (res_outcomes r, res_complete r, res_hang r) = ([8], true, None).
Proof. vm_compute. split; reflexivity. Qed.

(* known finding open-error-empty-file-success, as the model sees it: Open of file 1 fails,
   both calls return nil, file 1 is completed with none of its 2 chunks written *)
Example open_error_both_succeed_empty_file :
  let st := sched 1000 (mk_scenario (FOpenErr 1) false) c04_params (init c04_params) in
  c04_obs st = (true, Some true, Some true, [1; 3], [3]) /\ g_open_err st = true.
Proof. vm_compute. split; reflexivity. Qed.

(* fault-free runs with EVERY capacity 0 (rendezvous everywhere) and with every capacity 1:
   all interleavings end with both calls nil, none hangs (supports the unproved liveness half) *)
Example fault_free_no_deadlock_small :
  let p0 := {| p_W := 1; p_P := 0; p_C := 0; p_C2 := 0; p_capSR := 0; p_capRS := 0;
               p_entries := [c04_dir; c04_file 1]; p_old_queue := false |} in
  let p1 := {| p_W := 1; p_P := 1; p_C := 1; p_C2 := 1; p_capSR := 1; p_capRS := 1;
               p_entries := [c04_file 1; c04_dir]; p_old_queue := false |} in
  let r0 := explore_scenario 20000 no_fault p0 in
  let r1 := explore_scenario 20000 no_fault p1 in
  (res_outcomes r0, res_complete r0, res_hang r0, res_quiet r0) = ([4], true, None, None) /\
  (res_outcomes r1, res_complete r1, res_hang r1, res_quiet r1) = ([4], true, None, None).
Proof. vm_compute. split; reflexivity. Qed.

(* rerun_converges_partial is not vacuous: what an aborted run left (a temporary file, an
   unchanged a/x, a partially written c with another mtime) against the source (a/, a/x, new
   a/z, c): the hypotheses hold; the LTS instance asks for a/z and c (ids 2, 3), a complete
   fault-free run has both calls nil, completes exactly those and writes 2 + 3 chunks (one per
   byte here); the destination-level model requests the same paths and reaches the source view *)
Local Open Scope N_scope.
Definition c04_mk (p : bytes) (mode size mtime : N) : stat :=
  {| st_path := p; st_mode := mode; st_uid := 0; st_gid := 0; st_size := size; st_mtime := mtime;
     st_linkname := []; st_devmajor := 0; st_devminor := 0; st_xattrs := [] |}.
Definition c04_left : list AbsDest.entry :=
  [ (c04_mk [46; 116; 109; 112; 46; 53] 384 2 99, [7; 7]);
    (c04_mk [97] (ModeDir + 493) 0 7, []);
    (c04_mk [97; 47; 120] 420 3 1, [1; 1; 1]);
    (c04_mk [99] 420 3 1, [3; 3; 3]) ].
Definition c04_src : list AbsDest.entry :=
  [ (c04_mk [97] (ModeDir + 493) 0 7, []);
    (c04_mk [97; 47; 120] 420 3 1, [1; 1; 1]);
    (c04_mk [97; 47; 122] 420 2 5, [8; 8]);
    (c04_mk [99] 420 3 2, [3; 3; 4]) ].
Local Open Scope nat_scope.
Definition c04_rerun : params := rerun_params 2 1 1 1 1 0 DMetadata (@length N) c04_left c04_src.
Example rerun_hypotheses_satisfiable :
  wf_entries c04_left /\ wf_entries c04_src /\ sender_serves c04_src /\
  leftovers_distinguishable c04_left c04_src.
Proof.
  split; [apply wf_entries_b_sound; vm_compute; reflexivity|].
  split; [apply wf_entries_b_sound; vm_compute; reflexivity|].
  split; [apply sender_serves_b_sound; vm_compute; reflexivity|].
  apply leftovers_distinguishable_b_sound; vm_compute; reflexivity.
Qed.
Example rerun_example :
  let r := receive_abs (fun b => b) st_path Fresh DMetadata c04_left c04_src in
  need_ids c04_rerun = [2; 3]
  /\ c04_obs (sched 2000 no_fault c04_rerun (init c04_rerun)) = (true, Some true, Some true, [2; 3], [2; 2; 3; 3; 3])
  /\ ds_reqs r = map (path_of_id c04_src) [2; 3]
  /\ ds_err r = false
  /\ converged_o false c04_left c04_src (view_of (ds_map r)) = true.
Proof. vm_compute. repeat split; reflexivity. Qed.
