(* C14 — Copy never writes outside the destination root nor reads outside the source root.
   The lexical half (copy.rootPath and fs.RootPath start from filepath.Join("/", p)), the shape of
   fs.RootPath's result, the syscall-level containment theorems copy_rec_contained /
   copy_contained over the file-system model (writes stay at or below dstRoot) and, for disjoint
   roots, copy_reads_inside (the copier's source reads stay at or below srcRoot) are proved here;
   what remains unproved (overlapping roots on the read side, fs.RootPath's own Lstat calls, which
   are refuted) is listed in props/C14.json. *)
From Coq Require Import List NArith Bool.
From FS Require Import Sx Model.Path Model.Fs Model.RootPath Model.CopyFs Model.CopyFsSpec Model.CopyFsMeta
  Proofs.Lex Proofs.PathP Proofs.CleanP Proofs.RootPathP Proofs.RootPathWitnessP Proofs.CopyContainedP
  Proofs.CopyFsWitnessP Proofs.CopyFsMetaP.
Import ListNotations.

(* Whatever the argument (any number of "..", empty components, dots, separators), the
   cleaned rooted path is absolute and has no ".." component: it denotes a location at
   or below the root. *)
Theorem clean_rooted_no_dotdot :
  forall p, is_abs (clean (sep :: p)) = true /\
            forall c, In c (comps (clean (sep :: p))) -> c <> s_dotdot.
Proof. exact clean_rooted_no_dotdot_proof. Qed.
Print Assumptions clean_rooted_no_dotdot.

Example clamp_examples :
  clean (sep :: [46;46;47;46;46;47;111]) = [47; 111]          (* "/../../o"  -> "/o" *)
  /\ clean (sep :: [97;47;46;46;47;46;46]) = [47]             (* "/a/../.."  -> "/"  *)
  /\ clean (sep :: [47;47;97;47;46;47;98]) = [47;97;47;98].   (* "///a/./b"  -> "/a/b" *)
Proof. vm_compute. repeat split. Qed.

(* ---------------------------------------------------------------------------------------
   fs.RootPath / copy.rootPath over the syscall-level file-system model (Model/Fs.v).
   Vocabulary (Model/RootPath.v): [render cs] = "/c1/.../cn"; [lex_name_ok] = a name (non-empty, no
   separator, not "." / ".."), [name_ok] = such a name without NUL byte; [plain_dir f d cs = Some i] = cs leads from directory d to
   directory i through real directories; [link_free f d cs] = no prefix of cs, looked up from d
   without following anything, is a symlink (missing entries allowed: "does not exist yet").
   Scope: root is a clean absolute path whose own components are real directories. *)

(* For EVERY file system, path argument (absolute, ".."-laden, through dangling or looping
   links, ...) and outcome: when fs.RootPath succeeds its result is root followed by names only,
   and no prefix of it below root is a symlink. *)
Theorem rootpath_result_link_free :
  forall c f rcs dr p out,
    forallb name_ok rcs = true ->
    plain_dir f (c_root c) rcs = Some dr ->
    root_path c f (render rcs) p = inl out ->
    exists cs, out = render (rcs ++ cs) /\ forallb name_ok cs = true /\ link_free f dr cs = true.
Proof. exact rootpath_result_link_free_proof. Qed.
Print Assumptions rootpath_result_link_free.

(* copy.rootPath: the same with followLinks; without it the final name is not examined. *)
Theorem copy_rootpath_result_link_free :
  forall c f rcs dr p follow out,
    forallb name_ok rcs = true ->
    plain_dir f (c_root c) rcs = Some dr ->
    copy_root_path c f (render rcs) p follow = inl out ->
    exists cs, out = render (rcs ++ cs) /\ forallb lex_name_ok cs = true /\
               forallb name_ok (if follow then cs else removelast cs) = true /\
               link_free f dr (if follow then cs else removelast cs) = true.
Proof. exact copy_rootpath_result_link_free_proof. Qed.
Print Assumptions copy_rootpath_result_link_free.

(* Such a path names the same directory entry and inode for every process root (the real one,
   or root itself as after chroot), with or without following the final component, whatever the
   kernel's symlink budget: "as if root were /" holds for the RESULT. *)
Theorem link_free_resolution_rootless :
  forall f dr cs,
    forallb lex_name_ok cs = true -> link_free f dr cs = true ->
    forall fuel rt1 rt2 fl1 fl2 n1 n2,
      walk fuel f rt1 dr cs fl1 n1 = walk fuel f rt2 dr cs fl2 n2.
Proof. exact link_free_resolution_rootless_proof. Qed.
Print Assumptions link_free_resolution_rootless.

(* rootpath_is_chroot_resolution — "root_path = Fs.v resolution with the process root set to
   root, for every fs and path" — is FALSE: RootPath substitutes link TARGET TEXT and lets
   filepath.Join cancel ".." lexically.  Witness (real code: corpus/C14/rootpath-not-chroot.case):
   root /j, p/y -> /r/s, p/a -> y/..; chroot resolves "p/a" to /r, RootPath to /p. *)
Theorem rootpath_is_chroot_resolution_refuted :
  exists (f : fs) (rcs : list bytes) (dr : N) (p out : bytes) (r1 r2 : lres),
    forallb name_ok rcs = true /\ plain_dir f (c_root ctx_init) rcs = Some dr /\
    root_path ctx_init f (render rcs) p = inl out /\
    copy_root_path ctx_init f (render rcs) p true = inl out /\
    resolve {| c_root := dr; c_cwd := dr |} f p true = inl r1 /\
    resolve ctx_init f out true = inl r2 /\
    l_ino r1 <> l_ino r2.
Proof. exact rootpath_is_chroot_resolution_refuted_proof. Qed.
Print Assumptions rootpath_is_chroot_resolution_refuted.

(* RootPath's Lstat calls are ordinary, un-rooted lookups: an absolute symlink in the middle of a
   multi-component link target sends them outside root, and the outcome depends on what is there.
   Two file systems identical at and below root, different results
   (real code: corpus/C14/rootpath-reads-outside.case).  The result itself stays below root
   (rootpath_result_link_free). *)
Theorem rootpath_reads_outside_root_refuted :
  exists (f f' : fs) (rcs : list bytes) (dr : N) (p : bytes),
    forallb name_ok rcs = true /\
    plain_dir f (c_root ctx_init) rcs = Some dr /\ plain_dir f' (c_root ctx_init) rcs = Some dr /\
    get f dr = get f' dr /\ tree_below 64 f dr [] = tree_below 64 f' dr [] /\
    root_path ctx_init f (render rcs) p <> root_path ctx_init f' (render rcs) p.
Proof. exact rootpath_reads_outside_root_refuted_proof. Qed.
Print Assumptions rootpath_reads_outside_root_refuted.

(* non-vacuity: a successful run through an absolute link, a "..", and a dangling final link *)
Example rootpath_examples :
  root_path ctx_init wA (render [[106]]) [112;47;121;47;46;46;47;46;46;47;46;46;47;112;47;121] = inl [47;106;47;114;47;115]
  (* "p/y/../../../p/y" -> "/j/r/s" *)
  /\ plain_dir wA 1 [[106]] = Some 2
  /\ link_free wA 2 [[114];[115]] = true /\ link_free wA 2 [[112];[121]] = false.
Proof. vm_compute. repeat split. Qed.

(* ---------------------------------------------------------------------------------------
   The copier over the syscall-level model (Model/CopyFs.v, validated against the real copy.Copy
   by kind 1404).  Vocabulary (Model/CopyFsSpec.v): [chain f d cs e] = the names cs lead from
   directory d to directory e through real directories; [inside_dir f dr i] = i is dr or a
   directory below it; [fs_wf] = allocation counter above all numbers in use, unique proper entry
   names, one parent entry per directory, no directory below itself. *)

(* copier.copy / copyDirectory (copy_rec) into "<dstRoot>/cs/pend/x" where cs are real directories
   and pend are the parents whose creation is deferred (IncludePatterns: the uncopied entries of
   the parentDirs stack ps are exactly the paths "<dstRoot>/cs/p1", "<dstRoot>/cs/p1/p2", …;
   whatever lies at those names in the destination — symlinks to the outside included):
   whatever the source, the options, the selector (ANY include / exclude functions), the symlinks
   and hard links below, of the inodes that existed before only DIRECTORIES at or below dstRoot can
   have changed: no file anywhere (not even one inside dstRoot that is also linked from outside),
   no directory outside, not dstRoot's entry in its parent. *)
Theorem copy_rec_contained :
  forall fuel c o sl src comps ow pinc pexc f0 dr dcs cs pend x d ps s' r,
    fs_wf f0 ->
    forallb name_ok dcs = true -> chain f0 (c_root c) dcs dr -> (length dcs < rfuel)%nat ->
    forallb name_ok cs = true -> forallb name_ok pend = true -> name_ok x = true -> chain f0 dr cs d ->
    uncopied_targets ps = deferred_targets dcs cs pend ->
    copy_rec fuel c o sl src comps (render (dcs ++ cs ++ pend ++ [x])) ow pinc pexc (cst_with_parents f0 ps) = (s', r) ->
    forall i, (i < f_next f0)%N -> ~ inside_dir f0 dr i -> get (s_fs s') i = get f0 i.
Proof. exact copy_rec_contained_proof. Qed.
Print Assumptions copy_rec_contained.

(* Copy (copy_top): argument resolution through fs.RootPath, MkdirAll, prepareTargetDir, the loop
   over the (wildcard) sources, copier.copy with the hard-link map (forgetLinkSources) and the
   deferred fixCreatedParentDirs (stillBelow), include / exclude selection with the deferred
   parents (createParentDirs BEFORE removeTargetIfNeeded) — the code as repaired after the escapes
   found (corpus/C14/hardlink-path-reresolved.case, created-dir-path-replaced.case,
   deferred-parent-symlink.case).
   For every well-formed file system, every option set of the model (follow-links, always-replace,
   dir-contents, chown, utime, mode), every selector (osl = None: invalid patterns; Some sl: ANY
   include / exclude functions — the matcher is a parameter), every source / destination argument
   and EVERY list of wildcard matches: of the inodes that existed before, only directories at or below dstRoot can have
   changed.  Hence nothing outside dstRoot changes: no outside file or directory (content, metadata,
   entries), no inode hard-linked from outside, not dstRoot's own entry in its parent.
   srcRoot and dstRoot are clean absolute paths whose components are real directories; srcRoot is
   dstRoot or lies outside it; no NUL byte in the source arguments. *)
Theorem copy_contained :
  forall fuel c o osl scs src dcs dst matches f0 dr sr s' res,
    fs_wf f0 ->
    forallb name_ok dcs = true -> chain f0 (c_root c) dcs dr -> (length dcs < rfuel)%nat ->
    forallb name_ok scs = true -> chain f0 (c_root c) scs sr -> (length scs < rfuel)%nat ->
    (scs = dcs \/ ~ inside_dir f0 dr sr) ->
    has_nul src = false -> (forall l, matches = Some l -> forallb (fun m => negb (has_nul m)) l = true) ->
    copy_top fuel c o osl (render scs) src (render dcs) dst matches (cst_init f0) = (s', res) ->
    forall i, (i < f_next f0)%N -> ~ inside_dir f0 dr i -> get (s_fs s') i = get f0 i.
Proof. exact copy_contained_proof. Qed.
Print Assumptions copy_contained.

(* The source side.  s_reads is the model's log of the inodes named by the copier's own source-path
   calls: Lstat of every entry it visits, the directory listings, os.Open of regular files, os.Stat of
   the deferred parents (createParentDirs), the xattr reads (readlink names the inode Lstat did).
   For every well-formed file system, every option set, selector, source / destination argument and
   list of wildcard matches, when srcRoot and dstRoot are disjoint (neither lies at or below the
   other): every inode read is srcRoot, a directory below it reached through real directories, or an
   entry of such a directory — all in the INITIAL file system (the tree below srcRoot does not change
   during the copy): the walk never follows a symlink out of srcRoot, whatever the links point to.
   Not included: the Lstat calls inside fs.RootPath on the components of the path ARGUMENTS (they do
   leave the root: rootpath_reads_outside_root_refuted) and reads on the destination side. *)
Theorem copy_reads_inside :
  forall fuel c o osl scs src dcs dst matches f0 dr sr s' res,
    fs_wf f0 ->
    forallb name_ok dcs = true -> chain f0 (c_root c) dcs dr -> (length dcs < rfuel)%nat ->
    forallb name_ok scs = true -> chain f0 (c_root c) scs sr -> (length scs < rfuel)%nat ->
    ~ inside_dir f0 dr sr -> ~ inside_dir f0 sr dr ->
    has_nul src = false -> (forall l, matches = Some l -> forallb (fun m => negb (has_nul m)) l = true) ->
    copy_top fuel c o osl (render scs) src (render dcs) dst matches (cst_init f0) = (s', res) ->
    forall i, In i (s_reads s') -> src_reach f0 sr i.
Proof. exact copy_reads_inside_proof. Qed.
Print Assumptions copy_reads_inside.

(* Overlapping roots (srcRoot = dstRoot, or dstRoot below srcRoot): the tree below srcRoot changes
   during the copy, and copy_reads_inside in its present form does not apply.  What is static whatever
   the roots: a directory that existed before and is reached from any directory a through real
   directories after the copy (any state of the invariant) was reached from a by the same names
   initially — the copier never links or moves an old directory, and the directories it creates
   contain no old ones.  So an old directory found below srcRoot was below srcRoot from the start.
   (The guarantee for the reads themselves, "of the inodes that existed before, the copier reads only
   those at or below srcRoot", is checked on every run of kind 1404, overlapping roots included; its
   proof for overlapping roots is listed as unproved in props/C14.json.) *)
Theorem copy_old_dirs_static :
  forall fuel c o osl scs src dcs dst matches f0 dr sr s' res,
    fs_wf f0 ->
    forallb name_ok dcs = true -> chain f0 (c_root c) dcs dr -> (length dcs < rfuel)%nat ->
    forallb name_ok scs = true -> chain f0 (c_root c) scs sr -> (length scs < rfuel)%nat ->
    (scs = dcs \/ ~ inside_dir f0 dr sr) ->
    has_nul src = false -> (forall l, matches = Some l -> forallb (fun m => negb (has_nul m)) l = true) ->
    copy_top fuel c o osl (render scs) src (render dcs) dst matches (cst_init f0) = (s', res) ->
    forall a ns d, chain (s_fs s') a ns d -> (d < f_next f0)%N -> chain f0 a ns d.
Proof. exact copy_old_dirs_static_proof. Qed.
Print Assumptions copy_old_dirs_static.

(* Overlapping roots, the case that closes.  dstRoot may lie BELOW srcRoot (srcRoot is not inside
   dstRoot); the source argument is a single name y (no wildcards, FollowLinks off) that names a
   directory st of srcRoot, and st and dstRoot are disjoint (neither at or below the other) — "copy
   the sibling directory y into the directory dstRoot of the same tree".  Then every inode the
   copier's source-path calls name is st, a directory below it or an entry of one, in the initial
   file system: the walk stays in the part of the source tree that the copy cannot change.
   The FULL statement, not proved (props/C14.json, unproved_statements):
     forall roots with srcRoot = dstRoot, dstRoot below srcRoot or srcRoot below dstRoot, every source
     argument / FollowLinks / wildcard match list:
       forall i, In i (s_reads s') -> (i < f_next f0)%N -> src_reach f0 sr i
   It needs the dynamic invariant "no prefix of a pending source path (the directories on the
   recursion stack and the entry being copied) becomes a symlink" through every destination operation;
   the statement is evaluated as an oracle on every run of kind 1404 (class copyfs-overlapping-roots). *)
Theorem copy_reads_inside_overlap_partial :
  forall fuel c o osl scs y dcs dst f0 dr sr st s' res,
    fs_wf f0 ->
    forallb name_ok dcs = true -> chain f0 (c_root c) dcs dr -> (length dcs < rfuel)%nat ->
    forallb name_ok scs = true -> chain f0 (c_root c) scs sr -> (length scs + 1 < rfuel)%nat ->
    ~ inside_dir f0 dr sr ->
    name_ok y = true -> blookup y (dents f0 sr) = Some st -> is_dir f0 st = true ->
    ~ inside_dir f0 dr st -> ~ inside_dir f0 st dr ->
    o_follow o = false ->
    copy_top fuel c o osl (render scs) y (render dcs) dst None (cst_init f0) = (s', res) ->
    forall i, In i (s_reads s') -> src_reach f0 st i.
Proof. exact copy_reads_inside_overlap_partial_proof. Qed.
Print Assumptions copy_reads_inside_overlap_partial.

(* A symlink met at a target name "<dstRoot>/cs/x" (cs real directories) is never traversed:
   ensureEmptyFileTarget (non-directory source) unlinks it — the name is gone, the link inode and
   whatever it points to untouched — and copyDirectoryOnly (directory source) reports the conflict
   without touching anything.  (That no later call goes through such a link either is part of
   copy_contained: the outside is unchanged whatever the links point to.) *)
Theorem dest_symlink_never_followed_partial :
  forall c f0 dr dcs cs x d i t m,
    fs_wf f0 ->
    forallb name_ok dcs = true -> chain f0 (c_root c) dcs dr -> (length dcs < rfuel)%nat ->
    forallb name_ok cs = true -> name_ok x = true -> chain f0 dr cs d ->
    blookup x (dents f0 d) = Some i -> get f0 i = Some {| i_kind := KLink t; i_meta := m |} ->
    (forall s' r, ensure_empty_file_target c (render (dcs ++ cs ++ [x])) (cst_init f0) = (s', r) -> r = inl tt ->
        blookup x (dents (s_fs s') d) = None /\ get (s_fs s') i = get f0 i) /\
    (forall fi ow s' r, copy_directory_only c (render (dcs ++ cs ++ [x])) fi ow (cst_init f0) = (s', r) ->
        (exists e, r = inr e) /\ s_fs s' = f0).
Proof.
  intros c f0 dr dcs cs x d i t m W H1 H2 H3 H4 H5 H6 H7 H8. split.
  - intros s' r. exact (dest_symlink_unlinked c f0 dr dcs cs x d i t m W H1 H2 H3 H4 H5 H6 H7 H8 s' r).
  - intros fi ow s' r. exact (dest_symlink_reported c f0 dr dcs cs x d i t m W H1 H2 H3 H4 H5 H6 H7 H8 fi ow s' r).
Qed.
Print Assumptions dest_symlink_never_followed_partial.

(* The metadata calls.  The copier model changes ownership, times and xattrs only through
   sys_lchown / sys_utimens / sys_lsetxattr (in the real code: os.Lchown, utimensat with
   AT_SYMLINK_NOFOLLOW, LSetxattr), and each of these changes nothing but the inode the path names
   WITHOUT following a final symlink.  chmod, which follows, is behind a "not a symlink" guard:
   copyFileInfo of a symlink source is exactly Lchown + no-follow Utimes (no chmod), and
   copyDirectoryOnly, which chmods an existing destination directory, reports a symlink found there
   and changes nothing.  (The flavours of the REAL calls are compared with this by kind 1405, which
   runs copy.Copy under strace.) *)
Theorem metadata_calls_nofollow :
  (forall c f p u g f' r, sys_lchown c f p u g = (f', r) -> nofollow_call c f p f') /\
  (forall c f p t f' r, sys_utimens c f p t = (f', r) -> nofollow_call c f p f') /\
  (forall c f p k v f' r, sys_lsetxattr c f p k v = (f', r) -> nofollow_call c f p f') /\
  (forall c o fi name, kind_is_link fi = true ->
     forall s, copy_file_info c o fi name s = copy_file_info_link c o fi name s) /\
  (forall c dst fi ow s i t m,
     snd (sys_lstat c (s_fs s) dst) = RStat i {| i_kind := KLink t; i_meta := m |} ->
     exists e, copy_directory_only c dst fi ow s =
               ({| s_fs := s_fs s; s_links := s_links s; s_parents := s_parents s; s_reads := s_reads s |}, inr e)).
Proof. exact metadata_calls_nofollow_proof. Qed.
Print Assumptions metadata_calls_nofollow.

(* non-vacuity: the witness of the hard-link-path escape on the model of the repaired code.
   /o/h (inode 3, mode 0600) is outside; Copy("/s", "?/?" = p/h q/h r/g, "/d", "/") succeeds, the
   destination holds g (a fresh regular file, not a link to the symlink) and h (the symlink), and
   /o/h is untouched. *)
Example copy_examples :
  snd wC_run = inl tt
  /\ resolve_ino ctx_init wC [47;111;47;104] false = inl 3
  /\ get (s_fs (fst wC_run)) 3 = get wC 3
  /\ map (fun e => fst (fst e)) (tree_below 8 (s_fs (fst wC_run)) 5 []) = [[103]; [104]]
  /\ resolve_ino ctx_init (s_fs (fst wC_run)) [47;100;47;103] true = inl 13.
Proof. vm_compute. repeat split. Qed.

(* non-vacuity of the deferred-parent case: the witness of corpus/C14/deferred-parent-symlink.case on
   the model of the repaired order.  /o/d/a (inode 4) is outside, /d/b -> /o/d; Copy("/s", "/", "/d",
   "/") with IncludePatterns ["b/a"], AlwaysReplaceExistingDestPaths, CopyDirContents reports the
   conflict at /d/b and /o/d/a is still there, unchanged. *)
Example copy_deferred_parent_example :
  (exists e, snd wD_run = inr e)
  /\ resolve_ino ctx_init wD [47;111;47;100;47;97] false = inl 4
  /\ resolve_ino ctx_init (s_fs (fst wD_run)) [47;111;47;100;47;97] false = inl 4
  /\ get (s_fs (fst wD_run)) 4 = get wD 4.
Proof. vm_compute. repeat split. eexists; reflexivity. Qed.

(* non-vacuity of copy_reads_inside: what the two runs above read.  wC: only p/h = r/g (inode 7) and
   the symlink q/h itself (9) — never its target /o/h (3); wD: srcRoot (5), b (7), b/a (8). *)
Example copy_reads_examples :
  s_reads (fst wC_run) = [7; 7; 7; 7; 9; 9; 9; 7; 7; 7; 7]%N
  /\ s_reads (fst wD_run) = [7; 8; 7; 7; 5; 5; 5]%N.
Proof. vm_compute. split; reflexivity. Qed.
