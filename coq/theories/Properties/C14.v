(* C14 — Copy never writes outside the destination root nor reads outside the source root.
   INTERIM: the lexical half ("symlinks in path arguments are resolved as if each root
   were '/'": copy.rootPath and fs.RootPath start from filepath.Join("/", p)) is proved
   here; the syscall-level containment theorem copy_contained over the file-system model
   is listed as unproved in props/C14.json and is decided, for now, by the specification
   oracle evaluated on real copy.Copy runs inside a chroot jail with a sentinel tree. *)
From Coq Require Import List NArith Bool.
From FS Require Import Sx Model.Path Proofs.Lex Proofs.PathP Proofs.CleanP.
Import ListNotations.

(* Whatever the argument (any number of "..", empty components, dots, separators), the
   cleaned rooted path is absolute and has no ".." component: it denotes a location at
   or below the root. *)
Theorem clean_rooted_no_dotdot :
  forall p, is_abs (clean (sep :: p)) = true /\
            forall c, In c (comps (clean (sep :: p))) -> c <> s_dotdot.
Proof. exact clean_rooted_no_dotdot_proof. Qed.
Print Assumptions clean_rooted_no_dotdot.

Example clamp_examples :
  clean (sep :: [46;46;47;46;46;47;111]) = [47; 111]          (* "/../../o"  -> "/o" *)
  /\ clean (sep :: [97;47;46;46;47;46;46]) = [47]             (* "/a/../.."  -> "/"  *)
  /\ clean (sep :: [47;47;97;47;46;47;98]) = [47;97;47;98].   (* "///a/./b"  -> "/a/b" *)
Proof. vm_compute. repeat split. Qed.
