(* C01 — Sync convergence: after a successful transfer the destination equals the source view.
   Only the property theorems (closed by [exact]) with their [Print Assumptions], and
   non-vacuity examples.

   Reading guide.
   * A listing with contents is a list of (Stat, bytes) in walk order.  [wf_entries E] = strictly
     ascending in protocol path order, every "/"-prefix of a path is a listed directory, and hard
     links are presented canonically: a link entry (regular file, device or fifo with a Linkname)
     names an earlier entry that is the inode itself
     (empty Linkname), with the same metadata and bytes ([links_canon]) — what fs.Walk produces
     for a quiescent tree ([walk_views_are_wf]).
   * [receive_abs H hdr mode d A B] (Model/AbsDest.v, level A of DESIGN section 3; C02/C05) =
     doubleWalkDiff of the old destination listing A against the source listing B, every change
     applied by the abstract DiskWriter.HandleChange to the destination map [dest_of A]
     (path -> stat, bytes, inode class).  [view_of] projects that map onto the observation record
     [obs] on which the convergence relation is stated; the raw lstat snapshot of the REAL
     destination is projected onto the same record by [obs_of_raw].
   * [approx A B dest] (Model/Converge.v) is the "equal" of the property statement: equal path
     set; per entry: type, permission+setuid/setgid/sticky (not for symlinks: Linux has none),
     uid/gid, ns mtime of every non-directory and of every directory the transfer created, bytes of
     regular files, symlink targets, device numbers, xattrs of regular files and directories the
     transfer created ([created_by_transfer A s]: absent from A or of another type there; for a
     hard-link entry the xattr clause applies when the first name of its group is created:
     [inode_created] — a new name for an inode that stays in place shows that inode's xattrs);
     hard-link groups as a PARTITION of the paths of ALL entries that are neither directories nor
     symbolic links (regular files, devices, fifos: [Converge.is_linkable]): two paths show one
     inode in the destination iff they are in one link group of the source.
   * [AbsDest.identity_faithful d A B] (same identity key => same bytes) is part of the
     specification in dirty mode (C02 requires such files not to be re-sent): see
     [unrestricted_convergence_refuted]. *)
From Coq Require Import List NArith Bool Sorting.Sorted.
From FS Require Import Sx Model.Path Model.Stat Model.Tree Model.Walk Model.Diff Model.AbsDest Model.Converge Model.ConvergeA
  Proofs.Lex Proofs.DiffP Proofs.ReceiveP Proofs.OracleP Proofs.ConvergeP Proofs.MergeP Proofs.WalkWfP Proofs.DirTimesP Proofs.XattrViewP Proofs.C01TopP.
Import ListNotations.
Open Scope N_scope.

(* Fresh / dirty mode.  For all well-formed listings of the old destination and of the source, if
   files with the same identity key have the same bytes, the transfer does not fail and leaves a
   destination that is ≈ the source view — including the hard-link partition. *)
Theorem diff_apply_converges : forall (H : bytes -> bytes) (hdr : stat -> bytes) d A B,
  wf_entries A -> wf_entries B -> AbsDest.identity_faithful d A B ->
  let r := receive_abs H hdr Fresh d A B in
  ds_err r = false /\ approx A B (view_of (ds_map r)).
Proof. exact diff_apply_converges_top. Qed.

(* Merge mode: the result is the overlay of the source over the old destination.  Every source
   entry is there with exactly the stat that was sent (and its bytes); every old entry whose path
   the source neither names nor covers with a non-directory ([covered]) is LITERALLY untouched
   (stat incl. mtime and xattrs, bytes, inode class); nothing else is left; no hypothesis on
   identity keys, none on the hard links of A. *)
Theorem merge_is_overlay : forall (H : bytes -> bytes) (hdr : stat -> bytes) d A B,
  wf_listing (map fst A) -> wf_entries B ->
  let r := receive_abs H hdr Merge d A B in
  ds_err r = false /\ approx_merge A B (view_of (ds_map r)) /\
  (forall p, notin (map fst B) p -> ~ covered (map fst B) p ->
             alookup p (ds_map r) = alookup p (dest_of A)) /\
  (forall s c, In (s, c) B -> exists e, alookup (st_path s) (ds_map r) = Some e /\ de_stat e = s /\
                                        (AbsDest.is_reg s = true -> de_bytes e = c)).
Proof. exact merge_is_overlay_top. Qed.

(* Any prior content, in particular the leftovers of an aborted run (".tmp.*" names, partially
   written files): it suffices that a file of the old destination which does not hold the
   source's bytes differs from the source's entry in size, mtime or mode — a partially written
   file carries the time of its last write, not the source's mtime. *)
Theorem converges_from_any_prior : forall (H : bytes -> bytes) (hdr : stat -> bytes) d A B,
  wf_entries A -> wf_entries B ->
  (forall sa ba sb bb, In (sa, ba) A -> In (sb, bb) B -> st_path sa = st_path sb -> AbsDest.is_reg sb = true ->
     ba = bb \/ st_size sa <> st_size sb \/ st_mtime sa <> st_mtime sb \/ st_mode sa <> st_mode sb) ->
  let r := receive_abs H hdr Fresh d A B in
  ds_err r = false /\ approx A B (view_of (ds_map r)).
Proof. exact converges_from_any_prior_top. Qed.

(* Oracle = specification.  The executable relation that the harness evaluates on the raw lstat
   snapshot of the real destination is, by definition, [converged_o] on the projected snapshot,
   and [converged_o] is EQUIVALENT to the declarative relation (both modes). *)
Theorem oracle_sound : forall merge prior src (dest : list raw),
  converged merge prior src dest = true ->
  if merge then approx_merge prior src (map obs_of_raw dest) else approx prior src (map obs_of_raw dest).
Proof. exact oracle_sound_top. Qed.

Theorem oracle_iff : forall prior src dest,
  (converged_o false prior src dest = true <-> approx prior src dest) /\
  (converged_o true prior src dest = true <-> approx_merge prior src dest).
Proof. exact oracle_iff_top. Qed.

(* ... and the model's own result passes that oracle. *)
Theorem model_passes_oracle : forall (H : bytes -> bytes) (hdr : stat -> bytes) d A B,
  wf_entries A -> wf_entries B -> AbsDest.identity_faithful d A B ->
  converged_o false A B (view_of (ds_map (receive_abs H hdr Fresh d A B))) = true.
Proof. exact model_passes_oracle_proof. Qed.

(* The hypothesis identity_faithful is necessary: without it the statement is FALSE of the model
   (and of the code: C02 demands that such a file is not re-sent).  Witness: one regular file,
   same size, mtime, mode and owner on both sides, different bytes — nothing is requested and the
   destination keeps the old bytes. *)
Theorem unrestricted_convergence_refuted :
  exists A B, wf_entries A /\ wf_entries B /\
    forall H hdr, let r := receive_abs H hdr Fresh DMetadata A B in
      ds_err r = false /\ ds_reqs r = [] /\ ~ approx A B (view_of (ds_map r)).
Proof. exact unrestricted_convergence_refuted_proof. Qed.

(* Composition Walk -> Diff -> AbsDest.  The listing that the walk model of C09 (Model/Walk.v)
   produces for ANY well-formed tree — every Stat paired with the bytes of its inode ([cont]:
   contents per lstat record) — satisfies the hypotheses: strictly ascending, ancestor-closed,
   canonical hard links.  Beyond wf_tree: [ino_consistent] (C09: st_nlink counts every name of an
   inode) and [inode_coherent] (two non-directory names with one inode number show the same
   lstat record; contains C09's one_fs). *)
Theorem walk_views_are_wf : forall (cont : lrec -> bytes) t,
  wf_tree t -> ino_consistent t -> inode_coherent t ->
  wf_entries (walk_entries cont t) /\ map fst (walk_entries cont t) = walk t.
Proof. exact walk_views_are_wf_proof. Qed.

(* ... so the convergence theorem applies to every real pair of (quiescent) trees. *)
Theorem converges_on_walked_trees : forall (H : bytes -> bytes) (hdr : stat -> bytes) d contA tA contB tB,
  wf_tree tA -> ino_consistent tA -> inode_coherent tA ->
  wf_tree tB -> ino_consistent tB -> inode_coherent tB ->
  let A := walk_entries contA tA in
  let B := walk_entries contB tB in
  AbsDest.identity_faithful d A B ->
  let r := receive_abs H hdr Fresh d A B in
  ds_err r = false /\ approx A B (view_of (ds_map r)).
Proof. exact converges_on_walked_trees_top. Qed.

(* Directory mtimes.  [receive_t] (Model/ConvergeA.v) runs the same writer with the on-disk
   behaviour of directory mtimes: every create / rename-into-place / remove stamps the parent
   directory with the current time ([now i], arbitrary), Mkdir records the path in dirModTimes,
   and DiskWriter.Wait re-applies the recorded mtimes.  Its map IS the map of receive_abs, and the
   view with the mtimes the directories really show ([view_t]) is ≈ the source: the directories
   created by this transfer show the source's mtime.  Pre-existing directories are not claimed
   (example_dir_mtimes: such a directory ends with the time of the last change below it). *)
Theorem dir_mtimes_fresh : forall (H : bytes -> bytes) (hdr : stat -> bytes) (now : N -> N) d A B,
  wf_entries A -> wf_entries B -> AbsDest.identity_faithful d A B ->
  let s := receive_t now Fresh d A B in
  ts_err s = false /\ ts_map s = ds_map (receive_abs H hdr Fresh d A B) /\ approx A B (view_t s).
Proof. exact dir_mtimes_fresh_proof. Qed.

Theorem dir_mtimes_merge : forall (H : bytes -> bytes) (hdr : stat -> bytes) (now : N -> N) d A B,
  wf_listing (map fst A) -> wf_entries B ->
  let s := receive_t now Merge d A B in
  ts_err s = false /\ ts_map s = ds_map (receive_abs H hdr Merge d A B) /\ approx_merge A B (view_t s).
Proof. exact dir_mtimes_merge_proof. Qed.

(* The predicted observation that the glue compares the REAL destination snapshot with, field by
   field ([view_x], Model/ConvergeA.v: AbsDest's map + directory mtimes + xattrs as the code
   writes them — per inode, old keys of a directory kept under the new ones), is ≈ the source. *)
Theorem predicted_view_converges : forall (H : bytes -> bytes) (hdr : stat -> bytes) (now : N -> N) d A B,
  wf_entries A -> wf_entries B -> AbsDest.identity_faithful d A B ->
  let s := receive_t now Fresh d A B in
  ts_err s = false /\ approx A B (view_x A s).
Proof. exact view_x_converges_proof. Qed.

Print Assumptions diff_apply_converges.
Print Assumptions merge_is_overlay.
Print Assumptions converges_from_any_prior.
Print Assumptions oracle_sound.
Print Assumptions oracle_iff.
Print Assumptions model_passes_oracle.
Print Assumptions unrestricted_convergence_refuted.
Print Assumptions walk_views_are_wf.
Print Assumptions converges_on_walked_trees.
Print Assumptions dir_mtimes_fresh.
Print Assumptions dir_mtimes_merge.
Print Assumptions predicted_view_converges.

(* ------------------------------------------------------------------ examples *)
Definition mk (p : bytes) (mode uid gid size mtime : N) (ln : bytes) (xa : list (bytes * bytes)) : stat :=
  {| st_path := p; st_mode := mode; st_uid := uid; st_gid := gid; st_size := size; st_mtime := mtime;
     st_linkname := ln; st_devmajor := 0; st_devminor := 0; st_xattrs := xa |}.
Definition p_tmp := [46; 116; 109; 112; 46; 53].          (* ".tmp.5": leftover of an aborted run *)
Definition pa := [97]. Definition pb := [98]. Definition pc := [99].
Definition p_ax := [97; 47; 120]. Definition p_az := [97; 47; 122]. Definition p_by := [98; 47; 121].
Definition xk : list (bytes * bytes) := [([117], [1])].
Definition dir (p : bytes) (perm mt : N) := mk p (ModeDir + perm) 0 0 0 mt [] [].

Definition exA : list AbsDest.entry :=
  [ (mk p_tmp 384 0 0 2 99 [] [], [7; 7]);             (* partial temp file: deleted *)
    (dir pa 448 7, []); (mk p_ax 420 0 0 3 1 [] [], [1; 1; 1]);   (* a/ 0700 -> 0755 in place; a/x unchanged *)
    (dir pb 493 7, []); (mk p_by 420 0 0 3 1 [] [], [2; 2; 2]);   (* b/ -> file b *)
    (mk pc 420 0 0 3 1 [] [], [3; 3; 3]) ].                       (* c: partially written, other mtime *)
Definition exB : list AbsDest.entry :=
  [ (dir pa 493 8, []); (mk p_ax 420 0 0 3 1 [] [], [1; 1; 1]);
    (mk p_az 420 0 0 3 1 p_ax [], [1; 1; 1]);                     (* new hard link to the unchanged a/x *)
    (mk pb 420 0 0 2 5 [] xk, [8; 8]);
    (mk pc 420 0 0 3 2 [] [], [3; 3; 4]) ].
Definition Hx (b : bytes) : bytes := b.
Definition hx (s : stat) : bytes := st_path s.

Example hypotheses_satisfiable :
  wf_entries exA /\ wf_entries exB /\ AbsDest.identity_faithful DMetadata exA exB.
Proof.
  split; [apply wf_entries_b_sound; vm_compute; reflexivity|].
  split; [apply wf_entries_b_sound; vm_compute; reflexivity|].
  apply identity_faithful_b_sound; vm_compute; reflexivity.
Qed.

(* the leftover is gone, b is a file with its xattr, a/z shares the inode class of the untouched
   a/x, and the executable oracle accepts the result *)
Example example_converges :
  let r := receive_abs Hx hx Fresh DMetadata exA exB in
  ds_err r = false
  /\ map o_path (view_of (ds_map r)) = [pc; pb; p_az; pa; p_ax]
  /\ option_map de_ino (alookup p_az (ds_map r)) = option_map de_ino (alookup p_ax (ds_map r))
  /\ option_map de_ino (alookup p_ax (ds_map r)) = Some 2
  /\ converged_o false exA exB (view_of (ds_map r)) = true.
Proof. vm_compute. repeat split; reflexivity. Qed.

(* merge: nothing of the old destination goes away except what lies below the replaced b/ *)
Example example_merge_overlay :
  let r := receive_abs Hx hx Merge DMetadata exA exB in
  ds_err r = false
  /\ map o_path (view_of (ds_map r)) = [pc; pb; p_az; p_ax; pa; p_tmp]
  /\ converged_o true exA exB (view_of (ds_map r)) = true.
Proof. vm_compute. repeat split; reflexivity. Qed.

(* the oracle is not trivially true: it rejects the old destination itself *)
Example example_oracle_rejects :
  converged_o false exA exB (view_of (dest_of exA)) = false
  /\ converged_o false collide_A collide_B
       (view_of (ds_map (receive_abs Hx hx Fresh DMetadata collide_A collide_B))) = false.
Proof. vm_compute. split; reflexivity. Qed.

(* directory mtimes: d/ is created by the transfer and gets a child afterwards — after Wait it
   shows the source's mtime 8; the pre-existing a/ (metadata rewritten in place, then a/z linked
   into it) ends with the clock value of that later change, which the relation does not claim *)
Definition pd := [100]. Definition p_df := [100; 47; 102].
Definition exB2 : list AbsDest.entry := exB ++ [ (dir pd 493 8, []); (mk p_df 420 0 0 1 3 [] [], [9]) ].
Definition clock (i : N) : N := 1000 + i.

Example example_dir_mtimes :
  let s := receive_t clock Fresh DMetadata exA exB2 in
  ts_err s = false
  /\ option_map o_mtime (find_obs pd (view_t s)) = Some 8
  /\ option_map o_mtime (find_obs pa (view_t s)) = Some 1002
  /\ converged_o false exA exB2 (view_t s) = true.
Proof. vm_compute. repeat split; reflexivity. Qed.

(* the walk of a small tree with a hard-link pair gives a well-formed listing *)
Definition lr (mode ino nlink : N) : lrec :=
  {| l_mode := mode; l_uid := 0; l_gid := 0; l_size := 3; l_mtime := 5; l_rdev := 0; l_ino := ino;
     l_nlink := nlink; l_target := []; l_xattrs := []; l_dev := 1 |}.
Definition ex_tree : tree :=
  T (lr 16877 1 2) [ ([97], T (lr 16877 2 2) [ ([120], T (lr 33188 10 2) []) ]);
                      ([98], T (lr 33188 10 2) []) ].
Example example_walk_wf :
  wf_entries_b (walk_entries (fun r => [l_ino r]) ex_tree) = true
  /\ map (fun e => (st_path (fst e), st_linkname (fst e))) (walk_entries (fun r => [l_ino r]) ex_tree)
     = [([97], []); ([97; 47; 120], []); ([98], [97; 47; 120])].
Proof. vm_compute. split; reflexivity. Qed.

(* xattrs per inode: the prior b carries user.old under the same identity key as the source's b
   (no xattrs) and the source adds the link c -> b: both names show the old key — which the
   relation does not claim, the inode was not created by this transfer (corpus/C01) *)
Definition xo : list (bytes * bytes) := [([111], [1])].
Definition stA : list AbsDest.entry := [ (mk pb 420 0 0 1 5 [] xo, [9]) ].
Definition stB : list AbsDest.entry := [ (mk pb 420 0 0 1 5 [] [], [9]); (mk pc 420 0 0 1 5 pb [], [9]) ].
Example example_stale_xattrs :
  let s := receive_t clock Fresh DMetadata stA stB in
  map (fun o => (o_path o, o_xattrs o)) (view_x stA s) = [(pc, xo); (pb, xo)]
  /\ inode_created stA stB (mk pc 420 0 0 1 5 pb []) = false
  /\ converged_o false stA stB (view_x stA s) = true.
Proof. vm_compute. repeat split; reflexivity. Qed.
