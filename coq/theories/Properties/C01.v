(* C01 — Sync convergence (interim: sanity theorem about the convergence oracle). *)
From Coq Require Import List NArith Bool.
From FS Require Import Sx Model.Path Model.Stat Model.Tree Model.Converge Proofs.Lex.
Import ListNotations.

Lemma find_raw_some p l d : find_raw p l = Some d -> In d l /\ r_path d = p.
Proof.
  induction l as [|x l IH]; simpl; [discriminate|].
  destruct (bytes_eqb p (r_path x)) eqn:E.
  - intros H. inversion H; subst. apply bytes_eqb_eq in E. split; [left; reflexivity|congruence].
  - intros H. destruct (IH H). split; [right|]; assumption.
Qed.

Lemma find_entry_some p l e : find_entry p l = Some e -> In e l /\ st_path (fst e) = p.
Proof.
  induction l as [|x l IH]; simpl; [discriminate|].
  destruct (bytes_eqb p (st_path (fst x))) eqn:E.
  - intros H. inversion H; subst. apply bytes_eqb_eq in E. split; [left; reflexivity|congruence].
  - intros H. destruct (IH H). split; [right|]; assumption.
Qed.

(* In non-merge mode the oracle forces the destination's path set to equal the source's. *)
Theorem converged_same_paths : forall prior src dest,
  converged false prior src dest = true ->
  (forall e, In e src -> exists d, In d dest /\ r_path d = st_path (fst e)) /\
  (forall d, In d dest -> exists e, In e src /\ st_path (fst e) = r_path d).
Proof.
  intros prior src dest H. unfold converged in H.
  repeat (apply andb_true_iff in H; destruct H as [H ?]).
  split.
  - intros e He. rewrite forallb_forall in H. specialize (H e He).
    destruct (find_raw (st_path (fst e)) dest) eqn:E; [|discriminate].
    apply find_raw_some in E. destruct E. eauto.
  - intros d Hd. rewrite forallb_forall in H2. specialize (H2 d Hd).
    destruct (find_entry (r_path d) src) eqn:E; [|discriminate].
    apply find_entry_some in E. destruct E. eauto.
Qed.
Print Assumptions converged_same_paths.
