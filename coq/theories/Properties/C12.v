(* C12 — Stream validator accepts exactly ordered, parent-closed, contained sequences.
   This file contains only the property theorems (closed by [exact]) and their
   [Print Assumptions]; models are in Model/, proofs in Proofs/. *)
From Coq Require Import List NArith Bool.
From FS Require Import Sx Model.Path Model.Validator Proofs.Lex Proofs.PathP Proofs.ValidatorP.
From FSGen Require FromSource.
Import ListNotations.

(* The path comparison equals comparing paths component by component
   (components = maximal separator-free runs, compared bytewise). *)
Theorem compare_path_componentwise :
  forall p q, compare_path p q = lex_cmp (comps p) (comps q).
Proof. exact PathP.compare_path_componentwise. Qed.

(* ... and it is a strict total order on all byte strings. *)
Theorem compare_path_strict_total :
  (forall p, compare_path p p <> Lt) /\
  (forall p q r, compare_path p q = Lt -> compare_path q r = Lt -> compare_path p r = Lt) /\
  (forall p q, compare_path p q = Eq <-> p = q) /\
  (forall p q, compare_path q p = CompOpp (compare_path p q)) /\
  (forall p q, compare_path p q = Lt \/ p = q \/ compare_path q p = Lt).
Proof.
  exact (conj compare_path_irrefl (conj compare_path_trans (conj compare_path_eq
        (conj compare_path_opp compare_path_total)))).
Qed.

(* The validator (model of validator.go) rejects at exactly the first element that
   breaks "clean relative path, not '.', not '..', not below '..', strictly
   ascending, parent accepted earlier as a non-deleted directory (or root)";
   None = whole sequence accepted.  Equality of the indices gives "iff" and
   "rejects at the first offender" at once, for sequences of every length. *)
Theorem validator_accepts_iff_spec :
  forall its, run_validator its = spec_first_bad its.
Proof. exact validator_accepts_iff_spec_proof. Qed.

Print Assumptions compare_path_componentwise.
Print Assumptions compare_path_strict_total.
Print Assumptions validator_accepts_iff_spec.

(* ---- non-vacuity: a non-trivial sequence is accepted, single corruptions are
        rejected at the right index ---- *)
Definition s (l : list N) := l.
Definition A := 97%N. Definition B := 98%N. Definition C := 99%N.
Definition mk (k : N) (p : list N) (d : bool) := {| vkind := k; vpath := p; visdir := d |}.
Definition good : list vitem :=
  [ mk 0 [A] true;                       (* a/        *)
    mk 0 [A; 47; B] true;                (* a/b/      *)
    mk 0 [A; 47; B; 47; C] false;        (* a/b/c     *)
    mk 0 [A; 47; C] false;               (* a/c       pop to a *)
    mk 0 [A; 32; B] false;               (* "a b"     space < '/' but sorts after a/... *)
    mk 0 [A; 45; B] true;                (* a-b/      *)
    mk 0 [A; 45; B; 47; A] false;        (* a-b/a     *)
    mk 2 [B] true;                       (* delete b  *)
    mk 0 [C] false ].                    (* c         *)
Example good_accepted : run_validator good = None /\ spec_first_bad good = None.
Proof. vm_compute. split; reflexivity. Qed.
Example child_of_deleted_rejected :
  run_validator (good ++ [mk 0 [B; 47; A] false]) = Some 9%nat.
Proof. vm_compute. reflexivity. Qed.
Example bytewise_order_rejected :   (* "a b" before "a/b": bytewise ascending, path-wise not *)
  run_validator [mk 0 [A] true; mk 0 [A; 32; B] false; mk 0 [A; 47; B] false] = Some 2%nat.
Proof. vm_compute. reflexivity. Qed.
Example dot_and_dotdot_rejected :
  run_validator [mk 0 [46] true] = Some 0%nat /\ run_validator [mk 0 [46; 46] false] = Some 0%nat.
Proof. vm_compute. split; reflexivity. Qed.

(* ---- source-derived obligation (regenerated from /repo on every run): the string
        literals HandleChange compares the path against include ".", ".." and "../",
        i.e. the lexical rejections the model's vsplit/ok_path encode ---- *)
Example from_source_validator_literals :
  forallb (fun l => existsb (bytes_eqb l) FromSource.validator_literals)
          [s_dot; s_dotdot; s_dotdotsep] = true.
Proof. vm_compute. reflexivity. Qed.

(* ---- source equivalence (tools/go2coq; gen/SrcFns.v is regenerated from /repo on every run): the
        Gallina definition translated from validator.go's ComparePath equals the model compare_path
        (the sign of Go's int result, which is all its callers use), and its loop never runs out of
        the fuel the translator derived ---- *)
From Coq Require ZArith.
From FSGen Require SrcFns.
From FS Require Proofs.Src.ComparePathEq.
Theorem ComparePath_src_eq :
  forall a b, option_map (fun z => BinInt.Z.compare z BinNums.Z0) (SrcFns.ComparePath a b) = Some (compare_path a b).
Proof. exact ComparePathEq.ComparePath_src_eq. Qed.
Print Assumptions ComparePath_src_eq.

(* ---- the validator itself (tools/go2coq): the method HandleChange of Validator, translated from validator.go on
        this run into a state transformer on the generated records (parentDirs = list of parent, bottom first;
        sort.Search = Go's binary search with the func literal as predicate; ComparePath through its own
        translation).  abs_state reads a Go state as the model's stack (top first; the nil slice as the initial
        stack), vinv is the representation invariant (directories strictly descending from the top under
        compare_path, bottom directory ""), item_of packs the arguments as the model's item.
        One step equals the model's vstep on every state satisfying vinv; folded over a sequence from the zero
        Validator it equals run_validator (every reachable state satisfies vinv), so the main theorem above
        holds of the translated code ---- *)
From FS Require Src.Prims Proofs.Src.ValidatorHandleChangeEq.
Theorem HandleChange_src_eq : forall v kind p fi,
  ValidatorHandleChangeEq.vinv (ValidatorHandleChangeEq.abs_state v) ->
  match SrcFns.Validator_HandleChange v kind p fi None with
  | None => False
  | Some (v', e) =>
    match vstep (ValidatorHandleChangeEq.abs_state v) (ValidatorHandleChangeEq.item_of kind p fi) with
    | Some stk' => e = None /\ ValidatorHandleChangeEq.abs_state v' = stk'
    | None => e <> None
    end
  end.
Proof. exact ValidatorHandleChangeEq.HandleChange_src_eq. Qed.
Theorem HandleChange_err_passthrough : forall v kind p fi m,
  SrcFns.Validator_HandleChange v kind p fi (Some m) = Some (v, Some m).
Proof. exact ValidatorHandleChangeEq.HandleChange_err_passthrough. Qed.
Theorem run_go_is_run_validator : forall its,
  ValidatorHandleChangeEq.run_go SrcFns.Validator_zero its 0 = Some (run_validator its).
Proof. exact ValidatorHandleChangeEq.run_go_is_run_validator. Qed.
Theorem translated_validator_accepts_iff_spec : forall its,
  ValidatorHandleChangeEq.run_go SrcFns.Validator_zero its 0 = Some (spec_first_bad its).
Proof. exact ValidatorHandleChangeEq.translated_validator_accepts_iff_spec. Qed.
Print Assumptions HandleChange_src_eq.
Print Assumptions HandleChange_err_passthrough.
Print Assumptions run_go_is_run_validator.
Print Assumptions translated_validator_accepts_iff_spec.
