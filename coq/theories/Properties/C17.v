(* C17 — placeholder, filled below *)
From Coq Require Import List NArith Bool.
From FS Require Import Sx Model.TarHdr.
