(* C17 — Tar export round-trips the filesystem view.
   Only the property theorems (closed by [exact]) with their [Print Assumptions], and
   non-vacuity examples.  Model: Model/TarHdr.v (+ Model/Hardlinks.v for the hard-link
   reset WriteTar applies first); proofs: Proofs/TarP.v, TarExtractP.v, TarSpecP.v, TarFilterP.v
   (the last one on top of C11's Proofs/HardlinksP.v). *)
From Coq Require Import List NArith ZArith Bool.
From FS Require Import Sx Model.Path Model.Stat Model.Tree Model.Hardlinks Model.TarHdr Proofs.TarP Proofs.TarExtractP Proofs.TarSpecP Proofs.TarFilterP.
Import ListNotations.
Open Scope N_scope.

(* WriteTar (the sequential program with archive/tar's size accounting and header
   checks) on an exportable view succeeds and writes exactly one member per entry of the
   listing it walks, in walk order; member i is the header of entry i, and its name is the
   entry's path with a trailing slash exactly for directories. *)
Theorem members_are_view :
  forall v, wf_view v ->
    write_tar v = TarOk (tar_members v)
    /\ Forall2 member_of (reset_entries (walk_root v)) (tar_members v).
Proof. exact members_are_view_proof. Qed.

(* ... and on a view whose hard links are closed (every link member names an earlier
   regular file of the view) the hard-link reset changes nothing: the members are the
   view's own entries. *)
Theorem members_are_view_closed :
  forall v, wf_listing_b (walk_root v) = true -> links_closed (walk_root v) = true ->
    wf_view v
    /\ write_tar v = TarOk (tar_members v)
    /\ Forall2 member_of (walk_root v) (tar_members v).
Proof. exact members_are_view_closed_proof. Qed.

(* A payload is written exactly for regular, non-link entries of positive size
   (all stats, no well-formedness needed). *)
Theorem payload_iff_regular_nonempty_nonlink :
  forall s, has_payload (hdr_of_stat s) = true <->
    (mode_is_regular (st_mode s) = true /\ st_linkname s = [] /\ (0 < sint (st_size s))%Z).
Proof. exact payload_iff_proof. Qed.

(* For every member the declared size is the number of bytes handed to the archive
   writer — also for hard-link members (Stat.Size = full size, declared 0, no payload) —
   so archive/tar sees neither a short nor a long write. *)
Theorem payload_size_matches :
  forall v, wf_view v ->
    Forall (fun m : member => h_size (fst m) = blen (snd m)) (tar_members v).
Proof. exact payload_size_matches_proof. Qed.

(* Header -> archive/tar (mtime rounded to the nearest second) -> extractor's inverse gives
   the stat back: path, mode incl. type / setuid / setgid / sticky, uid, gid, link name,
   device numbers and xattrs exactly; the mtime to the second; Size where the header
   carries it (regular non-link files), 0 otherwise. *)
Theorem hdr_roundtrip :
  forall s, wf_stat s ->
    stat_of_hdr (archived (hdr_of_stat s)) = round_mtime_to_second (header_size_only s).
Proof. exact hdr_roundtrip_proof. Qed.

Theorem hdr_roundtrip_plain_file :
  forall s, wf_stat s -> carries_size s = true ->
    stat_of_hdr (archived (hdr_of_stat s)) = round_mtime_to_second s.
Proof. exact hdr_roundtrip_plain_file_proof. Qed.

(* "Including for filtered views": for ANY listing handed to WriteTar (the walk of a filtered
   FS), the members are the entries of that listing after the hard-link reset, one each, in
   order, sizes matching. *)
Theorem members_are_listing :
  forall l, wf_listing_b (reset_entries l) = true ->
    write_tar_listing l = TarOk (tar_members_listing l)
    /\ Forall2 member_of (reset_entries l) (tar_members_listing l)
    /\ Forall (fun m : member => h_size (fst m) = blen (snd m)) (tar_members_listing l).
Proof. exact members_are_listing_proof. Qed.

(* Extracting the archive reproduces the view: same entries in the same order, every stat
   field and all bytes, with the mtime to the second and Size only on regular files (dropped
   on directories, symlinks, devices, fifos); hard-link members get size and bytes back from
   the member they name.  [extracted e] = (round_mtime_to_second (Size only if regular), bytes). *)
Theorem extract_roundtrip :
  forall v, wf_listing_b (walk_root v) = true -> links_closed (walk_root v) = true ->
    extract (archive v) = map extracted (walk_root v).
Proof. exact extract_roundtrip_proof. Qed.

(* The same for ANY listing handed to WriteTar (the walk of a filtered FS, composition with
   C10/C11): what comes back is the listing WriteTar ends up walking, i.e. the listing after
   its hard-link reset ... *)
Theorem extract_listing_roundtrip :
  forall l, wf_listing_b (reset_entries l) = true -> links_closed (reset_entries l) = true ->
    extract (map archived_member (tar_members_listing l)) = map extracted (reset_entries l).
Proof. exact extract_listing_roundtrip_proof. Qed.

(* ... which is the listing itself when its own links are closed. *)
Theorem extract_closed_listing_roundtrip :
  forall l, wf_listing_b l = true -> links_closed l = true ->
    extract (map archived_member (tar_members_listing l)) = map extracted l.
Proof. exact extract_closed_listing_roundtrip_proof. Qed.

(* Oracle = specification, proved: the model's archive satisfies the member-by-member
   specification that the correspondence run evaluates on the REAL archive (members_match:
   name, typeflag, mode bits, owners, |mtime difference| < 1 s on a whole second, link name,
   device numbers, xattrs, exact payload, declared size = payload length) against the listing
   after the hard-link reset; and with closed links every hard-link member names an earlier
   regular member.  For any listing (filtered or not) ... *)
Theorem model_meets_member_spec :
  forall l, wf_listing_b (reset_entries l) = true -> forallb mtime_in_range (reset_entries l) = true ->
    members_match (reset_entries l) (map archived_member (tar_members_listing l)) = true
    /\ (links_closed (reset_entries l) = true ->
        links_resolve (map archived_member (tar_members_listing l)) = true).
Proof. exact model_meets_member_spec_proof. Qed.

(* ... and for a whole view with closed links, against the view's own walk. *)
Theorem model_meets_member_spec_view :
  forall v, wf_listing_b (walk_root v) = true -> links_closed (walk_root v) = true ->
    forallb mtime_in_range (walk_root v) = true ->
    members_match (walk_root v) (archive v) = true /\ links_resolve (archive v) = true.
Proof. exact model_meets_member_spec_view_proof. Qed.

(* Composition with the C11 hard-link reset on FILTERED views (regression for /repo dd2568d).
   l is any listing the filters leave of a canonical walk (Hardlinks.wf_links: distinct paths,
   a link names an EARLIER plain non-link entry if it names a kept entry at all) — in
   particular the first member of a link group may have been excluded.  If the members of a
   link group have the same type (one inode), the archive is self-contained: every hard-link
   member names an earlier regular member of the archive. *)
Theorem filtered_links_resolve :
  forall l, wf_links (map fst l) = true -> group_types_agree l = true ->
    wf_listing_b (reset_entries l) = true ->
    links_resolve (map archived_member (tar_members_listing l)) = true.
Proof. exact filtered_links_resolve_proof. Qed.

(* If they also have the same size and bytes (and only regular files have bytes), the listing
   WriteTar ends up walking has closed links ... *)
Theorem filtered_links_closed :
  forall l, wf_links (map fst l) = true -> group_types_agree l = true -> group_contents_agree l = true ->
    no_content_unless_regular l = true ->
    wf_listing_b (reset_entries l) = true ->
    links_closed (reset_entries l) = true.
Proof. exact filtered_links_closed_proof. Qed.

(* ... so that extracting the archive of the filtered view gives back exactly the kept entries,
   the first kept member of each link group as a regular file with the bytes and the later
   ones as links to it. *)
Theorem extract_filtered_roundtrip :
  forall l, wf_links (map fst l) = true -> group_types_agree l = true -> group_contents_agree l = true ->
    no_content_unless_regular l = true ->
    wf_listing_b (reset_entries l) = true ->
    extract (map archived_member (tar_members_listing l)) = map extracted (reset_entries l).
Proof. exact extract_filtered_roundtrip_proof. Qed.

(* The write side holds on a wider domain: a link name may also sit on a fifo or a device (the
   second name of such an inode, as the on-disk walker reports it).  WriteTar succeeds, emits one
   member per entry in order with matching sizes, and the members meet the member-by-member
   specification, in which such an entry must be a hard-link ('1') member without payload. *)
Theorem members_are_listing_wide :
  forall l, wf_listing_wb (reset_entries l) = true ->
    write_tar_listing l = TarOk (tar_members_listing l)
    /\ Forall2 member_of (reset_entries l) (tar_members_listing l)
    /\ Forall (fun m : member => h_size (fst m) = blen (snd m)) (tar_members_listing l).
Proof. exact members_are_listing_wide_proof. Qed.

Theorem model_meets_member_spec_wide :
  forall l, wf_listing_wb (reset_entries l) = true -> forallb mtime_in_range (reset_entries l) = true ->
    members_match (reset_entries l) (map archived_member (tar_members_listing l)) = true.
Proof. exact model_meets_member_spec_wide_proof. Qed.

Print Assumptions members_are_view.
Print Assumptions members_are_listing_wide.
Print Assumptions model_meets_member_spec_wide.
Print Assumptions members_are_listing.
Print Assumptions extract_roundtrip.
Print Assumptions extract_listing_roundtrip.
Print Assumptions extract_closed_listing_roundtrip.
Print Assumptions model_meets_member_spec.
Print Assumptions model_meets_member_spec_view.
Print Assumptions filtered_links_resolve.
Print Assumptions filtered_links_closed.
Print Assumptions extract_filtered_roundtrip.
Print Assumptions members_are_view_closed.
Print Assumptions payload_iff_regular_nonempty_nonlink.
Print Assumptions payload_size_matches.
Print Assumptions hdr_roundtrip.
Print Assumptions hdr_roundtrip_plain_file.

(* ---- non-vacuity ---- *)
Definition mkst (mode uid gid size mtime : N) (ln : bytes) (maj min : N) (x : list (bytes * bytes)) : stat :=
  {| st_path := []; st_mode := mode; st_uid := uid; st_gid := gid; st_size := size; st_mtime := mtime;
     st_linkname := ln; st_devmajor := maj; st_devminor := min; st_xattrs := x |}.
Definition hello : bytes := [104; 101; 108; 108; 111].
Definition n_d : bytes := [100]. Definition n_e : bytes := [101]. Definition n_f : bytes := [102].
Definition n_g : bytes := [103].
Definition p_df : bytes := [100; 47; 102].   (* "d/f" *)
Definition st_f : stat :=   (* -rwsr-xr-x 1000:5, 5 bytes, mtime ...999999999 ns, xattr with NUL *)
  mkst (ModeSetuid + 493) 1000 5 5 1600000000999999999 [] 0 0 [([117; 115; 101; 114; 46; 107], [0; 1])].
Definition view1 : list node :=     (* children in bytewise name order, as a walk lists them *)
  [ Node [98] (mkst (ModeDevice + 432) 0 6 0 0 [] 8 2097151 []) [] [];
    Node [99] (mkst (ModeDevice + ModeCharDevice + 384) 0 0 0 0 [] 1 3 []) [] [];
    Node n_d (mkst (ModeDir + ModeSticky + 511) 0 0 0 1600000000500000000 [] 0 0 []) []
      [ Node n_e (mkst 420 0 0 0 0 [] 0 0 []) [] [];                                (* d/e  empty file *)
        Node n_f st_f hello [];                                                      (* d/f *)
        Node n_g (set_linkname st_f p_df) hello [];                                  (* d/g  hard link to d/f *)
        Node (repeat 110 120) (mkst (ModeDir + ModeSetgid + 448) 0 3000000 0 1 [] 0 0 []) [] [] ];  (* 120-byte name, PAX gid *)
    Node [112] (mkst (ModeNamedPipe + 420) 0 0 0 0 [] 0 0 []) [] [];
    Node [195; 169] (mkst (ModeSymlink + 511) 0 0 4 (two64 - 1) [46; 46; 47; 120] 0 0 []) [] [] ].  (* "é" -> ../x, mtime -1 ns *)

Example view1_wf :
  wf_listing_b (walk_root view1) = true /\ links_closed (walk_root view1) = true
  /\ length (walk_root view1) = 9%nat.
Proof. vm_compute. repeat split; reflexivity. Qed.

Example view1_archive :
  write_tar view1 = TarOk (tar_members view1)
  /\ map (fun m : member => (h_typeflag (fst m), snd m)) (tar_members view1)
     = [(TypeBlock, []); (TypeChar, []); (TypeDir, []); (TypeReg, []); (TypeReg, hello); (TypeLink, []);
        (TypeDir, []); (TypeFifo, []); (TypeSymlink, [])]
  /\ map (fun m : member => h_name (fst m)) (firstn 4 (skipn 2 (tar_members view1)))
     = [[100; 47]; [100; 47; 101]; [100; 47; 102]; [100; 47; 103]]
  /\ map (fun m : member => h_mode (fst m)) (firstn 3 (skipn 2 (tar_members view1))) = [1023; 420; 2541]   (* 01777 0644 04755 *)
  /\ members_match (walk_root view1) (archive view1) = true
  /\ links_resolve (archive view1) = true.
Proof. vm_compute. repeat split; reflexivity. Qed.

Example view1_extracts :
  extract (archive view1) = map extracted (walk_root view1)
  /\ forallb mtime_in_range (walk_root view1) = true
  /\ nth_error (extract (archive view1)) 5
     = Some (round_mtime_to_second (set_path (set_linkname st_f p_df) [100; 47; 103]), hello).   (* the link member, whole *)
Proof. vm_compute. repeat split; reflexivity. Qed.

(* mtime ...999999999 ns is archived as the NEXT second, -1 ns as second 0 *)
Example rounding :
  round_sec 1600000000999999999 = 1600000001%Z /\ round_sec 1600000000500000000 = 1600000001%Z
  /\ round_sec 1600000000499999999 = 1600000000%Z /\ round_sec (two64 - 1) = 0%Z
  /\ round_sec (two64 - 500000001) = (-1)%Z.
Proof. vm_compute. repeat split; reflexivity. Qed.

(* a filtered listing that lost the first member of a link group: the reset makes the kept
   member a regular member carrying the bytes (the witness of the repaired defect) *)
Example filtered_link_group :
  let l := [(set_path (set_linkname st_f p_df) [103], hello)] in
  map (fun m : member => (h_typeflag (fst m), h_linkname (fst m), snd m)) (tar_members_listing l)
  = [(TypeReg, [], hello)]
  /\ map (fun m : member => (h_typeflag (fst m), h_linkname (fst m), snd m)) (tar_of_listing l)
  = [(TypeLink, p_df, [])].
Proof. vm_compute. split; reflexivity. Qed.

(* the same filtered listing plus a second kept member of the group, "h" -> d/f: WriteTar
   walks [g (now a plain file); h -> g]; its own links are NOT closed (d/f is gone), those of
   the reset listing are, the archive extracts to the reset listing, and it meets the
   member-by-member specification *)
Definition filtered2 : list entry :=
  [(set_path (set_linkname st_f p_df) [103], hello); (set_path (set_linkname st_f p_df) [104], hello)].
Example filtered_extracts :
  links_closed filtered2 = false
  /\ wf_listing_b (reset_entries filtered2) = true /\ links_closed (reset_entries filtered2) = true
  /\ forallb mtime_in_range (reset_entries filtered2) = true
  /\ map (fun e : entry => st_linkname (fst e)) (reset_entries filtered2) = [[]; [103]]
  /\ extract (map archived_member (tar_members_listing filtered2)) = map extracted (reset_entries filtered2)
  /\ members_match (reset_entries filtered2) (map archived_member (tar_members_listing filtered2)) = true
  /\ links_resolve (map archived_member (tar_members_listing filtered2)) = true
  /\ links_resolve (map archived_member (tar_of_listing filtered2)) = false.   (* without the reset: dangling *)
Proof. vm_compute. repeat split; reflexivity. Qed.

(* the hypotheses of the filtered-view theorems hold on filtered2 and on view1's walk with
   d/f filtered out (d/g, the link to it, is kept and becomes a regular member with the bytes) *)
Definition view1_without_df : list entry :=
  filter (fun e : entry => negb (bytes_eqb (st_path (fst e)) p_df)) (walk_root view1).
Example filtered_hypotheses :
  wf_links (map fst filtered2) = true /\ group_types_agree filtered2 = true
  /\ group_contents_agree filtered2 = true /\ no_content_unless_regular filtered2 = true
  /\ length view1_without_df = 8%nat /\ links_closed view1_without_df = false
  /\ wf_links (map fst view1_without_df) = true /\ group_types_agree view1_without_df = true
  /\ group_contents_agree view1_without_df = true /\ no_content_unless_regular view1_without_df = true
  /\ wf_listing_b (reset_entries view1_without_df) = true
  /\ map (fun m : member => (h_typeflag (fst m), snd m)) (tar_members_listing view1_without_df)
     = [(TypeBlock, []); (TypeChar, []); (TypeDir, []); (TypeReg, []); (TypeReg, hello);
        (TypeDir, []); (TypeFifo, []); (TypeSymlink, [])]
  /\ links_resolve (map archived_member (tar_members_listing view1_without_df)) = true
  /\ extract (map archived_member (tar_members_listing view1_without_df))
     = map extracted (reset_entries view1_without_df).
Proof. vm_compute. repeat split; reflexivity. Qed.

(* group_types_agree is needed: a "link" to a fifo passes the hard-link validator, but tar
   cannot express it (a '1' member must name a '0' member) *)
Example group_types_needed :
  let l := [(set_path (mkst (ModeNamedPipe + 420) 0 0 0 0 [] 0 0 []) n_e, []);
            (set_path (mkst 420 0 0 0 0 n_e 0 0 []) n_f, [])] in
  wf_links (map fst l) = true /\ wf_listing_b (reset_entries l) = true /\ group_types_agree l = false
  /\ links_resolve (map archived_member (tar_members_listing l)) = false.
Proof. vm_compute. repeat split; reflexivity. Qed.

(* link groups of non-regular inodes: a fifo and a character device with two names each.  Outside
   the narrow (invertible) domain, inside the write domain; the second names are '1' members *)
Definition special_links : list entry :=
  [(set_path (mkst (ModeNamedPipe + 420) 0 0 0 0 [] 0 0 []) n_e, []);
   (set_path (mkst (ModeNamedPipe + 420) 0 0 0 0 n_e 0 0 []) n_f, []);
   (set_path (mkst (ModeDevice + ModeCharDevice + 384) 0 0 0 0 [] 1 3 []) n_g, []);
   (set_path (mkst (ModeDevice + ModeCharDevice + 384) 0 0 0 0 n_g 1 3 []) [104], [])].
Example special_link_groups :
  wf_listing_b (reset_entries special_links) = false /\ wf_listing_wb (reset_entries special_links) = true
  /\ map (fun m : member => (h_typeflag (fst m), h_linkname (fst m))) (tar_members_listing special_links)
     = [(TypeFifo, []); (TypeLink, n_e); (TypeChar, []); (TypeLink, n_g)]
  /\ members_match (reset_entries special_links) (map archived_member (tar_members_listing special_links)) = true.
Proof. vm_compute. repeat split; reflexivity. Qed.

(* the mtime hypothesis of model_meets_member_spec is needed: at the top of the int64 range
   rounding to the nearest second leaves the range, and the specification is not met *)
Example mtime_out_of_range :
  let l := [(set_path (mkst 420 0 0 0 (two63 - 1) [] 0 0 []) n_e, [])] in
  wf_listing_b (reset_entries l) = true /\ forallb mtime_in_range (reset_entries l) = false
  /\ members_match (reset_entries l) (map archived_member (tar_members_listing l)) = false.
Proof. vm_compute. repeat split; reflexivity. Qed.

(* outside the well-formed domain the writer fails: Size larger / smaller than the bytes
   served, a socket, an xattr name containing '=' *)
Example not_wf_fails :
  write_tar [Node n_e (mkst 420 0 0 1 0 [] 0 0 []) [] []; Node n_f (mkst 420 0 0 0 0 [] 0 0 []) [] []] = TarErr 1
  /\ write_tar [Node n_e (mkst 420 0 0 1 0 [] 0 0 []) hello []] = TarErr 0
  /\ write_tar [Node n_e (mkst (ModeSocket + 420) 0 0 0 0 [] 0 0 []) [] []] = TarErr 0
  /\ write_tar [Node n_e (mkst 420 0 0 0 0 [] 0 0 [([97; 61; 98], [1])]) [] []] = TarErr 0.
Proof. vm_compute. repeat split; reflexivity. Qed.

(* ---- source equivalences (tools/go2coq; gen/SrcFns.v is regenerated from /repo on every run): the
        methods of fs.go's StatInfo — the os.FileInfo that WriteTar hands to tar.FileInfoHeader — as
        translated from the source.  ModTime: the (sec, nsec) pair given to time.Unix, computed with Go's
        truncating / and % on the signed int64 (Prims.i64_quot / i64_rem), denotes exactly the instant
        Stat.ModTime ns after the epoch (what h_mtime / round_ns take it to be), with |nsec| < 1e9 and
        the sign of the dividend; Size, Mode, IsDir are the field / the model predicate ---- *)
From FSGen Require SrcFns.
From FS Require Src.Prims Proofs.Src.StatInfoModTimeEq Proofs.Src.StatInfoSizeEq Proofs.Src.StatInfoModeEq Proofs.Src.StatInfoIsDirEq.
Theorem StatInfo_ModTime_src_eq : forall s,
  let t := SrcFns.StatInfo_ModTime s in
  let m := Prims.sint64 (st_mtime (SrcFns.StatInfo_Stat s)) in
  Prims.time_ns t = m /\
  (Z.abs (Prims.sint64 (snd t)) < 1000000000)%Z /\ (0 <= Prims.sint64 (snd t) * m)%Z.
Proof. exact StatInfoModTimeEq.StatInfo_ModTime_src_eq. Qed.
Theorem StatInfo_ModTime_is_model_instant : forall s,
  (st_mtime (SrcFns.StatInfo_Stat s) < 18446744073709551616)%N ->
  Prims.time_ns (SrcFns.StatInfo_ModTime s) = sint (st_mtime (SrcFns.StatInfo_Stat s)).
Proof. exact StatInfoModTimeEq.StatInfo_ModTime_is_model_instant. Qed.
Theorem StatInfo_Size_src_eq : forall s, SrcFns.StatInfo_Size s = st_size (SrcFns.StatInfo_Stat s).
Proof. exact StatInfoSizeEq.StatInfo_Size_src_eq. Qed.
Theorem StatInfo_Mode_src_eq : forall s, SrcFns.StatInfo_Mode s = st_mode (SrcFns.StatInfo_Stat s).
Proof. exact StatInfoModeEq.StatInfo_Mode_src_eq. Qed.
Theorem StatInfo_IsDir_src_eq : forall s, SrcFns.StatInfo_IsDir s = st_is_dir (SrcFns.StatInfo_Stat s).
Proof. exact StatInfoIsDirEq.StatInfo_IsDir_src_eq. Qed.
Print Assumptions StatInfo_ModTime_src_eq.
Print Assumptions StatInfo_ModTime_is_model_instant.
Print Assumptions StatInfo_Size_src_eq.
Print Assumptions StatInfo_Mode_src_eq.
Print Assumptions StatInfo_IsDir_src_eq.
