(* C10 — placeholder while the correspondence is brought up *)
From Coq Require Import List NArith Bool.
From FS Require Import Sx Model.Path Model.Stat Model.Tree Model.Pattern Model.FilterWalk.
Import ListNotations.
Example placeholder : prefixes [1;2]%N = [[1];[1;2]]%N.
Proof. reflexivity. Qed.
