(* C10 — Filtered walk equals the unpruned reference filter; pruning is unobservable.

   Models: Model/Pattern.v (moby/patternmatcher list evaluation over an abstract single-pattern
   matcher [pmatch]; filter.go's classification of pattern strings), Model/FilterWalk.v
   (filterFS.Walk over WalkDir, and the declarative [reference]).  Proofs: Proofs/PatternP.v,
   FilterP.v, PruneP.v, IncrNaiveP.v, RefP.v, NaiveRefP.v, WitnessP.v.

   Everything is quantified over the external matcher [pmatch] and the map function [mapfn].
   About [pmatch] only [prefix_semantics] is assumed, and only where stated: it fixes the
   meaning of the patterns filter.go classifies as prefix-only (no pattern character after
   removing ONE trailing "/**" or "/*"):
       literal L   matches exactly L
       L/**        matches L/ followed by anything, not L itself
       L/*         matches L/ followed by one separator-free component   -- only for regex-safe L
   (harness kind 1003 validates the three clauses against the real library).  For L/* the
   library compiles L into a regular expression without escaping '{' '|' '}' and reads non-UTF-8
   bytes as U+FFFD; hence [regex_safe] and the hypothesis [cfg_star_safe] below — without it the
   statement is false of the real code (prune_observable_refuted, known finding
   unsafe-star-literal).

   The consumer's callback is assumed to return nil; no walk errors; the map function is a pure
   function of (path, stat). *)
From Coq Require Import List NArith Bool String.
From FS Require Import Sx Model.Path Model.Stat Model.Tree Model.Pattern Model.FilterWalk
  Proofs.PathP Proofs.PatternP Proofs.FilterP Proofs.PruneP Proofs.IncrNaiveP Proofs.RefP
  Proofs.NaiveRefP Proofs.FlatRefP Proofs.WitnessP.
Import ListNotations.

(* ---- pruning is unobservable ----
   For ALL pattern lists, map functions and well-formed views (names non-empty, without '/'):
   the walk with both SkipDir shortcuts makes exactly the calls of the walk without them. *)
Theorem prune_unobservable :
  forall (pmatch : bytes -> bytes -> bool) (mapfn : bytes -> stat -> mres * stat) (c : cfg) (view : list node),
    prefix_semantics pmatch -> cfg_star_safe c = true -> wf_view view = true ->
    filter_walk pmatch mapfn c view = filter_walk pmatch mapfn (no_prune c) view.
Proof. exact (fun pmatch mapfn c view Hs Hc Hw => prune_unobservable_proof pmatch mapfn Hs c Hc view Hw). Qed.

(* The full statement (without cfg_star_safe)
     forall pmatch mapfn c view, prefix_semantics pmatch -> wf_view view = true ->
       filter_walk pmatch mapfn c view = filter_walk pmatch mapfn (no_prune c) view
   is FALSE: include ["a{2}/*"], tree aa/x, with the matcher answering as the real library
   does (regular expression ^a{2}/[^/]*$): the walk prunes aa and reports nothing, the
   un-pruned walk reports aa, aa/x.  Replayed on the real code: corpus/C10/witnesses.case. *)
Theorem prune_observable_refuted :
  exists pmatch mapfn c view,
    prefix_semantics pmatch /\ wf_view view = true /\ cfg_star_safe c = false /\
    filter_walk pmatch mapfn c view <> filter_walk pmatch mapfn (no_prune c) view.
Proof.
  exact (ex_intro _ pm_k5 (ex_intro _ id_map (ex_intro _ k5_cfg (ex_intro _ k5_view
         (conj pm_k5_semantics (conj eq_refl (conj k5_not_safe k5_prune_observable))))))).
Qed.

(* ---- the un-pruned walk is the reference over the incremental verdict ----
   [reference V mapfn view] (Model/FilterWalk.v) is a function of a verdict V on paths and the
   map function only: selected entries and the unselected directories above them, in walk
   order, each once, directories before their contents; the map function is applied to every
   entry before it is reported (its stat is what is reported), may drop it, or answer SkipDir.
   [keep_incr]: included and not excluded, evaluated with MatchesUsingParentResults handed
   down from the root.  All matchers, all map functions, all pattern lists, all views. *)
Theorem filter_walk_is_incr_reference :
  forall pmatch mapfn c view, wf_view view = true ->
    filter_walk pmatch mapfn (no_prune c) view = reference (keep_incr pmatch c) mapfn view.
Proof. exact filter_walk_reference_proof. Qed.

(* ---- incremental verdict vs naive verdict ---- *)
(* the "skip" inside MatchesOrParentMatches is unobservable: naive = for each pattern in order,
   if it matches the path or an ancestor, matched := not exclusion *)
Theorem naive_skip_irrelevant :
  forall pmatch pats file, naive pmatch pats file = naive_noskip pmatch pats file.
Proof. exact naive_skip_irrelevant_proof. Qed.

(* on a clean relative path (components cs) the verdict handed down from the root equals the
   naive verdict, provided the computable condition no_late_shadow holds *)
Theorem incr_eq_naive :
  forall pmatch pats cs, okc cs -> no_late_shadow pmatch pats cs = true ->
    incr_path pmatch pats cs = naive pmatch pats (joinc cs).
Proof. exact incr_eq_naive_proof. Qed.

(* The full statement (without no_late_shadow) is FALSE — known finding K1 (moby/patternmatcher):
   patterns ["d"; "!d/c"; "d"], path d/c: the third pattern is skipped at d (d already matched)
   and at d/c it no longer sees the ancestor. *)
Theorem incr_ne_naive_refuted :
  exists pmatch pats cs,
    prefix_semantics pmatch /\ okc cs /\ no_late_shadow pmatch pats cs = false /\
    incr_path pmatch pats cs <> naive pmatch pats (joinc cs).
Proof.
  exact (ex_intro _ pm_lit (ex_intro _ k1_pats (ex_intro _ k1_cs
         (conj (lit_pmatch_prefix_semantics _) (conj k1_okc (conj k1_shadow k1_incr_ne_naive)))))).
Qed.

(* ---- the property: the walk as the code runs it = the naive reference ----
   test every entry of the full tree against the patterns with the naive list semantics, keep
   those included and not excluded, add the ancestors of kept entries, apply the map function.
   Views: names non-empty, without '/', not "." or "..".  Hypotheses: the literal reading of
   prefix-only patterns, regex-safe literals in the L/* patterns the shortcuts rely on, and no
   late shadow on any entry (both computable from the case; the glue evaluates them). *)
Theorem filter_walk_is_naive_reference :
  forall pmatch mapfn c view,
    prefix_semantics pmatch -> cfg_star_safe c = true -> wf_strict view = true ->
    all_paths (nls_path pmatch c) view = true ->
    filter_walk pmatch mapfn c view = reference (keep_naive pmatch c) mapfn view.
Proof. exact (fun pmatch mapfn c view => filter_walk_naive_reference_proof pmatch c mapfn view). Qed.

(* without the no-late-shadow hypothesis: false (K1 at the level of the walk): tree d/{c,e},
   include ["d"; "!d/c"; "d"]: the walk reports d, d/e; the naive reference d, d/c, d/e *)
Theorem walk_ne_naive_reference_refuted :
  exists pmatch mapfn c view,
    prefix_semantics pmatch /\ cfg_star_safe c = true /\ wf_strict view = true /\
    filter_walk pmatch mapfn c view <> reference (keep_naive pmatch c) mapfn view.
Proof.
  exact (ex_intro _ pm_lit (ex_intro _ id_map (ex_intro _ k1_cfg (ex_intro _ k1_view
         (conj (lit_pmatch_prefix_semantics _) (conj eq_refl (conj eq_refl k1_walk_ne_reference))))))).
Qed.

(* ---- what [reference] says, in the words of the property ----
   nil map function: the reference is the full walk (Model/Tree.walk_root) filtered by
   "selected, or its path followed by '/' is a prefix of the path of a selected entry" — in walk
   order, each once, each directory before its contents (views with distinct sibling names,
   only directories having children) *)
Theorem reference_nomap_is_flat :
  forall V view, wf_tree view = true -> reference V id_map view = flat_reference V view.
Proof. exact reference_nomap_flat_proof. Qed.

(* a map function that never drops anything: its rewriting is applied to exactly those entries *)
Theorem reference_rewrite_only :
  forall V mapfn view, (forall p s, fst (mapfn p s) = MKeep) ->
    reference V mapfn view = map (fun s => snd (mapfn (st_path s) s)) (reference V id_map view).
Proof. exact (fun V mapfn view H => reference_rewrite_only_proof V mapfn H view). Qed.

(* the property for a nil map function, end to end: the walk as the code runs it (pruning,
   incremental matching, lazy parents) = the flat naive filter of the full tree *)
Theorem filter_walk_nomap_is_flat_naive :
  forall pmatch c view,
    prefix_semantics pmatch -> cfg_star_safe c = true -> wf_strict view = true -> wf_tree view = true ->
    all_paths (nls_path pmatch c) view = true ->
    filter_walk pmatch id_map c view = flat_reference (keep_naive pmatch c) view.
Proof.
  exact (fun pmatch c view Hs Hc Hw Ht Hn =>
           eq_trans (filter_walk_naive_reference_proof pmatch c id_map view Hs Hc Hw Hn)
                    (reference_nomap_flat_proof (keep_naive pmatch c) view Ht)).
Qed.

Print Assumptions prune_unobservable.
Print Assumptions prune_observable_refuted.
Print Assumptions filter_walk_is_incr_reference.
Print Assumptions naive_skip_irrelevant.
Print Assumptions incr_eq_naive.
Print Assumptions incr_ne_naive_refuted.
Print Assumptions filter_walk_is_naive_reference.
Print Assumptions walk_ne_naive_reference_refuted.
Print Assumptions reference_nomap_is_flat.
Print Assumptions reference_rewrite_only.
Print Assumptions filter_walk_nomap_is_flat_naive.

(* ---- non-vacuity: the tree of filter_test.go (TestWalkerDoublestarInclude); the same inputs
        are run against the real code by corpus/C10/examples.case ---- *)
Open Scope string_scope.

(* include **/bar: the expectation written in filter_test.go *)
Definition cfgA : cfg := {| c_inc := Some [ip "**/bar"]; c_exc := None; c_prune := true |}.
Example ex_doublestar :
  paths (filter_walk pm_ex id_map cfgA ft_view) =
  map bs ["a"; "a/b"; "a/b/bar"; "a/b/bar/foo"; "a/b/bar/fop"; "bar"; "bar/foo"; "foo"; "foo/bar"; "foo/bar/bee"].
Proof. vm_compute. reflexivity. Qed.

(* trailing /*, literal, ? and ** on the include side; exclusion with a '!' exception *)
Definition cfgB : cfg :=
  {| c_inc := Some [ip "a/b/*"; ip "bar"; ip "**/fo?"];
     c_exc := Some [ip "a/b/bar/*"; xp "a/b/bar/fop"; ip "foo2"]; c_prune := true |}.
Example ex_mixed :
  paths (filter_walk pm_ex id_map cfgB ft_view) =
  map bs ["a"; "a/b"; "a/b/bar"; "a/b/bar/fop"; "a/b/baz"; "bar"; "bar/foo"; "foo"; "foo/bar"; "foo/bar/bee"]
  /\ filter_walk pm_ex id_map cfgB ft_view = reference (keep_naive pm_ex cfgB) id_map ft_view
  /\ filter_walk pm_ex id_map cfgB ft_view = flat_reference (keep_naive pm_ex cfgB) ft_view
  /\ (cfg_star_safe cfgB = true /\ wf_tree ft_view = true /\ wf_strict ft_view = true /\ all_paths (nls_path pm_ex cfgB) ft_view = true).
Proof. vm_compute. repeat split; reflexivity. Qed.

(* prefix-only includes (pruning active: bar, foo2 and a/b/baz are never visited); map function:
   the lazily reported parent a/b is dropped, a is rewritten, the selected directory foo/bar is
   answered SkipDir (so its parent foo is never reported) *)
Definition cfgC : cfg :=
  {| c_inc := Some [ip "a/b/bar/fop"; ip "foo/**"; ip "baz"]; c_exc := None; c_prune := true |}.
Definition mapC (p : list N) (s : stat) : mres * stat :=
  if bytes_eqb p (bs "a/b") then (MExclude, s)
  else if bytes_eqb p (bs "foo/bar") then (MSkipDir, s)
  else if bytes_eqb p (bs "a") then (MKeep, set_mode s 0%N)
  else (MKeep, s).
Example ex_map :
  map (fun s => (st_path s, st_mode s)) (filter_walk pm_ex mapC cfgC ft_view) =
  [(bs "a", 0%N); (bs "a/b/bar", st_mode st_dir); (bs "a/b/bar/fop", st_mode st_file); (bs "baz", st_mode st_dir)]
  /\ filter_walk pm_ex mapC cfgC ft_view = filter_walk pm_ex mapC (no_prune cfgC) ft_view
  /\ filter_walk pm_ex mapC cfgC ft_view = reference (keep_naive pm_ex cfgC) mapC ft_view.
Proof. vm_compute. repeat split; reflexivity. Qed.

(* K1 on a tree: what the two sides report *)
Example ex_k1 :
  paths (filter_walk pm_lit id_map k1_cfg k1_view) = map bs ["d"; "d/e"] /\
  paths (reference (keep_naive pm_lit k1_cfg) id_map k1_view) = map bs ["d"; "d/c"; "d/e"].
Proof. vm_compute. split; reflexivity. Qed.

(* F10 regression: a/*/** is NOT prefix-only (only one trailing glob is stripped) *)
Example ex_f10_classification :
  prefix_only (bs "a/*/**") = false /\ prefix_only (bs "a/**") = true /\ prefix_only (bs "a/*") = true
  /\ pat_kind (bs "a/x/**") = LitStarStar (bs "a/x") /\ pat_kind (bs "a/x/*") = LitStar (bs "a/x")
  /\ pat_kind (bs "a.b") = Lit (bs "a.b") /\ pat_kind (bs "a/**/*") = Glob.
Proof. vm_compute. repeat split; reflexivity. Qed.

(* ---- source equivalence (tools/go2coq; gen/SrcFns.v is regenerated from /repo on every run): the
        Gallina definition translated from filter.go's patternWithoutTrailingGlob equals the model
        without_trailing_glob (a pattern being represented by the string its String() returns) ---- *)
From FSGen Require SrcFns.
From FS Require Proofs.Src.PatternWithoutTrailingGlobEq.
Theorem patternWithoutTrailingGlob_src_eq :
  forall p, SrcFns.patternWithoutTrailingGlob p = without_trailing_glob p.
Proof. exact PatternWithoutTrailingGlobEq.patternWithoutTrailingGlob_src_eq. Qed.
Print Assumptions patternWithoutTrailingGlob_src_eq.
