(* C20 — Wire encoding and framing: the VT codec of types.Stat / types.Packet round-trips, the
   length-prefixed byte stream is read back identical under every fragmentation, the chunked
   metadata buffer is the concatenation of its records.
   This file contains only the property theorems (closed by [exact]) and their
   [Print Assumptions]; models are in Model/, proofs in Proofs/. *)
From Coq Require Import List NArith Bool Permutation.
From FS Require Import Sx Model.Stat Model.Varint Model.Codec Model.CodecBound Model.Framing Model.MetaBuffer
  Model.Listing Proofs.VarintP Proofs.CodecP Proofs.CodecBoundP Proofs.FramingP Proofs.ListingP.
From FSGen Require FromSource.
Import ListNotations.
Open Scope N_scope.

(* ---- codec ---------------------------------------------------------------------------- *)

(* Every well-formed Stat (field ranges of the Go types, map = distinct keys) encodes to bytes
   that decode to the same value, and the decoder retains no unknown bytes. *)
Theorem stat_roundtrip :
  forall s, wf_stat s ->
    decode_stat (encode_stat s) = Some s /\ decode_stat_u (encode_stat s) = Some (s, []).
Proof. exact stat_roundtrip_proof. Qed.

(* ... the same for Packet (nil / present Stat, int32 type as sign-extended varint). *)
Theorem packet_roundtrip :
  forall p, wf_packet p ->
    decode_packet (encode_packet p) = Some p /\ decode_packet_u (encode_packet p) = Some (p, [], []).
Proof. exact packet_roundtrip_proof. Qed.

(* SizeVT is the length of the encoding — for every value, well-formed or not. *)
Theorem size_correct :
  (forall s, len (encode_stat s) = size_stat s) /\ (forall p, len (encode_packet p) = size_packet p).
Proof. exact size_correct_proof. Qed.

(* Go emits the xattr map in random iteration order: every permutation of the entries decodes
   to the same (canonical) value, with nothing retained, and has the same length. *)
Theorem canonical_any_order :
  (forall s xs, wf_stat s -> Permutation xs (st_xattrs s) ->
     decode_stat (encode_stat_ord xs s) = Some s /\ decode_stat_u (encode_stat_ord xs s) = Some (s, []) /\
     len (encode_stat_ord xs s) = size_stat s) /\
  (forall p xs, wf_packet p -> Permutation xs (pxattrs p) ->
     decode_packet (encode_packet_ord xs p) = Some p /\ decode_packet_u (encode_packet_ord xs p) = Some (p, [], []) /\
     len (encode_packet_ord xs p) = size_packet p).
Proof. exact canonical_any_order_proof. Qed.

(* The varint primitive: every uint64 is read back, whatever follows it. *)
Theorem varint_roundtrip :
  forall n rest, n < two64 -> get_varint (put_varint n ++ rest) = Some (n, rest).
Proof. exact get_put_varint. Qed.

(* protohelpers.SizeOfVarint's closed formula (bits.Len64(x|1)+6)/7 is the number of bytes
   EncodeVarint writes, for every uint64. *)
Theorem size_of_varint_formula :
  forall v, v < two64 -> sov v = size_varint v /\ len (put_varint v) = size_varint v.
Proof. exact (fun v H => conj (sov_is_size_varint v H) (put_varint_len v)). Qed.

(* ---- arbitrary bytes --------------------------------------------------------------------- *)

(* The decoders are total functions bytes -> option value ("a value or an error").  They
   consume only their input: every field decoder returns, on success, a PROPER SUFFIX of what
   it was given (so the loops advance and never read past the end), a retained unknown field
   is exactly the consumed prefix, and the fuel the model gives its loops is never the reason
   for an error: any fuel >= the input length yields the same result. *)
Theorem decode_total_no_overread :
  (forall l f r, dec_sfield l = Some (f, r) ->
     (exists p, p <> [] /\ l = p ++ r) /\ (forall raw, f = SF_unknown raw -> l = raw ++ r)) /\
  (forall l f r, dec_pfield l = Some (f, r) -> exists p, p <> [] /\ l = p ++ r) /\
  (forall l r, skip l = Some r -> exists p, p <> [] /\ l = p ++ r) /\
  (forall ins su b n, (length b <= n)%nat ->
     fold_fields dec_sfield (apply_sfield ins) n b su = decode_stat_into ins su b) /\
  (forall ins q b n, (length b <= n)%nat ->
     fold_fields dec_pfield (apply_pfield ins) n b q = decode_packet_into ins q b) /\
  (forall d l n, (length l <= n)%nat -> skip_loop n d l = skip_loop (length l) d l) /\
  (forall stop cur k v n, (length cur <= n)%nat ->
     dec_entry n stop cur k v = dec_entry (length cur) stop cur k v).
Proof. exact decode_total_no_overread_proof. Qed.

(* What a successful decode makes the receiver hold (path, linkname, xattr keys and values,
   payload, retained unknown fields) is no larger than the input — PROVIDED no map entry's
   key/value runs past the entry's declared length (no_overrun_*: executable predicate on
   the input, Model/CodecBound.v). *)
Theorem decoded_size_le_input :
  (forall b su, decode_stat_u b = Some su -> no_overrun_stat b = true -> stat_alloc su <= len b) /\
  (forall b x, decode_packet_u b = Some x -> no_overrun_packet b = true -> packet_alloc x <= len b).
Proof. exact decoded_size_le_input_proof. Qed.

(* The unrestricted statement
     forall b su, decode_stat_u b = Some su -> stat_alloc su <= len b
   is FALSE of the code: the entry loop checks key/value lengths against the end of the
   message, then rewinds to the end of the entry and decodes the overrun bytes again.
   Witness (corpus/C20/overrun.case, replayed on the real UnmarshalVT by every check):
   16 bytes decode to 26, the 18-byte Packet wrapping them likewise.
   Known finding map-entry-overrun-overallocates. *)
Theorem decoded_size_le_input_refuted :
  (exists b su, decode_stat_u b = Some su /\ len b = 16 /\ stat_alloc su = 26) /\
  (exists b x, decode_packet_u b = Some x /\ len b = 18 /\ packet_alloc x = 26).
Proof. exact decoded_size_le_input_refuted_proof. Qed.

(* ---- generic protobuf runtime ------------------------------------------------------------ *)

(* With valid UTF-8 in path, linkname and xattr keys the generic runtime (same wire format +
   proto3 string validation) and the VT codec interoperate in both directions. *)
Theorem generic_agrees :
  (forall s, wf_stat s -> utf8_valid_stat s = true ->
     generic_encode_stat s = Some (encode_stat s) /\
     generic_decode_stat (encode_stat s) = Some s) /\
  (forall p, wf_packet p -> utf8_valid_packet p = true ->
     generic_encode_packet p = Some (encode_packet p) /\
     generic_decode_packet (encode_packet p) = Some p).
Proof. exact generic_agrees_proof. Qed.

(* The unrestricted statement (forall wf s, generic_decode_stat (encode_stat s) = Some s) is
   FALSE: a file name that is not UTF-8 ("a\xffb") round-trips through the VT codec and is
   refused by the generic runtime when marshalling and when unmarshalling.
   Known finding K2 non-utf8-string-generic-runtime (replayed by kind 2003 on every check). *)
Theorem generic_agrees_refuted :
  exists s, wf_stat s /\ decode_stat (encode_stat s) = Some s /\
            generic_encode_stat s = None /\ generic_decode_stat (encode_stat s) = None.
Proof. exact generic_agrees_refuted_proof. Qed.

(* ---- framing -------------------------------------------------------------------------- *)

(* Any sequence of sendable packets (any number, any sizes below 2^32 — hence also larger than
   the 32 KiB pooled buffer —, empty packets included) written by SendMsg is read back by
   repeated RecvMsg identical and in order and then ends cleanly (no trailing error item),
   for EVERY way [chunks] in which the underlying reader splits the byte stream (1-byte
   reads, reads returning 0 bytes, reads spanning several frames). *)
Theorem recv_all_fragmentation :
  forall msgs chunks, Forall sendable msgs ->
    concat chunks = concat (map send_msg msgs) ->
    recv_msgs chunks = map Some msgs.
Proof. exact FramingP.recv_all_fragmentation. Qed.

(* ... and for every map iteration order chosen independently for every frame. *)
Theorem recv_all_fragmentation_any_order :
  forall msgs frames chunks, Forall sendable msgs -> Forall2 frame_of msgs frames ->
    concat chunks = concat frames -> recv_msgs chunks = map Some msgs.
Proof. exact FramingP.recv_all_fragmentation_any_order. Qed.

(* Readers may report an error TOGETHER with data (io.Reader contract: n > 0 and io.EOF with
   the final bytes — iotest.DataErrReader, decompressors, HTTP/TLS bodies — or any other
   error).  A reader is a list of chunks each carrying the error reported by the Read that
   exhausts it; io.ReadFull counts a Read that completes the buffer whatever it reports.
   For every fragmentation whose reader reports an error at most with its last chunk
   (tail_flagged), nothing is lost and the stream ends cleanly. *)
Theorem recv_all_fragmentation_x :
  forall msgs chunks, Forall sendable msgs -> tail_flagged chunks ->
    xdata chunks = concat (map send_msg msgs) -> recv_msgs_x chunks = map Some msgs.
Proof. exact FramingP.recv_all_fragmentation_x. Qed.

Theorem recv_all_fragmentation_x_any_order :
  forall msgs frames chunks, Forall sendable msgs -> Forall2 frame_of msgs frames -> tail_flagged chunks ->
    xdata chunks = concat frames -> recv_msgs_x chunks = map Some msgs.
Proof. exact FramingP.recv_all_fragmentation_x_any_order. Qed.

(* The extended reader model is conservative: on readers that never report an error with
   data it is the chunk-list model of recv_all_fragmentation (the correspondence run executes
   recv_msgs_x). *)
Theorem recv_msgs_quiet :
  forall chunks, recv_msgs_x (quiet chunks) = recv_msgs chunks.
Proof. exact FramingP.recv_msgs_quiet. Qed.

(* ---- buffer.go ------------------------------------------------------------------------- *)

(* WriteTo of the chunked buffer emits exactly the records in allocation order, for records
   of every size (below, at and above the chunk size). *)
Theorem buffer_is_concat :
  forall recs, write_to (alloc_all recs) = concat recs.
Proof. exact FramingP.buffer_is_concat. Qed.

(* No chunk ever holds more than its capacity. *)
Theorem buffer_chunks_fit :
  forall recs, chunks_fit (alloc_all recs).
Proof. exact FramingP.buffer_chunks_fit. Qed.

(* ---- metadata listing file (used by C19) -------------------------------------------------- *)

(* The listing receive.go records — per Stat a 4-byte little-endian length followed by the VT
   encoding — is parsed back, record by record, to exactly the recorded Stats in order.
   listable = well-formed and SizeVT < 2^32 (the length is written as uint32(n)). *)
Theorem listing_roundtrip :
  forall stats, Forall listable stats ->
    decode_listing (concat (map lframe (map encode_stat stats))) = Some stats.
Proof. exact listing_roundtrip_proof. Qed.

(* ... for every map iteration order chosen independently for every record *)
Theorem listing_roundtrip_any_order :
  forall stats recs, Forall listable stats -> Forall2 lrecord_of stats recs ->
    decode_listing (concat recs) = Some stats.
Proof. exact listing_roundtrip_any_order_proof. Qed.

(* ... and through the chunked buffer of buffer.go, i.e. for the bytes of the file itself *)
Theorem listing_file_roundtrip :
  forall stats recs, Forall listable stats -> Forall2 lrecord_of stats recs ->
    decode_listing (write_to (alloc_all recs)) = Some stats.
Proof. exact listing_file_roundtrip_proof. Qed.

Print Assumptions stat_roundtrip.
Print Assumptions packet_roundtrip.
Print Assumptions size_correct.
Print Assumptions canonical_any_order.
Print Assumptions varint_roundtrip.
Print Assumptions size_of_varint_formula.
Print Assumptions decode_total_no_overread.
Print Assumptions decoded_size_le_input.
Print Assumptions decoded_size_le_input_refuted.
Print Assumptions generic_agrees.
Print Assumptions generic_agrees_refuted.
Print Assumptions recv_all_fragmentation.
Print Assumptions recv_all_fragmentation_any_order.
Print Assumptions recv_all_fragmentation_x.
Print Assumptions recv_all_fragmentation_x_any_order.
Print Assumptions recv_msgs_quiet.
Print Assumptions buffer_is_concat.
Print Assumptions buffer_chunks_fit.
Print Assumptions listing_roundtrip.
Print Assumptions listing_roundtrip_any_order.
Print Assumptions listing_file_roundtrip.

(* ---- non-vacuity ---------------------------------------------------------------------- *)

(* a Stat with a non-UTF-8 name, max uint32s, size = int64(-1), mtime = max int64,
   devmajor = min int64, and two xattrs (one with an empty value) *)
Definition ex_stat : stat :=
  {| st_path := [100; 105; 114; 47; 102; 255];
     st_mode := 4294967295; st_uid := 4294967295; st_gid := 0;
     st_size := 18446744073709551615;
     st_mtime := 9223372036854775807;
     st_linkname := [];
     st_devmajor := 9223372036854775808; st_devminor := 1;
     st_xattrs := [([117; 115; 101; 114; 46; 97], [1; 2; 3]); ([117; 115; 101; 114; 46; 98], [])] |}.

Example ex_stat_roundtrips :
  wf_stat ex_stat /\ decode_stat (encode_stat ex_stat) = Some ex_stat /\
  len (encode_stat ex_stat) = 81 /\ size_stat ex_stat = 81.
Proof. vm_compute. repeat split; reflexivity. Qed.

(* the other map order gives different bytes and the same value *)
Example ex_stat_other_order :
  bytes_eqb (encode_stat_ord (rev (st_xattrs ex_stat)) ex_stat) (encode_stat ex_stat) = false /\
  decode_stat (encode_stat_ord (rev (st_xattrs ex_stat)) ex_stat) = Some ex_stat.
Proof. vm_compute. split; reflexivity. Qed.

(* negative enum value (int32 -1), nested Stat, payload *)
Definition ex_packet : packet :=
  {| ptype := 4294967295; pstat := Some ex_stat; pid := 4294967295; pdata := [0; 255; 128] |}.
Example ex_packet_roundtrips :
  wf_packet ex_packet /\ decode_packet (encode_packet ex_packet) = Some ex_packet /\
  len (encode_packet ex_packet) = size_packet ex_packet.
Proof. vm_compute. repeat split; reflexivity. Qed.

(* the decoder is not the identity on garbage: errors are reported, unknown fields are kept,
   repeated scalars are last-wins *)
Example ex_decoder_discriminates :
  decode_stat [10; 5; 97] = None /\                                  (* length beyond the input *)
  decode_stat [12] = None /\                                         (* end-group *)
  decode_stat_u [16; 1; 16; 2; 125; 0; 0; 0; 0] =                     (* mode twice + fixed32 field 15 *)
    Some (set_mode empty_stat 2, [125; 0; 0; 0; 0]).
Proof. vm_compute. repeat split; reflexivity. Qed.

(* the no-overrun hypothesis holds of real encodings and fails exactly on the witness; the
   UTF-8 hypothesis separates ex_stat (name ends in \xff) from its ASCII variant *)
Example ex_overrun_predicate :
  no_overrun_stat (encode_stat ex_stat) = true /\ no_overrun_packet (encode_packet ex_packet) = true /\
  no_overrun_stat overrun_witness = false /\ no_overrun_packet (18 :: 16 :: overrun_witness) = false /\
  option_map stat_alloc (decode_stat_u overrun_witness) = Some 26.
Proof. vm_compute. repeat split; reflexivity. Qed.
Example ex_generic :
  utf8_valid_stat ex_stat = false /\ generic_decode_stat (encode_stat ex_stat) = None /\
  (let s := set_path ex_stat [100; 195; 169] in
   wf_stat s /\ utf8_valid_stat s = true /\ generic_decode_stat (encode_stat s) = Some s).
Proof. vm_compute. repeat split; reflexivity. Qed.

(* a concrete stream: packet, empty packet (zero-length frame), packet; read one byte at a
   time with a zero-byte read before every byte *)
Definition ex_msgs : list packet :=
  [ex_packet; empty_packet; {| ptype := 2; pstat := None; pid := 7; pdata := [1; 2; 3; 4; 5] |}].
Definition ex_stream : bytes := concat (map send_msg ex_msgs).
Example ex_fragmentation_1byte :
  Forall sendable ex_msgs /\
  recv_msgs (flat_map (fun b => [[]; [b]]) ex_stream) = map Some ex_msgs /\
  recv_msgs [ex_stream] = map Some ex_msgs.
Proof.
  split; [repeat constructor|]. vm_compute. split; reflexivity.
Qed.

(* readers that report errors with data: io.EOF with the final byte of 1-byte reads loses
   nothing; errors on Reads that complete a header / body are dropped; an error before a
   buffer is complete fails the call; (0, io.EOF) between frames ends the stream cleanly *)
Definition ex_last_eof (cs : list bytes) : list (bytes * rerr) :=
  match rev cs with
  | [] => []
  | c :: r => quiet (rev r) ++ [(c, REof)]
  end.
Example ex_reader_errors_with_data :
  let p3 := {| ptype := 2; pstat := None; pid := 7; pdata := [1; 2; 3; 4; 5] |} in
  recv_msgs_x (ex_last_eof (map (fun b => [b]) ex_stream)) = map Some ex_msgs /\
  recv_msgs_x [(ex_stream, REof)] = map Some ex_msgs /\
  recv_msgs_x [(ex_stream, RErr)] = map Some ex_msgs /\
  recv_msgs_x [(send_msg ex_packet ++ send_msg empty_packet, REof)] = [Some ex_packet; Some empty_packet] /\
  (* every piece ends at a header end or a body end and reports an error *)
  recv_msgs_x [(firstn 4 (send_msg p3), RErr); (skipn 4 (send_msg p3), REof);
               (send_msg empty_packet, RErr); (firstn 4 (send_msg p3), REof); (skipn 4 (send_msg p3), RErr)]
    = [Some p3; Some empty_packet; Some p3] /\
  (* an error one byte before the body is complete *)
  recv_msgs_x [(firstn 10 (send_msg p3), RErr); (skipn 10 (send_msg p3), RNone)] = [None] /\
  recv_msgs_x [(firstn 10 (send_msg p3), REof); (skipn 10 (send_msg p3), RNone)] = [None] /\
  (* (0, io.EOF) between two frames: clean end, the second frame is never read *)
  recv_msgs_x [(send_msg p3, RNone); ([], REof); (send_msg p3, RNone)] = [Some p3] /\
  recv_msgs_x [(send_msg p3, RNone); ([], RErr); (send_msg p3, RNone)] = [Some p3; None].
Proof. vm_compute. repeat split; reflexivity. Qed.

(* a truncated stream ends with an error item, never with a wrong packet *)
Example ex_truncated :
  recv_msgs [firstn 20 ex_stream] = [None] /\
  recv_msgs [firstn 3 ex_stream] = [None] /\
  recv_msgs [firstn 109 ex_stream; firstn 2 (skipn 109 ex_stream)] = [Some ex_packet; None].
Proof. vm_compute. repeat split; reflexivity. Qed.

(* a packet larger than the 32 KiB pooled buffer, cut at the pool size *)
Definition ex_big : packet :=
  {| ptype := 2; pstat := None; pid := 1; pdata := repeat 7 (N.to_nat 40000) |}.
Example ex_big_packet :
  32768 <? size_packet ex_big = true /\
  (let s := send_msg ex_big ++ send_msg empty_packet in
   match recv_msgs [firstn (N.to_nat 32768) s; skipn (N.to_nat 32768) s] with
   | [Some p; Some q] =>
     (ptype p =? 2) && (pid p =? 1) && bytes_eqb (pdata p) (pdata ex_big) &&
     match pstat p with None => true | Some _ => false end &&
     (ptype q =? 0) && (pid q =? 0) && bytes_eqb (pdata q) [] &&
     match pstat q with None => true | Some _ => false end
   | _ => false
   end) = true.
Proof. vm_compute. split; reflexivity. Qed.

(* buffer: roll-over, a record above the chunk size, exact fill *)
Example ex_buffer :
  let recs := [repeat 1 (N.to_nat 32767); [2]; [3]; repeat 4 (N.to_nat 40000); []; [5]] in
  chunk_shape (alloc_all recs) = [(32768, 32768); (1, 32768); (40000, 40000); (1, 32768)] /\
  bytes_eqb (write_to (alloc_all recs)) (concat recs) = true.
Proof. vm_compute. split; reflexivity. Qed.

(* ---- source-derived obligation (regenerated from /repo on every run): field numbers and
        wire types of the generated code (types/*.pb.go struct tags) are the tag bytes the
        model encoder writes, in this order; the chunk size of buffer.go ---- *)
Definition tags_of (fields : list (N * N * list N)) : list N :=
  map (fun x => fst (fst x) * 8 + snd (fst x)) fields.
Definition with_tags (tags : list N) (payloads : list bytes) : bytes :=
  concat (map (fun tp => fst tp :: snd tp) (combine tags payloads)).
Definition ones_stat : stat :=
  {| st_path := [97]; st_mode := 1; st_uid := 1; st_gid := 1; st_size := 1; st_mtime := 1;
     st_linkname := [97]; st_devmajor := 1; st_devminor := 1; st_xattrs := [([107], [118])] |}.
Example from_source_wire_tags :
  encode_stat ones_stat =
    with_tags (tags_of FromSource.stat_pb_fields)
      [[1; 97]; [1]; [1]; [1]; [1]; [1]; [1; 97]; [1]; [1]; [6; 10; 1; 107; 18; 1; 118]] /\
  encode_packet {| ptype := 1; pstat := Some empty_stat; pid := 1; pdata := [97] |} =
    with_tags (tags_of FromSource.packet_pb_fields) [[1]; [0]; [1]; [1; 97]] /\
  FromSource.buffer_chunk_size = chunk_size.
Proof. vm_compute. repeat split; reflexivity. Qed.

(* a listing of three records (one of them the empty Stat: 00 00 00 00), its exact bytes for
   the small records, and what a reader makes of cut files *)
Example ex_listing :
  let stats := [ex_stat; empty_stat; ones_stat] in
  let file := concat (map lframe (map encode_stat stats)) in
  Forall listable stats /\
  decode_listing file = Some stats /\
  skipn 85 file = [0; 0; 0; 0; 28; 0; 0; 0] ++ encode_stat ones_stat /\
  decode_listing (firstn 87 file) = None /\             (* short header *)
  decode_listing (firstn 100 file) = None /\            (* short record *)
  decode_listing (firstn 89 file) = Some [ex_stat; empty_stat].
Proof.
  cbv zeta. split; [repeat constructor|]. vm_compute. repeat split; reflexivity.
Qed.
