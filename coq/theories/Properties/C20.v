(* C20 — placeholder while the correspondence is brought up *)
From Coq Require Import List NArith Bool.
From FS Require Import Sx Model.Varint Model.Codec.
