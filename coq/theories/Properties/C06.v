(* C06 — Sender speaks the documented wire protocol to any conforming receiver.

   The sender (send.go) is modelled by the deterministic event acceptor
   [sender_acc exp] (Model/SenderAcc.v) over the events at its boundary:
   Out p / Inp p (packets sent / received), InEof, Fault, Progress n last, Return ok.
   [exp = sender_entries view served] is what the view obliges the sender to say: the walk
   of the view after the hard-link reset of Send, with the bytes Open/Read serves per entry.
   Every theorem quantifies over ALL traces the acceptor follows ([sender_run exp tr = Some s];
   complete traces are those with [s_ret s = Some _]), hence over every order, timing and
   concurrency of requests.  The peer is arbitrary: STAT/DATA packets from it are ignored by
   the sender (as in the code), so no hypothesis on the peer is needed.
   This file holds only statements closed by [exact]; proofs are in Proofs/SenderAccP.v. *)
From Coq Require Import List NArith Bool Sorted.
From FS Require Import Sx Model.Path Model.Stat Model.Tree Model.AccEvents Model.SenderAcc
     Proofs.AccEventsP Proofs.SenderAccP.
From FS Require Model.Lts Model.LtsAcc Proofs.LtsAccP5 Proofs.LtsAccP6.
Import ListNotations.
Open Scope N_scope.

(* One STAT per entry of the view, in the order of the view's walk (ascending path order
   when the view is a walk, C09), identical to the walked stat except for the Linkname
   rewritten by the hard-link reset; content = what Open/Read serves. *)
Theorem one_stat_per_view_entry : forall view served,
  Forall2 (fun e e' => set_linkname (fst e') [] = set_linkname (fst e) [] /\ snd e' = served (fst e', snd e))
          (walk_root view) (sender_entries view served).
Proof. exact sender_entries_same. Qed.

(* stat_sequence: the STATs sent are a prefix of "the expected stats in order, then exactly
   one empty STAT", and all of it when the call returns success.  The id of an entry is its
   position in this sequence, counting every STAT ([regular_at exp n] below indexes [exp]). *)
Theorem stat_sequence : forall view served tr s,
  let exp := sender_entries view served in
  sender_run exp tr = Some s ->
  (exists m, stats_out tr = firstn m (full_stats exp)) /\
  (s_ret s = Some true -> stats_out tr = full_stats exp).
Proof. intros view served tr s. exact (stat_sequence_proof _ tr s). Qed.

(* data_per_request: for every received REQ n that the protocol allows - n is the position
   of a regular file, its STAT has been sent (or is being sent: n <= number of STATs sent so
   far), n was not requested before - no DATA for n precedes the REQ, the DATA payloads for n
   after it are non-empty chunks whose concatenation is a prefix of the file's bytes, at most
   one empty DATA n follows and only once the bytes are complete; when the call returns
   success they are exactly: chunks concatenating to the file's bytes, then one empty DATA.
   (data_out n lists the payloads of id n in trace order whatever else is interleaved.) *)
Theorem data_per_request : forall view served tr s pre n post c,
  let exp := sender_entries view served in
  sender_run exp tr = Some s -> tr = pre ++ Inp (PReq n) :: post ->
  regular_at exp (N.to_nat n) = Some c -> n <= N.of_nat (nstats pre) -> ~ List.In (Inp (PReq n)) pre ->
  data_out n pre = [] /\
  exists cs, Forall nonempty cs /\
    ((data_out n post = cs /\ exists rem, concat cs ++ rem = c) \/
     (data_out n post = cs ++ [[]] /\ concat cs = c)) /\
    (s_ret s = Some true -> data_out n post = cs ++ [[]] /\ concat cs = c).
Proof. intros view served tr s pre n post c. exact (data_per_request_proof _ tr s pre n post c). Qed.

(* bad_ids_fail: a REQ for an id that was already requested, or lies beyond the STAT being
   sent (never announced), or is not the position of a regular file, makes the call fail:
   the error latch is set, success is impossible, and the sender reads nothing further.
   (An id equal to the number of STATs sent so far races its own STAT: the code registers
   an id just before handing the STAT to the stream, so such a guess may be served or refused;
   it is covered by data_per_request when served.) *)
Theorem bad_ids_fail : forall view served tr s pre n post,
  let exp := sender_entries view served in
  sender_run exp tr = Some s -> tr = pre ++ Inp (PReq n) :: post ->
  (List.In (Inp (PReq n)) pre \/ N.of_nat (nstats pre) < n \/ regular_at exp (N.to_nat n) = None) ->
  s_err s = true /\ s_ret s <> Some true /\ Forall (fun e => is_in e = false) post.
Proof. intros view served tr s pre n post. exact (bad_ids_fail_proof _ tr s pre n post). Qed.

(* fin_echo: success means FIN was received and echoed, and every id ever requested was
   served completely (chunks = the file's bytes, then the terminator)... *)
Theorem fin_echo : forall view served tr s,
  let exp := sender_entries view served in
  sender_run exp tr = Some s -> s_ret s = Some true ->
  List.In (Inp PFin) tr /\ List.In (Out PFin) tr /\
  (forall n, List.In (Inp (PReq n)) tr ->
     exists c cs, regular_at exp (N.to_nat n) = Some c /\ data_out n tr = cs ++ [[]] /\
                  Forall nonempty cs /\ concat cs = c).
Proof. intros view served tr s. exact (fin_echo_proof _ tr s). Qed.

(* ... and FIN is only ever sent as an echo, once. *)
Theorem fin_only_as_echo : forall view served tr s pre post,
  sender_run (sender_entries view served) tr = Some s -> tr = pre ++ Out PFin :: post ->
  List.In (Inp PFin) pre /\ ~ List.In (Out PFin) pre /\ ~ List.In (Out PFin) post.
Proof. intros view served tr s pre post. exact (fin_order_proof _ tr s pre post). Qed.

(* a failed call has its error (or race) latch set; the latches are only set by a refused
   request, ERR / EOF from the peer, or a local fault (sender_acc) *)
Theorem failure_is_latched : forall view served tr s,
  sender_run (sender_entries view served) tr = Some s -> s_ret s = Some false ->
  s_err s = true \/ s_soft s = true.
Proof. intros view served tr s. exact (return_false_latched _ tr s). Qed.

(* progress_monotone_one_final: progress values never decrease, and a complete trace ends
   with exactly one final call followed by the return; no earlier call is final. *)
Theorem progress_monotone_one_final : forall view served tr s b,
  sender_run (sender_entries view served) tr = Some s -> s_ret s = Some b ->
  StronglySorted N.le (map fst (progress_of tr)) /\
  exists tr0 n, tr = tr0 ++ [Progress n true; Return b] /\ Forall (fun p => snd p = false) (progress_of tr0).
Proof. intros view served tr s b. exact (progress_proof _ tr s b). Qed.

(* sender_lts_refines_acc: the acceptor is tied to the goroutine-level LTS of C04/C08
   (Model/Lts.v: walker, workers, request loop, syncStream mutex, bounded stream).  For every
   LTS instance p, expectation exp and chunking ch related by [LtsAcc.abs_ok] (same number of
   entries; "file" = regular; ch i = non-empty chunks, e_chunks many, concatenating to the bytes
   served for position i; at least one worker), every run of the LTS from its initial state
   that contains no fault of the SENDER's environment (FS fault, cancellation of Send's
   context, failure of the sender's endpoint; the receiver side may do anything the LTS
   allows, faults included) produces at the sender's boundary - packets concretised by
   [LtsAcc.sender_events] (the i-th STAT is the stat of exp[i], the c-th DATA of id h is chunk
   c of ch h, received REQ id |-> Inp (PReq id), the deferred final progress call and the
   return at g.Wait()) - a trace that the acceptor follows, and the acceptor has recorded the
   return value of Send exactly when the LTS has.  Hence all theorems of this file hold of
   those LTS runs. *)
Theorem sender_lts_refines_acc :
  forall (p : Lts.params) (exp : list entry) (ch : nat -> list bytes) (emsg rmsg : bytes) (fprog : N)
         (ls : list Lts.label) (st : Lts.state),
  LtsAcc.abs_ok p exp ch ->
  LtsAcc.sender_fault_free ls = true ->
  Lts.run p (Lts.init p) ls = Some st ->
  exists a, sender_run exp (LtsAcc.lts_trace p exp ch emsg rmsg fprog (Lts.init p) ls) = Some a /\
            s_ret a = Lts.send_ret st.
Proof. intros p exp ch emsg rmsg fprog ls st Habs. exact (LtsAccP5.sender_lts_refines_acc_proof p exp ch emsg rmsg fprog Habs ls st). Qed.

(* the abstraction is not vacuous: every expectation has an LTS instance and a chunking
   (the real parameters 4 workers / 128 / 128 / 128, any stream capacities, one chunk per
   non-empty file) *)
Theorem lts_abstraction_exists : forall (exp : list entry) (capSR capRS : nat),
  LtsAcc.abs_ok (LtsAcc.lts_params_of exp capSR capRS) exp (LtsAcc.one_chunk exp).
Proof. exact LtsAccP6.abs_ok_params_of_proof. Qed.

Print Assumptions one_stat_per_view_entry.
Print Assumptions sender_lts_refines_acc.
Print Assumptions lts_abstraction_exists.
Print Assumptions stat_sequence.
Print Assumptions data_per_request.
Print Assumptions bad_ids_fail.
Print Assumptions fin_echo.
Print Assumptions fin_only_as_echo.
Print Assumptions failure_is_latched.
Print Assumptions progress_monotone_one_final.

(* ---- non-vacuity: a view with a directory, two files in it and a symlink; ids 1 and 2
        are the files.  An interleaved, chunked, successful conversation is accepted; the
        classic protocol bugs are rejected. ---- *)
Definition mkst (m : N) (ln : bytes) : stat :=
  {| st_path := []; st_mode := m; st_uid := 0; st_gid := 0; st_size := 0; st_mtime := 0;
     st_linkname := ln; st_devmajor := 0; st_devminor := 0; st_xattrs := [] |}.
Definition D := 100%N. Definition A := 97%N. Definition B := 98%N. Definition L := 108%N.
Definition view0 : list node :=
  [ Node [D] (mkst (ModeDir + 493) []) []
      [ Node [A] (mkst 420 []) [1; 2; 3] [];
        Node [B] (mkst 420 []) [] [] ];
    Node [L] (mkst (ModeSymlink + 511) [D]) [] [] ].
Definition exp0 := sender_entries view0 (fun e => snd e).
Definition stat_at (n : nat) : option stat := option_map fst (nth_error exp0 n).
Definition STAT (n : nat) : event := Out (PStat (stat_at n)).

Definition good_trace : list event :=
  [ Progress 10 false; STAT 0; Progress 20 false; STAT 1;
    Inp (PReq 1);                              (* requested while the STAT stream is still running *)
    Progress 30 false; STAT 2; Out (PData 1 [1; 2]); Progress 34 false;
    Inp (PReq 2); Progress 40 false; STAT 3;
    Out (PData 2 []);                          (* empty file: terminator only; interleaved with id 1 *)
    Out (PData 1 [3]); Progress 47 false; Out (PStat None); Out (PData 1 []);
    Inp PFin; Out PFin; Progress 47 true; Return true ].

Example good_trace_accepted : sender_accepts exp0 good_trace = Some true.
Proof. vm_compute. reflexivity. Qed.

(* ids must count every STAT: serving "file number 1" (= b, id 2) for REQ 1 is rejected *)
Example renumbered_ids_rejected :
  sender_accepts exp0 [Progress 1 false; STAT 0; STAT 1; STAT 2; STAT 3; Out (PStat None);
                       Inp (PReq 1); Out (PData 1 []); Inp PFin; Out PFin; Progress 1 true; Return true] = None.
Proof. vm_compute. reflexivity. Qed.

(* a missing terminator, reordered chunks, a second terminator: rejected *)
Example missing_terminator_rejected :
  sender_accepts exp0 [STAT 0; STAT 1; STAT 2; STAT 3; Out (PStat None); Inp (PReq 1); Out (PData 1 [1; 2; 3]);
                       Inp PFin; Out PFin; Progress 1 true; Return true] = None.
Proof. vm_compute. reflexivity. Qed.
Example reordered_chunks_rejected :
  sender_accepts exp0 [STAT 0; STAT 1; STAT 2; STAT 3; Out (PStat None); Inp (PReq 1); Out (PData 1 [3]);
                       Out (PData 1 [1; 2]); Out (PData 1 []); Inp PFin; Out PFin; Progress 1 true; Return true] = None.
Proof. vm_compute. reflexivity. Qed.
Example double_terminator_rejected :
  sender_accepts exp0 [STAT 0; STAT 1; STAT 2; STAT 3; Out (PStat None); Inp (PReq 2); Out (PData 2 []);
                       Out (PData 2 []); Inp PFin; Out PFin; Progress 1 true; Return true] = None.
Proof. vm_compute. reflexivity. Qed.

(* a duplicate request, a directory id, an unknown id: success is rejected, failure accepted *)
Example bad_requests_must_fail :
  (forall bad, List.In bad [[Inp (PReq 1); Inp (PReq 1)]; [Inp (PReq 0)]; [Inp (PReq 3)]; [Inp (PReq 4)]; [Inp (PReq 4294967295)]] ->
     sender_accepts exp0 ([STAT 0; STAT 1; STAT 2; STAT 3; Out (PStat None)] ++ bad ++ [Progress 1 true; Return true]) = None /\
     sender_accepts exp0 ([STAT 0; STAT 1; STAT 2; STAT 3; Out (PStat None)] ++ bad ++ [Progress 1 true; Return false]) = Some false).
Proof.
  intros bad H. simpl in H.
  repeat (destruct H as [H|H]; [subst bad; vm_compute; split; reflexivity|]). contradiction.
Qed.

(* success without FIN, or an unprompted FIN: rejected *)
Example no_fin_no_success :
  sender_accepts exp0 [STAT 0; STAT 1; STAT 2; STAT 3; Out (PStat None); Progress 1 true; Return true] = None /\
  sender_accepts exp0 [STAT 0; Out PFin] = None.
Proof. vm_compute. split; reflexivity. Qed.

(* the LTS instance of exp0 (unbuffered stream), run by the first-enabled scheduler until
   nothing moves (102 steps; the receiver is then draining the stream and waits for the
   transport to close, an environment event): Send has returned success, and the boundary
   trace of the sender - 4 STATs, end marker, both files requested and served, FIN echoed -
   is an accepted complete trace *)
Example lts_run_accepted :
  let p := LtsAcc.lts_params_of exp0 0 0 in
  let ls := LtsAcc.first_sched p 400 (Lts.init p) in
  LtsAcc.sender_fault_free ls = true /\
  option_map Lts.send_ret (Lts.run p (Lts.init p) ls) = Some (Some true) /\
  sender_accepts exp0 (LtsAcc.lts_trace p exp0 (LtsAcc.one_chunk exp0) [] [] 0 (Lts.init p) ls) = Some true /\
  data_out 1 (LtsAcc.lts_trace p exp0 (LtsAcc.one_chunk exp0) [] [] 0 (Lts.init p) ls) = [[1; 2; 3]; []].
Proof. vm_compute. repeat split; reflexivity. Qed.

(* ---- source equivalence (tools/go2coq; gen/SrcFns.v is regenerated from /repo on every run): the
        Gallina definition translated from send.go's fileCanRequestData equals the model predicate
        mode_is_regular used by sender_acc ---- *)
From FSGen Require SrcFns.
From FS Require Proofs.Src.FileCanRequestDataEq.
Theorem fileCanRequestData_src_eq :
  forall m, SrcFns.fileCanRequestData m = mode_is_regular m.
Proof. exact FileCanRequestDataEq.fileCanRequestData_src_eq. Qed.
Print Assumptions fileCanRequestData_src_eq.
