(* C06 placeholder: filled in below *)
From Coq Require Import List NArith Bool.
From FS Require Import Sx Model.AccEvents Model.SenderAcc.
Import ListNotations.
Example sender_empty_view : sender_accepts [] [Progress 0 false; Out (PStat None); Inp PFin; Out PFin; Progress 0 true; Return true] = Some true.
Proof. vm_compute. reflexivity. Qed.
