(* C07 placeholder *)
From Coq Require Import List NArith Bool.
From FS Require Import Sx Model.AccEvents Model.ReceiverAcc.
Import ListNotations.
Example receiver_empty : receiver_accepts (fun _ => true) [Inp (PStat None); Out PFin; Inp PFin; InEof; Return true] = Some true.
Proof. vm_compute. reflexivity. Qed.
