(* C07 — Receiver speaks the documented wire protocol to any conforming sender.

   The receiver (receive.go + the asynchronous data path of diskwriter.go) is modelled by
   the deterministic event acceptor [receiver_acc needs] (Model/ReceiverAcc.v) over the
   events at its boundary.  [needs p] is the verdict of the diff for path p ("the writer
   asks content for it": constantly true for a fresh destination).  The theorems quantify
   over ALL traces the acceptor follows ([receiver_run needs tr = Some s]; complete when
   [r_ret s = Some _]) - any chunk sizes, any interleaving of ids, DATA racing STAT.
   [legal_sender tr] says the packets read come from a sender that follows the protocol:
   no STAT after the empty STAT and nothing after its FIN.  DATA for an id that is not
   open is NOT assumed away: the acceptor latches the error, as the code does.
   The stored content of an id is kept as the list of payloads (newest first): the file's
   bytes are [concat (rev cs)].
   This file holds only statements closed by [exact]; proofs are in Proofs/ReceiverAccP.v. *)
From Coq Require Import List NArith Bool.
From FS Require Import Sx Model.Path Model.Stat Model.AccEvents Model.ReceiverAcc
     Proofs.AccEventsP Proofs.ReceiverAccP.
From FS Require Model.Lts Model.LtsRAcc Proofs.LtsRAccP6 Proofs.LtsRAccP7.
Import ListNotations.
Open Scope N_scope.

(* req_exactly_needed (1): every REQ n the receiver sends names the zero-based position, in
   the sequence of STATs received BEFORE the request, of a regular file without Linkname
   that the diff needs; it is sent once.  Hence never a directory, link, special file,
   unchanged file, or an id not yet announced. *)
Theorem req_exactly_needed : forall needs tr s pre n post,
  receiver_run needs tr = Some s -> legal_sender tr -> tr = pre ++ Out (PReq n) :: post ->
  (exists st, nth_error (rstats pre) (N.to_nat n) = Some st /\ reqable st = true /\ needs (st_path st) = true) /\
  ~ List.In (Out (PReq n)) pre /\ ~ List.In (Out (PReq n)) post.
Proof. exact req_exactly_needed_proof. Qed.

(* req_exactly_needed (2): by the time FIN is sent every announced regular non-link file
   the diff needs has been requested (with (1): exactly once). *)
Theorem needed_all_requested : forall needs tr s pre post,
  receiver_run needs tr = Some s -> legal_sender tr -> tr = pre ++ Out PFin :: post ->
  forall k st, nth_error (rstats pre) k = Some st -> reqable st = true -> needs (st_path st) = true ->
  List.In (Out (PReq (N.of_nat k))) pre.
Proof. exact needed_all_requested_proof. Qed.

(* stored_is_concat: as long as no error is latched, for every id the payloads held for an
   open id are exactly the DATA payloads received for it so far, in order, all non-empty;
   a closed id holds exactly its payloads up to the single terminator; an id never requested
   has received nothing - for any chunking and any interleaving of ids. *)
Theorem stored_is_concat : forall needs tr s,
  receiver_run needs tr = Some s -> legal_sender tr -> r_err s = false ->
  forall n,
    (forall cs, nlookup n (r_open s) = Some cs -> data_in n tr = rev cs /\ Forall nonempty cs) /\
    (forall cs, nlookup n (r_stored s) = Some cs -> data_in n tr = rev cs ++ [[]] /\ Forall nonempty cs) /\
    (~ List.In (Out (PReq n)) tr -> data_in n tr = []).
Proof. exact stored_is_concat_proof. Qed.

(* ... and on success every requested id is closed and its stored bytes are the
   concatenation of all DATA payloads received for it. *)
Theorem stored_on_success : forall needs tr s,
  receiver_run needs tr = Some s -> legal_sender tr -> r_ret s = Some true ->
  forall n, List.In (Out (PReq n)) tr ->
  exists cs, nlookup n (r_stored s) = Some cs /\ data_in n tr = rev cs ++ [[]] /\ Forall nonempty cs /\
             concat (data_in n tr) = concat (rev cs).
Proof. exact stored_on_success_proof. Qed.

(* fin_after_everything: FIN is sent at most once, only after the empty STAT and the
   terminator of every requested id have been received (needed_all_requested adds: and
   every needed file has been requested); nothing is requested afterwards.  That the bytes
   are on disk at that moment is observed by the correspondence run (listing taken by the
   reference sender when FIN arrives). *)
Theorem fin_after_everything : forall needs tr s pre post,
  receiver_run needs tr = Some s -> legal_sender tr -> tr = pre ++ Out PFin :: post ->
  List.In (Inp (PStat None)) pre /\
  (forall n, List.In (Out (PReq n)) pre -> List.In (Inp (PData n [])) pre) /\
  ~ List.In (Out PFin) pre /\ ~ List.In (Out PFin) post /\ (forall n, ~ List.In (Out (PReq n)) post).
Proof. exact fin_after_everything_proof. Qed.

(* eof_before_fin_is_error: end of stream before the sender's FIN has been read (in
   particular before the receiver's own FIN) makes the call fail - for any peer. *)
Theorem eof_before_fin_is_error : forall needs tr s pre post,
  receiver_run needs tr = Some s -> tr = pre ++ InEof :: post -> ~ List.In (Inp PFin) pre ->
  r_err s = true /\ r_ret s <> Some true.
Proof. exact eof_before_fin_is_error_proof. Qed.

(* success = FIN sent, FIN read, end of stream read, no error latched; a failed call has the
   latch set, which only ERR / early EOF / an illegal packet / a local fault do. *)
Theorem success_shape : forall needs tr s,
  receiver_run needs tr = Some s -> r_ret s = Some true ->
  List.In (Out PFin) tr /\ List.In (Inp PFin) tr /\ List.In InEof tr /\ r_err s = false.
Proof. exact success_shape_proof. Qed.

Theorem failure_is_latched : forall needs tr s,
  receiver_run needs tr = Some s -> r_ret s = Some false -> r_err s = true.
Proof. exact failure_latched_proof. Qed.

(* receiver_lts_refines_acc: the acceptor is tied to the goroutine-level LTS of C04/C08
   (Model/Lts.v: receive loop, dynamicWalker.fill, the diff loop, the writer goroutines,
   receiver.run's FIN/ERR goroutine, syncStream mutex, bounded stream - and the whole sender on
   the other end).  For every LTS instance p, announced stats and needs predicate related by
   [LtsRAcc.rabs_ok] (same number of entries; "file" = regular; content needed (ENeed) iff
   the acceptor wants the entry: regular, no Linkname, needs path; non-empty payloads), every
   FAULT-FREE run of the LTS from its initial state (no injected fault, cancellation, endpoint
   failure or tear-down on either side; the transport closing the sender's direction after
   Send has returned is allowed) produces at the receiver's boundary - packets concretised by
   [LtsRAcc.receiver_events] (the i-th STAT received is stats[i], DATA id carries a non-empty
   payload, DATAEND id the empty one, a writer's REQ id |-> Out (PReq id) where the mutex is
   taken, EOF, the return at g.Wait()) - a trace that the acceptor follows, and the acceptor
   has recorded the return value of Receive exactly when the LTS has.  Hence all theorems of
   this file hold of those LTS runs.  (It uses the invariants of C04/C08 about reachable and
   fault-free states - Proofs/Lts*.v - as lemmas; runs with faults are not covered.) *)
Theorem receiver_lts_refines_acc :
  forall (p : Lts.params) (stats : list stat) (needs : bytes -> bool) (pay : nat -> nat -> bytes)
         (emsg smsg : bytes) (ls : list Lts.label) (st : Lts.state),
  LtsRAcc.rabs_ok p stats needs pay ->
  LtsRAcc.no_faults ls = true ->
  Lts.run p (Lts.init p) ls = Some st ->
  exists a, receiver_run needs (LtsRAcc.lts_rtrace p stats pay emsg smsg (Lts.init p) ls) = Some a /\
            r_ret a = Lts.recv_ret st.
Proof. intros p stats needs pay emsg smsg ls st Habs. exact (LtsRAccP6.receiver_lts_refines_acc_proof p stats needs pay emsg smsg Habs ls st). Qed.

(* the abstraction is not vacuous: every announced sequence and needs predicate has an LTS
   instance (4 workers / 128 / 128 / 128, any stream capacities, one-chunk files) *)
Theorem lts_receiver_abstraction_exists :
  forall (needs : bytes -> bool) (stats : list stat) (capSR capRS : nat) (pay : nat -> nat -> bytes),
  (forall id k, pay id k <> []) ->
  LtsRAcc.rabs_ok (LtsRAcc.lts_rparams_of needs stats capSR capRS) stats needs pay.
Proof. exact LtsRAccP7.rabs_ok_params_of_proof. Qed.

Print Assumptions req_exactly_needed.
Print Assumptions receiver_lts_refines_acc.
Print Assumptions lts_receiver_abstraction_exists.
Print Assumptions needed_all_requested.
Print Assumptions stored_is_concat.
Print Assumptions stored_on_success.
Print Assumptions fin_after_everything.
Print Assumptions eof_before_fin_is_error.
Print Assumptions success_shape.
Print Assumptions failure_is_latched.

(* ---- non-vacuity: STATs for a directory (id 0), two files (ids 1, 2), a hard link to the
        first (id 3) and a symlink (id 4); the file at id 2 is unchanged. ---- *)
Definition mkst (p : bytes) (m : N) (ln : bytes) : stat :=
  {| st_path := p; st_mode := m; st_uid := 0; st_gid := 0; st_size := 0; st_mtime := 0;
     st_linkname := ln; st_devmajor := 0; st_devminor := 0; st_xattrs := [] |}.
Definition pD := [100]. Definition pA := [100; 47; 97]. Definition pB := [100; 47; 98].
Definition pH := [100; 47; 104]. Definition pL := [108].
Definition needs0 (p : bytes) : bool := negb (bytes_eqb p pB).
Definition S0 := Inp (PStat (Some (mkst pD (ModeDir + 493) []))).
Definition S1 := Inp (PStat (Some (mkst pA 420 []))).
Definition S2 := Inp (PStat (Some (mkst pB 420 []))).
Definition S3 := Inp (PStat (Some (mkst pH 420 pA))).
Definition S4 := Inp (PStat (Some (mkst pL (ModeSymlink + 511) pD))).
Definition SE := Inp (PStat None).

Example good_trace_accepted :
  receiver_accepts needs0
    [S0; S1; Out (PReq 1); S2; Inp (PData 1 [7]); S3; S4; Inp (PData 1 [8; 9]); SE; Inp (PData 1 []);
     Out PFin; Inp PFin; InEof; Return true] = Some true.
Proof. vm_compute. reflexivity. Qed.

(* requests for a directory, the unchanged file, the hard link, the symlink, a future id, and
   a second request for the same id are all rejected *)
Example wrong_requests_rejected :
  forall n, List.In n [0; 2; 3; 4; 5] ->
  receiver_accepts needs0 [S0; S1; S2; S3; S4; Out (PReq n)] = None.
Proof. intros n H. simpl in H. repeat (destruct H as [H|H]; [subst n; vm_compute; reflexivity|]). contradiction. Qed.
Example future_id_rejected : receiver_accepts needs0 [S0; Out (PReq 1)] = None.
Proof. vm_compute. reflexivity. Qed.
Example double_request_rejected : receiver_accepts needs0 [S0; S1; Out (PReq 1); Out (PReq 1)] = None.
Proof. vm_compute. reflexivity. Qed.

(* ids must count every STAT: requesting "file number 0" for d/a is rejected *)
Example renumbered_ids_rejected : receiver_accepts needs0 [S0; S1; Out (PReq 0)] = None.
Proof. vm_compute. reflexivity. Qed.

(* FIN before the end marker, before a terminator, or before a needed file was requested: rejected *)
Example early_fin_rejected :
  receiver_accepts needs0 [S0; S1; Out (PReq 1); Inp (PData 1 []); Out PFin] = None /\
  receiver_accepts needs0 [S0; S1; Out (PReq 1); SE; Inp (PData 1 [7]); Out PFin] = None /\
  receiver_accepts needs0 [S0; S1; SE; Out PFin] = None.
Proof. vm_compute. repeat split; reflexivity. Qed.

(* EOF before FIN: success rejected, failure accepted *)
Example early_eof_must_fail :
  receiver_accepts needs0 [S0; S1; InEof; Return true] = None /\
  receiver_accepts needs0 [S0; S1; InEof; Return false] = Some false /\
  receiver_accepts needs0 [S0; SE; Out PFin; InEof; Return true] = None.
Proof. vm_compute. repeat split; reflexivity. Qed.

(* the acceptor's stored payloads for the good trace: id 1 holds [7] then [8;9] *)
Example stored_payloads :
  option_map (fun s => r_stored s)
    (receiver_run needs0 [S0; S1; Out (PReq 1); S2; Inp (PData 1 [7]); Inp (PData 1 [8; 9]); Inp (PData 1 [])])
  = Some [(1, [[8; 9]; [7]])].
Proof. vm_compute. reflexivity. Qed.


(* the LTS instance of the five stats above (d/ d/a d/b d/h(link) l; d/b not needed), unbuffered
   stream, run by the first-enabled scheduler to the end (the transport closes after Send has
   returned): both calls return success, the receiver's boundary trace is an accepted complete
   trace in which exactly id 1 (d/a) is requested and its payload stored *)
Example lts_receiver_run_accepted :
  let stats0 := [mkst pD (ModeDir + 493) []; mkst pA 420 []; mkst pB 420 []; mkst pH 420 pA; mkst pL (ModeSymlink + 511) pD] in
  let p := LtsRAcc.lts_rparams_of needs0 stats0 0 0 in
  let ls := LtsRAcc.complete_run p 400 in
  let tr := LtsRAcc.lts_rtrace p stats0 (fun _ _ => [7]) [] [] (Lts.init p) ls in
  LtsRAcc.no_faults ls = true /\
  option_map Lts.send_ret (Lts.run p (Lts.init p) ls) = Some (Some true) /\
  option_map Lts.recv_ret (Lts.run p (Lts.init p) ls) = Some (Some true) /\
  receiver_accepts needs0 tr = Some true /\
  filter (fun e => match e with Out _ => true | _ => false end) tr = [Out (PReq 1); Out PFin] /\
  option_map (fun s => r_stored s) (receiver_run needs0 tr) = Some [(1, [[7]])].
Proof. vm_compute. repeat split; reflexivity. Qed.
