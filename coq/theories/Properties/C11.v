(* C11 — A filtered view transfers as a self-contained tree.

   Models: Model/Hardlinks.v (hardlinkFilter.Walk / WithHardlinkReset, Hardlinks validator),
   Model/FilterWalk.v + Model/Pattern.v (filterFS.Walk, C10), Model/Validator.v (order
   validator, C12), Model/AbsDest.v + Model/Diff.v (receiver, C02/C05), and Model/SenderView.v:
     sender_view pmatch mapfn c view  = hardlink_reset (filter_walk pmatch mapfn c view)
                                        the STAT sequence Send(NewFilterFS(src, opt)) announces
     filter_open pmatch c p           filterFS.Open admits p (MatchesOrParentMatches, both matchers)
     sent_content                     bytes sendFile delivers: the source's when Open succeeds,
                                      none when it fails (the error is dropped in send.go)
   Proofs: Proofs/HardlinksP.v, RefValidP.v, TrimP.v, SenderViewP.v, SenderTransferP.v,
   C11WitnessP.v.

   Everything is quantified over the external single-pattern matcher [pmatch], the map function,
   the pattern lists and the view.  About [pmatch] NOTHING is assumed except in walk_open_agree
   (C10's [prefix_semantics] and [cfg_star_safe], for the direction "Open admits => reported").
   [wf_source view]: what a directory listing guarantees (names non-empty, without '/', not "."
   or "..", siblings strictly ascending bytewise, only directories have children).
   [source_links_ok view]: the hard links of the source are those of a canonical walk. *)
From Coq Require Import List NArith Bool.
From FS Require Import Sx Model.Path Model.Stat Model.Tree Model.Pattern Model.FilterWalk
  Model.Hardlinks Model.Validator Model.Diff Model.AbsDest Model.SenderView
  Proofs.PatternP Proofs.HardlinksP Proofs.WitnessP Proofs.RefValidP Proofs.TrimP Proofs.SenderViewP
  Proofs.SenderTransferP Proofs.C11WitnessP Proofs.FilterOptP Model.FilterOpt.
From FS Require Model.FollowLinks.
Import ListNotations.

(* ---- the hard-link reset, on any listing the filters can leave ----
   WHICH ENTRIES TAKE PART.  [hl_plain s] = s is neither a directory nor a symlink: regular files,
   FIFOs, character / block devices, sockets.  These are the entries hardlinkFilter.Walk rewrites
   and records, and the entries the receiver's Hardlinks validator checks — mkstat gives a Linkname
   to EVERY non-directory whose inode has several names.  Directories and symlinks (whose
   Linkname is the link target) pass through both untouched.  All statements below about link
   groups are about hl_plain entries of every such type (ex_fifo_group_reset). *)
Theorem reset_links_valid :
  forall l, wf_links l = true -> hardlink_check (hardlink_reset l) = None.
Proof. exact reset_links_valid_proof. Qed.

(* ... and the reset computes exactly the declarative description: every plain entry
   ends up being (empty link name) or naming the FIRST KEPT member of its link group;
   nothing else changes. *)
Theorem reset_eq_spec :
  forall l, wf_links l = true -> hardlink_reset l = reset_spec l.
Proof. exact reset_eq_spec_proof. Qed.

(* In the property's words.  l = what the filters leave.  s = a link member whose link name k
   names no entry of l (the first member of its group was filtered out), s being the first entry
   of l with that link name.  Then s is emitted with EMPTY link name and otherwise unchanged —
   in particular with the size the walk reported (stat.go reports the full size for every
   member of a link group) —, the entries before it are as many as before, and every later
   member of the group is emitted as a link naming s. *)
Theorem reset_representative :
  forall l, wf_links l = true ->
  forall pre s post k,
  l = pre ++ s :: post -> hl_plain s = true -> st_linkname s = k -> k <> [] ->
  (forall t, In t l -> st_path t <> k) ->
  (forall t, In t pre -> hl_plain t = true -> st_linkname t <> k) ->
  exists pre' post',
    hardlink_reset l = pre' ++ set_linkname s [] :: post' /\ length pre' = length pre /\
    st_size (set_linkname s []) = st_size s /\
    Forall2 (fun t t' => hl_plain t = true -> st_linkname t = k -> t' = set_linkname t (st_path s)) post post'.
Proof. exact reset_representative_proof. Qed.

(* ---- the reference filter of a well-formed source is a well-formed listing ----
   for ANY verdict V on paths: strictly ascending in protocol order, every "/"-prefix of a
   reported path is the path of a reported directory, paths clean and relative — provided the
   map function keeps path, directory/symlink bits and link name, and never answers Exclude
   for a directory. *)
Theorem reference_is_wf_listing :
  forall V mapfn view, map_keeps_shape mapfn -> map_never_drops_dirs mapfn -> wf_source view = true ->
    wf_listing (reference V mapfn view) /\
    (forall s, In s (reference V mapfn view) -> ok_path (st_path s) = true).
Proof. exact (fun V mapfn view H1 H2 => reference_wf_listing V mapfn H1 H2 view). Qed.

(* a sorted, ancestor-closed listing with clean relative paths passes the order validator (C12) *)
Theorem wf_listing_passes_validator :
  forall l, wf_listing l -> (forall s, In s l -> ok_path (st_path s) = true) ->
    run_validator (items l) = None.
Proof. exact listing_passes_validator. Qed.

(* ---- the walk as the code runs it, for ALL pattern lists and ALL matchers ----
   filterFS.Walk with both SkipDir shortcuts reports exactly C10's reference filter (incremental
   verdict) of the TRIMMED view: the source without the directories at which a shortcut fires
   ([TrimP.prune_at], a function of the path) and without everything below them.  The trimmed
   view is again a well-formed source and its walk is a sub-sequence of the source's walk.
   (C10's prune_unobservable says more — nothing selected is lost — but needs hypotheses on
   the external matcher; this needs none.) *)
Theorem filter_walk_is_reference_of_trimmed_view :
  forall pmatch mapfn c view, wf_source view = true ->
    filter_walk pmatch mapfn c view = reference (keep_incr pmatch c) mapfn (TrimP.trim pmatch c view)
    /\ wf_source (TrimP.trim pmatch c view) = true
    /\ rsub eq (walk_root (TrimP.trim pmatch c view)) (walk_root view).
Proof.
  exact (fun pmatch mapfn c view H =>
           conj (TrimP.filter_walk_trim_reference pmatch mapfn c view H)
                (conj (TrimP.trim_wf_source pmatch c view H) (TrimP.trim_walk_root pmatch c view))).
Qed.

(* ---- what the sender announces is a valid stream for the receiver ----
   for EVERY pattern configuration and EVERY single-pattern matcher (no hypothesis on the
   external library: both SkipDir shortcuts are covered by the trimmed-view theorem below), every
   map function as above and every well-formed source: the order validator and the hard-link
   validator accept the whole STAT sequence. *)
Theorem filtered_stream_valid :
  forall pmatch mapfn c view,
    map_keeps_shape mapfn -> map_never_drops_dirs mapfn ->
    wf_source view = true -> source_links_ok view = true ->
    run_validator (items (sender_view pmatch mapfn c view)) = None /\
    hardlink_check (sender_view pmatch mapfn c view) = None.
Proof. exact (fun pmatch mapfn c view H1 H2 => filtered_stream_valid_proof pmatch mapfn c H1 H2 view). Qed.

(* The statement without [map_never_drops_dirs] is FALSE: a MapFunc answering MapResultExclude
   for the directory d while keeping d/c makes filterFS.Walk report d/c without d, and the
   receiver's validator rejects the first STAT.  (This is what filter.go documents for
   MapResultExclude — "exclude the current path and continue" —; replayed on the real code:
   corpus/C11/witnesses.case.) *)
Theorem filtered_stream_valid_needs_map_hypothesis_refuted :
  exists pmatch mapfn c view,
    map_keeps_shape mapfn /\
    wf_source view = true /\ source_links_ok view = true /\
    run_validator (items (sender_view pmatch mapfn c view)) = Some 0%nat.
Proof. exact map_drop_refuted_proof. Qed.

(* ---- walk and Open agree ----
   a non-directory of the source is reported by the filtered walk iff filterFS.Open admits its
   path: under C10's no-late-shadow condition on every path of the view, for a map function
   that never drops anything (Open has no stat to hand to a MapFunc: paths a MapFunc hides are
   NOT hidden from Open — not claimed). *)
Theorem walk_open_agree :
  forall pmatch mapfn c view,
    prefix_semantics pmatch -> cfg_star_safe c = true -> map_keeps_shape mapfn ->
    (forall p s, fst (mapfn p s) = MKeep) ->
    wf_source view = true -> all_paths (nls_path pmatch c) view = true ->
    forall q, source_file view q = true ->
      reported pmatch mapfn c view q = filter_open pmatch c q.
Proof. exact (fun pmatch mapfn c view Hs Hc Hm Hk => walk_open_agree_proof pmatch mapfn c Hm Hs Hc view Hk). Qed.

(* every reported non-directory can be opened — whatever the map function drops, whatever the
   single-pattern matcher *)
Theorem reported_file_can_be_opened :
  forall pmatch mapfn c view,
    map_keeps_shape mapfn ->
    wf_source view = true -> all_paths (nls_path pmatch c) view = true ->
    forall s, In s (filter_walk pmatch mapfn c view) -> st_is_dir s = false ->
      filter_open pmatch c (st_path s) = true.
Proof. exact (fun pmatch mapfn c view H1 => reported_file_opens pmatch mapfn c H1 view). Qed.

(* Without no-late-shadow the statement is FALSE (known finding K1, late-shadow, of
   moby/patternmatcher seen through filter.go): include [d, !d/c, d], tree d/{c,e}: the walk
   hides d/c, Open serves it. *)
Theorem walk_open_agree_refuted :
  exists pmatch mapfn c view q,
    prefix_semantics pmatch /\ cfg_star_safe c = true /\ map_keeps_shape mapfn /\
    (forall p s, fst (mapfn p s) = MKeep) /\ wf_source view = true /\ source_file view q = true /\
    reported pmatch mapfn c view q <> filter_open pmatch c q.
Proof. exact walk_open_agree_refuted_proof. Qed.

(* ---- the transfer produces exactly the filtered view ----
   composition with the receiver theorem (C02/C05 receive_fresh): for every prior destination
   listing A (sorted, ancestor-closed) the transfer of what the sender announces and delivers
   does not fail, and at every path the destination shows the entry of the filtered view
   (same identity key; for regular files and hard links the SOURCE's bytes) and nothing where
   the filtered view has nothing.  [groups_coherent]: members of one link group of the source
   carry the same bytes and mode (they are one inode).  [identity_faithful]: as in C02.
   [links_meta]: every announced hard-link entry carries the metadata (mode, uid, gid, size,
   mtime, xattrs) of the entry it names — the receiver gives a new name the metadata of the inode
   it joins, whatever was announced (true of a walk; a MapFunc must treat the members of a link
   group alike). *)
Theorem filtered_transfer_converges :
  forall pmatch mapfn c view (H : bytes -> bytes) (hdr : stat -> bytes) d (A : list AbsDest.entry),
    map_keeps_shape mapfn -> map_never_drops_dirs mapfn -> map_keeps_special mapfn ->
    wf_source view = true -> source_links_ok view = true -> groups_coherent view ->
    all_paths (nls_path pmatch c) view = true ->
    wf_listing (map fst A) -> identity_faithful d A (filtered_entries pmatch mapfn c view) ->
    links_meta (sender_entries pmatch mapfn c view) ->
    let r := receive_abs H hdr Fresh d A (sender_entries pmatch mapfn c view) in
    ds_err r = false /\
    forall p, view_equiv (alookup p (ds_map r)) (efind p (filtered_entries pmatch mapfn c view)).
Proof.
  exact (fun pmatch mapfn c view H hdr d A H1 H2 H3 Hw Hl Hg Hn =>
           filtered_transfer_converges_proof pmatch mapfn c H1 H2 H3 view Hw Hl Hg Hn H hdr d A).
Qed.

(* Without no-late-shadow the statement is FALSE, and harmfully so: EXCLUDE patterns
   [d, !d/c, d], tree d/{c,e}: the walk announces d/c, Open refuses it, send.go drops the error
   and the file arrives EMPTY (all other hypotheses hold; empty prior destination).  Replayed
   on the real Send/Receive: corpus/C11/late-shadow.witness. *)
Theorem filtered_transfer_late_shadow_refuted :
  exists pmatch mapfn c view (H : bytes -> bytes) (hdr : stat -> bytes) q,
    map_keeps_shape mapfn /\ map_never_drops_dirs mapfn /\ map_keeps_special mapfn /\
    wf_source view = true /\ source_links_ok view = true /\ groups_coherent view /\
    let r := receive_abs H hdr Fresh DMetadata [] (sender_entries pmatch mapfn c view) in
    ds_err r = false /\
    ~ view_equiv (alookup q (ds_map r)) (efind q (filtered_entries pmatch mapfn c view)).
Proof. exact transfer_late_shadow_refuted_proof. Qed.

(* ---- the include list NewFilterFS assembles (Model/FilterOpt.v) ----
   IncludePatterns and the targets FollowPaths resolve to (C18's model of FollowLinks) become ONE
   order-sensitive list: the user's patterns in order, then the targets.  What the code hands to
   the matcher keeps that order — never sorted —, and is the user's list itself when there are
   no FollowPaths (or "." was resolved). *)
Theorem include_list_keeps_order :
  forall view inc follow l,
    assemble_includes view inc follow = FollowLinks.Ok l ->
    (follow = [] /\ l = inc) \/
    (follow_targets view follow = FollowLinks.Ok None /\ l = inc) \/
    (exists ts, follow_targets view follow = FollowLinks.Ok (Some ts) /\ rsub eq l (inc ++ ts)).
Proof. exact assemble_keeps_order. Qed.

(* ... and it IS that list, for all inputs: nothing is dropped, nothing reordered (after the fix of
   finding dedupe-order-sensitive-includes: dedupePaths used to be applied to the combined list and
   dropped a re-inclusion such as a/x/y in [a, !a/x, a/x/y] as soon as any FollowPaths resolved;
   regression cases: corpus/C11/dedupe-order.case). *)
Theorem assembled_includes_are_stated :
  forall view inc follow, assemble_includes view inc follow = stated_includes view inc follow.
Proof. exact assemble_is_stated. Qed.

Print Assumptions reset_links_valid.
Print Assumptions include_list_keeps_order.
Print Assumptions assembled_includes_are_stated.
Print Assumptions reset_eq_spec.
Print Assumptions reset_representative.
Print Assumptions reference_is_wf_listing.
Print Assumptions wf_listing_passes_validator.
Print Assumptions filter_walk_is_reference_of_trimmed_view.
Print Assumptions filtered_stream_valid.
Print Assumptions filtered_stream_valid_needs_map_hypothesis_refuted.
Print Assumptions walk_open_agree.
Print Assumptions reported_file_can_be_opened.
Print Assumptions walk_open_agree_refuted.
Print Assumptions filtered_transfer_converges.
Print Assumptions filtered_transfer_late_shadow_refuted.

(* ---- non-vacuity ---- *)
(* a listing whose first group member was filtered out *)
Definition mkst (p : list N) (mode : N) (ln : list N) : stat :=
  {| st_path := p; st_mode := mode; st_uid := 0; st_gid := 0; st_size := 3; st_mtime := 7;
     st_linkname := ln; st_devmajor := 0; st_devminor := 0; st_xattrs := [] |}.
Definition ex_listing : list stat :=
  [ mkst [100] ModeDir [];              (* d/                       *)
    mkst [100;47;98] 420 [97];          (* d/b -> a   (a filtered out) *)
    mkst [100;47;99] 420 [97];          (* d/c -> a                 *)
    mkst [101] 420 [];                  (* e                        *)
    mkst [102] 420 [101] ].             (* f -> e   (e kept)        *)
Example ex_listing_wf : wf_links ex_listing = true. Proof. vm_compute. reflexivity. Qed.
Example ex_listing_reset :
  map st_linkname (hardlink_reset ex_listing) = [[]; []; [100;47;98]; []; [101]]
  /\ hardlink_check ex_listing = Some 1%nat.   (* without the reset the stream is rejected *)
Proof. vm_compute. split; reflexivity. Qed.

From Coq Require Import String.
(* a link group of a NON-regular inode: one FIFO with three names, the first filtered out; and a
   symlink whose target string is the path of the filtered-out name: passed through untouched *)
Definition fifo_mode : N := ModeNamedPipe + 420.
Definition ex_fifo_listing : list stat :=
  [ mkst [98] fifo_mode [97];                      (* b.pipe -> a.pipe  (a.pipe filtered out) *)
    mkst [99] fifo_mode [97];                      (* c.pipe -> a.pipe *)
    mkst [115] (ModeSymlink + 511) [97] ].         (* s -> "a.pipe" (symlink) *)
Example ex_fifo_group_reset :
  wf_links ex_fifo_listing = true /\ forallb hl_plain ex_fifo_listing = false /\
  hl_plain (mkst [98] fifo_mode [97]) = true /\
  map st_linkname (hardlink_reset ex_fifo_listing) = [[]; [98]; [97]] /\
  hardlink_check (hardlink_reset ex_fifo_listing) = None /\
  hardlink_check ex_fifo_listing = Some 0%nat.
Proof. vm_compute. repeat split; reflexivity. Qed.

Open Scope string_scope.
(* a source with a link group spread over excluded and included paths (C11WitnessP.hl_view):
     a, b -> a, d/{c -> a, e}, f, g -> f      exclude [a]
   the hypotheses of all theorems hold; b becomes the file, d/c names b, g still names f *)
Example ex_hypotheses :
  wf_source hl_view = true /\ source_links_ok hl_view = true /\ groups_coherent_b hl_view = true /\
  cfg_star_safe hl_cfg = true /\ all_paths (nls_path pm_lit hl_cfg) hl_view = true.
Proof. vm_compute. repeat split; reflexivity. Qed.
Example ex_sender_view :
  map (fun s => (st_path s, st_linkname s)) (sender_view pm_lit id_map hl_cfg hl_view) =
  [ (bs "b", []); (bs "d", []); (bs "d/c", bs "b"); (bs "d/e", []); (bs "f", []); (bs "g", bs "f") ]
  /\ run_validator (items (sender_view pm_lit id_map hl_cfg hl_view)) = None
  /\ hardlink_check (sender_view pm_lit id_map hl_cfg hl_view) = None
  /\ hardlink_check (filter_walk pm_lit id_map hl_cfg hl_view) = Some 0%nat.   (* without the reset: rejected *)
Proof. vm_compute. repeat split; reflexivity. Qed.
(* the include list NewFilterFS assembles: user patterns in order, then the follow targets *)
Example ex_include_assembly :
  assemble_includes dd_view [bs "!a/x"; bs "a"] [bs "l"] = FollowLinks.Ok [bs "!a/x"; bs "a"; bs "l"; bs "t"]
  /\ assemble_includes dd_view dd_inc [] = FollowLinks.Ok dd_inc
  /\ assemble_includes dd_view dd_inc dd_follow = FollowLinks.Ok [bs "a"; bs "!a/x"; bs "a/x/y"; bs "l"; bs "t"]
  /\ paths (sender_view pm_lit id_map (dd_cfg [bs "a"; bs "!a/x"; bs "a/x/y"; bs "l"; bs "t"]) dd_view)
     = [bs "a"; bs "a/k"; bs "a/x"; bs "a/x/y"; bs "l"; bs "t"].
Proof. vm_compute. repeat split; reflexivity. Qed.
(* walk and Open on the files of that source *)
Example ex_walk_open :
  map (fun q => (reported pm_lit id_map hl_cfg hl_view (bs q), filter_open pm_lit hl_cfg (bs q)))
      ["a"; "b"; "d/c"; "d/e"; "f"; "g"] =
  [ (false, false); (true, true); (true, true); (true, true); (true, true); (true, true) ].
Proof. vm_compute. reflexivity. Qed.
(* the transfer into an empty destination: b arrives with the bytes of the group, d/c as a link *)
Example ex_transfer :
  let r := receive_abs Hid hid Fresh DMetadata [] (sender_entries pm_lit id_map hl_cfg hl_view) in
  ds_err r = false /\
  map (fun q => option_map (fun e => (st_linkname (de_stat e), de_bytes e)) (alookup (bs q) (ds_map r)))
      ["a"; "b"; "d/c"; "g"] =
  [ None; Some ([], [120%N]); Some (bs "b", [120%N]); Some (bs "f", [121%N]) ].
Proof. vm_compute. split; reflexivity. Qed.

(* ---- the receiver's hard-link validator itself (tools/go2coq; gen/SrcFns.v is regenerated from /repo on every
        run): the method HandleChange of Hardlinks, translated from hardlinks.go into a state transformer (the
        map[string]struct{} seenFiles as the list of keys stored so far — the code only tests membership, so order
        and duplicates are unobservable; the type assertion fi.Sys().( *types.Stat ) as the Sys field of the FileInfo
        record).  For the FileInfo the receiver hands over (statinfo_fi s = the StatInfo view of s, IsDir/Mode as
        computed by the translated StatInfo methods) and p = the stat's path, one step equals the model's hl_step;
        deletions pass, an incoming error is handed back, a change without stat info is rejected; folded over a
        listing it is hardlink_check, so reset_links_valid holds of the translated validator ---- *)
From FSGen Require SrcFns.
From FS Require Src.Prims Proofs.Src.HardlinksHandleChangeEq.
Theorem Hardlinks_HandleChange_src_eq : forall v kind s, kind <> BinNums.Zpos (BinNums.xO BinNums.xH) ->
  SrcFns.Hardlinks_HandleChange v kind (st_path s) (HardlinksHandleChangeEq.statinfo_fi s) None =
  match hl_step (SrcFns.Hardlinks_seenFiles v) s with
  | Some seen' => (HardlinksHandleChangeEq.mkh seen', None)
  | None => (HardlinksHandleChangeEq.mkh (SrcFns.Hardlinks_seenFiles v), Prims.some_error)
  end.
Proof. exact HardlinksHandleChangeEq.Hardlinks_HandleChange_src_eq. Qed.
Theorem Hardlinks_HandleChange_other : forall v p fi,
  SrcFns.Hardlinks_HandleChange v (BinNums.Zpos (BinNums.xO BinNums.xH)) p fi None = (HardlinksHandleChangeEq.mkh (SrcFns.Hardlinks_seenFiles v), None) /\
  (forall m kind, SrcFns.Hardlinks_HandleChange v kind p fi (Some m) = (v, Some m)) /\
  (forall kind, kind <> BinNums.Zpos (BinNums.xO BinNums.xH) -> Prims.fi_Sys fi = None ->
     SrcFns.Hardlinks_HandleChange v kind p fi None = (HardlinksHandleChangeEq.mkh (SrcFns.Hardlinks_seenFiles v), Prims.some_error)).
Proof. exact HardlinksHandleChangeEq.Hardlinks_HandleChange_other. Qed.
Theorem run_hl_is_hardlink_check : forall l,
  HardlinksHandleChangeEq.run_hl SrcFns.Hardlinks_zero l 0 = hardlink_check l.
Proof. exact HardlinksHandleChangeEq.run_hl_is_hardlink_check. Qed.
Theorem translated_reset_links_valid :
  forall l, wf_links l = true -> HardlinksHandleChangeEq.run_hl SrcFns.Hardlinks_zero (hardlink_reset l) 0 = None.
Proof. exact HardlinksHandleChangeEq.translated_reset_links_valid. Qed.
Print Assumptions Hardlinks_HandleChange_src_eq.
Print Assumptions Hardlinks_HandleChange_other.
Print Assumptions run_hl_is_hardlink_check.
Print Assumptions translated_reset_links_valid.
