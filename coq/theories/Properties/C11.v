(* C11 — A filtered view transfers as a self-contained tree.
   Part proved here: whatever sub-sequence of a canonical walk the filters leave, the
   stream the sender emits after its hard-link reset passes the receiver's hard-link
   validator (every link names an entry that is itself in the stream, earlier).
   Statements still to be proved are listed in props/C11.json (unproved_statements). *)
From Coq Require Import List NArith Bool.
From FS Require Import Sx Model.Path Model.Stat Model.Hardlinks Proofs.HardlinksP.
Import ListNotations.

Theorem reset_links_valid :
  forall l, wf_links l = true -> hardlink_check (hardlink_reset l) = None.
Proof. exact reset_links_valid_proof. Qed.
Print Assumptions reset_links_valid.

(* ... and the reset computes exactly the declarative description: every plain entry
   ends up being (empty link name) or naming the FIRST KEPT member of its link group;
   nothing else changes.  "A file whose link source was filtered out arrives as a
   regular file and later members of its group link to it." *)
Theorem reset_eq_spec :
  forall l, wf_links l = true -> hardlink_reset l = reset_spec l.
Proof. exact reset_eq_spec_proof. Qed.
Print Assumptions reset_eq_spec.

(* non-vacuity: a listing whose first group member was filtered out *)
Definition mkst (p : list N) (mode : N) (ln : list N) : stat :=
  {| st_path := p; st_mode := mode; st_uid := 0; st_gid := 0; st_size := 3; st_mtime := 7;
     st_linkname := ln; st_devmajor := 0; st_devminor := 0; st_xattrs := [] |}.
Definition ex_listing : list stat :=
  [ mkst [100] ModeDir [];              (* d/                       *)
    mkst [100;47;98] 420 [97];          (* d/b -> a   (a filtered out) *)
    mkst [100;47;99] 420 [97];          (* d/c -> a                 *)
    mkst [101] 420 [];                  (* e                        *)
    mkst [102] 420 [101] ].             (* f -> e   (e kept)        *)
Example ex_listing_wf : wf_links ex_listing = true. Proof. vm_compute. reflexivity. Qed.
Example ex_listing_reset :
  map st_linkname (hardlink_reset ex_listing) = [[]; []; [100;47;98]; []; [101]]
  /\ hardlink_check ex_listing = Some 1%nat.   (* without the reset the stream is rejected *)
Proof. vm_compute. split; reflexivity. Qed.
