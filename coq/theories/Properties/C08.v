(* C08 — Outcome is schedule-independent; stream calls are never made concurrently.
   Theorems about the goroutine-level LTS (Model/Lts.v); proofs in
   Proofs/Lts{Inv,Safe,C08,Tok,Content,Content2,Content3,Clean1..5}.v.
   Data races / the Go memory model are outside the model (see props/C08.json).

   outcome_deterministic is proved in full on the LTS: two complete fault-free executions from
   the same initial state (fault_free ls = no label of ls is a fault, a cancellation, a stream
   failure or a tear-down; LEnvCloseSend, the transport's EOF after Send returned, is allowed)
   return the same values (nil, nil) and their request, completion and written-chunk sequences
   are permutations of each other.  The proof goes through fault_free_success (a fault-free run
   never takes an error branch: token conservation and request accounting per file id) and
   outcome_deterministic_partial (what any run that ends with Receive returning nil has
   requested, completed and written).  Not in the LTS: notification digests (C05); an Open error
   must be excluded from the partial statement (known finding open-error-empty-file-success). *)
From Coq Require Import List Arith Bool PeanoNat Permutation.
From FS Require Import Model.Lts Model.LtsExplore Proofs.LtsInv Proofs.LtsSafe Proofs.LtsC08 Proofs.LtsTok
  Proofs.LtsContent Proofs.LtsContent2 Proofs.LtsContent3 Proofs.LtsClean1 Proofs.LtsClean3 Proofs.LtsClean5.
Import ListNotations.

(* In every reachable state at most one goroutine per side is inside Stream.SendMsg
   (walker / worker j / request loop on the sender; diff-outer goroutine / writer j on the
   receiver). *)
Theorem send_mutex_inv : forall p st, reachable p st ->
  (forall g g', in_send_s st g = true -> in_send_s st g' = true -> g = g') /\
  (forall g g', in_send_r st g = true -> in_send_r st g' = true -> g = g').
Proof. exact send_mutex_inv_proof. Qed.

(* Exactly one goroutine per side ever calls RecvMsg: a step that takes a packet out of the
   receiver->sender direction is a step of the sender's request loop at its RecvMsg, a step
   that takes one out of the sender->receiver direction is a step of the receive loop at one
   of its two RecvMsg sites; every other change of a direction appends one packet. *)
Theorem single_recv : forall p st l st', step p st l = Some st' ->
  (buf_rs st' <> buf_rs st -> (exists pk, buf_rs st' = buf_rs st ++ [pk]) \/
                              (l = LReq /\ rq_pc st = RQ_Recv /\ exists pk, buf_rs st = pk :: buf_rs st')) /\
  (buf_sr st' <> buf_sr st -> (exists pk, buf_sr st' = buf_sr st ++ [pk]) \/
                              (l = LRecvLoop /\ (rl_pc st = RL_Recv \/ rl_pc st = RL_Drain) /\
                               exists pk, buf_sr st = pk :: buf_sr st')).
Proof. exact single_recv_proof. Qed.

(* A DATA payload is written to its pipe before the receive loop's next RecvMsg: while the
   loop holds a payload (RL_Write id) its only move is the write, and no other goroutine
   moves the loop or takes anything out of its stream direction. *)
Theorem payload_consumed_before_reuse : forall p st id,
  rl_pc st = RL_Write id ->
  (forall st', step p st LRecvLoop = Some st' ->
     written st' = id :: written st /\ rl_pc st' = RL_Recv /\ buf_sr st' = buf_sr st) /\
  step p st LRecvLoopClosed = None /\
  (forall l st', step p st l = Some st' -> l <> LRecvLoop ->
     rl_pc st' = RL_Write id /\ written st' = written st /\
     (buf_sr st' = buf_sr st \/ exists pk, buf_sr st' = buf_sr st ++ [pk])).
Proof. exact payload_consumed_proof. Qed.

(* Whenever Receive has returned nil, the set of completed files and the set of requests are
   exactly [need_ids p]: a function of the parameters, not of the schedule. *)
Theorem success_outcome_is_sequential : forall p st, reachable p st -> recv_ret st = Some true ->
  forall id, (memb id (completed st) = true <-> In id (need_ids p)) /\
             (memb id (reqs st) = true <-> In id (need_ids p)).
Proof. exact success_outcome_proof. Qed.

(* Hence two such states have equal completed sets and equal request sets (faults of any kind
   allowed on the way). *)
Theorem success_sets_equal : forall p st1 st2,
  reachable p st1 -> reachable p st2 -> recv_ret st1 = Some true -> recv_ret st2 = Some true ->
  (forall id, memb id (completed st1) = memb id (completed st2)) /\
  (forall id, memb id (reqs st1) = memb id (reqs st2)).
Proof. exact outcome_deterministic_partial_proof. Qed.

(* No file is requested twice, in any reachable state ... *)
Theorem requested_at_most_once : forall p st, reachable p st -> NoDup (reqs st).
Proof. exact reqs_nodup_proof. Qed.

(* ... so when Receive has returned nil the sequence of requests is a permutation of need_ids p:
   only the order of the requests depends on the schedule. *)
Theorem success_requests_permutation : forall p st, reachable p st -> recv_ret st = Some true ->
  Permutation (reqs st) (need_ids p).
Proof. exact success_requests_permutation_proof. Qed.

(* No file is completed twice (every id is served at most once: token invariant over sfiles,
   queue(), the pipeline, the workers, the stream and the receive loop). *)
Theorem completed_at_most_once : forall p st, reachable p st -> NoDup (completed st).
Proof. exact completed_nodup_proof. Qed.

(* Content: when Receive has returned nil and no Open error was injected, the number of chunks
   written for each id is all of its chunks if its content is needed and none otherwise. *)
Theorem success_content_is_sequential : forall p st, reachable p st ->
  recv_ret st = Some true -> g_open_err st = false ->
  forall id, count_occ Nat.eq_dec (written st) id = expected_chunks p id.
Proof. exact success_written_count_occ_proof. Qed.

(* outcome_deterministic for executions that end with Receive returning nil (no Open error
   injected; every other fault, every interleaving, every capacity allowed). *)
Theorem outcome_deterministic_partial : forall p ls1 ls2 st1 st2,
  forallb not_open_err ls1 = true -> forallb not_open_err ls2 = true ->
  run p (init p) ls1 = Some st1 -> run p (init p) ls2 = Some st2 ->
  recv_ret st1 = Some true -> recv_ret st2 = Some true ->
  Permutation (completed st1) (completed st2) /\
  Permutation (reqs st1) (reqs st2) /\
  Permutation (written st1) (written st2).
Proof. exact outcome_deterministic_runs_proof. Qed.

(* A fault-free run never fails: when it is complete both calls have returned nil. *)
Theorem fault_free_success : forall p ls st, wf_params p -> fault_free ls ->
  run p (init p) ls = Some st -> final st = true ->
  send_ret st = Some true /\ recv_ret st = Some true.
Proof. exact fault_free_success_proof. Qed.

(* outcome_deterministic: two complete fault-free executions from the same initial state end
   with equal return values and with the same requests, completed files and written chunks (up
   to order) — for all interleavings of workers, writers and packet deliveries, every W, P, C,
   C2 and stream capacity.  wf_params: an entry whose content is requested is a regular file. *)
Theorem outcome_deterministic : forall p ls1 ls2 st1 st2,
  wf_params p -> fault_free ls1 -> fault_free ls2 ->
  run p (init p) ls1 = Some st1 -> run p (init p) ls2 = Some st2 ->
  final st1 = true -> final st2 = true ->
  send_ret st1 = send_ret st2 /\ recv_ret st1 = recv_ret st2 /\
  Permutation (completed st1) (completed st2) /\
  Permutation (reqs st1) (reqs st2) /\
  Permutation (written st1) (written st2).
Proof. exact outcome_deterministic_proof. Qed.

Print Assumptions send_mutex_inv.
Print Assumptions single_recv.
Print Assumptions payload_consumed_before_reuse.
Print Assumptions success_outcome_is_sequential.
Print Assumptions success_sets_equal.
Print Assumptions completed_at_most_once.
Print Assumptions success_content_is_sequential.
Print Assumptions outcome_deterministic_partial.
Print Assumptions fault_free_success.
Print Assumptions outcome_deterministic.
Print Assumptions requested_at_most_once.
Print Assumptions success_requests_permutation.

(* ---- non-vacuity ---- *)
Definition c08_file (c : nat) : entry := {| e_file := true; e_chunks := c; e_kind := ENeed |}.
Definition c08_params : params :=
  {| p_W := 2; p_P := 1; p_C := 1; p_C2 := 1; p_capSR := 1; p_capRS := 0;
     p_entries := [ {| e_file := false; e_chunks := 0; e_kind := EMeta |}; c08_file 2;
                    {| e_file := true; e_chunks := 1; e_kind := ESame |}; c08_file 1 ];
     p_old_queue := false |}.
Definition c08_obs (st : state) :=
  (final st, send_ret st, recv_ret st, sort_nats (completed st), sort_nats (reqs st), sort_nats (written st)).

(* two different interleavings of the same transfer end with the same outcome, the one the
   sequential function predicts *)
Example two_schedules_same_outcome :
  let a := sched 1000 no_fault c08_params (init c08_params) in
  let b := sched_last 1000 no_fault c08_params (init c08_params) in
  c08_obs a = (true, Some true, Some true, [1; 3], [1; 3], [1; 1; 3]) /\ c08_obs b = c08_obs a /\
  need_ids c08_params = [1; 3].
Proof. vm_compute. repeat split; reflexivity. Qed.

(* the mutex is contended in reachable states: a worker is inside SendMsg(DATA) while the
   walker waits for the lock *)
Definition c08_two : params :=
  {| p_W := 1; p_P := 1; p_C := 1; p_C2 := 1; p_capSR := 1; p_capRS := 0;
     p_entries := [c08_file 1; c08_file 1]; p_old_queue := false |}.
Example mutex_is_contended :
  exists ls st, run c08_two (init c08_two) ls = Some st /\
    in_send_s st (GWorker 0) = true /\ sw_pc st = SW_Lock KStat /\ s_mu st = Some (GWorker 0).
Proof.
  exists [LSWalk; LSWalk; LSWalk; LRecvLoop; LRecvLoop; LRecvLoop; LFill; LFill; LDiff; LDiff;
          LReq; LWriter 0; LWriter 0; LWriter 0; LReq; LReq;
          LWorker 0; LWorker 0; LWorker 0; LWorker 0; LWorker 0; LSWalk].
  eexists. split; [vm_compute; reflexivity|]. vm_compute. repeat split; reflexivity.
Qed.

(* all interleavings of a small instance (exhaustive search): every run ends with both nil *)
Example all_interleavings_same_class :
  let r := explore_scenario 30000 no_fault
             {| p_W := 1; p_P := 1; p_C := 1; p_C2 := 1; p_capSR := 0; p_capRS := 0;
                p_entries := [c08_file 1; c08_file 0]; p_old_queue := false |} in
  (res_outcomes r, res_complete r, res_hang r) = ([4], true, None).
Proof. vm_compute. reflexivity. Qed.
