(* C19 — Metadata-only transfer: full listing recorded, only selected files materialised.
   Only the property theorems (closed by [exact]) and their [Print Assumptions]; the model is
   Model/MetaOnly.v, the proofs are in Proofs/MetaOnlyP.v. *)
From Coq Require Import List NArith Bool.
From FS Require Import Sx Model.Path Model.Stat Model.Validator Model.Hardlinks Model.MetaOnly
  Proofs.MetaOnlyP.
From FSGen Require FromSource.
Import ListNotations.
Open Scope nat_scope.

(* The listing holds, in stream order, exactly the announced stats whose path is not the
   listing file's own name — for every selector and every announced sequence. *)
Theorem listing_exact : forall sel stats,
  r_listing (meta_recv sel stats) = filter (fun s => negb (bytes_eqb (st_path s) listing_name)) stats.
Proof. exact listing_exact_proof. Qed.

(* The id registered for a path is the zero-based position of that entry among ALL announced
   STATs, the skipped listing-name entry included (regression for F3). *)
Theorem ids_aligned : forall sel stats p id,
  In (p, id) (r_files (meta_recv sel stats)) -> exists s, nth_error stats id = Some s /\ st_path s = p.
Proof. exact ids_aligned_proof. Qed.

(* Only selected regular entries (never the listing name) are registered, hence content can
   be requested for nothing else ... *)
Theorem ids_only_selected : forall sel stats p id,
  In (p, id) (r_files (meta_recv sel stats)) ->
  exists s, nth_error stats id = Some s /\ st_path s = p /\ sel s = true
            /\ mode_is_regular (st_mode s) = true /\ st_path s <> listing_name.
Proof. exact ids_only_selected_proof. Qed.

(* ... and every one of them is registered. *)
Theorem ids_complete : forall sel stats id s,
  nth_error stats id = Some s -> st_path s <> listing_name -> sel s = true ->
  mode_is_regular (st_mode s) = true -> In (st_path s, id) (r_files (meta_recv sel stats)).
Proof. exact ids_complete_proof. Qed.

(* buffer.go: whatever the record sizes (records larger than a chunk, chunk roll-over),
   WriteTo emits the concatenation of the records in allocation order. *)
Theorem buffer_is_concat : forall recs, buf_bytes (fold_left alloc_write recs []) = concat recs.
Proof. exact buffer_is_concat_proof. Qed.

Print Assumptions listing_exact.
Print Assumptions ids_aligned.
Print Assumptions ids_only_selected.
Print Assumptions ids_complete.
Print Assumptions buffer_is_concat.

(* ---- source-derived obligations (regenerated from /repo on every run) ---- *)
Example from_source_listing_name : FromSource.metadata_path = listing_name.
Proof. vm_compute. reflexivity. Qed.
Example from_source_chunk_size : FromSource.buffer_chunk_size = chunk_size.
Proof. vm_compute. reflexivity. Qed.
