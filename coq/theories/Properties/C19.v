(* C19 — Metadata-only transfer: full listing recorded, only selected files materialised.
   Only the property theorems (closed by [exact]) and their [Print Assumptions]; the model is
   Model/MetaOnly.v, the proofs are in Proofs/MetaOnlyP.v. *)
From Coq Require Import List NArith Bool.
From FS Require Import Sx Model.Path Model.Stat Model.Validator Model.Hardlinks Model.MetaOnly
  Proofs.ValidatorP Proofs.MetaOnlyP.
From FSGen Require FromSource.
Import ListNotations.
Open Scope nat_scope.
Open Scope bool_scope.

(* The listing holds, in stream order, exactly the announced stats whose path is not the
   listing file's own name — for every selector and every announced sequence. *)
Theorem listing_exact : forall sel stats,
  r_listing (meta_recv sel stats) = filter (fun s => negb (bytes_eqb (st_path s) listing_name)) stats.
Proof. exact listing_exact_proof. Qed.

(* The id registered for a path is the zero-based position of that entry among ALL announced
   STATs, the skipped listing-name entry included (regression for F3). *)
Theorem ids_aligned : forall sel stats p id,
  In (p, id) (r_files (meta_recv sel stats)) -> exists s, nth_error stats id = Some s /\ st_path s = p.
Proof. exact ids_aligned_proof. Qed.

(* Only selected regular entries (never the listing name) are registered, hence content can
   be requested for nothing else ... *)
Theorem ids_only_selected : forall sel stats p id,
  In (p, id) (r_files (meta_recv sel stats)) ->
  exists s, nth_error stats id = Some s /\ st_path s = p /\ sel s = true
            /\ mode_is_regular (st_mode s) = true /\ st_path s <> listing_name.
Proof. exact ids_only_selected_proof. Qed.

(* ... and every one of them is registered. *)
Theorem ids_complete : forall sel stats id s,
  nth_error stats id = Some s -> st_path s <> listing_name -> sel s = true ->
  mode_is_regular (st_mode s) = true -> In (st_path s, id) (r_files (meta_recv sel stats)).
Proof. exact ids_complete_proof. Qed.

(* buffer.go: whatever the record sizes (records larger than a chunk, chunk roll-over),
   WriteTo emits the concatenation of the records in allocation order. *)
Theorem buffer_is_concat : forall recs, buf_bytes (fold_left alloc_write recs []) = concat recs.
Proof. exact buffer_is_concat_proof. Qed.

(* ---- what is handed to the diff / writer ----
   [recv_stream stats] is the announced sequence without the listing-name entry, i.e. what the
   receive loop handles after its skip (= the recorded listing, by listing_exact);
   [valid_stream l] := Validator.run_validator (map vitem_of l) = None is the receiver's own
   run-time check on it.  [needed sel l s] := sel s \/ (s is a directory /\ some selected entry
   of l lies strictly below it).
   Whenever the receiver's order validator accepts, the entries forwarded are exactly the
   needed ones: each once, in stream order — whatever the selector.  In particular a selected
   directory is forwarded once (regression for F12), and an unselected directory is forwarded
   (once, before its first selected descendant) iff something below it is selected.
   Proof: invariant [Inv] of Proofs/MetaOnlyP.v — the pending stack holds unselected
   directories, each the parent of the one above it, closed upwards towards the current
   position. *)
Theorem forwarded_exact : forall sel stats,
  valid_stream (recv_stream stats) ->
  r_forwarded (meta_recv sel stats) = filter (needed sel (recv_stream stats)) (recv_stream stats).
Proof. exact forwarded_exact_proof. Qed.

(* the same for an announced sequence that does not use the listing name at all: the
   statement of the design, literally *)
Theorem forwarded_exact_plain : forall sel stats,
  valid_stream stats -> (forall s, In s stats -> st_path s <> listing_name) ->
  r_forwarded (meta_recv sel stats) = filter (needed sel stats) stats.
Proof. exact forwarded_exact_plain_proof. Qed.

(* The pending-ancestor stack itself (top first; Go's [items] is its reverse): after any
   accepted prefix pre ++ [cur] of what the receive loop handles, the stack is a parent chain
   (each element is the parent directory of the one above it) and holds exactly the unselected
   directories seen so far that are ancestors-or-self of the current entry and have no selected
   entry at or below them yet — i.e. exactly the ancestor directories not yet forwarded. *)
Theorem stack_exact : forall sel pre cur,
  valid_stream (pre ++ [cur]) -> (forall x, In x (pre ++ [cur]) -> is_listing x = false) ->
  chain_ok (mstack sel [] (pre ++ [cur])) /\
  forall d, In d (mstack sel [] (pre ++ [cur])) <->
    (In d (pre ++ [cur]) /\ sel d = false /\ st_is_dir d = true /\ is_prefix (cp d) (cp cur)
     /\ forall t, In t (pre ++ [cur]) -> sel t = true -> ~ is_prefix (cp d) (cp t)).
Proof. exact stack_exact_proof. Qed.

(* Hence the forwarded sequence is itself ordered and parent-closed (accepted by the order
   validator), and — when the selector selects the link source of every hard link it selects
   ([link_closed]) — accepted by the hard-link validator: the writer never meets a link whose
   source it was not given. *)
Theorem forwarded_valid : forall sel stats,
  valid_stream (recv_stream stats) -> hardlink_check (recv_stream stats) = None ->
  link_closed sel (recv_stream stats) = true ->
  valid_stream (r_forwarded (meta_recv sel stats)) /\ hardlink_check (r_forwarded (meta_recv sel stats)) = None.
Proof. exact forwarded_valid_proof. Qed.

(* The hypothesis of the two theorems above is about what the RECEIVER validates.  It follows
   from the validity of the announced sequence when no announced entry lies below the
   listing name ... *)
Theorem recv_valid_of_valid : forall stats,
  valid_stream stats -> (forall t, In t stats -> under listing_name (st_path t) = false) ->
  valid_stream (recv_stream stats).
Proof. exact recv_valid_of_valid_proof. Qed.

Print Assumptions listing_exact.
Print Assumptions ids_aligned.
Print Assumptions ids_only_selected.
Print Assumptions ids_complete.
Print Assumptions buffer_is_concat.
Print Assumptions forwarded_exact.
Print Assumptions forwarded_exact_plain.
Print Assumptions stack_exact.
Print Assumptions forwarded_valid.
Print Assumptions recv_valid_of_valid.

(* ---- source-derived obligations (regenerated from /repo on every run) ---- *)
Example from_source_listing_name : FromSource.metadata_path = listing_name.
Proof. vm_compute. reflexivity. Qed.
Example from_source_chunk_size : FromSource.buffer_chunk_size = chunk_size.
Proof. vm_compute. reflexivity. Qed.

(* ---- non-vacuity ---- *)
Open Scope N_scope.
Definition mkst (p : list N) (mode : N) (ln : list N) : stat :=
  {| st_path := p; st_mode := mode; st_uid := 0; st_gid := 0; st_size := 3; st_mtime := 7;
     st_linkname := ln; st_devmajor := 0; st_devminor := 0; st_xattrs := [] |}.
Definition A := 97%N. Definition B := 98%N. Definition C := 99%N. Definition D := 100%N.
Definition F := 420%N.  (* 0644 *)
Definition ex_stream : list stat :=
  [ mkst listing_name F [];               (* .fsutil-metadata   id 0, skipped          *)
    mkst [A] ModeDir [];                  (* a/                 id 1  unselected        *)
    mkst [A;47;B] ModeDir [];             (* a/b/               id 2  unselected        *)
    mkst [A;47;B;47;C] F [];              (* a/b/c              id 3  SELECTED          *)
    mkst [A;47;B;47;D] F [];              (* a/b/d              id 4  unselected        *)
    mkst [A;47;C] ModeDir [];             (* a/c/               id 5  unselected, empty *)
    mkst [A;47;D] ModeDir [];             (* a/d/               id 6  SELECTED dir      *)
    mkst [A;47;D;47;A] F [A;47;B;47;C];   (* a/d/a -> a/b/c     id 7  SELECTED link     *)
    mkst [B] F [] ].                      (* b                  id 8  unselected        *)
Definition ex_sel (s : stat) : bool :=
  existsb (bytes_eqb (st_path s)) [[A;47;B;47;C]; [A;47;D]; [A;47;D;47;A]; listing_name].

Example ex_valid : valid_stream ex_stream /\ valid_stream (recv_stream ex_stream)
                   /\ link_closed ex_sel (recv_stream ex_stream) = true.
Proof. vm_compute. repeat split; reflexivity. Qed.
Example ex_run :
  map st_path (r_forwarded (meta_recv ex_sel ex_stream))
    = [[A]; [A;47;B]; [A;47;B;47;C]; [A;47;D]; [A;47;D;47;A]]      (* a/d once (F12), a/c never *)
  /\ r_files (meta_recv ex_sel ex_stream) = [([A;47;B;47;C], 3%nat); ([A;47;D;47;A], 7%nat)]   (* ids count the skipped entry (F3) *)
  /\ length (r_listing (meta_recv ex_sel ex_stream)) = 8%nat
  /\ valid_stream (r_forwarded (meta_recv ex_sel ex_stream))
  /\ hardlink_check (r_forwarded (meta_recv ex_sel ex_stream)) = None.
Proof. vm_compute. repeat split; reflexivity. Qed.
(* the pending stack after a/, a/b/, a/b/c (replayed, cleared), a/b/d, a/c/ is [a/c] only *)
Example ex_stack :
  map st_path (mstack ex_sel [] (firstn 3%nat ex_stream)) = [[A;47;B]; [A]]
  /\ map st_path (mstack ex_sel [] (firstn 6%nat ex_stream)) = [[A;47;C]].
Proof. vm_compute. split; reflexivity. Qed.
(* without link closure the forwarded stream is rejected by the hard-link validator *)
Example ex_not_link_closed :
  let sel' := fun s : stat => bytes_eqb (st_path s) [A;47;D;47;A] in
  link_closed sel' (recv_stream ex_stream) = false
  /\ hardlink_check (r_forwarded (meta_recv sel' ex_stream)) = Some 2%nat.
Proof. vm_compute. split; reflexivity. Qed.

(* ---- the corner the hypothesis [valid_stream (recv_stream stats)] excludes (finding
        listing-name-entry-has-dependents, witnesses in corpus/C19): the announced sequence is
        valid, the receiver skips the listing-name entry before validating, and rejects what
        depends on it ---- *)
Definition dep_dir : list stat :=
  [ mkst listing_name ModeDir []; mkst (listing_name ++ [47; A]) F [] ].
Definition dep_link : list stat :=
  [ mkst listing_name F []; mkst [A] F listing_name ].
Example dependents_rejected :
  valid_stream dep_dir /\ hardlink_check dep_dir = None /\ recv_accepts dep_dir = false
  /\ run_validator (map vitem_of (recv_stream dep_dir)) = Some 0%nat
  /\ valid_stream dep_link /\ hardlink_check dep_link = None /\ recv_accepts dep_link = false
  /\ hardlink_check (recv_stream dep_link) = Some 0%nat
  /\ listing_dependents dep_dir = true /\ listing_dependents dep_link = true.
Proof. vm_compute. repeat split; reflexivity. Qed.
