(* C19 — Metadata-only transfer: full listing recorded, only selected files materialised.
   Only the property theorems (closed by [exact]) and their [Print Assumptions]; the model is
   Model/MetaOnly.v (+ the vocabulary of the compositions in Model/MetaTransfer.v), the proofs are
   in Proofs/MetaOnlyP.v and Proofs/MetaTransferP.v (compositions with C20, C01, C02). *)
From Coq Require Import List NArith Bool.
From FS Require Import Sx Model.Path Model.Stat Model.Validator Model.Hardlinks Model.Diff Model.AbsDest
  Model.Codec Model.MetaBuffer Model.Listing Model.Converge Model.ConvergeA Model.MetaOnly Model.MetaTransfer
  Proofs.ValidatorP Proofs.MetaOnlyP Proofs.MetaRewriteP Proofs.MetaAcceptP Proofs.MetaTransferP Proofs.MetaLinksP.
From FS Require Import Model.Tree Model.Walk Proofs.WalkWfP Proofs.MetaWalkP.
From FS Require Proofs.ConvergeP Proofs.ReceiveP.
From FSGen Require FromSource.
Import ListNotations.
Open Scope nat_scope.
Open Scope bool_scope.

(* The listing holds, in stream order, exactly the announced stats whose path is not the
   listing file's own name — for every selector and every announced sequence. *)
Theorem listing_exact : forall sel stats,
  r_listing (meta_recv sel stats) = filter (fun s => negb (bytes_eqb (st_path s) listing_name)) stats.
Proof. exact listing_exact_proof. Qed.

(* The id registered for a path is the zero-based position of that entry among ALL announced
   STATs, the skipped listing-name entry included (regression for F3). *)
Theorem ids_aligned : forall sel stats p id,
  In (p, id) (r_files (meta_recv sel stats)) -> exists s, nth_error stats id = Some s /\ st_path s = p.
Proof. exact ids_aligned_proof. Qed.

(* Only selected regular entries (never the listing name) are registered, hence content can
   be requested for nothing else ... *)
Theorem ids_only_selected : forall sel stats p id,
  In (p, id) (r_files (meta_recv sel stats)) ->
  exists s, nth_error stats id = Some s /\ st_path s = p /\ sel s = true
            /\ mode_is_regular (st_mode s) = true /\ st_path s <> listing_name.
Proof. exact ids_only_selected_proof. Qed.

(* ... and every one of them is registered. *)
Theorem ids_complete : forall sel stats id s,
  nth_error stats id = Some s -> st_path s <> listing_name -> sel s = true ->
  mode_is_regular (st_mode s) = true -> In (st_path s, id) (r_files (meta_recv sel stats)).
Proof. exact ids_complete_proof. Qed.

(* buffer.go: whatever the record sizes (records larger than a chunk, chunk roll-over),
   WriteTo emits the concatenation of the records in allocation order. *)
Theorem buffer_is_concat : forall recs, buf_bytes (fold_left MetaOnly.alloc_write recs []) = concat recs.
Proof. exact buffer_is_concat_proof. Qed.

(* ---- what is handed to the diff / writer ----
   [recv_stream stats] is the announced sequence without the listing-name entry, i.e. what the
   receive loop handles after its skip (= the recorded listing, by listing_exact);
   [valid_stream l] := Validator.run_validator (map vitem_of l) = None is the receiver's own
   run-time check on it.  [needed sel l s] := sel s \/ (s is a directory /\ some selected entry
   of l lies strictly below it).
   Whenever the receiver's order validator accepts, the entries forwarded are exactly the
   needed ones: each once, in stream order — whatever the selector.  In particular a selected
   directory is forwarded once (regression for F12), and an unselected directory is forwarded
   (once, before its first selected descendant) iff something below it is selected.
   Proof: invariant [Inv] of Proofs/MetaOnlyP.v — the pending stack holds unselected
   directories, each the parent of the one above it, closed upwards towards the current
   position. *)
Theorem forwarded_exact : forall sel stats,
  valid_stream (recv_stream stats) ->
  r_forwarded (meta_recv sel stats) = filter (needed sel (recv_stream stats)) (recv_stream stats).
Proof. exact forwarded_exact_proof. Qed.

(* the same for an announced sequence that does not use the listing name at all: the
   statement of the design, literally *)
Theorem forwarded_exact_plain : forall sel stats,
  valid_stream stats -> (forall s, In s stats -> st_path s <> listing_name) ->
  r_forwarded (meta_recv sel stats) = filter (needed sel stats) stats.
Proof. exact forwarded_exact_plain_proof. Qed.

(* The pending-ancestor stack itself (top first; Go's [items] is its reverse): after any
   accepted prefix pre ++ [cur] of what the receive loop handles, the stack is a parent chain
   (each element is the parent directory of the one above it) and holds exactly the unselected
   directories seen so far that are ancestors-or-self of the current entry and have no selected
   entry at or below them yet — i.e. exactly the ancestor directories not yet forwarded. *)
Theorem stack_exact : forall sel pre cur,
  valid_stream (pre ++ [cur]) -> (forall x, In x (pre ++ [cur]) -> is_listing x = false) ->
  chain_ok (mstack sel [] (pre ++ [cur])) /\
  forall d, In d (mstack sel [] (pre ++ [cur])) <->
    (In d (pre ++ [cur]) /\ sel d = false /\ st_is_dir d = true /\ is_prefix (cp d) (cp cur)
     /\ forall t, In t (pre ++ [cur]) -> sel t = true -> ~ is_prefix (cp d) (cp t)).
Proof. exact stack_exact_proof. Qed.

(* ---- acceptance ----
   [recv_accepts sel stats] = "the real receiver accepts" (Model/MetaOnly.v first_reject_d: per
   handled STAT the order validator, and the hard-link validator ONLY for entries that are
   forwarded — receive.go: if !metaOnly { r.hlValidator.HandleChange } —, so acceptance depends
   on the selector).  It is the conjunction of the two validators on what each is shown ... *)
Theorem accepts_iff : forall sel stats,
  recv_accepts sel stats = true <->
  (valid_stream (recv_stream stats) /\ hardlink_check (filter sel (recv_stream stats)) = None).
Proof. exact accepts_iff_proof. Qed.

(* ... an accepted selection is link-closed: it selects the link source of every hard link it
   selects ... *)
Theorem accepts_link_closed : forall sel stats,
  recv_accepts sel stats = true -> link_closed sel (recv_stream stats) = true.
Proof. exact accepts_link_closed_proof. Qed.

(* ... and conversely, on a sequence both validators accept as a whole, every link-closed
   selection is accepted: for such sequences  accepted <=> link-closed. *)
Theorem link_closed_accepts : forall sel stats,
  valid_stream (recv_stream stats) -> hardlink_check (recv_stream stats) = None ->
  link_closed sel (recv_stream stats) = true -> recv_accepts sel stats = true.
Proof. exact link_closed_accepts_proof. Qed.

(* A selection that forwards a hard link x but not its source t is REJECTED: the receive loop
   stops with an error at index k, at or before x, and nothing that was handed to the diff /
   writer by then ([applied] = forwarded entries caused by the first k handled STATs) has the
   path of x — the link is never applied, so dest/<Linkname> is never resolved through what the
   destination happens to hold (C03 finding: containment escape in MetadataOnly + Merge). *)
Theorem unsourced_link_rejected : forall sel stats x t,
  valid_stream (recv_stream stats) ->
  In x (recv_stream stats) -> sel x = true -> hl_plain x = true -> has_link x = true ->
  In t (recv_stream stats) -> st_path t = st_linkname x -> sel t = false ->
  recv_accepts sel stats = false /\
  exists k, first_reject sel (recv_stream stats) = Some k /\
    applied sel (recv_stream stats) = r_forwarded (meta_recv sel (firstn k (recv_stream stats))) /\
    forall z, In z (applied sel (recv_stream stats)) -> st_path z <> st_path x.
Proof. exact unsourced_link_rejected_proof. Qed.

(* Whenever the receiver accepts, the forwarded sequence is itself ordered and parent-closed
   (accepted by the order validator) and accepted by the hard-link validator: the writer never
   meets a link whose source it was not given. *)
Theorem forwarded_valid : forall sel stats,
  recv_accepts sel stats = true ->
  valid_stream (r_forwarded (meta_recv sel stats)) /\ hardlink_check (r_forwarded (meta_recv sel stats)) = None.
Proof. exact MetaAcceptP.forwarded_valid_proof. Qed.

(* acceptance with a selector that writes into the stat: that of the sequence as it leaves it *)
Theorem accepts_rw_sim : forall sel rw sel' stats,
  (forall s, In s stats -> sel' (seen rw s) = sel s) ->
  recv_accepts_rw sel rw stats = recv_accepts sel' (map (seen rw) stats).
Proof. exact accepts_rw_sim_proof. Qed.

(* The hypothesis of the two theorems above is about what the RECEIVER validates.  It follows
   from the validity of the announced sequence when no announced entry lies below the
   listing name ... *)
Theorem recv_valid_of_valid : forall stats,
  valid_stream stats -> (forall t, In t stats -> under listing_name (st_path t) = false) ->
  valid_stream (recv_stream stats).
Proof. exact recv_valid_of_valid_proof. Qed.


(* ================= compositions with C20 (codec), C01 (convergence), C02 (requests) ================= *)

(* ---- the listing file, byte level ----
   [listing_file sel stats] (Model/MetaTransfer.v) = WriteTo of this property's buffer model after
   one alloc per recorded Stat of  4-byte little-endian SizeVT ++ MarshalVT  (C20's
   Listing.listing_record on C20's Codec.encode_stat).  Reading it back record by record
   (Listing.decode_listing = the loop of receive_test.go:parseFSMetadata on Codec.decode_stat)
   yields exactly the announced Stats minus the entry named .fsutil-metadata, in order.
   Hypothesis, explicitly: every recorded Stat is [listable] (Model/Listing.v) =
   Codec.wf_stat (mode, uid, gid < 2^32; size, mtime, dev numbers < 2^64 as two's complement;
   xattr keys distinct; SizeVT < 2^64)  /\  SizeVT < 2^32 (the length is written as uint32(n)). *)
Theorem listing_roundtrip : forall sel stats,
  (forall s, In s stats -> is_listing s = false -> listable s) ->
  decode_listing (listing_file sel stats) = Some (recv_stream stats).
Proof. exact listing_roundtrip_proof. Qed.

(* ... for every iteration order of the xattr map, chosen independently for every record *)
Theorem listing_roundtrip_any_order : forall sel stats recs,
  (forall s, In s stats -> is_listing s = false -> listable s) ->
  Forall2 lrecord_of (r_listing (meta_recv sel stats)) recs ->
  decode_listing (listing_file_of recs) = Some (recv_stream stats).
Proof. exact listing_roundtrip_any_order_proof. Qed.

(* this property's transcription of buffer.go and C20's (Model/MetaBuffer.v) are the same *)
Theorem buffers_agree : forall recs,
  fold_left MetaOnly.alloc_write recs [] = alloc_all recs /\ listing_file_of recs = write_to (alloc_all recs).
Proof. exact buffers_agree_proof. Qed.

(* ---- convergence ----
   B = the source view with contents (C01's vocabulary: ConvergeA.wf_entries = strictly ascending,
   ancestor-closed, canonical hard links), A = the prior destination.
   [meta_proj sel B] = the entries of B other than the listing name that are selected or are a
   directory with a selected entry strictly below: selected entries + needed ancestors.
   (1) its Stats are exactly what the receive loop hands to the diff/writer ... *)
Theorem projection_is_forwarded : forall sel B,
  valid_stream (recv_stream (map fst B)) ->
  map fst (meta_proj sel B) = r_forwarded (meta_recv sel (map fst B)).
Proof. exact proj_is_forwarded_proof. Qed.

(* ... where the receiver's validator accepts every well-formed source listing with clean
   relative paths and nothing below the listing name ... *)
Theorem receiver_accepts_wf : forall L,
  wf_listing L -> (forall s, In s L -> ok_path (st_path s) = true) -> listing_dependents L = false ->
  valid_stream (recv_stream L).
Proof. exact receiver_accepts_wf_proof. Qed.

(* ... and its hard-link validator accepts the stream of every canonical source listing (what the
   walk produces: C01 walk_views_are_wf), before and after the skip of the listing-name entry ... *)
Theorem canon_hardlink_check : forall B,
  sorted (map fst B) -> links_canon B -> hardlink_check (map fst B) = None.
Proof. exact canon_hardlink_check_proof. Qed.

Theorem canon_recv_hardlink_check : forall B,
  sorted (map fst B) -> links_canon B -> listing_dependents (map fst B) = false ->
  hardlink_check (recv_stream (map fst B)) = None.
Proof. exact canon_recv_hardlink_check_proof. Qed.

(* ... so that for a well-formed source "the receiver accepts" - the hypothesis of
   meta_transfer_converges / meta_req_ids / projection_wf / forwarded_valid - is exactly
   "the selection is link-closed": a condition on the selector alone *)
Theorem wf_source_accepts_iff : forall sel B,
  wf_entries B -> (forall s, In s (map fst B) -> ok_path (st_path s) = true) ->
  listing_dependents (map fst B) = false ->
  (recv_accepts sel (map fst B) = true <-> link_closed sel (recv_stream (map fst B)) = true).
Proof. exact wf_source_accepts_iff_proof. Qed.

(* ... and for the listing fs.Walk produces for ANY well-formed tree (the walk model of C09,
   hypotheses as in C01's converges_on_walked_trees) the side conditions hold by themselves: every
   path is a clean relative path, the hard-link validator accepts the whole walk, and the receiver
   accepts a selection iff it is link-closed - provided no entry depends on the reserved name *)
Theorem walk_ok_paths : forall t, wf_tree t ->
  forall s, In s (walk t) -> ok_path (st_path s) = true.
Proof. exact walk_ok_paths_proof. Qed.

Theorem walked_hardlink_check : forall t,
  wf_tree t -> ino_consistent t -> inode_coherent t -> hardlink_check (walk t) = None.
Proof. exact (walked_hardlink_check_proof (fun _ => [])). Qed.

Theorem walk_passes_receiver_validators : forall t,
  wf_tree t -> ino_consistent t -> inode_coherent t ->
  run_validator (map vitem_of (walk t)) = None /\ hardlink_check (walk t) = None.
Proof. exact (walk_passes_validators_proof (fun _ => [])). Qed.

Theorem walked_source_accepts_iff : forall t,
  wf_tree t -> ino_consistent t -> inode_coherent t -> forall sel,
  listing_dependents (walk t) = false ->
  (recv_accepts sel (walk t) = true <-> link_closed sel (recv_stream (walk t)) = true).
Proof. exact (walked_source_accepts_iff_proof (fun _ => [])). Qed.

(* ... (2) the bytes delivered under a registered id are those of that entry of the projection
   (ids are positions in the announced sequence: ids_aligned) ... *)
Theorem registered_content : forall sel B p id,
  In (p, id) (r_files (meta_recv sel (map fst B))) ->
  exists s c, nth_error B id = Some (s, c) /\ st_path s = p /\ In (s, c) (meta_proj sel B).
Proof. exact registered_content_proof. Qed.

(* ... (3) the projection is itself a well-formed listing with contents (given that the
   receiver accepts and no entry depends on the skipped listing-name entry) ... *)
Theorem projection_wf : forall sel B,
  wf_entries B -> listing_dependents (map fst B) = false -> recv_accepts sel (map fst B) = true ->
  wf_entries (meta_proj sel B).
Proof. exact proj_wf_entries. Qed.

(* ... hence (C01.diff_apply_converges on the level-A receiver of C02/C05): the transfer does
   not fail, the destination is ≈ the projection — equal path set (every stale entry of A is
   gone), per-entry equality, hard-link partition — and nothing is left under the listing name
   (a stale listing file / symlink / directory of A is removed before the epilogue writes the
   new file).  AbsDest.identity_faithful (same identity key => same bytes) is C01's hypothesis. *)
Theorem meta_transfer_converges : forall sel (H : bytes -> bytes) (hdr : stat -> bytes) d A B,
  wf_entries A -> wf_entries B ->
  listing_dependents (map fst B) = false -> recv_accepts sel (map fst B) = true ->
  AbsDest.identity_faithful d A (meta_proj sel B) ->
  let r := receive_abs H hdr Fresh d A (meta_proj sel B) in
  ds_err r = false /\ approx A (meta_proj sel B) (view_of (ds_map r)) /\
  find_obs listing_name (view_of (ds_map r)) = None.
Proof. exact meta_transfer_converges_proof. Qed.

(* ... and on walked trees (C09's walk model for prior destination and source) every hypothesis
   about the validators is discharged: what is left are the statement's own conditions - a
   link-closed selector, nothing depending on the reserved name, identity_faithful *)
Theorem meta_converges_on_walked_trees :
  forall sel (H : bytes -> bytes) (hdr : stat -> bytes) d contA tA contB tB,
  wf_tree tA -> ino_consistent tA -> inode_coherent tA ->
  wf_tree tB -> ino_consistent tB -> inode_coherent tB ->
  let A := walk_entries contA tA in
  let B := walk_entries contB tB in
  listing_dependents (walk tB) = false ->
  link_closed sel (recv_stream (walk tB)) = true ->
  AbsDest.identity_faithful d A (meta_proj sel B) ->
  let r := receive_abs H hdr Fresh d A (meta_proj sel B) in
  ds_err r = false /\ approx A (meta_proj sel B) (view_of (ds_map r)) /\
  find_obs listing_name (view_of (ds_map r)) = None.
Proof. exact meta_converges_on_walked_trees_proof. Qed.

(* ---- REQ packets ----
   [req_ids files reqs]: asyncDataFunc looks the requested path up in r.files (None = "invalid
   file request").  With C02.reqs_exact: the ids requested are, in order, exactly the positions
   (among ALL announced STATs, the skipped one included) of the [wanted] entries: not the listing
   name, selected, regular without Linkname (wants_content), and absent from A or there with
   another identity key (negb (unchanged_b d (map fst A) s)); every request finds its id.
   Hypothesis beyond those of meta_transfer_converges: a source entry the writer treats as a
   regular file has no type bit at all (fileCanRequestData) — excludes ModeSocket/ModeIrregular
   entries, for which plain transfers fail in the same way. *)
Theorem meta_req_ids : forall sel (H : bytes -> bytes) (hdr : stat -> bytes) d A B,
  wf_entries A -> wf_entries B ->
  listing_dependents (map fst B) = false -> recv_accepts sel (map fst B) = true ->
  AbsDest.identity_faithful d A (meta_proj sel B) ->
  (forall s, In s (map fst B) -> wants_content s = true -> mode_is_regular (st_mode s) = true) ->
  req_ids (r_files (meta_recv sel (map fst B))) (ds_reqs (receive_abs H hdr Fresh d A (meta_proj sel B)))
  = map Some (positions_from 0 (wanted sel d (map fst A)) (map fst B)).
Proof. exact meta_req_ids_proof. Qed.


(* ================= selectors that write into the stat they are handed =================
   r.metadataOnly(path, p.Stat) receives the live *types.Stat after the record was framed.
   [meta_recv_rw sel rw stats] (Model/MetaOnly.v): sel = the decision (on the stat as announced),
   rw = the stat as the selector leaves it, [seen rw s] = rw s with the path restored
   ("p.Stat.Path = path") = what the rest of the loop, the diff and the disk writer work with.
   The listing is the announced sequence minus the listing name — whatever the selector writes. *)
Theorem listing_exact_rw : forall sel rw stats,
  r_listing (meta_recv_rw sel rw stats) = filter (fun s => negb (bytes_eqb (st_path s) listing_name)) stats.
Proof. exact listing_exact_rw_proof. Qed.

(* What the edits DO influence: registrations (fileCanRequestData on the edited mode) and the
   forwarded entries are those of the pure transcript on the sequence as the selector left it,
   for every sel' that decides on the rewritten stat as sel did on the announced one (any
   selector that looks at the path only: sel' = sel) — so ids_aligned, ids_only_selected,
   ids_complete, forwarded_exact, stack_exact, forwarded_valid and the compositions above apply to
   [map (seen rw) stats]. *)
Theorem rewrite_sim : forall sel rw sel' stats,
  (forall s, In s stats -> sel' (seen rw s) = sel s) ->
  r_files (meta_recv_rw sel rw stats) = r_files (meta_recv sel' (map (seen rw) stats)) /\
  r_forwarded (meta_recv_rw sel rw stats) = r_forwarded (meta_recv sel' (map (seen rw) stats)).
Proof. exact rewrite_sim_proof. Qed.

Theorem forwarded_exact_rw : forall sel rw sel' stats,
  (forall s, In s stats -> sel' (seen rw s) = sel s) ->
  valid_stream (map (seen rw) (recv_stream stats)) ->
  r_forwarded (meta_recv_rw sel rw stats)
  = filter (needed sel' (map (seen rw) (recv_stream stats))) (map (seen rw) (recv_stream stats)).
Proof. exact forwarded_exact_rw_proof. Qed.

(* a pure predicate: the transcript of all theorems above *)
Theorem pure_selector : forall sel stats, meta_recv_rw sel (fun s => s) stats = meta_recv sel stats.
Proof. exact pure_selector_proof. Qed.

Print Assumptions listing_exact.
Print Assumptions ids_aligned.
Print Assumptions ids_only_selected.
Print Assumptions ids_complete.
Print Assumptions buffer_is_concat.
Print Assumptions forwarded_exact.
Print Assumptions forwarded_exact_plain.
Print Assumptions stack_exact.
Print Assumptions forwarded_valid.
Print Assumptions accepts_iff.
Print Assumptions accepts_link_closed.
Print Assumptions link_closed_accepts.
Print Assumptions unsourced_link_rejected.
Print Assumptions accepts_rw_sim.
Print Assumptions recv_valid_of_valid.
Print Assumptions listing_roundtrip.
Print Assumptions listing_roundtrip_any_order.
Print Assumptions buffers_agree.
Print Assumptions projection_is_forwarded.
Print Assumptions receiver_accepts_wf.
Print Assumptions canon_hardlink_check.
Print Assumptions canon_recv_hardlink_check.
Print Assumptions wf_source_accepts_iff.
Print Assumptions walk_ok_paths.
Print Assumptions walked_hardlink_check.
Print Assumptions walk_passes_receiver_validators.
Print Assumptions walked_source_accepts_iff.
Print Assumptions registered_content.
Print Assumptions projection_wf.
Print Assumptions meta_transfer_converges.
Print Assumptions meta_converges_on_walked_trees.
Print Assumptions meta_req_ids.
Print Assumptions listing_exact_rw.
Print Assumptions rewrite_sim.
Print Assumptions forwarded_exact_rw.
Print Assumptions pure_selector.

(* ---- source-derived obligations (regenerated from /repo on every run) ---- *)
Example from_source_listing_name : FromSource.metadata_path = listing_name.
Proof. vm_compute. reflexivity. Qed.
Example from_source_chunk_size : FromSource.buffer_chunk_size = chunk_size.
Proof. vm_compute. reflexivity. Qed.

(* ---- non-vacuity ---- *)
Open Scope N_scope.
Definition mkst (p : list N) (mode : N) (ln : list N) : stat :=
  {| st_path := p; st_mode := mode; st_uid := 0; st_gid := 0; st_size := 3; st_mtime := 7;
     st_linkname := ln; st_devmajor := 0; st_devminor := 0; st_xattrs := [] |}.
Definition A := 97%N. Definition B := 98%N. Definition C := 99%N. Definition D := 100%N.
Definition F := 420%N.  (* 0644 *)
Definition ex_stream : list stat :=
  [ mkst listing_name F [];               (* .fsutil-metadata   id 0, skipped          *)
    mkst [A] ModeDir [];                  (* a/                 id 1  unselected        *)
    mkst [A;47;B] ModeDir [];             (* a/b/               id 2  unselected        *)
    mkst [A;47;B;47;C] F [];              (* a/b/c              id 3  SELECTED          *)
    mkst [A;47;B;47;D] F [];              (* a/b/d              id 4  unselected        *)
    mkst [A;47;C] ModeDir [];             (* a/c/               id 5  unselected, empty *)
    mkst [A;47;D] ModeDir [];             (* a/d/               id 6  SELECTED dir      *)
    mkst [A;47;D;47;A] F [A;47;B;47;C];   (* a/d/a -> a/b/c     id 7  SELECTED link     *)
    mkst [B] F [] ].                      (* b                  id 8  unselected        *)
Definition ex_sel (s : stat) : bool :=
  existsb (bytes_eqb (st_path s)) [[A;47;B;47;C]; [A;47;D]; [A;47;D;47;A]; listing_name].

Example ex_valid : valid_stream ex_stream /\ valid_stream (recv_stream ex_stream)
                   /\ link_closed ex_sel (recv_stream ex_stream) = true /\ recv_accepts ex_sel ex_stream = true.
Proof. vm_compute. repeat split; reflexivity. Qed.
Example ex_run :
  map st_path (r_forwarded (meta_recv ex_sel ex_stream))
    = [[A]; [A;47;B]; [A;47;B;47;C]; [A;47;D]; [A;47;D;47;A]]      (* a/d once (F12), a/c never *)
  /\ r_files (meta_recv ex_sel ex_stream) = [([A;47;B;47;C], 3%nat); ([A;47;D;47;A], 7%nat)]   (* ids count the skipped entry (F3) *)
  /\ length (r_listing (meta_recv ex_sel ex_stream)) = 8%nat
  /\ valid_stream (r_forwarded (meta_recv ex_sel ex_stream))
  /\ hardlink_check (r_forwarded (meta_recv ex_sel ex_stream)) = None.
Proof. vm_compute. repeat split; reflexivity. Qed.
(* the pending stack after a/, a/b/, a/b/c (replayed, cleared), a/b/d, a/c/ is [a/c] only *)
Example ex_stack :
  map st_path (mstack ex_sel [] (firstn 3%nat ex_stream)) = [[A;47;B]; [A]]
  /\ map st_path (mstack ex_sel [] (firstn 6%nat ex_stream)) = [[A;47;C]].
Proof. vm_compute. split; reflexivity. Qed.
(* without link closure (a/d/a selected, its source a/b/c not) the receiver rejects at a/d/a
   (index 6 of what it handles) although both validators accept the whole sequence; nothing had
   been forwarded yet: the pending ancestors a, a/d are replayed only after the validators *)
Example ex_not_link_closed :
  let sel' := fun s : stat => bytes_eqb (st_path s) [A;47;D;47;A] in
  link_closed sel' (recv_stream ex_stream) = false
  /\ hardlink_check (recv_stream ex_stream) = None
  /\ recv_accepts sel' ex_stream = false
  /\ first_reject sel' (recv_stream ex_stream) = Some 6%nat
  /\ applied sel' (recv_stream ex_stream) = []
  /\ hardlink_check (r_forwarded (meta_recv sel' ex_stream)) = Some 2%nat.
Proof. vm_compute. repeat split; reflexivity. Qed.
(* the C03 witness shape: d/ and d/f only recorded, h = a further name of d/f selected.  The
   sender's sequence is fine; the receiver rejects h (index 2) with nothing applied, whereas a
   selection that also takes d/f is accepted and forwards d, d/f, h *)
Definition c03_stream : list stat :=
  [ mkst [D] ModeDir []; mkst [D;47;102] F []; mkst [104] F [D;47;102] ].
Example ex_c03_witness :
  let only_h := fun s : stat => bytes_eqb (st_path s) [104] in
  let h_and_f := fun s : stat => bytes_eqb (st_path s) [104] || bytes_eqb (st_path s) [D;47;102] in
  valid_stream c03_stream /\ hardlink_check c03_stream = None
  /\ recv_accepts only_h c03_stream = false /\ first_reject only_h (recv_stream c03_stream) = Some 2%nat
  /\ applied only_h (recv_stream c03_stream) = []
  /\ recv_accepts h_and_f c03_stream = true
  /\ map st_path (applied h_and_f (recv_stream c03_stream)) = [[D]; [D;47;102]; [104]].
Proof. vm_compute. repeat split; reflexivity. Qed.

(* ---- the compositions on the same stream ---- *)
(* the listing file of ex_stream: 8 records, read back exactly; a cut file is an error or a
   shorter listing, never a wrong one *)
Example ex_listing_file :
  (forall s, In s ex_stream -> is_listing s = false -> listable s)
  /\ decode_listing (listing_file ex_sel ex_stream) = Some (recv_stream ex_stream)
  /\ length (listing_file ex_sel ex_stream) = 149%nat
  /\ firstn 4%nat (listing_file ex_sel ex_stream) = [13; 0; 0; 0]
  /\ decode_listing (firstn 148%nat (listing_file ex_sel ex_stream)) = None
  /\ decode_listing (firstn 17%nat (listing_file ex_sel ex_stream)) = Some (firstn 1%nat (recv_stream ex_stream)).
Proof.
  split.
  - intros s Hs _. cbn [ex_stream In] in Hs.
    repeat (destruct Hs as [<-|Hs]; [vm_compute; repeat split; reflexivity|]). destruct Hs.
  - vm_compute. repeat split; reflexivity.
Qed.

(* source with contents (a/d/a is a second name of a/b/c), selector = ex_sel + "b";
   prior destination: a stale listing file, the stale a/b/d, and b unchanged *)
Definition ex_B : list AbsDest.entry :=
  combine ex_stream [[9]; []; []; [1;2;3]; [4;5;6]; []; []; [1;2;3]; [7;8;9]].
Definition ex_sel2 (s : stat) : bool := ex_sel s || bytes_eqb (st_path s) [B].
Definition ex_A : list AbsDest.entry :=
  [ (mkst listing_name F [], [0; 0]);
    (mkst [A] ModeDir [], []); (mkst [A;47;B] ModeDir [], []); (mkst [A;47;B;47;D] F [], [4;5;6]);
    (mkst [B] F [], [7;8;9]) ].

Example ex_transfer_hypotheses :
  wf_entries ex_A /\ wf_entries ex_B /\ listing_dependents (map fst ex_B) = false
  /\ recv_accepts ex_sel2 (map fst ex_B) = true
  /\ AbsDest.identity_faithful DMetadata ex_A (meta_proj ex_sel2 ex_B)
  /\ valid_stream (recv_stream (map fst ex_B))
  /\ forallb (fun s => negb (wants_content s) || mode_is_regular (st_mode s)) (map fst ex_B) = true.
Proof.
  split; [apply ConvergeP.wf_entries_b_sound; vm_compute; reflexivity|].
  split; [apply ConvergeP.wf_entries_b_sound; vm_compute; reflexivity|].
  split; [vm_compute; reflexivity|]. split; [vm_compute; reflexivity|].
  split; [apply ReceiveP.identity_faithful_b_sound; vm_compute; reflexivity|].
  vm_compute. split; reflexivity.
Qed.

(* the hypotheses of wf_source_accepts_iff hold of ex_B (which has a hard link a/d/a), and both sides
   of the equivalence occur: ex_sel2 is link-closed and accepted, the selection of the link alone is
   neither *)
Example ex_wf_source_accepts :
  wf_entries ex_B /\ forallb (fun s => ok_path (st_path s)) (map fst ex_B) = true
  /\ listing_dependents (map fst ex_B) = false
  /\ existsb is_hardlink (map fst ex_B) = true
  /\ link_closed ex_sel2 (recv_stream (map fst ex_B)) = true /\ recv_accepts ex_sel2 (map fst ex_B) = true
  /\ (let only_link := fun s : stat => is_hardlink s in
      link_closed only_link (recv_stream (map fst ex_B)) = false /\ recv_accepts only_link (map fst ex_B) = false).
Proof.
  split; [apply ConvergeP.wf_entries_b_sound; vm_compute; reflexivity|].
  vm_compute. repeat split; reflexivity.
Qed.

(* a tree with a hard-link group (a/x, b) meets the hypotheses of walked_source_accepts_iff; both
   sides of the equivalence occur *)
Example ex_walked_source :
  (wf_tree mw_tree /\ ino_consistent mw_tree /\ inode_coherent mw_tree) /\
  map (fun s => (st_path s, st_linkname s)) (walk mw_tree) = [([97], []); ([97; 47; 120], []); ([98], [97; 47; 120])]%N
  /\ listing_dependents (walk mw_tree) = false
  /\ link_closed (fun _ => true) (recv_stream (walk mw_tree)) = true
  /\ recv_accepts (fun _ => true) (walk mw_tree) = true
  /\ (let only_b := fun s : stat => bytes_eqb (st_path s) [98%N] in
      link_closed only_b (recv_stream (walk mw_tree)) = false /\ recv_accepts only_b (walk mw_tree) = false).
Proof. split; [exact mw_tree_hyps|exact mw_tree_example]. Qed.

(* projection = a, a/b, a/b/c, a/d, a/d/a, b; the stale listing and a/b/d are gone, a/c never
   appears; only a/b/c is requested, under id 3 (b is unchanged, a/d/a is a link), although the
   registered ids are 3, 7, 8; the executable convergence oracle of C01 accepts the result *)
Example ex_transfer :
  let r := receive_abs (fun x : bytes => x) (fun _ => []) Fresh DMetadata ex_A (meta_proj ex_sel2 ex_B) in
  map (fun e => st_path (fst e)) (meta_proj ex_sel2 ex_B) = [[A]; [A;47;B]; [A;47;B;47;C]; [A;47;D]; [A;47;D;47;A]; [B]]
  /\ ds_err r = false
  /\ converged_o false ex_A (meta_proj ex_sel2 ex_B) (view_of (ds_map r)) = true
  /\ find_obs listing_name (view_of (ds_map r)) = None
  /\ find_obs [A;47;B;47;D] (view_of (ds_map r)) = None
  /\ ds_reqs r = [[A;47;B;47;C]]
  /\ map snd (r_files (meta_recv ex_sel2 (map fst ex_B))) = [3%nat; 7%nat; 8%nat]
  /\ req_ids (r_files (meta_recv ex_sel2 (map fst ex_B))) (ds_reqs r) = [Some 3%nat]
  /\ positions_from 0 (wanted ex_sel2 DMetadata (map fst ex_A)) (map fst ex_B) = [3%nat]
  /\ converged_o false ex_A ex_B (view_of (ds_map r)) = false.
Proof. vm_compute. repeat split; reflexivity. Qed.

(* a selector that normalises uid/gid/mtime of everything, chmods go-rwx what it selects (harness
   kind 5) — or scribbles over the path (kind 6): the listing still holds the 8 stats as announced;
   what is forwarded carries the edits (uid 12, a/b/c 0644 -> 0600, the unselected ancestor a keeps
   its mode), under the announced paths *)
Example ex_writing_selector :
  let rw5 := fun s => rw_of 5 (ex_sel s) s in
  let rw6 := fun s => rw_of 6 (ex_sel s) s in
  r_listing (meta_recv_rw ex_sel rw5 ex_stream) = recv_stream ex_stream
  /\ map (fun s => (st_path s, st_uid s, st_mode s)) (r_forwarded (meta_recv_rw ex_sel rw5 ex_stream))
     = [([A], 12, ModeDir); ([A;47;B], 12, ModeDir); ([A;47;B;47;C], 12, 384); ([A;47;D], 12, ModeDir);
        ([A;47;D;47;A], 12, 384)]
  /\ r_files (meta_recv_rw ex_sel rw5 ex_stream) = r_files (meta_recv ex_sel ex_stream)
  /\ st_path (rw6 (mkst [A] ModeDir [])) = [120]
  /\ r_listing (meta_recv_rw ex_sel rw6 ex_stream) = recv_stream ex_stream
  /\ map st_path (r_forwarded (meta_recv_rw ex_sel rw6 ex_stream)) = map st_path (r_forwarded (meta_recv ex_sel ex_stream))
  /\ stat_eqb (hd (mkst [] 0 []) (r_forwarded (meta_recv_rw ex_sel rw6 ex_stream))) (mkst [A] ModeDir []) = false.
Proof. vm_compute. repeat split; reflexivity. Qed.

(* ---- the corner the hypothesis [valid_stream (recv_stream stats)] excludes (finding
        listing-name-entry-has-dependents, witnesses in corpus/C19): the announced sequence is
        valid, the receiver skips the listing-name entry before validating, and rejects what
        depends on it — a child always, a hard link to it when that link is forwarded ---- *)
Definition dep_dir : list stat :=
  [ mkst listing_name ModeDir []; mkst (listing_name ++ [47; A]) F [] ].
Definition dep_link : list stat :=
  [ mkst listing_name F []; mkst [A] F listing_name ].
Example dependents_rejected :
  valid_stream dep_dir /\ hardlink_check dep_dir = None /\ recv_accepts (fun _ => false) dep_dir = false
  /\ run_validator (map vitem_of (recv_stream dep_dir)) = Some 0%nat
  /\ valid_stream dep_link /\ hardlink_check dep_link = None /\ recv_accepts (fun _ => true) dep_link = false
  /\ recv_accepts (fun _ => false) dep_link = true
  /\ hardlink_check (recv_stream dep_link) = Some 0%nat
  /\ listing_dependents dep_dir = true /\ listing_dependents dep_link = true.
Proof. vm_compute. repeat split; reflexivity. Qed.
