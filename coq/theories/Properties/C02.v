(* C02 — Incremental minimality (abstract layer).
   Only the property theorems (closed by [exact]) with their [Print Assumptions], and
   non-vacuity examples.  Models: Model/Diff.v (doubleWalkDiff, sameFile, compareStat as the
   code is now), Model/AbsDest.v (abstract effect of DiskWriter.HandleChange, requests).
   Proofs: Proofs/DiffP.v, Proofs/AbsDestP.v, Proofs/ReceiveP.v.

   Vocabulary (Model/Diff.v, Model/AbsDest.v):
     sorted L        strictly ascending by fsutil.ComparePath (hence duplicate-free)
     closed L        every "/"-prefix of a listed path is the path of a listed directory
     wf_listing L    sorted L /\ closed L
     notin L p       no entry of L has path p
     hidden flt A B p   p lies below a removed root: a directory of A that is absent from B or
                     (after the filter) a non-directory in B
     links_ok B      a hard-link entry names an earlier regular entry of B with the same bytes
                     (nothing is assumed about the METADATA a hard-link entry carries: the writer
                     gives a new name the metadata of the inode it joins, AbsDest.link_stat —
                     hard_link_joins_inode below)
     identity_faithful d A B   entries with the same path and the same identity key hold the
                     same bytes (regular files / hard links)
     unchanged d A B p   p is listed on both sides with the same identity key
   DiffContent (byte comparison of files on disk) is outside the model.
   The timing-dependent hard-link exception of the statement concerns how the destination
   WALK races with the writer; here the destination listing A is an input (whatever the
   walker reported), so it does not appear at this layer. *)
From Coq Require Import List NArith Bool Sorting.Sorted.
From FS Require Import Sx Model.Path Model.Stat Model.Diff Model.AbsDest
  Proofs.DiffP Proofs.DiffSpecP Proofs.AbsDestP Proofs.ReceiveP Proofs.FilterRecvP.
Import ListNotations.
Open Scope N_scope.

Notation idf := (fun s : stat => s).

(* The loop never runs out of fuel (|A| + |B| + 1 iterations suffice), for all inputs. *)
Theorem diff_fuel_enough : forall flt d A B, diff_opt flt d A B <> None.
Proof. exact DiffP.diff_fuel_enough. Qed.

(* sameFile compares exactly the identity key: mode (type + permissions), uid, gid, device
   numbers, link target and, for non-directories, size and mtime. *)
Theorem same_file_is_identity : forall a b,
  same_file DMetadata a b = key_eqb (identity_key a) (identity_key b).
Proof. exact DiffP.same_file_is_identity. Qed.

(* The change list is exactly: adds = B \ A, modifies = common paths whose identity differs
   (after the filter), deletes = the top-most removed paths of A \ B.
   Hypotheses: both listings sorted, B ancestor-closed, the filter keeps the directory bit.
   (A need not be ancestor-closed.) *)
Theorem diff_changes_exact : forall flt d A B,
  sorted A -> sorted B -> closed B -> (forall s, st_is_dir (flt s) = st_is_dir s) ->
  forall k p st, In (k, p, st) (diff flt d A B) <->
    (k = KAdd /\ exists b, st = Some b /\ In b B /\ st_path b = p /\ notin A p) \/
    (k = KModify /\ exists a b, st = Some b /\ In a A /\ In b B /\ st_path a = p /\ st_path b = p
                                /\ same_file d a (flt b) = false) \/
    (k = KDelete /\ st = None /\ (exists a, In a A /\ st_path a = p) /\ notin B p /\ ~ hidden flt A B p).
Proof.
  intros flt d A B HsA HsB HcB Hf k p st.
  rewrite (diff_changes_exact_proof flt d A B HsA HsB HcB Hf). apply spec_change_iff.
Qed.

(* ... in strictly ascending path order, so no path is reported twice. *)
Theorem diff_sorted_nodup : forall flt d A B,
  sorted A -> sorted B -> closed B -> (forall s, st_is_dir (flt s) = st_is_dir s) ->
  StronglySorted (fun c1 c2 => compare_path (ch_path c1) (ch_path c2) = Lt) (diff flt d A B) /\
  NoDup (map ch_path (diff flt d A B)).
Proof.
  intros flt d A B HsA HsB HcB Hf. split.
  - exact (diff_sorted_proof flt d A B HsA HsB HcB Hf).
  - exact (diff_nodup_proof flt d A B HsA HsB HcB Hf).
Qed.

(* Re-sync of an unchanged listing reports nothing — for every listing, no hypothesis. *)
Theorem resync_noop : forall B, diff idf DMetadata B B = [].
Proof. exact resync_noop_proof. Qed.

(* With differencing disabled every common path is reported as modified. *)
Theorem diff_none_all : forall flt A B,
  sorted A -> sorted B -> closed B -> (forall s, st_is_dir (flt s) = st_is_dir s) ->
  forall a b, In a A -> In b B -> st_path a = st_path b ->
  In (KModify, st_path b, Some b) (diff flt DNone A B).
Proof. exact diff_none_all_proof. Qed.

(* Content is requested for exactly the regular files (no Linkname) of the source that are new
   or whose identity differs — as a list, in source order. *)
Theorem reqs_exact : forall (H : bytes -> bytes) (hdr : stat -> bytes) d A B,
  wf_listing (map fst A) -> wf_listing (map fst B) -> links_ok B -> identity_faithful d A B ->
  ds_reqs (receive_abs H hdr Fresh d A B)
  = map st_path (filter (fun b => wants_content b && negb (unchanged_b d (map fst A) b)) (map fst B)).
Proof. exact reqs_exact_proof. Qed.

(* Every path listed on both sides with the same identity key keeps its entry literally —
   stat, bytes and inode class — and no content request is sent for it; the transfer does not
   fail and the writer receives exactly the diff. *)
Theorem untouched_keep_inode : forall (H : bytes -> bytes) (hdr : stat -> bytes) d A B,
  wf_listing (map fst A) -> wf_listing (map fst B) -> links_ok B -> identity_faithful d A B ->
  let r := receive_abs H hdr Fresh d A B in
  ds_err r = false /\ ds_changes r = diff idf d (map fst A) (map fst B) /\
  forall p, unchanged d A B p ->
    alookup p (ds_map r) = alookup p (dest_of A) /\ ~ In p (ds_reqs r).
Proof.
  intros H hdr d A B HwA HwB Hl Hf. cbv zeta.
  destruct (receive_fresh_weak H hdr d A B HwA HwB Hl Hf) as (He & Hc & _ & Hk & _).
  split; auto. split; auto. intros p Hu. split; auto.
  rewrite (reqs_exact_proof H hdr d A B HwA HwB Hl Hf).
  apply reqs_spec_unchanged; [apply HwA|apply HwB|exact Hu].
Qed.

(* Conversely every source entry that is new, or whose identity differs (other than a directory
   over a directory, which is re-stamped in place, and other than a hard link, which takes the
   inode of the entry it names), is rewritten: the destination ends up with the stat as sent
   under an inode class that did not exist before (all old classes are < |A|). *)
Theorem rewritten_get_new_inode : forall (H : bytes -> bytes) (hdr : stat -> bytes) d A B,
  wf_listing (map fst A) -> wf_listing (map fst B) -> links_ok B -> identity_faithful d A B ->
  let r := receive_abs H hdr Fresh d A B in
  (forall p e, alookup p (dest_of A) = Some e -> de_ino e < N.of_nat (length A)) /\
  forall p, fresh_target d A B p ->
    exists e b, alookup p (ds_map r) = Some e /\ In b (map fst B) /\ st_path b = p /\
                de_stat e = b /\ N.of_nat (length A) <= de_ino e.
Proof.
  intros H hdr d A B HwA HwB Hl Hf. cbv zeta. split; [apply dest_of_ino_bound|].
  destruct (receive_fresh_weak H hdr d A B HwA HwB Hl Hf) as (_ & _ & _ & _ & Hfr). exact Hfr.
Qed.

(* A hard-link entry of the source that is new, or whose identity key differs from what the old
   destination listed at its path, ends up as ONE MORE NAME of the inode the destination shows at
   the path it names: same inode class, same bytes, and the metadata of THAT inode (mode, uid,
   gid, size, mtime, device numbers, xattrs: AbsDest.link_stat) under the announced path — not
   the metadata that was announced, should it differ (os.Link; nothing is written to the inode). *)
Theorem hard_link_joins_inode : forall (H : bytes -> bytes) (hdr : stat -> bytes) d A B,
  wf_listing (map fst A) -> wf_listing (map fst B) -> links_ok B -> identity_faithful d A B ->
  let r := receive_abs H hdr Fresh d A B in
  forall p, link_changed d A B p ->
    exists b e t, In b (map fst B) /\ st_path b = p /\ alookup p (ds_map r) = Some e /\
      alookup (st_linkname b) (ds_map r) = Some t /\ de_ino e = de_ino t /\ de_bytes e = de_bytes t /\
      de_stat e = link_stat (de_stat t) b.
Proof. exact hard_link_joins_inode_proof. Qed.

(* Re-sync of an unchanged source (entry by entry the same path and identity key): zero
   content requests, zero notifications, the destination map untouched. No other hypothesis. *)
Theorem receive_resync_noop : forall (H : bytes -> bytes) (hdr : stat -> bytes) A B,
  Forall2 (fun a b => st_path (fst a) = st_path (fst b) /\ same_file DMetadata (fst a) (fst b) = true) A B ->
  receive_abs H hdr Fresh DMetadata A B =
  {| ds_map := dest_of A; ds_reqs := []; ds_notifs := []; ds_changes := []; ds_err := false |}.
Proof. exact receive_resync_noop_proof. Qed.

(* ... and a transfer REACHES that fixpoint: after a transfer from an honest sender
   ([links_meta]: hard-link entries carry the metadata of the entry they name) the destination,
   listed again ([dest_listing]: under exactly the paths it now holds — first conjunct — the stat
   and bytes it holds there), shows the identity key of the source at every path, so a second
   synchronisation of the unchanged source requests nothing, notifies nothing, touches nothing.
   (Evaluated on the real walker + differ + DiskWriter run twice: kind 0204.) *)
Theorem resync_after_transfer_noop : forall (H : bytes -> bytes) (hdr : stat -> bytes) d A B,
  wf_listing (map fst A) -> wf_listing (map fst B) -> links_ok B -> identity_faithful d A B ->
  links_meta B ->
  let r := receive_abs H hdr Fresh d A B in
  let A' := dest_listing B (ds_map r) in
  (forall p, (exists x, alookup p (ds_map r) = Some x) <-> (exists e, In e A' /\ st_path (fst e) = p)) /\
  receive_abs H hdr Fresh DMetadata A' B =
  {| ds_map := dest_of A'; ds_reqs := []; ds_notifs := []; ds_changes := []; ds_err := false |}.
Proof. exact resync_after_transfer_noop_proof. Qed.

(* ... also through the receiver's Filter (ReceiveOpt.Filter: handed to the differ AND to the
   writer; [receive_abs_f wf], Model/AbsDest.v): what lands at the destination is the stat AS
   REWRITTEN by the filter, and that is what the differ compares the destination with — for
   every filter that is a function of (path, stat), never answers "skip" and keeps path, type
   bits and link name ([filter_ok]: uid/gid remapping, mode masks, timestamp rounding, ...).  So
   after a transfer through the filter, a second synchronisation of the unchanged source
   through the same filter hands nothing to the writer.  Hypotheses on the FILTERED source
   ([filter_entries wf B]): same identity key => same bytes; link entries carry the metadata of
   the entry they name (the filter treats the names of one inode alike). *)
Theorem resync_after_transfer_noop_filtered : forall wf, filter_ok wf ->
  forall (H : bytes -> bytes) (hdr : stat -> bytes) d A B,
  wf_listing (map fst A) -> wf_listing (map fst B) -> links_ok B ->
  identity_faithful d A (filter_entries wf B) -> links_meta (filter_entries wf B) ->
  let r := receive_abs_f wf H hdr Fresh d A B in
  let A' := dest_listing B (ds_map r) in
  receive_abs_f wf H hdr Fresh DMetadata A' B =
  {| ds_map := dest_of A'; ds_reqs := []; ds_notifs := []; ds_changes := []; ds_err := false |}.
Proof. exact resync_after_transfer_noop_f_proof. Qed.

(* With differencing disabled every regular file of the source is re-requested. *)
Theorem diff_none_requests_all : forall (H : bytes -> bytes) (hdr : stat -> bytes) A B,
  wf_listing (map fst A) -> wf_listing (map fst B) -> links_ok B ->
  ds_reqs (receive_abs H hdr Fresh DNone A B) = map st_path (filter wants_content (map fst B)).
Proof.
  intros H hdr A B HwA HwB Hl.
  rewrite (reqs_exact_proof H hdr DNone A B HwA HwB Hl); [apply reqs_spec_none|].
  intros sa ba sb bb _ _ _ Hs. discriminate.
Qed.

(* The executable specification that the correspondence run evaluates on the change list of
   the IMPLEMENTATION (Diff.diff_spec_b: set-based, never looks at the loop) is exactly the
   predicate of diff_changes_exact together with "no path twice". *)
Theorem oracle_is_specification : forall flt d A B out,
  sorted A -> sorted B ->
  (diff_spec_b flt d A B out = true <->
   (forall c, In c out <-> spec_change flt d A B c) /\ NoDup (map ch_path out)).
Proof. intros flt d A B out HsA HsB. exact (diff_spec_b_iff flt d A B HsA HsB out). Qed.

(* ... and so is the executable well-formedness test applied to the generated listings. *)
Theorem listing_ok_is_wf : forall L, listing_ok_b L = true <-> wf_listing L.
Proof. exact listing_ok_b_iff. Qed.

Print Assumptions diff_fuel_enough.
Print Assumptions oracle_is_specification.
Print Assumptions listing_ok_is_wf.
Print Assumptions same_file_is_identity.
Print Assumptions diff_changes_exact.
Print Assumptions diff_sorted_nodup.
Print Assumptions resync_noop.
Print Assumptions diff_none_all.
Print Assumptions reqs_exact.
Print Assumptions untouched_keep_inode.
Print Assumptions rewritten_get_new_inode.
Print Assumptions hard_link_joins_inode.
Print Assumptions receive_resync_noop.
Print Assumptions resync_after_transfer_noop.
Print Assumptions resync_after_transfer_noop_filtered.
Print Assumptions diff_none_requests_all.

(* ------------------------------------------------------------------ examples *)
Definition mk (p : bytes) (mode uid gid size mtime : N) (ln : bytes) (dmaj dmin : N) : stat :=
  {| st_path := p; st_mode := mode; st_uid := uid; st_gid := gid; st_size := size; st_mtime := mtime;
     st_linkname := ln; st_devmajor := dmaj; st_devminor := dmin; st_xattrs := [] |}.
Definition pa := [97]. Definition pb := [98]. Definition pc := [99].            (* a b c *)
Definition p_ax := [97; 47; 120]. Definition p_ay := [97; 47; 121].            (* a/x a/y *)
Definition p_by := [98; 47; 121]. Definition p_byz := [98; 47; 121; 47; 122].  (* b/y b/y/z *)
Definition p_a_b := [97; 45; 98].                                             (* a-b *)
Definition dirm := ModeDir + 493.                                             (* d rwxr-xr-x *)
Definition dir (p : bytes) := mk p dirm 0 0 0 7 [] 0 0.
Definition file (p : bytes) (mt : N) := mk p 420 0 0 3 mt [] 0 0.

(* for each of the eight identity fields, a pair differing only there is reported (and the
   file is re-requested); xattrs and — for directories — size and mtime are not identity *)
Definition f0 := mk pa 420 1 2 10 1000 [] 0 0.
Definition modified (a b : stat) : Prop :=
  diff idf DMetadata [a] [b] = [(KModify, st_path b, Some b)] /\
  ds_reqs (receive_abs (fun x : list N => x) (fun _ => []) Fresh DMetadata [(a, [1])] [(b, [2])])
  = (if wants_content b then [st_path b] else []).
Example identity_single_field :
  modified f0 (mk pa 416 1 2 10 1000 [] 0 0)      (* mode (permissions) *)
  /\ modified f0 (mk pa (ModeSymlink + 420) 1 2 10 1000 [] 0 0)   (* mode (type) *)
  /\ modified f0 (mk pa 420 9 2 10 1000 [] 0 0)   (* uid *)
  /\ modified f0 (mk pa 420 1 9 10 1000 [] 0 0)   (* gid *)
  /\ modified f0 (mk pa 420 1 2 11 1000 [] 0 0)   (* size *)
  /\ modified f0 (mk pa 420 1 2 10 1001 [] 0 0)   (* mtime *)
  /\ modified f0 (mk pa 420 1 2 10 1000 [99] 0 0) (* link target *)
  /\ modified f0 (mk pa 420 1 2 10 1000 [] 1 0)   (* device major *)
  /\ modified f0 (mk pa 420 1 2 10 1000 [] 0 1)   (* device minor *)
  /\ diff idf DMetadata [f0] [] = [(KDelete, pa, None)]        (* existence *)
  /\ diff idf DMetadata [] [f0] = [(KAdd, pa, Some f0)].
Proof. vm_compute. repeat split; reflexivity. Qed.

Example non_identity_fields_ignored :
  diff idf DMetadata [dir pa] [mk pa dirm 0 0 4096 99 [] 0 0] = []   (* directory size, mtime *)
  /\ diff idf DMetadata [f0]
       [{| st_path := pa; st_mode := 420; st_uid := 1; st_gid := 2; st_size := 10; st_mtime := 1000;
           st_linkname := []; st_devmajor := 0; st_devminor := 0; st_xattrs := [([117], [1])] |}] = [].
Proof. vm_compute. split; reflexivity. Qed.

(* the F4 witnesses: nothing is reported below an already removed directory, also when a
   second removed directory follows or when the root is a directory replaced by a file *)
Example f4_witnesses :
  diff idf DMetadata [dir pa; file p_ax 1; dir pb; file p_by 1] []
    = [(KDelete, pa, None); (KDelete, pb, None)]
  /\ diff idf DMetadata [dir pa; dir pb; dir p_by] [file pa 1; file pc 1]
    = [(KModify, pa, Some (file pa 1)); (KDelete, pb, None); (KAdd, pc, Some (file pc 1))].
Proof. vm_compute. split; reflexivity. Qed.

(* a concrete non-trivial pair meeting every hypothesis of the theorems above, and what the
   model computes on it *)
Definition exA : list entry :=
  [ (dir pa, []); (file p_ax 1, [1;1;1]); (file p_ay 1, [2;2;2]);     (* a/ is replaced by a file *)
    (file p_a_b 1, [3;3;3]);                                         (* a-b unchanged *)
    (dir pb, []); (dir p_by, []); (file p_byz 1, [4;4;4]);            (* b/ deleted with its subtree *)
    (file pc 1, [5;5;5]) ].                                          (* c: mtime changes *)
Definition exB : list entry :=
  [ (file pa 2, [9;9;9]); (file p_a_b 1, [3;3;3]); (file pc 2, [6;6;6]);
    (mk [100] 420 0 0 3 2 pc 0 0, [6;6;6]) ].                        (* d: new hard link to c *)
Example hypotheses_satisfiable :
  wf_listing (map fst exA) /\ wf_listing (map fst exB) /\ links_ok exB
  /\ identity_faithful DMetadata exA exB.
Proof.
  split; [apply listing_ok_b_iff; vm_compute; reflexivity|].
  split; [apply listing_ok_b_iff; vm_compute; reflexivity|].
  split; [apply links_ok_b_sound; vm_compute; reflexivity|].
  apply identity_faithful_b_sound; vm_compute; reflexivity.
Qed.
(* a hard link announced with other metadata than the file it names (mode 0600, uid 7, mtime 9
   instead of 0644, 0, 2): the new name d shows the metadata of the inode of c — the one c got in
   this transfer — under its own path and link name; only the notification says otherwise *)
Definition exBd : list entry :=
  [ (file pa 2, [9;9;9]); (file p_a_b 1, [3;3;3]); (file pc 2, [6;6;6]);
    (mk [100] 384 7 0 3 9 pc 0 0, [6;6;6]) ].
Example example_resync :
  links_meta exB /\
  let r := receive_abs (fun x : list N => x) (fun _ => []) Fresh DMetadata exA exB in
  map (fun e => st_path (fst e)) (dest_listing exB (ds_map r)) = [pa; p_a_b; pc; [100]]
  /\ ds_notifs (receive_abs (fun x : list N => x) (fun _ => []) Fresh DMetadata (dest_listing exB (ds_map r)) exB) = []
  (* a dishonest hard link never converges: the second synchronisation links it again *)
  /\ map (fun n => snd (fst n))
       (ds_notifs (receive_abs (fun x : list N => x) (fun _ => []) Fresh DMetadata
          (dest_listing exBd (ds_map (receive_abs (fun x : list N => x) (fun _ => []) Fresh DMetadata exA exBd))) exBd))
     = [[100]].
Proof. split; [apply links_meta_b_sound; vm_compute; reflexivity|]. vm_compute. repeat split; reflexivity. Qed.

Example example_transfer :
  let r := receive_abs (fun x : list N => x) (fun _ => []) Fresh DMetadata exA exB in
  ds_err r = false
  /\ ds_reqs r = [pa; pc]
  /\ map (fun c => (ch_kind c, ch_path c)) (ds_changes r)
     = [(KModify, pa); (KDelete, pb); (KModify, pc); (KAdd, [100])]
  /\ alookup p_a_b (ds_map r) = alookup p_a_b (dest_of exA)          (* same inode class 3 *)
  /\ alookup p_ax (ds_map r) = None /\ alookup p_byz (ds_map r) = None
  /\ option_map de_bytes (alookup [100] (ds_map r)) = Some [6;6;6]
  /\ option_map de_ino (alookup [100] (ds_map r)) = option_map de_ino (alookup pc (ds_map r))
  /\ option_map de_ino (alookup pc (dest_of exA)) = Some 7       (* c: old class 7, new class 9 *)
  /\ option_map de_ino (alookup pc (ds_map r)) = Some 9.
Proof. vm_compute. repeat split; reflexivity. Qed.

Example dishonest_link_shows_inode_metadata :
  let r := receive_abs (fun x : list N => x) (fun _ => []) Fresh DMetadata exA exBd in
  links_ok exBd /\ ds_err r = false
  /\ option_map de_stat (alookup [100] (ds_map r)) = Some (mk [100] 420 0 0 3 2 pc 0 0)
  /\ option_map de_ino (alookup [100] (ds_map r)) = option_map de_ino (alookup pc (ds_map r))
  /\ map (fun n => snd (fst n)) (ds_notifs r) = [pa; pb; pc; [100]]
  /\ nth_error (ds_notifs r) 3 = Some (KAdd, [100], Some (mk [100] 384 7 0 3 9 pc 0 0, []))
  /\ ds_reqs r = [pa; pc].
Proof. cbv zeta. split; [apply links_ok_b_sound; vm_compute; reflexivity|]. vm_compute. repeat split; reflexivity. Qed.

(* ---- source equivalence (tools/go2coq; gen/SrcFns.v is regenerated from /repo on every run): the
        Gallina definition translated from diff_containerd.go's compareStat (field accesses mapped to
        Model/Stat.v's record) equals the model compare_stat and never returns an error ---- *)
From FSGen Require SrcFns.
From FS Require Proofs.Src.CompareStatEq.
Theorem compareStat_src_eq :
  forall a b, SrcFns.compareStat a b = (compare_stat a b, None).
Proof. exact CompareStatEq.compareStat_src_eq. Qed.
Print Assumptions compareStat_src_eq.

(* sameFile itself (named results, the iota constants DiffMetadata = 0 / DiffNone = 1 of receive.go, the
   struct currentPath, the method Stat.IsDir of types/stat.go — all read from the source on this run;
   compareFileContent, which reads the files, is a parameter): equal to the model same_file for both
   differs the model covers, whatever compareFileContent does; for any other differ value (DiffContent)
   it is the metadata comparison followed, only when that says "same", by compareFileContent. *)
From FS Require Proofs.Src.SameFileEq Proofs.Src.StatIsDirEq.
Theorem sameFile_src_eq :
  forall cmp f1 f2 d,
    SrcFns.sameFile cmp f1 f2 (match d with DMetadata => BinNums.Z0 | DNone => BinNums.Zpos BinNums.xH end) =
    (same_file d (SrcFns.currentPath_stat f1) (SrcFns.currentPath_stat f2), None).
Proof. exact SameFileEq.sameFile_src_eq. Qed.
Theorem sameFile_content_src_eq :
  forall cmp f1 f2 z, z <> BinNums.Z0 -> z <> BinNums.Zpos BinNums.xH ->
    SrcFns.sameFile cmp f1 f2 z =
    if same_file DMetadata (SrcFns.currentPath_stat f1) (SrcFns.currentPath_stat f2)
    then cmp (SrcFns.currentPath_path f1) (SrcFns.currentPath_path f2)
    else (false, None).
Proof. exact SameFileEq.sameFile_content_src_eq. Qed.
Theorem Stat_IsDir_src_eq : forall s, SrcFns.Stat_IsDir s = st_is_dir s.
Proof. exact StatIsDirEq.Stat_IsDir_src_eq. Qed.
Print Assumptions sameFile_src_eq.
Print Assumptions sameFile_content_src_eq.
Print Assumptions Stat_IsDir_src_eq.
