(* C13 — Copy preserves the tree like cp -a, under every option combination.
   Only the property theorems (closed by [exact]) and their [Print Assumptions]; the model of
   /repo/copy is Model/Copier.v, the relation "the copy is the source" is [tree_iso] /
   [faithful_dent] of Model/CopySpec.v, proofs in Proofs/Copy*P.v (see Properties/C15.v for the
   reading guide of [copy_top], [overlay_all], [wf_src], [wf_fs]).

   [overlay_all] is used here only to NAME what the call does: the landing path of the source
   ([xr_landings]), whether the landing path was an existing directory when the copy proper
   started ([xr_merged]: such a directory is merged into and keeps its own metadata, only its
   type and timestamp are claimed), and the set of paths the call may create ([xr_paths]).
   [faithful_dent o ms sd d]: d has the type of sd (a socket becomes an empty regular file),
   the requested mode or sd's permission + setuid/setgid/sticky bits (symlinks keep theirs),
   the requested owner or sd's, the requested time or sd's nanosecond mtime, sd's device number,
   symlink target verbatim, xattrs and bytes.  [iso_at ... rel]: at the relative path rel the
   source and the destination below the landing path both have nothing, or the destination
   entry is a faithful copy of the source entry.
   The theorems are proved for ONE literal source (no wildcards), link groups included
   ([links_consistent]: the names of one multiply-linked regular file carry one dentry);
   hence the suffix _partial.  See props/C13.json. *)
From Coq Require Import List NArith Bool.
From FS Require Import Sx Model.Path Model.SymMode Model.Copier Model.CopySpec
  Proofs.CopierP Proofs.CopyOpsP Proofs.CopyTopP Proofs.CopyThmP Proofs.CopyFaithP Proofs.CopyEx Proofs.CopyWildP.
Import ListNotations.
Open Scope N_scope.
Open Scope bool_scope.

(* For every well-formed source (link groups included) and empty destination:
   tree_iso o ms merged sn L (result) = at every relative path the destination entry is a
   faithful copy of the source entry or both have nothing, AND two copied regular files share
   an inode iff their sources do.  (_partial: one literal source; wildcards are C15's.)
   [landing_clear]: the directories MkdirAll makes for the dst argument do not lie below the
   landing path unless the source has them too.  (It was violated by dst = "a/x/.." before
   ensureDstPath learnt to ignore a final ".." - finding dst-dotdot-extra-directory, repaired,
   see ex_dotdot_repaired; it is kept as a hypothesis because it is not derived from dst here.) *)
Theorem copy_into_empty_faithful_partial :
  forall o sroot, wf_src sroot -> links_consistent sroot ->
  forall fs src dst r ms sn L m,
    o_wild o = false -> empty_dst fs ->
    overlay_all o sroot (view_of_fs fs) src dst = inl r ->
    parse_of o = Some ms -> s_resolve sroot (rooted src) = inl sn ->
    xr_landings r = [L] -> xr_merged r = [m] -> landing_clear r sn L ->
    exists st', copy_top o sel_all sroot fs src dst = (st', None) /\
                tree_iso o ms m sn L (view_of_fs (c_fs st')).
Proof. exact copy_into_empty_faithful_proof. Qed.

(* On ANY destination: every copied entry (the landing directory itself excepted when it is
   merged into) carries the requested owner, the requested octal or symbolic mode (symlinks
   excepted), the requested time and the source's type; every directory the call made above the
   target carries the requested owner and time (after fixCreatedParentDirs). *)
Theorem copy_options_applied_partial :
  forall o sroot, wf_src sroot -> links_consistent sroot ->
  forall fs src dst r ms sn L m,
    o_wild o = false -> wf_fs fs ->
    overlay_all o sroot (view_of_fs fs) src dst = inl r ->
    parse_of o = Some ms -> s_resolve sroot (rooted src) = inl sn ->
    xr_landings r = [L] -> xr_merged r = [m] ->
    exists st', copy_top o sel_all sroot fs src dst = (st', None) /\
      (forall rel s, s_lookup sn rel = Some s -> (rel = [] -> m = false) ->
         exists i d, view_of_fs (c_fs st') (L ++ rel) = Some (i, d) /\
           d_uid d = fst (info_owner o (sdent s)) /\ d_gid d = snd (info_owner o (sdent s)) /\
           (is_lnk (sdent s) = false -> perm12 d = info_mode o ms (sdent s)) /\
           d_mtime d = info_time o (sdent s) /\ ftype d = copy_type (sdent s)) /\
      (forall p e, xr_view r p = Some e -> x_mk e = true ->
         exists i d, view_of_fs (c_fs st') p = Some (i, d) /\
           (forall u g, o_chown o = Some (u, g) -> d_uid d = u /\ d_gid d = g) /\
           (forall t, o_utime o = Some t -> d_mtime d = t)).
Proof. exact copy_options_applied_partial_proof. Qed.

(* The change notifier: the notifications for non-directories are, in order, exactly the
   destination paths of the non-directories of the source ([nd_paths]: one entry per source
   non-directory), and a directory is only ever notified with the path of a source directory. *)
Theorem notifier_exact_partial :
  forall o sroot, wf_src sroot -> links_consistent sroot ->
  forall fs src dst r ms sn L,
    o_wild o = false -> wf_fs fs ->
    overlay_all o sroot (view_of_fs fs) src dst = inl r ->
    parse_of o = Some ms -> s_resolve sroot (rooted src) = inl sn -> xr_landings r = [L] ->
    exists st', copy_top o sel_all sroot fs src dst = (st', None) /\
      map fst (filter (fun pb => negb (snd pb)) (rev (c_notifs st'))) = nd_paths L sn /\
      (forall q, In q (nd_paths L sn) <->
                 exists rel s, q = L ++ rel /\ s_lookup sn rel = Some s /\ is_dir (sdent s) = false) /\
      (forall q, In (q, true) (rev (c_notifs st')) ->
                 exists rel s, q = L ++ rel /\ s_lookup sn rel = Some s /\ is_dir (sdent s) = true).
Proof. exact notifier_exact_partial_proof. Qed.

(* ---- several sources (AllowWildcards): the i-th match ----
   [srcs] are the matches of the pattern in copy order ([resolve_wild]; one literal source is the
   case srcs = [src], i = 0), [xr_landings r] / [xr_merged r] their landing paths / merged flags.
   [apart L Lj]: neither landing path is a prefix of the other - the i-th match is not copied
   over, into or under by another match (with colliding landings a later match merges into or
   replaces an earlier one: that is the overlay, Properties/C15.v).
   Then below its landing path the destination IS the i-th source tree, entry by entry
   ([iso_at] for every relative path) - link groups and wildcards together included -, and with
   the source's inode partition ([tree_iso]) whenever the exact partition is available (no link
   groups, or a literal source; for wildcards with link groups the partition can split, known
   finding hardlink-group-split-after-overwrite, Properties/C15.v). *)
Theorem copy_into_empty_faithful_wild_partial :
  forall o sroot, wf_src sroot -> links_consistent sroot ->
  forall fs src dst r ms srcs i s sn L m,
    empty_dst fs -> overlay_all o sroot (view_of_fs fs) src dst = inl r -> parse_of o = Some ms ->
    (if o_wild o then resolve_wild sroot src else inl [src]) = inl srcs ->
    nth_error srcs i = Some s -> s_resolve sroot (rooted s) = inl sn ->
    nth_error (xr_landings r) i = Some L -> nth_error (xr_merged r) i = Some m ->
    (forall j Lj, j <> i -> nth_error (xr_landings r) j = Some Lj -> apart L Lj) ->
    landing_clear r sn L ->
    exists st', copy_top o sel_all sroot fs src dst = (st', None) /\
      (forall rel, iso_at o ms m sn L (view_of_fs (c_fs st')) rel = true) /\
      (no_link_groups sroot \/ o_wild o = false -> tree_iso o ms m sn L (view_of_fs (c_fs st'))).
Proof. exact copy_into_empty_faithful_wild_proof. Qed.

(* options on the entries of the i-th match, on ANY destination *)
Theorem copy_options_applied_wild_partial :
  forall o sroot, wf_src sroot -> links_consistent sroot ->
  forall fs src dst r ms srcs i s sn L m,
    wf_fs fs -> overlay_all o sroot (view_of_fs fs) src dst = inl r -> parse_of o = Some ms ->
    (if o_wild o then resolve_wild sroot src else inl [src]) = inl srcs ->
    nth_error srcs i = Some s -> s_resolve sroot (rooted s) = inl sn ->
    nth_error (xr_landings r) i = Some L -> nth_error (xr_merged r) i = Some m ->
    (forall j Lj, j <> i -> nth_error (xr_landings r) j = Some Lj -> apart L Lj) ->
    exists st', copy_top o sel_all sroot fs src dst = (st', None) /\
      (forall rel s1, s_lookup sn rel = Some s1 -> (rel = [] -> m = false) ->
         exists i1 d, view_of_fs (c_fs st') (L ++ rel) = Some (i1, d) /\
           d_uid d = fst (info_owner o (sdent s1)) /\ d_gid d = snd (info_owner o (sdent s1)) /\
           (is_lnk (sdent s1) = false -> perm12 d = info_mode o ms (sdent s1)) /\
           d_mtime d = info_time o (sdent s1) /\ ftype d = copy_type (sdent s1)) /\
      (forall p e, xr_view r p = Some e -> x_mk e = true ->
         exists i1 d, view_of_fs (c_fs st') p = Some (i1, d) /\
           (forall u g, o_chown o = Some (u, g) -> d_uid d = u /\ d_gid d = g) /\
           (forall t, o_utime o = Some t -> d_mtime d = t)).
Proof. exact copy_options_applied_wild_proof. Qed.

(* the notifier for several sources (no condition on the landing paths): the notifications for
   non-directories are, match by match and in order, the destination paths of the source
   non-directories ([nd_paths_all]: nd_paths of the 1st match at its landing path, then of the 2nd ...),
   and a directory is only ever notified with the destination path of a source directory of some match *)
Theorem notifier_exact_wild :
  forall o sroot, wf_src sroot -> links_consistent sroot ->
  forall fs src dst r srcs sns,
    wf_fs fs -> overlay_all o sroot (view_of_fs fs) src dst = inl r ->
    (if o_wild o then resolve_wild sroot src else inl [src]) = inl srcs ->
    Forall2 (fun s sn => s_resolve sroot (rooted s) = inl sn) srcs sns ->
    exists st', copy_top o sel_all sroot fs src dst = (st', None) /\
      length (xr_landings r) = length srcs /\
      map fst (filter (fun pb => negb (snd pb)) (rev (c_notifs st'))) = nd_paths_all (xr_landings r) sns /\
      (forall q, In (q, true) (rev (c_notifs st')) ->
         exists j Lj snj rel s1, nth_error (xr_landings r) j = Some Lj /\ nth_error sns j = Some snj /\
           q = Lj ++ rel /\ s_lookup snj rel = Some s1 /\ is_dir (sdent s1) = true).
Proof. exact notifier_exact_wild_proof. Qed.

(* landing_clear discharged (one literal source): the directories made for the copy proper and the
   source's own paths never violate it; what remains is ensureDstPath, and for that it is enough
   that the resolved ensure path of dst ([ensure_arg]: dst without its last component, or dst itself
   when that is empty, "." or "..") is a prefix of the landing path - e.g. every dst for which
   ensure_arg dst = [] ("n", ""), dst = "/", "a/b/", "a/b".  (It fails exactly for a dst whose
   cleaned form is shorter than its ensure path, like "a/x/..": see ex_dotdot_repaired.) *)
Theorem landing_clear_of_ensure_prefix :
  forall o sroot, wf_src sroot ->
  forall V0 src dst r sn L,
    o_wild o = false -> x_isdir (xview_of V0 []) = true -> overlay_all o sroot V0 src dst = inl r ->
    s_resolve sroot (rooted src) = inl sn -> xr_landings r = [L] ->
    (ensure_arg dst <> [] -> forall ep, spec_resolve (xview_of V0) (ensure_arg dst) = inl ep -> exists t, L = ep ++ t) ->
    landing_clear r sn L.
Proof. exact landing_clear_of_prefix. Qed.

(* ... and the cp -a theorem with that hypothesis instead of landing_clear *)
Theorem copy_into_empty_faithful_ensure_partial :
  forall o sroot, wf_src sroot -> links_consistent sroot ->
  forall fs src dst r ms sn L m,
    o_wild o = false -> empty_dst fs ->
    overlay_all o sroot (view_of_fs fs) src dst = inl r ->
    parse_of o = Some ms -> s_resolve sroot (rooted src) = inl sn ->
    xr_landings r = [L] -> xr_merged r = [m] ->
    (ensure_arg dst <> [] -> forall ep, spec_resolve (xview_of (view_of_fs fs)) (ensure_arg dst) = inl ep -> exists t, L = ep ++ t) ->
    exists st', copy_top o sel_all sroot fs src dst = (st', None) /\
                tree_iso o ms m sn L (view_of_fs (c_fs st')).
Proof. exact copy_into_empty_faithful_ensure_proof. Qed.

Print Assumptions copy_into_empty_faithful_partial.
Print Assumptions copy_into_empty_faithful_wild_partial.
Print Assumptions copy_options_applied_wild_partial.
Print Assumptions notifier_exact_wild.
Print Assumptions landing_clear_of_ensure_prefix.
Print Assumptions copy_into_empty_faithful_ensure_partial.
Print Assumptions copy_options_applied_partial.
Print Assumptions notifier_exact_partial.

(* ---- non-vacuity ---- *)
Example ex_hypotheses :
  wf_src ex_src /\ links_consistent ex_src /\ empty_dst fs_empty /\ wf_src ex_src_links /\ links_consistent ex_src_links.
Proof.
  exact (conj (proj1 ex_src_wf) (conj (links_consistent_nolinks _ (proj2 ex_src_wf))
        (conj (conj fs_empty_wf fs_empty_empty) ex_src_links_wf))).
Qed.

Definition ex_rels : list (list (list N)) :=
  [ []; [n_d]; [n_d; n_f]; [n_d; n_l]; [n_p]; [n_x]; [n_d; n_x]; [n_f] ].

(* the whole source into the empty destination: lands on the root (merged: the root keeps its
   metadata), everything below is a faithful copy: setgid directory with owner 7:8 and an
   xattr, 0640 file with ns mtime, symlink, fifo *)
Example ex_whole_tree :
  match overlay_all o_plain ex_src (view_of_fs fs_empty) [] s_slash,
        copy_top o_plain sel_all ex_src fs_empty [] s_slash with
  | inl r, (st', None) =>
      (match xr_landings r, xr_merged r with
       | [L], [m] => path_eqb L [] && m && tree_iso_b o_plain None m ex_src L (view_of_fs (c_fs st')) ex_rels
       | _, _ => false end) &&
      (match lstat (c_fs st') [n_d], lstat (c_fs st') [n_d; n_f], lstat (c_fs st') [n_d; n_l], lstat (c_fs st') [n_p] with
       | Some d, Some f, Some l, Some p =>
           N.eqb (d_mode d) (S_IFDIR + 1517) && N.eqb (d_uid d) 7 && N.eqb (d_gid d) 8 && N.eqb (d_mtime d) 1000 &&
           N.eqb (d_mode f) (S_IFREG + 416) && N.eqb (d_mtime f) 5000000001 && bytes_eqb (d_content f) [104; 105] &&
           N.eqb (d_mode l) (S_IFLNK + 511) && bytes_eqb (d_target l) n_f && N.eqb (d_mode p) (S_IFIFO + 420)
       | _, _, _, _ => false end) &&
      (match rev (c_notifs st') with
       | [(q1, true); (q2, false); (q3, false); (q4, false)] =>
           path_eqb q1 [n_d] && path_eqb q2 [n_d; n_f] && path_eqb q3 [n_d; n_l] && path_eqb q4 [n_p]
       | _ => false end)
  | _, _ => false
  end = true.
Proof. vm_compute. reflexivity. Qed.

(* sub-directory d to the not yet existing x/y with chown 100:200, mode 0700, utime 42:
   MkdirAll makes x (owner and time as requested), the copy lands at x/y, every entry has the
   requested owner, mode (the symlink keeps 0777) and time *)
Example ex_options :
  match overlay_all o_all ex_src (view_of_fs fs_empty) n_d [120; 47; 121],
        copy_top o_all sel_all ex_src fs_empty n_d [120; 47; 121] with
  | inl r, (st', None) =>
      (match xr_landings r, xr_merged r, s_lookup ex_src [n_d] with
       | [L], [m], Some sn => path_eqb L [n_x; n_y] && negb m &&
                              tree_iso_b o_all None m sn L (view_of_fs (c_fs st')) [ []; [n_f]; [n_l]; [n_x] ]
       | _, _, _ => false end) &&
      (match lstat (c_fs st') [n_x], lstat (c_fs st') [n_x; n_y], lstat (c_fs st') [n_x; n_y; n_f], lstat (c_fs st') [n_x; n_y; n_l] with
       | Some x, Some y, Some f, Some l =>
           N.eqb (d_uid x) 100 && N.eqb (d_gid x) 200 && N.eqb (d_mtime x) 42 &&
           N.eqb (d_mode y) (S_IFDIR + 448) && N.eqb (d_uid y) 100 && N.eqb (d_mtime y) 42 &&
           N.eqb (d_mode f) (S_IFREG + 448) && N.eqb (d_gid f) 200 && N.eqb (d_mtime f) 42 &&
           N.eqb (d_mode l) (S_IFLNK + 511) && N.eqb (d_uid l) 100 && N.eqb (d_mtime l) 42
       | _, _, _, _ => false end)
  | _, _ => false
  end = true.
Proof. vm_compute. reflexivity. Qed.

(* the former finding dst-dotdot-extra-directory, repaired: dst = "a/x/.." with dir-contents
   copies the contents of d into a and no longer creates a/x (ensureDstPath ignores a final "..") *)
Example ex_dotdot_repaired :
  match copy_top o_dc sel_all ex_src fs_empty n_d [97; 47; 120; 47; 46; 46] with
  | (st', None) =>
      (match lstat (c_fs st') [n_a; n_f], lstat (c_fs st') [n_a; n_x] with
       | Some f, None => is_reg f | _, _ => false end)
  | _ => false
  end = true.
Proof. vm_compute. reflexivity. Qed.

(* link groups: d/f, d/g and h are three names of one source inode; into the empty destination
   the three copies share one inode, d/x has its own: tree_iso_b including the partition *)
Example ex_link_group :
  match overlay_all o_plain ex_src_links (view_of_fs fs_empty) [] s_slash,
        copy_top o_plain sel_all ex_src_links fs_empty [] s_slash with
  | inl r, (st', None) =>
      (match xr_landings r, xr_merged r with
       | [L], [m] => tree_iso_b o_plain None m ex_src_links L (view_of_fs (c_fs st'))
                       [ []; [n_d]; [n_d; n_f]; [n_d; n_g]; [n_d; n_x]; [n_h]; [n_x] ]
       | _, _ => false end) &&
      (match names (c_fs st') [n_d; n_f], names (c_fs st') [n_d; n_g], names (c_fs st') [n_h], names (c_fs st') [n_d; n_x] with
       | Some a, Some b, Some c, Some d => N.eqb a b && N.eqb b c && negb (N.eqb a d)
       | _, _, _, _ => false end)
  | _, _ => false
  end = true.
Proof. vm_compute. reflexivity. Qed.

(* wildcard "*" over the source with a link group into the not yet existing n/: two matches
   (d and h) land apart at n/d and n/h; each is its source tree entry by entry; the notifier
   reports d/f d/g d/x h in this order *)
Example ex_wild_matches :
  match overlay_all o_wild_on ex_src_links (view_of_fs fs_empty) [42] [110; 47],
        copy_top o_wild_on sel_all ex_src_links fs_empty [42] [110; 47],
        resolve_wild ex_src_links [42] with
  | inl r, (st', None), inl [s1; s2] =>
      (match xr_landings r, xr_merged r, s_resolve ex_src_links (rooted s1), s_resolve ex_src_links (rooted s2) with
       | [L1; L2], [m1; m2], inl sn1, inl sn2 =>
           apart_b L1 L2 && path_eqb L1 [[110]; n_d] && path_eqb L2 [[110]; n_h] &&
           forallb (iso_at o_wild_on None m1 sn1 L1 (view_of_fs (c_fs st'))) [ []; [n_f]; [n_g]; [n_x]; [n_h]; [n_d] ] &&
           forallb (iso_at o_wild_on None m2 sn2 L2 (view_of_fs (c_fs st'))) [ []; [n_f]; [n_x] ] &&
           (match map fst (filter (fun pb => negb (snd pb)) (rev (c_notifs st'))), nd_paths_all [L1; L2] [sn1; sn2] with
            | [q1; q2; q3; q4], [q1'; q2'; q3'; q4'] =>
                path_eqb q1 [[110]; n_d; n_f] && path_eqb q2 [[110]; n_d; n_g] && path_eqb q3 [[110]; n_d; n_x] &&
                path_eqb q4 [[110]; n_h] && path_eqb q1 q1' && path_eqb q2 q2' && path_eqb q3 q3' && path_eqb q4 q4'
            | _, _ => false end)
       | _, _, _, _ => false end)
  | _, _, _ => false
  end = true.
Proof. vm_compute. reflexivity. Qed.

(* ... and without link groups with the inode partition: "*" over ex_src into "/" *)
Example ex_wild_partition :
  match overlay_all o_wild_on ex_src (view_of_fs fs_empty) [42] s_slash,
        copy_top o_wild_on sel_all ex_src fs_empty [42] s_slash,
        resolve_wild ex_src [42] with
  | inl r, (st', None), inl [s1; s2] =>
      (match xr_landings r, xr_merged r, s_resolve ex_src (rooted s1), s_resolve ex_src (rooted s2) with
       | [L1; L2], [m1; m2], inl sn1, inl sn2 =>
           apart_b L1 L2 &&
           tree_iso_b o_wild_on None m1 sn1 L1 (view_of_fs (c_fs st')) [ []; [n_f]; [n_l]; [n_x] ] &&
           tree_iso_b o_wild_on None m2 sn2 L2 (view_of_fs (c_fs st')) [ []; [n_f] ]
       | _, _, _, _ => false end)
  | _, _, _ => false
  end = true.
Proof. vm_compute. reflexivity. Qed.

(* the hypothesis of landing_clear_of_ensure_prefix on the case of ex_options (dst "x/y": the ensure
   path resolves to x, the copy lands at x/y) and on dst "/" (ensure path = the root) *)
Example ex_ensure_prefix :
  match overlay_all o_all ex_src (view_of_fs fs_empty) n_d [120; 47; 121],
        spec_resolve (xview_of (view_of_fs fs_empty)) (ensure_arg [120; 47; 121]),
        overlay_all o_plain ex_src (view_of_fs fs_empty) [] s_slash,
        spec_resolve (xview_of (view_of_fs fs_empty)) (ensure_arg s_slash) with
  | inl r, inl ep, inl r', inl ep' =>
      (match xr_landings r, xr_landings r' with
       | [L], [L'] => is_prefix ep L && path_eqb ep [n_x] && path_eqb L [n_x; n_y] && is_prefix ep' L'
       | _, _ => false end)
  | _, _, _, _ => false
  end = true.
Proof. vm_compute. reflexivity. Qed.

