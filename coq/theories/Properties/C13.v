From FS Require Import Sx.
